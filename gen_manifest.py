#!/usr/bin/env python3
"""Regenerates MANIFEST.json from the per-property table below (kept in one place)."""
import json, os
ROOT = os.path.dirname(os.path.abspath(__file__))
BASELINE_OFF = ("cd /repo && (cargo nextest run --workspace --no-fail-fast --test-threads 8 --offline "
                "|| cargo test --workspace --no-fail-fast --offline)")
CLAIMED = {
 "C14": {
  "text": "Lean 4 theorems on the model of resolve/get/contains/try_get/specifiers/resolve_dependency: resolve reaches the end of every terminating redirect chain the cap admits (induction over the chain, any graph), lookups then equal what the walk's own redirect-following reaches, resolve is idempotent there, specifiers() lists slots and one-hop sources, type-preferring resolution returns the loaded types module; the parts of the statement that are false of the code are proved false by counterexample (10-hop chain, redirect cycle, 2-hop listing) and tracked as known findings. The model is tied to /repo by regenerating the cap/limit tables from source and by differential execution (all 7776 redirect tables over 5 specifiers + generated worlds with forced chains 0-13 and cycles 1-6).",
  "note": "Hand-written model of ~120 lines of graph.rs validated by correspondence; the walk side of the agreement uses the walk's per-specifier behaviour (visit/expandPrev lemmas), the full walk characterisation is C15's theorem. Graphs come from real builds through a scripted loader.",
  "technique": "Lean 4 proof (induction over redirect chains) + exhaustive/generative model-vs-implementation correspondence",
  "design_ref": "4 C14",
 },
 "C15": {
  "text": "Lean 4 theorems, full statement: for every graph, option set, client skip predicate and duplicate-free root list the walk model (the ModuleEntryIterator state machine) terminates within its fuel, yields (x,e) iff x is in the inductively specified enqueued set Enq and e is the entry the statement assigns to x (walk_eq_visits, both directions by a worklist invariant), yields no specifier twice (walk_nodup), is insensitive to root order, and the error listing is exactly the errors attached to visited entries; clause lemmas spell out types-only replacement, redirect transparency, dynamic/type edge selection, skip and fast-check preference. Tied to /repo by regenerated tables (is_checkable, include_types) and by differential execution on built graphs x all walk options x root subsets x skip sets; an independent set-based BFS oracle checks the implementation against the statement.",
  "note": "Model of ModuleEntryIterator::next (~70 lines of Rust) hand-written, validated by correspondence; fast-check dependency lists are inputs (graphs with fast-check modules are exercised from C12's packages). Duplicate roots passed by a caller are outside the theorem (hypothesis roots.Nodup) and outside the property's 'root subsets'.",
  "technique": "Lean 4 proof (worklist invariant, soundness+completeness vs inductive reachability spec, termination measure) + model-vs-implementation correspondence",
  "design_ref": "4 C15",
 },
 "C02": {
  "text": "Lean 4 theorems: validate() = None iff no visited entry is a Failure, where Failure is the statement's predicate spelled out (error entry; failed resolution on a selected side; https->http; remote module importing a literal file: URL; missing target in place when following dynamic imports) - validate_ok_iff, built on C15's exact characterisation of what is visited; the reported error belongs to a reachable failure; type-only failures and unfollowed dynamic edges provably never matter for code validation; 'a reachable failure is never skipped' is proved for missing targets of followed dependencies and refuted for missing roots by a kernel-checked counterexample (finding F5). Tied to /repo by correspondence of errors()/validate()/valid() over built graphs x options x root subsets and an independent per-edge policy oracle.",
  "note": "Error texts and ranges are opaque interned ids (compared exactly between model and implementation); check_resolution's scheme policy is modelled on four scheme classes.",
  "technique": "Lean 4 proof (decision logic stated outright over the C15 reachability theorem) + model-vs-implementation correspondence",
  "design_ref": "4 C02",
 },
}
NOT_APPLICABLE = {}
ALL = [f"C{i:02d}" for i in range(1, 21)]
PENDING_REASON = "check under construction in this round: the Lean model and correspondence for this property are not committed yet (see DESIGN.md section 7 for the order of construction)"

def main():
    checks = []
    for pid in ALL:
        if pid in CLAIMED:
            c = CLAIMED[pid]
            checks.append({
                "property_id": pid,
                "quick_cmd": f"./check {pid} --tier quick",
                "thorough_cmd": f"./check {pid} --tier thorough",
                "evidence_file": f"/verif/evidence/{pid}.json",
                "replay_cmd_template": f"./check {pid} --replay {{path}}",
                "engine": "lean4-proof+correspondence",
                "level_claimed": {"category": "proof", "text": c["text"], "design_ref": c["design_ref"]},
                "level_note": c["note"],
                "technique": c["technique"],
            })
    na = [{"property_id": p, "reason": NOT_APPLICABLE.get(p, PENDING_REASON)} for p in ALL if p not in CLAIMED]
    m = {
        "version": 1,
        "setup_cmd": "./setup.sh",
        "hooks": {
            "guard": "--cfg denoland_deno_graph_verif",
            "enable": "RUSTFLAGS='--cfg denoland_deno_graph_verif' (set in /verif/harness/.cargo/config.toml; the harness crate has a path dependency on /repo)",
            "baseline_off_cmd": BASELINE_OFF,
            "source_commits": json.load(open(os.path.join(ROOT, "hooks.json")))["source_commits"],
            "add_only": True,
        },
        "engines": [{
            "name": "lean4-proof+correspondence",
            "path": "/verif/check",
            "serves_properties": sorted(CLAIMED.keys()),
            "kind_free_text": "Lean 4 model + theorems (lean/), table translator and Rust correspondence/oracle harness (harness/), driver ./check",
        }],
        "checks": checks,
        "not_applicable": na,
        "notes": "Every check: regenerates lean/DG/Tables.lean from /repo, lake-builds the property's theorem module and audits its axioms, rebuilds the harness against /repo's working tree with hooks on, runs model-vs-implementation correspondence and the implementation-side property oracle, writes evidence/<id>.json. Known findings: known_findings.json.",
    }
    json.dump(m, open(os.path.join(ROOT, "MANIFEST.json"), "w"), indent=1)

if __name__ == "__main__":
    main()
