#!/usr/bin/env python3
"""Regenerates MANIFEST.json from the per-property table below (kept in one place)."""
import json, os
ROOT = os.path.dirname(os.path.abspath(__file__))
BASELINE_OFF = ("cd /repo && (cargo nextest run --workspace --no-fail-fast --test-threads 8 --offline "
                "|| cargo test --workspace --no-fail-fast --offline)")
CLAIMED = {
 "C14": {
  "text": "Lean 4 theorems on the model of resolve/get/contains/try_get/specifiers/resolve_dependency: resolve reaches the end of every terminating redirect chain the cap admits (induction over the chain, any graph), lookups then equal what the walk's own redirect-following reaches, resolve is idempotent there, specifiers() lists slots and one-hop sources, type-preferring resolution returns the loaded types module; the parts of the statement that are false of the code are proved false by counterexample (10-hop chain, redirect cycle, 2-hop listing) and tracked as known findings. The model is tied to /repo by regenerating the cap/limit tables from source and by differential execution (all 7776 redirect tables over 5 specifiers + generated worlds with forced chains 0-13 and cycles 1-6).",
  "note": "Hand-written model of ~120 lines of graph.rs validated by correspondence; the walk side of the agreement uses the walk's per-specifier behaviour (visit/expandPrev lemmas), the full walk characterisation is C15's theorem. Graphs come from real builds through a scripted loader.",
  "technique": "Lean 4 proof (induction over redirect chains) + exhaustive/generative model-vs-implementation correspondence",
  "design_ref": "4 C14",
 },
 "C15": {
  "text": "Lean 4 theorems, full statement: for every graph, option set, client skip predicate and duplicate-free root list the walk model (the ModuleEntryIterator state machine) terminates within its fuel, yields (x,e) iff x is in the inductively specified enqueued set Enq and e is the entry the statement assigns to x (walk_eq_visits, both directions by a worklist invariant), yields no specifier twice (walk_nodup), is insensitive to root order, and the error listing is exactly the errors attached to visited entries; clause lemmas spell out types-only replacement, redirect transparency, dynamic/type edge selection, skip and fast-check preference. Tied to /repo by regenerated tables (is_checkable, include_types) and by differential execution on built graphs x all walk options x root subsets x skip sets; an independent set-based BFS oracle checks the implementation against the statement.",
  "note": "Model of ModuleEntryIterator::next (~70 lines of Rust) hand-written, validated by correspondence; fast-check dependency lists are inputs (graphs with fast-check modules are exercised from C12's packages). Duplicate roots passed by a caller are outside the theorem (hypothesis roots.Nodup) and outside the property's 'root subsets'.",
  "technique": "Lean 4 proof (worklist invariant, soundness+completeness vs inductive reachability spec, termination measure) + model-vs-implementation correspondence",
  "design_ref": "4 C15",
 },
 "C02": {
  "text": "Lean 4 theorems: validate() = None iff no visited entry is a Failure, where Failure is the statement's predicate spelled out (error entry; failed resolution on a selected side; https->http; remote module importing a literal file: URL; missing target in place when following dynamic imports) - validate_ok_iff, built on C15's exact characterisation of what is visited; the reported error belongs to a reachable failure; type-only failures and unfollowed dynamic edges provably never matter for code validation; 'a reachable failure is never skipped' is proved for missing targets of followed dependencies and refuted for missing roots by a kernel-checked counterexample (finding F5). Tied to /repo by correspondence of errors()/validate()/valid() over built graphs x options x root subsets and an independent per-edge policy oracle.",
  "note": "Error texts and ranges are opaque interned ids (compared exactly between model and implementation); check_resolution's scheme policy is modelled on four scheme classes.",
  "technique": "Lean 4 proof (decision logic stated outright over the C15 reachability theorem) + model-vs-implementation correspondence",
  "design_ref": "4 C02",
 },
 "C06": {
  "text": "Lean 4 theorems for arbitrary version lists (the code iterates a HashMap): the selection fold returns the greatest candidate (resolveVersion_is_max / none_iff / hadHigher_iff, by a fold invariant), is invariant under permutation of the registry map, and the four tiers are characterised exactly: highest already-selected version with the registry's yanked flag; else highest cached unyanked date-ok (when any manifest is cached); else highest unyanked date-ok; else highest yanked date-ok flagged yanked; else not-found reporting the cutoff iff some registry version satisfies the requirement; excluded packages ignore the date; jsr_unification_decides is true exactly when tier 1 answers. Tied to /repo by differential execution of JsrVersionResolver::get_for_package(..).resolve_version(..) over an enumerated domain (registries of <=3 of 5 versions x yanked x date class x 9 requirements x selected x cached x cutoff) with VersionReq::matches tabulated from deno_semver, plus a brute-force oracle.",
  "note": "deno_semver's order and matching are tabulated per run and trusted; version tags are rejected by deno_semver's RangeSetOrTag constructor (graph-level check with the registry worlds of C07). Graph-level bookkeeping (mappings, used_yanked_packages) is exercised with C07.",
  "technique": "Lean 4 proof (fold invariant, max characterisation, permutation invariance) + enumerated model-vs-implementation correspondence",
  "design_ref": "4 C06",
 },
 "C20": {
  "text": "Lean 4 theorems over all byte strings and charsets: try_get_original_bytes returns nothing or exactly the loader's bytes (original_bytes_faithful, also end to end through charset choice, for any behaviour of the non-modelled decoders), 'unchanged' under UTF-8 means text = input and input valid UTF-8, 'only BOM' means input = EF BB BF ++ text, a BOM is stripped exactly once on both paths, size is the text's byte length, unknown labels are errors and UTF-8/UTF-16 never are, header > BOM sniffing (file: only) > UTF-8. The WHATWG UTF-8 and UTF-16LE/BE decoders are modelled byte by byte and tied to /repo by exhaustive differential execution through real one-module builds (all 1885 byte strings of length <=3 over a 12-byte alphabet covering every decoder state, x 7 charset headers x 2 schemes x JSON/JS) plus generated inputs; an independent std-based oracle checks the decoded text.",
  "note": "encoding_rs for labels other than UTF-8/UTF-16 is a parameter (its answer is fed to the model); the pointer-level validity of the Arc<str>/Arc<[u8]> transmute is a memory-model fact outside any functional model - the theorem gives its functional precondition.",
  "technique": "Lean 4 proof (case analysis over the decoding pipeline for all inputs) + exhaustive small-domain model-vs-implementation correspondence",
  "design_ref": "4 C20",
 },
 "C01": {
  "text": "Lean 4 model of the graph builder as a state machine (load_with_redirect_count, try_load, check_specifier/add_redirect, visit, visit_module, visit_module_dependencies, the deferred/dynamic-branch drain order) tied to /repo by exact differential execution: on every generated world the model and the real build agree on every slot (kind, media type, dependency list with resolutions and dynamic flag, error kind and referrer), every redirect and the exact sequence of loader calls. Proved for every world/state: recorded dependencies are the analysed ones pruned by graph kind, in order (visitDeps_records_source); every loader redirect is recorded, first answer wins; slot keys stay unique (single entry); the media-type/attribute/root/dynamic dispatch is stated outright. The closure clause (nothing unreachable present, nothing reachable absent) is decided on every run by the correspondence plus an independent closure oracle over the world using the public per-module analysis.",
  "note": "Scope of the model: URL / node: / npm:-without-resolver specifiers; jsr registry paths are covered with C07/C13. Per-module analysis (swc + fill_module_dependencies) is an input of the model obtained from the public parse_module; its own correctness is C08. The closure statement is not yet a Lean theorem (partial): it is checked by correspondence + oracle. Worlds violating the same-type-attribute proviso and inconsistent loaders are used for correspondence only.",
  "technique": "Lean 4 executable builder model with exact correspondence (slots, redirects, loader-call sequence) + Lean proofs of per-step properties + independent closure oracle",
  "design_ref": "4 C01",
 },
 "C03": {
  "text": "Lean 4 theorem for every world (arbitrary loader answers: errors, missing, redirect chains/loops/self-redirects, external markers, undecodable/unparsable content) and every option set: a build that finishes has no pending slot (no_pending_after_build), via the invariant 'every pending slot has a queued request' preserved by every step (load, try_load outcome handling, check_specifier, visit_module, the deferred and dynamic-branch drains); each fault kind provably becomes an error entry at the affected specifier carrying the request's referrer. Tied to /repo by exact correspondence on an exhaustive fault enumeration (9 response kinds on every combination of 3-4 entries of two base worlds, 7290 builds) plus fault-heavy generated worlds; implementation-side oracle: termination (loader-call budget + watchdog), no panic, no pending entry, no INTERNAL ERROR in the JSON, error entry per fault, locality against the fault-free build.",
  "note": "Termination is not a theorem (the model takes fuel; redirect loops are bounded by the loader's limit only operationally): it is checked by budget/watchdog on every build. JSR metadata/registry faults and npm resolution failures are exercised with the registry worlds of C07. Panics inside swc/wasm parsers are observed, not modelled.",
  "technique": "Lean 4 proof (invariant by induction over builder steps, all fault assignments) + exhaustive fault enumeration with model-vs-implementation correspondence",
  "design_ref": "4 C03",
 },
 "C04": {
  "text": "Lean 4 theorems on a scheduled refinement of the builder model (any list of load-completion and poll events, nothing assumed about it): completion events never change the builder state, a poll either stutters or performs exactly the next loop iteration (sched_refines), any two schedules that finish the build reach the same state - graph, redirects, loader-call log, lockfile writes (sched_irrelevant) - and that state is the schedule-free runLoop result (sched_eq_runLoop); fuel irrelevance of runLoop. After the fix of F2 (HashMap -> IndexMap) the model has no hash-order parameter. Tied to /repo by a loader whose futures complete only when the harness releases them: the real build future is polled by hand, all completion orders are enumerated per world (capped), plus random schedules with spurious polls and repeated runs; every run must equal the reference run and the model's result.",
  "note": "OS-thread interleavings do not exist (the builder is !Send and single-threaded by construction); a loader that is itself nondeterministic is outside the property. JSR metadata futures (spawned through the Executor) are exercised with the registry worlds.",
  "technique": "Lean 4 proof (refinement / simulation: scheduled execution is a prefix of the deterministic loop) + schedule enumeration against the implementation",
  "design_ref": "4 C04",
 },
 "C17": {
  "text": "Lean 4 model of prune_types (the seen/pending worklist over redirects and code edges, retain) on the builder model's graph, tied to /repo by exact correspondence: the model builds the abstract world with all dependency kinds, prunes it, and must equal the implementation's pruned graph entry by entry. Proved for every graph: a visited dependency keeps no type side while code side / dynamic flag / text / attribute are untouched, a visited JS module keeps no types dependency, the edges followed are exactly the resolved code targets (dynamic included), pruning only removes entries and keeps only what the worklist has seen, roots are seen. The equality with a code-only build is decided on every run on the implementation (prune_types(All) vs CodeOnly build: entry kinds, redirects, code edges as sets, valid()); in worlds without a known-defect trigger equality must hold exactly (~55% of the generated worlds), in worlds with exactly one trigger the difference is attributed to that finding (F6, F15-F18).",
  "note": "prune_eq_codeOnly is not a Lean theorem: the statement is false of the code in general (findings F6/F14, F15, F16, F17, F18, each reproduced on the implementation and listed in known_findings.json); worlds with several triggers at once are counted but not attributed. Fast-check data removal is checked on the implementation side (no fast-check data exists in these worlds; covered with C12's packages).",
  "technique": "Lean 4 executable model + proofs of per-entry pruning facts + exact correspondence + implementation-side differential oracle (prune vs code-only build)",
  "design_ref": "4 C17",
 },
 "C18": {
  "text": "Lean 4 theorems on the segment model (clone shortcut; otherwise the entries of a walk with the graph's kind, following dynamic imports), built on C15's exact walk characterisation: requesting known roots returns the graph itself; every module/error entry of a segment is the original's entry under the same key (same module with all recorded dependencies, or same error) and every redirect is the original's redirect from an entry-less specifier (segment_slot_faithful / segment_redirect_faithful); the segment contains an entry for exactly the specifiers reachable from the requested roots under the statement's edge relation (segment_contains_exactly_reachable); kind and configured imports carry over. Tied to /repo by correspondence of segment() on built graphs (all kinds; every single module and random pairs as roots) and an implementation-side oracle: dependency resolution with both preferences, validation verdicts, and equality with a direct build of the roots; in worlds without a known-defect trigger equality must hold exactly.",
  "note": "Equality with a direct build is not a Lean theorem: it is false of the code in identified situations (F6, F12, F15-F19, each reproduced and listed); worlds with several triggers are counted, not attributed. packages / has_node_specifier are cloned wholesale (as the code's own todo notes) and not compared.",
  "technique": "Lean 4 proof (corollaries of the walk characterisation) + model-vs-implementation correspondence + differential oracle (segment vs original vs direct build)",
  "design_ref": "4 C18",
 },
 "C19": {
  "text": "Lean 4 model of successive ModuleGraph::build calls and ModuleGraph::reload (a fresh builder per call over the persisted slots, redirects, roots and configured imports), tied to /repo by exact correspondence after every step of generated histories (every ordered split of 2-4 roots into 1-3 builds, a repeated build, 1-2 edit+reload steps). Proved for every world and history: building again with roots and imports the graph already has makes no loader call and returns the graph unchanged (build_idem); every incremental build and every reload that finishes leaves no pending entry when it started from a graph without one; reload takes each specifier through the recorded redirects first. Convergence to the from-scratch graph is decided on every run on the implementation: incremental vs at-once, reload vs from-scratch on the new sources (everything the scratch build contains must be identical, everything else untouched); in histories without a known-defect trigger equality must hold exactly.",
  "note": "build_split / reload_converges are not Lean theorems: the statement is false of the code in identified situations (F6, F18, F20, reproduced and listed); histories with configured imports or a dynamic root are used for correspondence only. JSR restart behaviour (cache busting) is outside this model.",
  "technique": "Lean 4 executable model of build/reload histories with exact correspondence + Lean proofs (idempotence, no-pending across calls) + differential oracle against from-scratch builds",
  "design_ref": "4 C19",
 },
 "C05": {
  "text": "Lean 4 theorems on the checksum plumbing of the builder model, for every world and state: the request queued for a specifier carries the lockfile's checksum (which wins over anything recorded during the build) and both the load and the single cache-bypassing retry present exactly that checksum; at most one retry, only after a checksum failure; content rejected on the first load and not accepted by the retry is an integrity error (mismatch_never_admitted); a checksummed specifier that redirects is rejected; a newly seen remote non-declaration module gets the hash of the bytes used recorded, nothing is recorded for a specifier the lockfile (or an earlier write) already knows, for declaration files, local files or without a locker; writes are append-only. Tied to /repo by exact correspondence (slots, redirects, every loader call with cache setting and checksum, lockfile writes with values, in order) on generated worlds with absent/matching/mismatching lockfile entries and tampered caches, a recording Locker and a checksum-verifying loader; implementation-side oracle for each clause.",
  "note": "Scope of this check: remote http(s) modules (static, dynamic, asset, redirect-target loads). Registry manifests and package files (checksums from version manifests, lockfileChecksum) are not yet covered (partial). That the loader verifies a checksum is the embedder's duty by the trait contract (the harness loader does); SHA-256 itself is an uninterpreted hash in the model. A resource delivered through a loader-internal redirect cannot be checked against its own lockfile entry (deno_graph never requested it): counted, outside the statement.",
  "technique": "Lean 4 proof (decision logic and append-only bookkeeping stated outright) + exact model-vs-implementation correspondence of loader/locker traffic",
  "design_ref": "4 C05",
 },
 "C07": {
  "text": "Lean 4 theorems on the model of the jsr: resolution pass and the package table: a pending jsr: specifier whose version manifest has the export becomes a redirect to package URL + the export's path, with the export recorded for that package (pass2_redirect, joinExport_dot_slash); a missing export yields an unknown-export error listing exactly the manifest's exports (pass2_unknown_export, export_mem_list / list_mem_export); the table maps the requirement to the selected name@version, which satisfies the requirement and joins the package's selected versions (pass1_maps_requirement, selected_satisfies, addNv_keeps_versions); mark_jsr_dep/mark_npm_dep record a requirement for exactly the package the referrer's URL belongs to; registry URL <-> name@version round-trips for every URL inside a package directory, and whatever the conversion answers the URL lies inside that package's directory with a valid version segment (urlToNv_packageUrl, urlToNv_sound, urlToNv_unique), for all strings. get_subpath is proved NOT segment-aware (kernel-checked counterexample). Tied to /repo by (A) correspondence of export lookup and URL conversion on enumerated inputs, (B) exact correspondence of a whole resolve_pending_jsr_specifiers pass (redirects, error kinds, mappings, versions by name, exports used, yanked, cache-only probes, Reporter::on_resolve events) in all three fill modes on generated flat registry worlds, (C) statement oracles on nested registry worlds.",
  "note": "Scope of the pass model: one pass from a given table (restart and single-package reload modes included); the interleaving of passes with module loading in nested worlds is covered by the implementation-side oracles (redirect formation, unknown-export listing, mappings, exports used, per-package dependencies, graph-level version selection replayed in Reporter order), not by the model. URL joining of export values is modelled for './p' and 'p' forms only. deno_semver (requirement parsing/matching, version order) and the url crate are trusted. Open finding F21; F22 fixed in /repo.",
  "technique": "Lean 4 proof (string-level round trip and soundness, decision logic of the pass stated outright) + exact pass correspondence + statement oracles on registry worlds",
  "design_ref": "4 C07",
 },
 "C13": {
  "text": "Lean 4 theorem decode_encode: for EVERY ModuleInfo value (all field combinations: empty and non-empty lists, default and non-default kinds, every import-attribute and dynamic-argument form, optional specifiers) reading back the JSON the writer produces yields the identical value; hence the writer is injective (encode_injective). The model spells out what serde derives from the attributes in src/analysis.rs (renames, skip_serializing_if, defaults, internally/externally tagged and untagged enums, flatten, tuple-form ranges with map-or-sequence readers). moduleGraph1 upgrade: the types specifier recovered is the one found in the last leading comment, with the range arithmetic proved for quoted and unquoted pragmas. Tied to /repo by correspondence of reader+writer on the serialised form of generated values, of the analyser's output on generated sources over every dependency form and on all 503 analysable sources embedded in tests/specs, and on mutated forms (object-form ranges, dropped/null/mistyped fields, explicit defaults, unknown fields) where acceptance and the value read must agree; implementation-side oracles: round trip through value and text, JsrPackageVersionInfo::module_info on the moduleGraph1 rendering equals the original, and registry worlds published with embedded info none/moduleGraph2/moduleGraph1 x cache cold/warm give byte-identical serialised graphs.",
  "note": "The manifest-shortcut clause (graph from embedded info = graph from parsing) is decided on the implementation by differential builds, not by a Lean theorem (the builder model does not include the registry path): partial. serde/serde_json themselves are trusted; the model is of the derived reader/writer's behaviour and is validated by the correspondence. Strings containing whitespace, quotes or parentheses are outside the line protocol and are covered by the implementation-side round trip only. F25 fixed in /repo.",
  "technique": "Lean 4 proof (round-trip law decode (encode m) = some m for all m) + reader/writer correspondence on written and mutated JSON + differential builds of registry worlds",
  "design_ref": "4 C13",
 },
 "C08": {
  "text": "Lean 4 theorems on the position arithmetic every reported range goes through, for ALL texts (any non-ASCII characters, any mixture of \\n and \\r\\n, any preceding comments): a position maps back to the offset it came from (offOf_posOf), positions are monotone in the offset so a range holds every position between its ends (posFrom_mono, includes_of_between), the range computed for a match inside a comment slices out of the source exactly quote+specifier+quote, resp. exactly the specifier for quote-less pragmas (commentSpan_covers_quoted / _unquoted), and Dependency::includes returns a range of the dependency that holds the position, and answers whenever one does (depIncludes_sound / _complete). Tied to /repo by correspondence of Position::from_source_pos on sampled offsets of generated texts, PositionRange::includes exhaustively on a grid and Dependency::includes on built modules. 'Every dependency exactly once, nothing else, unescaped text, exact ranges' is decided on the implementation: a generator that knows what it wrote (every dependency-bearing form x 8 media types x trivia with decoys, escapes, astral characters, CRLF/LF, shebang) compares the multiset reported by ParserModuleAnalyzer::analyze_sync and slices every reported range out of the source; the same range check runs on all 503 analysable sources embedded in tests/specs.",
  "note": "Partial: swc's parser and the DependencyCollector/pragma regexes are NOT modelled in Lean (their output is checked against the generator's ground truth, not proved); the Lean part covers positions, ranges and lookup. Offsets are characters in the model; the harness converts the implementation's byte offsets. Open finding F26 (source-map URL of a token-less file).",
  "technique": "Lean 4 proof (round trip / monotonicity of positions, exact slicing of comment matches, lookup soundness+completeness) + position correspondence + generator-with-ground-truth oracle on the analyser",
  "design_ref": "4 C08",
 },
 "C16": {
  "text": "Lean 4 theorems on the model of exports_and_re_exports (own exports, then the non-default, not-yet-present exports of every star re-export, one visited set for the whole traversal, fuel = #modules+1): for every world of modules - any chaining and any cycles of `export * from`, unresolvable targets included - the resolved export names of a module are EXACTLY its own names plus the non-default own names of everything reachable through star re-exports (exports_exact = exports_sound + exports_complete, the latter by a depth-first-search invariant: the visited set is closed under star edges and every newly visited module's names arrive), so the computation needs no more than #modules+1 nested calls (finite time); own names come first in declaration order and are never replaced (own_first); merging never duplicates a name. Tied to /repo by correspondence of ModuleInfoRef::exports on generated multi-module TypeScript programs (names and holding module, every module as the start). Tree shape, id validity, declaration names/ranges and termination of go-to-definition are decided on the implementation for every symbol of every generated program and of every spec file under tests/specs/symbols and tests/specs/graph, each world in its own child process.",
  "note": "Partial: the symbol-table builder (SymbolFiller) and find_definition_paths are not modelled in Lean; their outputs are checked per program (tree checks as in the repository's own spec helper: symbols that only stand for a reference - export specifiers, import aliases - are required to be neither child nor member, declaring symbols exactly once). Go-to-definition termination is observed (child process, 20 s limit), not proved; open finding F3 (stack overflow on mutually recursive import aliases).",
  "technique": "Lean 4 proof (DFS invariant: soundness + completeness of the resolved export set against an inductive reachability spec) + model-vs-implementation correspondence + per-program well-formedness oracle in child processes",
  "design_ref": "4 C16",
 },
}
NOT_APPLICABLE = {}
ALL = [f"C{i:02d}" for i in range(1, 21)]
PENDING_REASON = "check under construction in this round: the Lean model and correspondence for this property are not committed yet (see DESIGN.md section 7 for the order of construction)"

def main():
    checks = []
    for pid in ALL:
        if pid in CLAIMED:
            c = CLAIMED[pid]
            checks.append({
                "property_id": pid,
                "quick_cmd": f"./check {pid} --tier quick",
                "thorough_cmd": f"./check {pid} --tier thorough",
                "evidence_file": f"/verif/evidence/{pid}.json",
                "replay_cmd_template": f"./check {pid} --replay {{path}}",
                "engine": "lean4-proof+correspondence",
                "level_claimed": {"category": "proof", "text": c["text"], "design_ref": c["design_ref"]},
                "level_note": c["note"],
                "technique": c["technique"],
            })
    na = [{"property_id": p, "reason": NOT_APPLICABLE.get(p, PENDING_REASON)} for p in ALL if p not in CLAIMED]
    m = {
        "version": 1,
        "setup_cmd": "./setup.sh",
        "hooks": {
            "guard": "--cfg denoland_deno_graph_verif",
            "enable": "RUSTFLAGS='--cfg denoland_deno_graph_verif' (set in /verif/harness/.cargo/config.toml; the harness crate has a path dependency on /repo)",
            "baseline_off_cmd": BASELINE_OFF,
            "source_commits": json.load(open(os.path.join(ROOT, "hooks.json")))["source_commits"],
            "add_only": True,
        },
        "engines": [{
            "name": "lean4-proof+correspondence",
            "path": "/verif/check",
            "serves_properties": sorted(CLAIMED.keys()),
            "kind_free_text": "Lean 4 model + theorems (lean/), table translator and Rust correspondence/oracle harness (harness/), driver ./check",
        }],
        "checks": checks,
        "not_applicable": na,
        "notes": "Every check: regenerates lean/DG/Tables.lean from /repo, lake-builds the property's theorem module and audits its axioms, rebuilds the harness against /repo's working tree with hooks on, runs model-vs-implementation correspondence and the implementation-side property oracle, writes evidence/<id>.json. Known findings: known_findings.json.",
    }
    json.dump(m, open(os.path.join(ROOT, "MANIFEST.json"), "w"), indent=1)

if __name__ == "__main__":
    main()
