import DG.JsrSpec
/-! Helper lemmas for the `jsr:` model: prefix stripping, `/`-splitting, association lists. -/
namespace DG.Jsr

theorem stripPrefix?_append (p s : Str) : stripPrefix? p (p ++ s) = some s := by
  induction p with
  | nil => cases s <;> rfl
  | cons c cs ih => simp [stripPrefix?, ih]

theorem stripPrefix?_some {p s r : Str} (h : stripPrefix? p s = some r) : s = p ++ r := by
  induction p generalizing s with
  | nil =>
    cases s <;> simp [stripPrefix?] at h <;> simp [h]
  | cons c cs ih =>
    cases s with
    | nil => simp [stripPrefix?] at h
    | cons d ds =>
      simp only [stripPrefix?] at h
      split at h
      · rename_i hcd
        subst hcd
        simp [ih h]
      · exact absurd h (by simp)

theorem splitSlash_ne_nil (s : Str) : splitSlash s ≠ [] := by
  induction s with
  | nil => simp [splitSlash]
  | cons c cs ih =>
    unfold splitSlash
    split
    · simp
    · split
      · simp
      · simp

theorem splitSlash_noslash (a : Str) (h : '/' ∉ a) : splitSlash a = [a] := by
  induction a with
  | nil => rfl
  | cons c cs ih =>
    have hc : c ≠ '/' := fun e => h (by simp [e])
    have hcs : '/' ∉ cs := fun e => h (by simp [e])
    unfold splitSlash
    simp [hc, ih hcs]

theorem splitSlash_append (a b : Str) (h : '/' ∉ a) :
    splitSlash (a ++ '/' :: b) = a :: splitSlash b := by
  induction a with
  | nil => simp [splitSlash]
  | cons c cs ih =>
    have hc : c ≠ '/' := fun e => h (by simp [e])
    have hcs : '/' ∉ cs := fun e => h (by simp [e])
    simp only [List.cons_append]
    rw [splitSlash]
    simp [hc, ih hcs]

/-- inverse of `splitSlash` -/
def joinSlash : List Str → Str
  | [] => []
  | [a] => a
  | a :: b :: r => a ++ '/' :: joinSlash (b :: r)

/-- what follows the first three segments -/
def tailOf : List Str → Str
  | [] => []
  | t :: ts => '/' :: joinSlash (t :: ts)

theorem joinSlash_three (a b c : Str) (tl : List Str) :
    joinSlash (a :: b :: c :: tl) = a ++ '/' :: b ++ '/' :: c ++ tailOf tl := by
  cases tl with
  | nil => simp [joinSlash, tailOf]
  | cons t ts => simp [joinSlash, tailOf, List.append_assoc]

theorem tailOf_shape (tl : List Str) : tailOf tl = [] ∨ ∃ r, tailOf tl = '/' :: r := by
  cases tl with
  | nil => exact Or.inl rfl
  | cons t ts => exact Or.inr ⟨_, rfl⟩

theorem joinSlash_splitSlash (s : Str) : joinSlash (splitSlash s) = s := by
  induction s with
  | nil => rfl
  | cons c cs ih =>
    unfold splitSlash
    split
    · rename_i hc
      subst hc
      rcases hs : splitSlash cs with _ | ⟨x, xs⟩
      · exact absurd hs (splitSlash_ne_nil cs)
      · rw [hs] at ih
        simp [joinSlash, ih]
    · rcases hs : splitSlash cs with _ | ⟨x, xs⟩
      · exact absurd hs (splitSlash_ne_nil cs)
      · rw [hs] at ih
        simp only
        cases xs with
        | nil => simp [joinSlash] at ih ⊢; exact ih
        | cons y ys => simp [joinSlash] at ih ⊢; exact ih

theorem splitSlash_segments (s : Str) : ∀ seg ∈ splitSlash s, '/' ∉ seg := by
  induction s with
  | nil => simp [splitSlash]
  | cons c cs ih =>
    unfold splitSlash
    split
    · intro seg hseg
      simp only [List.mem_cons] at hseg
      rcases hseg with rfl | h
      · simp
      · exact ih seg h
    · rename_i hc
      rcases hs : splitSlash cs with _ | ⟨x, xs⟩
      · exact absurd hs (splitSlash_ne_nil cs)
      · intro seg hseg
        simp only [List.mem_cons] at hseg
        rw [hs] at ih
        rcases hseg with rfl | h
        · have := ih x (by simp)
          intro hm
          simp only [List.mem_cons] at hm
          rcases hm with e | e
          · exact hc e.symm
          · exact this e
        · exact ih seg (by simp [h])

/-! association lists -/

theorem lookup_setKey_self {α β} [BEq α] [LawfulBEq α] (k : α) (v : β) (l : List (α × β)) :
    (setKey k v l).lookup k = some v := by
  induction l with
  | nil => simp [setKey, List.lookup]
  | cons p r ih =>
    obtain ⟨k', v'⟩ := p
    unfold setKey
    by_cases h : (k' == k) = true
    · simp [h, List.lookup]
    · have hne : k' ≠ k := fun e => h (by simp [e])
      have h' : (k == k') = false := by
        simp only [beq_eq_false_iff_ne, ne_eq]
        exact fun e => hne e.symm
      simp only [h, Bool.false_eq_true, if_false, List.lookup, h']
      exact ih

theorem lookup_setKey_ne {α β} [BEq α] [LawfulBEq α] (k k2 : α) (v : β) (l : List (α × β))
    (hne : k2 ≠ k) : (setKey k v l).lookup k2 = l.lookup k2 := by
  induction l with
  | nil =>
    have : (k2 == k) = false := by simpa using hne
    simp [setKey, List.lookup, this]
  | cons p r ih =>
    obtain ⟨k', v'⟩ := p
    unfold setKey
    by_cases h : (k' == k) = true
    · have hk : k' = k := by simpa using h
      subst hk
      have : (k2 == k') = false := by simpa using hne
      simp [List.lookup, this]
    · simp only [h]
      by_cases h2 : (k2 == k') = true
      · simp [List.lookup, h2]
      · simp [List.lookup, h2, ih]

theorem mem_insertNew {α} [BEq α] [LawfulBEq α] (x : α) (l : List α) : x ∈ insertNew x l := by
  unfold insertNew
  split
  · rename_i h; simpa using h
  · simp

theorem mem_insertNew_of_mem {α} [BEq α] [LawfulBEq α] (x y : α) (l : List α) (h : y ∈ l) :
    y ∈ insertNew x l := by
  unfold insertNew
  split
  · exact h
  · simp [h]

end DG.Jsr
