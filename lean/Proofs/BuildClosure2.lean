import Proofs.BuildClosure
/-! The closure invariants through one request, the drain phases, the loop and the whole build. -/
namespace DG.Build
open DG Tables

/-- every recorded redirect leads to an accounted specifier, except possibly the redirect `ex`
that has just been recorded and whose target is being settled -/
def RedirInvEx (ex : Option (Spec × Spec)) (st : St) : Prop :=
  ∀ p ∈ st.redirects, Acc st p.2 ∨ ex = some p

abbrev RedirInv (st : St) : Prop := RedirInvEx none st

theorem RedirInvEx.settle {st : St} {a b : Spec} (h : RedirInvEx (some (a, b)) st) (hb : Acc st b) : RedirInv st := by
  intro p hp
  rcases h p hp with h | h
  · exact Or.inl h
  · cases h; exact Or.inl hb

/-- a transformer that never forgets a specifier, adds only entries without followed targets and
leaves the redirects alone -/
structure Leafy (o : Opts) (f : St → St) : Prop where
  mono : Mono f
  slots : ∀ st k sl, (f st).slot k = some sl → st.slot k = some sl ∨ slotTargets o sl = []
  redirects : ∀ st, (f st).redirects = st.redirects

theorem Leafy.dep {o : Opts} {f : St → St} (hf : Leafy o f) (st : St) (h : DepInv o st) : DepInv o (f st) := by
  intro k sl hk x hx
  rcases hf.slots st k sl hk with h1 | h1
  · exact hf.mono.cover st x (h k sl h1 x hx)
  · rw [h1] at hx; cases hx

theorem Leafy.redir {o : Opts} {f : St → St} (hf : Leafy o f) (ex : Option (Spec × Spec)) (st : St)
    (h : RedirInvEx ex st) : RedirInvEx ex (f st) := by
  intro p hp
  rw [hf.redirects] at hp
  rcases h p hp with h | h
  · exact Or.inl (hf.mono.acc st _ h)
  · exact Or.inr h

theorem Leafy.id {o : Opts} : Leafy o (fun st => st) := ⟨Mono.id, fun _ _ _ h => Or.inl h, fun _ => rfl⟩

theorem Leafy.comp {o : Opts} {f g : St → St} (hf : Leafy o f) (hg : Leafy o g) : Leafy o (fun st => g (f st)) := by
  refine ⟨Mono.comp hf.mono hg.mono, ?_, ?_⟩
  · intro st k sl h
    rcases hg.slots _ k sl h with h1 | h1
    · exact hf.slots st k sl h1
    · exact Or.inr h1
  · intro st
    show (g (f st)).redirects = st.redirects
    rw [hg.redirects, hf.redirects]

theorem leafy_foldl {o : Opts} {α} (f : St → α → St) (hf : ∀ a, Leafy o (fun st => f st a)) (l : List α) :
    Leafy o (fun st => l.foldl f st) := by
  induction l with
  | nil => exact Leafy.id
  | cons a l ih =>
    simp only [List.foldl_cons]
    exact Leafy.comp (hf a) ih

theorem leafy_of_same (o : Opts) (f : St → St) (hs : ∀ st, (f st).slots = st.slots)
    (hr : ∀ st, (f st).redirects = st.redirects) (hd : ∀ st, (f st).dyn = st.dyn) : Leafy o f :=
  ⟨mono_of_same f hs hr hd, fun st k sl h => Or.inl (by simpa [St.slot, hs] using h), hr⟩

theorem leafy_setSlot (o : Opts) (k : Spec) (sl : BSlot) (hsl : slotTargets o sl = []) :
    Leafy o (fun st => st.setSlot k sl) := by
  refine ⟨mono_setSlot k sl, ?_, fun _ => rfl⟩
  intro st k' sl' h
  rw [slot_setSlot] at h
  split at h
  · cases h; exact Or.inr hsl
  · exact Or.inl h

theorem leafy_load' (w : World) (o : Opts) (count : Nat) (lof : St → LoadOpts) :
    Leafy o (fun st => load w o count (lof st) st) := by
  refine ⟨mono_load' w o count lof, ?_, fun st => redirects_load w o count (lof st) st⟩
  intro st k sl h
  have h' : (load w o count (lof st) st).slot k = some sl := h
  unfold load at h'
  simp only at h'
  split at h'
  · exact (leafy_setSlot o _ _ (by simp [slotTargets])).slots st k sl h'
  · exact Or.inl h'
  · left
    have : (addDeferred st (st.resolveForLoad (lof st).spec) (lof st)).slots = st.slots := by
      unfold addDeferred; split <;> rfl
    simpa [St.slot, this] using h'
  · split at h'
    · exact (leafy_setSlot o _ _ (by simp [slotTargets, modTargets])).slots st k sl h'
    · exact (leafy_setSlot o _ (.pending (lof st).isAsset) (by simp [slotTargets])).slots st k sl h'

theorem leafy_load (w : World) (o : Opts) (count : Nat) (lo : LoadOpts) : Leafy o (load w o count lo) :=
  leafy_load' w o count (fun _ => lo)

theorem leafy_visitDepCode (w : World) (o : Opts) (d : BDep) : Leafy o (fun st => (visitDepCode w o d st).2) := by
  refine ⟨mono_visitDepCode w o d, ?_, ?_⟩
  · intro st k sl h
    unfold visitDepCode at h
    split at h
    · split at h
      · split at h
        · split at h <;> exact Or.inl h
        · exact (leafy_load w o 0 _).slots st k sl h
      · exact Or.inl h
    · exact Or.inl h
  · intro st
    unfold visitDepCode
    split
    · split
      · split
        · split <;> rfl
        · exact redirects_load w o 0 _ st
      · rfl
    · rfl

theorem leafy_visitDepType (w : World) (o : Opts) (d : BDep) : Leafy o (fun st => (visitDepType w o d st).2) := by
  refine ⟨mono_visitDepType w o d, ?_, ?_⟩
  · intro st k sl h
    unfold visitDepType at h
    split at h
    · split at h
      · split at h
        · exact Or.inl h
        · exact (leafy_load w o 0 _).slots st k sl h
      · exact Or.inl h
    · exact Or.inl h
  · intro st
    unfold visitDepType
    split
    · split
      · split
        · rfl
        · exact redirects_load w o 0 _ st
      · rfl
    · rfl

theorem leafy_visitDeps (w : World) (o : Opts) (deps : List BDep) :
    Leafy o (fun st => (visitDeps w o deps st).2) := by
  induction deps with
  | nil => exact Leafy.id
  | cons d rest ih =>
    have hstep : Leafy o (fun st => (visitDeps w o rest
        (visitDepType w o (visitDepCode w o d st).1 (visitDepCode w o d st).2).2).2) := by
      refine ⟨?_, ?_, ?_⟩
      · constructor
        · intro st x h
          exact ih.mono.acc _ x ((mono_visitDepType w o _).acc _ x ((mono_visitDepCode w o d).acc st x h))
        · intro st x h
          exact ih.mono.cover _ x ((mono_visitDepType w o _).cover _ x ((mono_visitDepCode w o d).dyn st x h))
      · intro st k sl h
        rcases ih.slots _ k sl h with h1 | h1
        · rcases (leafy_visitDepType w o _).slots _ k sl h1 with h2 | h2
          · exact (leafy_visitDepCode w o d).slots st k sl h2
          · exact Or.inr h2
        · exact Or.inr h1
      · intro st
        rw [ih.redirects, (leafy_visitDepType w o _).redirects, (leafy_visitDepCode w o d).redirects]
    refine ⟨mono_visitDeps w o (d :: rest), ?_, ?_⟩
    · intro st k sl h
      rw [visitDeps] at h
      split at h
      · exact ih.slots st k sl h
      · exact hstep.slots st k sl h
    · intro st
      rw [visitDeps]
      split
      · exact ih.redirects st
      · exact hstep.redirects st

theorem leafy_loadSourceMap (w : World) (o : Opts) (p : Parsed) : Leafy o (loadSourceMap w o p) := by
  refine ⟨mono_loadSourceMap w o p, ?_, ?_⟩
  · intro st k sl h; unfold loadSourceMap at h; split at h
    · exact (leafy_load w o 0 _).slots st k sl h
    · exact Or.inl h
  · intro st; unfold loadSourceMap; split
    · exact redirects_load w o 0 _ st
    · rfl

theorem leafy_loadTypesDep (w : World) (o : Opts) (p : Parsed) : Leafy o (loadTypesDep w o p) := by
  refine ⟨mono_loadTypesDep w o p, ?_, ?_⟩
  · intro st k sl h; unfold loadTypesDep at h; split at h
    · exact (leafy_load w o 0 _).slots st k sl h
    · exact Or.inl h
  · intro st; unfold loadTypesDep; split
    · exact redirects_load w o 0 _ st
    · rfl

theorem leafy_visitJsDeps (w : World) (o : Opts) (p : Parsed) : Leafy o (fun st => (visitJsDeps w o p st).2) := by
  refine ⟨mono_visitJsDeps w o p, ?_, ?_⟩
  · intro st k sl h; unfold visitJsDeps at h; split at h
    · exact (Leafy.comp (leafy_loadSourceMap w o p) (leafy_visitDeps w o p.deps)).slots st k sl h
    · exact Or.inl h
  · intro st; unfold visitJsDeps; split
    · exact (Leafy.comp (leafy_loadSourceMap w o p) (leafy_visitDeps w o p.deps)).redirects st
    · rfl

theorem leafy_visitModule (w : World) (o : Opts) (cls : Class) (c : Content) :
    Leafy o (fun st => (visitModule w o cls c st).2) := by
  refine ⟨mono_visitModule w o cls c, ?_, ?_⟩
  · intro st k sl h
    unfold visitModule at h
    split at h
    · exact Or.inl h
    · exact Or.inl h
    · exact (leafy_visitDeps w o _).slots st k sl h
    · simp only at h
      split at h
      · exact (Leafy.comp (leafy_visitJsDeps w o c.parsed) (leafy_loadTypesDep w o c.parsed)).slots st k sl h
      · exact (leafy_visitJsDeps w o c.parsed).slots st k sl h
  · intro st
    unfold visitModule
    split
    · rfl
    · rfl
    · exact (leafy_visitDeps w o _).redirects st
    · simp only
      split
      · exact (Leafy.comp (leafy_visitJsDeps w o c.parsed) (leafy_loadTypesDep w o c.parsed)).redirects st
      · exact (leafy_visitJsDeps w o c.parsed).redirects st

/-! ## one request -/

theorem depInv_setSlot (o : Opts) (st : St) (k : Spec) (sl : BSlot) (h : DepInv o st)
    (hsl : ∀ x ∈ slotTargets o sl, Cover st x) : DepInv o (st.setSlot k sl) := by
  intro f sl' hf x hx
  apply (mono_setSlot k sl).cover
  rw [slot_setSlot] at hf
  split at hf
  · cases hf; exact hsl x hx
  · exact h f sl' hf x hx

theorem redirInvEx_setSlot (ex : Option (Spec × Spec)) (st : St) (k : Spec) (sl : BSlot) (h : RedirInvEx ex st) :
    RedirInvEx ex (st.setSlot k sl) := by
  intro p hp
  rcases h p hp with h | h
  · exact Or.inl (acc_setSlot st k sl _ h)
  · exact Or.inr h

theorem depInv_checkSpecifier (o : Opts) (st : St) (req tgt : Spec) (h : DepInv o st) :
    DepInv o (checkSpecifier st req tgt) := by
  intro k sl hk x hx
  apply (mono_checkSpecifier req tgt).cover
  have : st.slot k = some sl := by
    unfold checkSpecifier at hk
    split at hk
    · exact hk
    · have hk' : (dropPending st req).slot k = some sl := by
        simpa [St.slot, slots_recordRedirect] using hk
      unfold dropPending at hk'
      split at hk'
      · have : (erase st.slots req).lookup k = some sl := hk'
        rw [lookup_erase] at this
        split at this
        · cases this
        · exact this
      · exact hk'
  exact h k sl this x hx

theorem redirInvEx_checkSpecifier (st : St) (req tgt : Spec) (h : RedirInv st) :
    RedirInvEx (some (req, tgt)) (checkSpecifier st req tgt) := by
  intro p hp
  rcases mem_redirects_checkSpecifier st req tgt p hp with h1 | h1
  · rcases h p h1 with h2 | h2
    · exact Or.inl (acc_checkSpecifier st req tgt _ h2)
    · cases h2
  · exact Or.inr (by rw [h1])

/-- the closure invariants together -/
structure Closed (o : Opts) (st : St) : Prop where
  dep : DepInv o st
  redir : RedirInv st

/-- what a step has to deliver -/
structure StepOk (o : Opts) (st st' : St) : Prop where
  closed : Closed o st'
  acc : ∀ x, Acc st x → Acc st' x
  cover : ∀ x, Cover st x → Cover st' x

theorem StepOk.trans {o : Opts} {a b c : St} (h1 : StepOk o a b) (h2 : StepOk o b c) : StepOk o a c :=
  ⟨h2.closed, fun x h => h2.acc x (h1.acc x h), fun x h => h2.cover x (h1.cover x h)⟩

theorem Leafy.stepOk {o : Opts} {f : St → St} (hf : Leafy o f) (st : St) (h : Closed o st) : StepOk o st (f st) :=
  ⟨⟨hf.dep st h.dep, hf.redir none st h.redir⟩, hf.mono.acc st, hf.mono.cover st⟩

/-- **the outcome of one request keeps the closure invariants** -/
theorem applyOutcome_closure (w : World) (o : Opts) (r : Req) (st : St) (out : Outcome) (h : Closed o st) :
    StepOk o st (applyOutcome w o r st out) := by
  cases out with
  | err e =>
    simp only [applyOutcome]
    refine ⟨⟨?_, ?_⟩, ?_, ?_⟩
    · exact depInv_setSlot o _ _ _ (depInv_checkSpecifier o st _ _ h.dep) (by simp [slotTargets])
    · exact (redirInvEx_setSlot _ _ _ _ (redirInvEx_checkSpecifier st r.spec e.spec h.redir)).settle
        (acc_setSlot_self _ _ _)
    · intro x hx; exact acc_setSlot _ _ _ x (acc_checkSpecifier st _ _ x hx)
    · intro x hx; exact (mono_setSlot _ _).cover _ x ((mono_checkSpecifier _ _).cover st x hx)
  | external spec isAsset =>
    simp only [applyOutcome]
    have hd2 : DepInv o (markRoot (checkSpecifier st r.spec spec) r.isRoot spec) :=
      (leafy_of_same o (fun s => markRoot s r.isRoot spec)
        (by intro s; unfold markRoot St.addResolvedRoot; split <;> (try split) <;> rfl)
        (by intro s; unfold markRoot St.addResolvedRoot; split <;> (try split) <;> rfl)
        (by intro s; unfold markRoot St.addResolvedRoot; split <;> (try split) <;> rfl)).dep _
        (depInv_checkSpecifier o st _ _ h.dep)
    have hr2 : RedirInvEx (some (r.spec, spec)) (markRoot (checkSpecifier st r.spec spec) r.isRoot spec) :=
      (leafy_of_same o (fun s => markRoot s r.isRoot spec)
        (by intro s; unfold markRoot St.addResolvedRoot; split <;> (try split) <;> rfl)
        (by intro s; unfold markRoot St.addResolvedRoot; split <;> (try split) <;> rfl)
        (by intro s; unfold markRoot St.addResolvedRoot; split <;> (try split) <;> rfl)).redir _ _
        (redirInvEx_checkSpecifier st r.spec spec h.redir)
    have ha2 : ∀ x, Acc st x → Acc (markRoot (checkSpecifier st r.spec spec) r.isRoot spec) x := fun x hx =>
      (mono_markRoot r.isRoot spec).acc _ x (acc_checkSpecifier st _ _ x hx)
    have hc2 : ∀ x, Cover st x → Cover (markRoot (checkSpecifier st r.spec spec) r.isRoot spec) x := fun x hx =>
      (mono_markRoot r.isRoot spec).cover _ x ((mono_checkSpecifier _ _).cover st x hx)
    generalize markRoot (checkSpecifier st r.spec spec) r.isRoot spec = st2 at hd2 hr2 ha2 hc2
    have hset : StepOk o st (st2.setSlot spec (.module (.external isAsset))) :=
      ⟨⟨depInv_setSlot o _ _ _ hd2 (by simp [slotTargets, modTargets]),
        (redirInvEx_setSlot _ _ _ _ hr2).settle (acc_setSlot_self _ _ _)⟩,
       fun x hx => acc_setSlot _ _ _ x (ha2 x hx),
       fun x hx => (mono_setSlot _ _).cover _ x (hc2 x hx)⟩
    rcases hsl : st2.slot spec with _ | sl
    · simp only
      exact hset
    · cases sl with
      | pending b => simp only; exact hset
      | module m =>
        simp only
        exact ⟨⟨hd2, hr2.settle (Or.inl (by rw [hsl]; rfl))⟩, ha2, hc2⟩
      | err e =>
        simp only
        exact ⟨⟨hd2, hr2.settle (Or.inl (by rw [hsl]; rfl))⟩, ha2, hc2⟩
  | redirect to =>
    simp only [applyOutcome]
    have hl := leafy_load w o (r.count + 1)
      { spec := to, range := r.range, spRef := r.spRef, isAsset := r.isAsset, inDyn := r.inDyn,
        isRoot := r.isRoot, attr := r.attr }
    refine ⟨⟨hl.dep _ (depInv_checkSpecifier o st _ _ h.dep), ?_⟩, ?_, ?_⟩
    · exact (hl.redir _ _ (redirInvEx_checkSpecifier st r.spec to h.redir)).settle (acc_load w o _ _ _)
    · intro x hx; exact hl.mono.acc _ x (acc_checkSpecifier st _ _ x hx)
    · intro x hx; exact hl.mono.cover _ x ((mono_checkSpecifier _ _).cover st x hx)
  | module f cls =>
    simp only [applyOutcome]
    have hsame := leafy_of_same o (fun s => recordChecksum w cls f
        (if (tryLoad' w o r).2 then w.hashReload.lookup r.spec else w.hashUse.lookup r.spec) (markRoot s r.isRoot f))
      (by intro s; unfold recordChecksum markRoot St.addResolvedRoot; split <;> split <;> (try split) <;> rfl)
      (by intro s; unfold recordChecksum markRoot St.addResolvedRoot; split <;> split <;> (try split) <;> rfl)
      (by intro s; unfold recordChecksum markRoot St.addResolvedRoot; split <;> split <;> (try split) <;> rfl)
    have hd2 := hsame.dep _ (depInv_checkSpecifier o st r.spec f h.dep)
    have hr2 := hsame.redir _ _ (redirInvEx_checkSpecifier st r.spec f h.redir)
    have ha2 : ∀ x, Acc st x → Acc _ x := fun x hx => hsame.mono.acc _ x (acc_checkSpecifier st r.spec f x hx)
    have hc2 : ∀ x, Cover st x → Cover _ x := fun x hx =>
      hsame.mono.cover _ x ((mono_checkSpecifier r.spec f).cover st x hx)
    generalize recordChecksum w cls f _ (markRoot (checkSpecifier st r.spec f) r.isRoot f) = st2 at hd2 hr2 ha2 hc2
    have hv := leafy_visitModule w o cls (w.contentOf r.spec)
    refine ⟨⟨?_, ?_⟩, ?_, ?_⟩
    · exact depInv_setSlot o _ _ _ (hv.dep st2 hd2) (fun x hx => cover_visitModule w o cls _ st2 x hx)
    · exact (redirInvEx_setSlot _ _ _ _ (hv.redir _ st2 hr2)).settle (acc_setSlot_self _ _ _)
    · intro x hx; exact acc_setSlot _ _ _ x (hv.mono.acc st2 x (ha2 x hx))
    · intro x hx; exact (mono_setSlot _ _).cover _ x (hv.mono.cover st2 x (hc2 x hx))

theorem leafy_logRequest (w : World) (o : Opts) (r : Req) : Leafy o (logRequest w o r) :=
  leafy_of_same o (logRequest w o r)
    (by intro st; unfold logRequest; simp only; split <;> rfl)
    (by intro st; unfold logRequest; simp only; split <;> rfl)
    (by intro st; unfold logRequest; simp only; split <;> rfl)

theorem stepPending_closure (w : World) (o : Opts) (r : Req) (st : St) (h : Closed o st) :
    StepOk o st (stepPending w o r st) := by
  unfold stepPending
  have h1 := (leafy_logRequest w o r).stepOk st h
  exact h1.trans (applyOutcome_closure w o r _ _ h1.closed)

/-! ## the drain phases -/

/-- after loading every item of a list, every item is accounted for -/
theorem foldl_load_acc {α} (w : World) (o : Opts) (key : α → Spec) (lof : St → α → LoadOpts)
    (hkey : ∀ st a, (lof st a).spec = key a) (items : List α) (st : St) :
    ∀ a ∈ items, Acc (items.foldl (fun st a => load w o 0 (lof st a) st) st) (key a) := by
  induction items generalizing st with
  | nil => intro a ha; cases ha
  | cons b rest ih =>
    intro a ha
    simp only [List.foldl_cons]
    rcases List.mem_cons.mp ha with rfl | ha
    · have h0 : Acc (load w o 0 (lof st a) st) (key a) := by
        rw [← hkey st a]; exact acc_load w o 0 _ st
      exact (mono_foldl (fun st a => load w o 0 (lof st a) st) (fun a => mono_load' w o 0 (fun st => lof st a)) rest).acc _ _ h0
    · exact ih _ a ha

theorem drain_closure (w : World) (o : Opts) (st : St) (h : Closed o st) : StepOk o st (drain w o st) := by
  unfold drain
  split
  · exact Leafy.id.stepOk st h
  · split
    · -- deferred
      have hf := leafy_foldl (o := o) (fun st (p : Spec × Deferred) =>
        load w o 0 { spec := p.1, range := p.2.range, spRef := p.2.spRef, isAsset := false,
                     inDyn := p.2.inDyn, isRoot := p.2.isRoot, attr := p.2.attr } st)
        (fun p => leafy_load w o 0 _) st.deferred
      have h0 := (leafy_of_same o (fun s : St => { s with deferred := [] }) (fun _ => rfl) (fun _ => rfl) (fun _ => rfl)).stepOk st h
      exact h0.trans (hf.stepOk _ h0.closed)
    · split
      · -- dynamic branches
        have hf := leafy_foldl (o := o) (fun st (p : Spec × DynBranch) =>
          load w o 0 { spec := p.1, range := some p.2.range, spRef := p.2.spRef, isAsset := p.2.isAsset,
                       inDyn := true, isRoot := st.isResolvedRoot p.1, attr := p.2.attr } st)
          (fun p => leafy_load' w o 0 _) st.dyn
        have hacc := foldl_load_acc w o (fun p : Spec × DynBranch => p.1)
          (fun st p => { spec := p.1, range := some p.2.range, spRef := p.2.spRef, isAsset := p.2.isAsset,
                         inDyn := true, isRoot := st.isResolvedRoot p.1, attr := p.2.attr })
          (fun _ _ => rfl) st.dyn { st with inDyn := true, dyn := [] }
        have hacc0 : ∀ x, Acc st x → Acc ({ st with inDyn := true, dyn := [] } : St) x := fun x hx => hx
        have hcov : ∀ x, Cover st x → Acc (st.dyn.foldl (fun st (p : Spec × DynBranch) =>
            load w o 0 { spec := p.1, range := some p.2.range, spRef := p.2.spRef, isAsset := p.2.isAsset,
                         inDyn := true, isRoot := st.isResolvedRoot p.1, attr := p.2.attr } st)
            { st with inDyn := true, dyn := [] }) x := by
          intro x hx
          rcases hx with hx | ⟨b, hb⟩
          · exact hf.mono.acc _ x (hacc0 x hx)
          · exact hacc (x, b) hb
        refine ⟨⟨?_, ?_⟩, ?_, ?_⟩
        · intro k sl hk x hx
          rcases hf.slots _ k sl hk with h1 | h1
          · exact Or.inl (hcov x (h.dep k sl h1 x hx))
          · rw [h1] at hx; cases hx
        · intro p hp
          rw [hf.redirects] at hp
          rcases h.redir p hp with h2 | h2
          · exact Or.inl (hf.mono.acc _ _ (hacc0 _ h2))
          · cases h2
        · intro x hx; exact hf.mono.acc _ x (hacc0 x hx)
        · intro x hx; exact Or.inl (hcov x hx)
      · exact Leafy.id.stepOk st h

theorem iter_closure (w : World) (o : Opts) (st : St) (h : Closed o st) : StepOk o st (iter w o st) := by
  unfold iter
  rcases hp : st.pending with _ | ⟨r, rest⟩
  · simp only
    exact drain_closure w o st h
  · simp only
    have h0 := (leafy_of_same o (fun s : St => { s with pending := rest }) (fun _ => rfl) (fun _ => rfl) (fun _ => rfl)).stepOk st h
    have h1 := stepPending_closure w o r _ h0.closed
    exact (h0.trans h1).trans (drain_closure w o _ h1.closed)

theorem runLoop_closure (w : World) (o : Opts) :
    ∀ (fuel : Nat) (st out : St), Closed o st → runLoop w o fuel st = some out → StepOk o st out := by
  intro fuel
  induction fuel with
  | zero => intro st out _ h; simp [runLoop] at h
  | succ fuel ih =>
    intro st out hc hrun
    unfold runLoop at hrun
    by_cases hq : quiescent st = true
    · simp only [hq, if_true, Option.some.injEq] at hrun
      subst hrun
      exact Leafy.id.stepOk st hc
    · simp only [hq, Bool.false_eq_true, if_false] at hrun
      have h1 := iter_closure w o st hc
      exact h1.trans (ih _ out h1.closed hrun)

/-! ## the whole build -/

theorem foldl_acc {α} (f : St → α → St) (hmono : ∀ a, Mono (fun st => f st a)) (P : α → Spec → Prop)
    (hacc : ∀ st a x, P a x → Acc (f st a) x) (items : List α) (st : St) :
    ∀ a ∈ items, ∀ x, P a x → Acc (items.foldl f st) x := by
  induction items generalizing st with
  | nil => intro a ha; cases ha
  | cons b rest ih =>
    intro a ha x hx
    simp only [List.foldl_cons]
    rcases List.mem_cons.mp ha with rfl | ha
    · exact (mono_foldl f hmono rest).acc _ _ (hacc st a x hx)
    · exact ih _ a ha x hx

def rootStep (w : World) (o : Opts) (st : St) (r : Spec) : St :=
  load w o 0 { spec := r, range := none, spRef := none, isAsset := false, inDyn := st.inDyn,
               isRoot := true, attr := none } st

def importStep (w : World) (o : Opts) (st : St) (d : Dep) : St :=
  match d.type with
  | .ok s rng =>
    load w o 0 { spec := s, range := some rng, spRef := none, isAsset := false, inDyn := st.inDyn,
                 isRoot := st.isResolvedRoot s, attr := none } st
  | _ => st

theorem build_eq (w : World) (o : Opts) (roots : List Spec) (imports : List (Spec × List Dep)) (fuel : Nat) :
    build w o roots imports fuel =
      runLoop w o fuel ((imports.flatMap (·.2)).foldl (importStep w o) (roots.foldl (rootStep w o) { inDyn := o.isDynamic })) := rfl

theorem leafy_rootStep (w : World) (o : Opts) (r : Spec) : Leafy o (fun st => rootStep w o st r) :=
  leafy_load' w o 0 _

theorem leafy_importStep (w : World) (o : Opts) (d : Dep) : Leafy o (fun st => importStep w o st d) := by
  unfold importStep
  cases d.type with
  | ok s rng => exact leafy_load' w o 0 _
  | none => exact Leafy.id
  | err c => exact Leafy.id

theorem closed_init (o : Opts) (b : Bool) : Closed o ({ inDyn := b } : St) :=
  ⟨fun k sl hk => by simp [St.slot, List.lookup] at hk, fun p hp => by cases hp⟩

/-- **closure of a finished build** -/
theorem build_closure (w : World) (o : Opts) (roots : List Spec) (imports : List (Spec × List Dep))
    (fuel : Nat) (out : St) (h : build w o roots imports fuel = some out) :
    Closed o out ∧ out.dyn = [] ∧ (∀ r ∈ roots, Acc out r) ∧
    (∀ d ∈ imports.flatMap (·.2), ∀ s rng, d.type = .ok s rng → Acc out s) := by
  rw [build_eq] at h
  have hr := leafy_foldl (o := o) (rootStep w o) (leafy_rootStep w o) roots
  have hi := leafy_foldl (o := o) (importStep w o) (leafy_importStep w o) (imports.flatMap (·.2))
  have s1 := hr.stepOk _ (closed_init o o.isDynamic)
  have s2 := hi.stepOk _ s1.closed
  have s3 := runLoop_closure w o fuel _ out s2.closed h
  have hq := (runLoop_inv w o fuel _ out (build_init_inv w o roots imports) h).2
  simp only [quiescent, Bool.and_eq_true, List.isEmpty_iff] at hq
  refine ⟨s3.closed, hq.1.2, ?_, ?_⟩
  · intro r hr'
    apply s3.acc
    apply s2.acc
    exact foldl_acc (rootStep w o) (fun a => (leafy_rootStep w o a).mono) (fun a x => x = a)
      (fun st a x hx => by subst hx; exact acc_load w o 0 _ st) roots _ r hr' r rfl
  · intro d hd s rng hty
    apply s3.acc
    exact foldl_acc (importStep w o) (fun a => (leafy_importStep w o a).mono) (fun a x => ∃ rng, a.type = .ok x rng)
      (fun st a x hx => by
        obtain ⟨rng, hx⟩ := hx
        unfold importStep
        rw [hx]
        exact acc_load w o 0 _ st) (imports.flatMap (·.2)) _ d hd s ⟨rng, hty⟩

end DG.Build
