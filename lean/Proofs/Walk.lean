import DG.Walk
/-! Worklist lemmas for `walkLoop`: pushes, the invariant, its preservation. -/
namespace DG

/-! ## pushFront / pushAll -/

theorem mem_foldl_setInsert (l : List Spec) (acc : List Spec) (x : Spec) :
    x ∈ l.foldl setInsert acc ↔ x ∈ acc ∨ x ∈ l := by
  induction l generalizing acc with
  | nil => simp
  | cons a l ih =>
    simp only [List.foldl_cons, ih, List.mem_cons]
    unfold setInsert
    split <;> grind

theorem nodup_foldl_setInsert (l : List Spec) (acc : List Spec) (h : acc.Nodup) :
    (l.foldl setInsert acc).Nodup := by
  induction l generalizing acc with
  | nil => simpa
  | cons a l ih =>
    simp only [List.foldl_cons]
    apply ih
    unfold setInsert
    split
    · exact h
    · exact List.nodup_cons.mpr ⟨by assumption, h⟩

namespace WalkState

theorem pushFront_seen (st : WalkState) (s x : Spec) :
    x ∈ (st.pushFront s).seen ↔ x ∈ st.seen ∨ x = s := by
  unfold pushFront
  split <;> grind

theorem pushFront_visiting (st : WalkState) (s x : Spec) :
    x ∈ (st.pushFront s).visiting ↔ x ∈ st.visiting ∨ (x = s ∧ s ∉ st.seen) := by
  unfold pushFront
  split <;> grind

@[simp] theorem pushFront_prev (st : WalkState) (s : Spec) : (st.pushFront s).prev = st.prev := by
  unfold pushFront
  split <;> rfl

theorem pushFront_lengths (st : WalkState) (s : Spec) :
    (st.pushFront s).seen.length + st.visiting.length =
      st.seen.length + (st.pushFront s).visiting.length := by
  unfold pushFront
  split <;> simp <;> omega

theorem pushFront_seen_nodup (st : WalkState) (s : Spec) (h : st.seen.Nodup) :
    (st.pushFront s).seen.Nodup := by
  unfold pushFront
  split
  · exact h
  · exact List.nodup_cons.mpr ⟨by assumption, h⟩

theorem pushFront_visiting_nodup (st : WalkState) (s : Spec) (h : st.visiting.Nodup)
    (hsub : ∀ x ∈ st.visiting, x ∈ st.seen) : (st.pushFront s).visiting.Nodup := by
  unfold pushFront
  split
  · exact h
  · rename_i hs
    exact List.nodup_cons.mpr ⟨fun hm => hs (hsub s hm), h⟩

end WalkState

theorem pushAll_nil (st : WalkState) : pushAll [] st = st := rfl
theorem pushAll_cons (a : Spec) (l : List Spec) (st : WalkState) :
    pushAll (a :: l) st = pushAll l (st.pushFront a) := rfl

theorem pushAll_seen (l : List Spec) (st : WalkState) (x : Spec) :
    x ∈ (pushAll l st).seen ↔ x ∈ st.seen ∨ x ∈ l := by
  induction l generalizing st with
  | nil => simp [pushAll_nil]
  | cons a l ih =>
    rw [pushAll_cons, ih, WalkState.pushFront_seen]
    simp only [List.mem_cons]
    grind

@[simp] theorem pushAll_prev (l : List Spec) (st : WalkState) : (pushAll l st).prev = st.prev := by
  induction l generalizing st with
  | nil => rfl
  | cons a l ih => rw [pushAll_cons, ih, WalkState.pushFront_prev]

theorem pushAll_visiting_mono (l : List Spec) (st : WalkState) (x : Spec)
    (h : x ∈ st.visiting) : x ∈ (pushAll l st).visiting := by
  induction l generalizing st with
  | nil => exact h
  | cons a l ih =>
    rw [pushAll_cons]
    exact ih _ ((WalkState.pushFront_visiting st a x).mpr (Or.inl h))

theorem pushAll_visiting (l : List Spec) (st : WalkState) (x : Spec)
    (h : x ∈ (pushAll l st).visiting) : x ∈ st.visiting ∨ (x ∈ l ∧ x ∉ st.seen) := by
  induction l generalizing st with
  | nil => exact Or.inl h
  | cons a l ih =>
    rw [pushAll_cons] at h
    rcases ih _ h with h1 | ⟨h1, h2⟩
    · rcases (WalkState.pushFront_visiting st a x).mp h1 with h3 | ⟨h3, h4⟩
      · exact Or.inl h3
      · exact Or.inr ⟨by simp [h3], by rw [h3]; exact h4⟩
    · refine Or.inr ⟨List.mem_cons_of_mem _ h1, fun hx => h2 ?_⟩
      exact (WalkState.pushFront_seen st a x).mpr (Or.inl hx)

/-- something pushed that was not seen before ends up in the queue -/
theorem pushAll_new_in_visiting (l : List Spec) (st : WalkState) (x : Spec)
    (hl : x ∈ l) (hs : x ∉ st.seen) : x ∈ (pushAll l st).visiting := by
  induction l generalizing st with
  | nil => cases hl
  | cons a l ih =>
    rw [pushAll_cons]
    by_cases hxa : x = a
    · subst hxa
      exact pushAll_visiting_mono _ _ _ ((WalkState.pushFront_visiting st x x).mpr (Or.inr ⟨rfl, hs⟩))
    · have hl' : x ∈ l := by
        rcases List.mem_cons.mp hl with h | h
        · exact absurd h hxa
        · exact h
      apply ih _ hl'
      intro hm
      rcases (WalkState.pushFront_seen st a x).mp hm with h | h
      · exact hs h
      · exact hxa h

theorem pushAll_lengths (l : List Spec) (st : WalkState) :
    (pushAll l st).seen.length + st.visiting.length =
      st.seen.length + (pushAll l st).visiting.length := by
  induction l generalizing st with
  | nil => rfl
  | cons a l ih =>
    rw [pushAll_cons]
    have h1 := ih (st.pushFront a)
    have h2 := WalkState.pushFront_lengths st a
    omega

theorem pushAll_seen_nodup (l : List Spec) (st : WalkState) (h : st.seen.Nodup) :
    (pushAll l st).seen.Nodup := by
  induction l generalizing st with
  | nil => exact h
  | cons a l ih => rw [pushAll_cons]; exact ih _ (WalkState.pushFront_seen_nodup st a h)

theorem pushAll_visiting_nodup (l : List Spec) (st : WalkState) (h : st.visiting.Nodup)
    (hsub : ∀ x ∈ st.visiting, x ∈ st.seen) :
    (pushAll l st).visiting.Nodup ∧ ∀ x ∈ (pushAll l st).visiting, x ∈ (pushAll l st).seen := by
  induction l generalizing st with
  | nil => exact ⟨h, hsub⟩
  | cons a l ih =>
    rw [pushAll_cons]
    apply ih _ (WalkState.pushFront_visiting_nodup st a h hsub)
    intro x hx
    rcases (WalkState.pushFront_visiting st a x).mp hx with h1 | ⟨h1, _⟩
    · exact (WalkState.pushFront_seen st a x).mpr (Or.inl (hsub x h1))
    · exact (WalkState.pushFront_seen st a x).mpr (Or.inr h1)

/-- "processed": seen and no longer queued -/
def Done (st : WalkState) (x : Spec) : Prop := x ∈ st.seen ∧ x ∉ st.visiting

theorem done_pushAll (l : List Spec) (st : WalkState) (x : Spec)
    (_hsub : ∀ y ∈ st.visiting, y ∈ st.seen) :
    Done (pushAll l st) x ↔ Done st x := by
  unfold Done
  constructor
  · rintro ⟨h1, h2⟩
    have hx : x ∈ st.seen := by
      rcases (pushAll_seen l st x).mp h1 with h | h
      · exact h
      · apply Classical.byContradiction
        intro hn
        exact h2 (pushAll_new_in_visiting l st x h hn)
    exact ⟨hx, fun hv => h2 (pushAll_visiting_mono l st x hv)⟩
  · rintro ⟨h1, h2⟩
    refine ⟨(pushAll_seen l st x).mpr (Or.inl h1), fun hv => ?_⟩
    rcases pushAll_visiting l st x hv with h | ⟨_, h⟩
    · exact h2 h
    · exact h h1

end DG
