import DG.JsrVersion
/-! `resolveVersion` computes the maximum of the candidates, for every input list. -/
namespace DG.Jsr

/-- a version the fold may select -/
def Cand (sat : Nat → Bool) (cutoff : Option Nat) (v : Nat × Option VInfo) : Prop :=
  sat v.1 = true ∧ dateOk v.2 cutoff = true

/-- invariant of the fold: `best` is the maximum candidate version seen so far -/
structure FoldInv (sat : Nat → Bool) (cutoff : Option Nat)
    (seen : List (Nat × Option VInfo)) (a : Acc) : Prop where
  best_some : ∀ b, a.best = some b → (∃ p ∈ seen, p.1 = b ∧ Cand sat cutoff p) ∧
      ∀ p ∈ seen, Cand sat cutoff p → p.1 ≤ b
  best_none : a.best = none → ∀ p ∈ seen, ¬ Cand sat cutoff p
  had : a.hadHigher = true ↔ ∃ p ∈ seen, sat p.1 = true

theorem foldInv_step (sat : Nat → Bool) (cutoff : Option Nat)
    (seen : List (Nat × Option VInfo)) (a : Acc) (v : Nat × Option VInfo)
    (h : FoldInv sat cutoff seen a) :
    FoldInv sat cutoff (seen ++ [v]) (stepVersion sat cutoff a v) := by
  unfold stepVersion
  by_cases hm : sat v.1 = true
  · by_cases hd : dateOk v.2 cutoff = true
    · have hc : Cand sat cutoff v := ⟨hm, hd⟩
      simp only [hm, hd, if_true]
      rcases hb : a.best with _ | b
      · -- first candidate
        refine ⟨?_, ?_, ?_⟩
        · intro b' hb'
          simp at hb'
          subst hb'
          refine ⟨⟨v, by simp, rfl, hc⟩, ?_⟩
          intro p hp hcp
          rcases List.mem_append.mp hp with hp | hp
          · exact absurd hcp (h.best_none hb p hp)
          · simp at hp; subst hp; exact Nat.le_refl _
        · intro hn; simp at hn
        · simp only [true_iff]; exact ⟨v, by simp, hm⟩
      · obtain ⟨⟨q, hq, hqb, hqc⟩, hmax⟩ := h.best_some b hb
        by_cases hlt : b < v.1
        · simp only [hlt, decide_true, if_true]
          refine ⟨?_, ?_, ?_⟩
          · intro b' hb'
            simp at hb'
            subst hb'
            refine ⟨⟨v, by simp, rfl, hc⟩, ?_⟩
            intro p hp hcp
            rcases List.mem_append.mp hp with hp | hp
            · have := hmax p hp hcp; omega
            · simp at hp; subst hp; exact Nat.le_refl _
          · intro hn; simp at hn
          · simp only [true_iff]; exact ⟨v, by simp, hm⟩
        · simp only [hlt, decide_false, Bool.false_eq_true, if_false]
          refine ⟨?_, ?_, ?_⟩
          · intro b' hb'
            simp at hb'
            subst hb'
            refine ⟨⟨q, List.mem_append_left _ hq, hqb, hqc⟩, ?_⟩
            intro p hp hcp
            rcases List.mem_append.mp hp with hp | hp
            · exact hmax p hp hcp
            · simp at hp; subst hp; omega
          · intro hn; simp at hn
          · simp only [true_iff]; exact ⟨v, by simp, hm⟩
    · simp only [hm, hd, if_true, Bool.false_eq_true, if_false]
      refine ⟨?_, ?_, ?_⟩
      · intro b hb
        obtain ⟨⟨q, hq, hqb, hqc⟩, hmax⟩ := h.best_some b hb
        refine ⟨⟨q, List.mem_append_left _ hq, hqb, hqc⟩, ?_⟩
        intro p hp hcp
        rcases List.mem_append.mp hp with hp | hp
        · exact hmax p hp hcp
        · simp at hp; subst hp; exact absurd hcp.2 hd
      · intro hn p hp hcp
        rcases List.mem_append.mp hp with hp | hp
        · exact h.best_none hn p hp hcp
        · simp at hp; subst hp; exact hd hcp.2
      · simp only [true_iff]; exact ⟨v, by simp, hm⟩
  · simp only [hm, Bool.false_eq_true, if_false]
    refine ⟨?_, ?_, ?_⟩
    · intro b hb
      obtain ⟨⟨q, hq, hqb, hqc⟩, hmax⟩ := h.best_some b hb
      refine ⟨⟨q, List.mem_append_left _ hq, hqb, hqc⟩, ?_⟩
      intro p hp hcp
      rcases List.mem_append.mp hp with hp | hp
      · exact hmax p hp hcp
      · simp at hp; subst hp; exact absurd hcp.1 hm
    · intro hn p hp hcp
      rcases List.mem_append.mp hp with hp | hp
      · exact h.best_none hn p hp hcp
      · simp at hp; subst hp; exact hm hcp.1
    · rw [h.had]
      constructor
      · rintro ⟨p, hp, hpm⟩; exact ⟨p, List.mem_append_left _ hp, hpm⟩
      · rintro ⟨p, hp, hpm⟩
        rcases List.mem_append.mp hp with hp | hp
        · exact ⟨p, hp, hpm⟩
        · simp at hp; subst hp; exact absurd hpm hm

theorem foldInv_foldl (sat : Nat → Bool) (cutoff : Option Nat) :
    ∀ (rest seen : List (Nat × Option VInfo)) (a : Acc), FoldInv sat cutoff seen a →
      FoldInv sat cutoff (seen ++ rest) (rest.foldl (stepVersion sat cutoff) a) := by
  intro rest
  induction rest with
  | nil => intro seen a h; simpa using h
  | cons v rest ih =>
    intro seen a h
    have := ih (seen ++ [v]) _ (foldInv_step sat cutoff seen a v h)
    simpa [List.append_assoc] using this

theorem resolveVersion_inv (sat : Nat → Bool) (cutoff : Option Nat)
    (versions : List (Nat × Option VInfo)) :
    FoldInv sat cutoff versions (resolveVersion sat cutoff versions) := by
  have h0 : FoldInv sat cutoff [] { best := none, hadHigher := false } := by
    refine ⟨?_, ?_, ?_⟩
    · intro b hb; simp at hb
    · intro _ p hp; cases hp
    · simp
  simpa [resolveVersion] using foldInv_foldl sat cutoff versions [] _ h0

end DG.Jsr
