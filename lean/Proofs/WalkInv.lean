import Proofs.Walk
/-! The walk characterisation: invariant of `walkLoop`, soundness and completeness
against the inductive relation `Enq`, no duplicates, and termination within `walkFuel`. -/
namespace DG

section
variable (g : Graph) (o : WalkOpts) (skip : Spec → Bool) (roots : List Spec)

/-- what popping `s` yields (a function of the graph, the options and `s` only) -/
def yieldOf (s : Spec) : Option Entry := (visitInfo g o s).2
/-- the types dependency pushed when `s` is popped -/
def push1 (s : Spec) : List Spec := (visitInfo g o s).1
/-- what is pushed on the call after `s` was yielded (nothing if the client skipped it) -/
def succOf (s : Spec) : List Spec :=
  match yieldOf g o s with
  | some e => if skip s then [] else succs o s e
  | none => []

/-- **Specification** of the specifiers a walk ever enqueues, read off the statement:
roots, configured import targets, the types dependency of an enqueued JS module, and the
selected dependency / redirect targets of an enqueued specifier that is yielded and not skipped. -/
inductive Enq : Spec → Prop where
  | root {s} : s ∈ roots → Enq s
  | imp {s} : s ∈ importTargets g o.kind → Enq s
  | typesDep {s t} : Enq s → t ∈ push1 g o s → Enq t
  | succ {s t} : Enq s → t ∈ succOf g o skip s → Enq t

structure Inv (st : WalkState) (acc : List (Spec × Entry)) : Prop where
  vis_sub : ∀ x ∈ st.visiting, x ∈ st.seen
  vis_nodup : st.visiting.Nodup
  sound : ∀ x ∈ st.seen, Enq g o skip roots x
  roots_in : ∀ x ∈ roots, x ∈ st.seen
  imps_in : ∀ x ∈ importTargets g o.kind, x ∈ st.seen
  done_push : ∀ x, Done st x → ∀ t ∈ push1 g o x, t ∈ st.seen
  done_succ : ∀ x, Done st x → (∀ e, st.prev ≠ some (x, e)) → ∀ t ∈ succOf g o skip x, t ∈ st.seen
  prev_ok : ∀ k e, st.prev = some (k, e) → Done st k ∧ yieldOf g o k = some e ∧ skip k = false
  acc_iff : ∀ x e, (x, e) ∈ acc ↔ (Done st x ∧ yieldOf g o x = some e)
  acc_nodup : (acc.map (·.1)).Nodup

variable {g o skip roots}

/-- pushing enqueued specifiers preserves the invariant (the queue grows, nothing else changes) -/
theorem Inv.pushAll {st : WalkState} {acc} (h : Inv g o skip roots st acc) (l : List Spec)
    (hl : ∀ t ∈ l, Enq g o skip roots t) : Inv g o skip roots (pushAll l st) acc := by
  have hd : ∀ x, Done (DG.pushAll l st) x ↔ Done st x := fun x => done_pushAll l st x h.vis_sub
  have hmono : ∀ x, x ∈ st.seen → x ∈ (DG.pushAll l st).seen :=
    fun x hx => (pushAll_seen l st x).mpr (Or.inl hx)
  obtain ⟨hnd, hsub⟩ := pushAll_visiting_nodup l st h.vis_nodup h.vis_sub
  refine
    { vis_sub := hsub, vis_nodup := hnd, sound := ?_, roots_in := fun x hx => hmono x (h.roots_in x hx),
      imps_in := fun x hx => hmono x (h.imps_in x hx), done_push := ?_, done_succ := ?_,
      prev_ok := ?_, acc_iff := ?_, acc_nodup := h.acc_nodup }
  · intro x hx
    rcases (pushAll_seen l st x).mp hx with h1 | h1
    · exact h.sound x h1
    · exact hl x h1
  · intro x hx t ht
    exact hmono t (h.done_push x ((hd x).mp hx) t ht)
  · intro x hx hp t ht
    rw [pushAll_prev] at hp
    exact hmono t (h.done_succ x ((hd x).mp hx) hp t ht)
  · intro k e hp
    rw [pushAll_prev] at hp
    obtain ⟨h1, h2, h3⟩ := h.prev_ok k e hp
    exact ⟨(hd k).mpr h1, h2, h3⟩
  · intro x e
    rw [h.acc_iff x e, hd x]

/-- the prologue of `next` -/
theorem Inv.expandPrev {st : WalkState} {acc} (h : Inv g o skip roots st acc) :
    Inv g o skip roots (expandPrev o st) acc ∧ (expandPrev o st).prev = none := by
  unfold DG.expandPrev
  rcases hp : st.prev with _ | ⟨k, e⟩
  · exact ⟨h, hp⟩
  · obtain ⟨hk, hy, hs⟩ := h.prev_ok k e hp
    have hsucc : succOf g o skip k = succs o k e := by simp [succOf, hy, hs]
    -- first drop `prev`; the only obligation this creates is `done_succ k`, discharged by the push
    have h0 : Inv g o skip roots
        (DG.pushAll (succs o k e) { st with prev := none }) acc := by
      have hd : ∀ x, Done (DG.pushAll (succs o k e) { st with prev := none }) x ↔ Done st x :=
        fun x => done_pushAll _ _ x h.vis_sub
      have hmono : ∀ x, x ∈ st.seen → x ∈ (DG.pushAll (succs o k e) { st with prev := none }).seen :=
        fun x hx => (pushAll_seen _ _ x).mpr (Or.inl hx)
      obtain ⟨hnd, hsub⟩ := pushAll_visiting_nodup (succs o k e) { st with prev := none }
        h.vis_nodup h.vis_sub
      refine
        { vis_sub := hsub, vis_nodup := hnd, sound := ?_,
          roots_in := fun x hx => hmono x (h.roots_in x hx),
          imps_in := fun x hx => hmono x (h.imps_in x hx), done_push := ?_, done_succ := ?_,
          prev_ok := ?_, acc_iff := ?_, acc_nodup := h.acc_nodup }
      · intro x hx
        rcases (pushAll_seen _ _ x).mp hx with h1 | h1
        · exact h.sound x h1
        · exact Enq.succ (h.sound k hk.1) (by rw [hsucc]; exact h1)
      · intro x hx t ht
        exact hmono t (h.done_push x ((hd x).mp hx) t ht)
      · intro x hx _ t ht
        by_cases hxk : x = k
        · subst hxk
          rw [hsucc] at ht
          exact (pushAll_seen _ _ t).mpr (Or.inr ht)
        · apply hmono t
          apply h.done_succ x ((hd x).mp hx) _ t ht
          intro e' he'
          rw [hp] at he'
          cases he'
          exact hxk rfl
      · intro k' e' hp'
        simp at hp'
      · intro x e'
        rw [h.acc_iff x e', hd x]
    exact ⟨h0, by simp⟩

/-- popping the head of the queue -/
theorem Inv.pop {st : WalkState} {acc} {s : Spec} {rest : List Spec}
    (h : Inv g o skip roots st acc) (hp : st.prev = none) (hv : st.visiting = s :: rest) :
    let st3 := DG.pushAll (push1 g o s) { st with visiting := rest }
    (yieldOf g o s = none → Inv g o skip roots st3 acc) ∧
    (∀ e, yieldOf g o s = some e →
      Inv g o skip roots { st3 with prev := if skip s then none else some (s, e) } ((s, e) :: acc)) := by
  intro st3
  have hs_seen : s ∈ st.seen := h.vis_sub s (by rw [hv]; exact List.mem_cons_self)
  have hnd := h.vis_nodup
  rw [hv] at hnd
  have hs_rest : s ∉ rest := (List.nodup_cons.mp hnd).1
  have hrest_nd : rest.Nodup := (List.nodup_cons.mp hnd).2
  let st2 : WalkState := { st with visiting := rest }
  have hsub2 : ∀ x ∈ st2.visiting, x ∈ st2.seen := fun x hx =>
    h.vis_sub x (by rw [hv]; exact List.mem_cons_of_mem _ hx)
  have hd2 : ∀ x, Done st2 x ↔ (Done st x ∨ x = s) := by
    intro x
    simp only [Done, st2, hv, List.mem_cons, not_or]
    constructor
    · rintro ⟨h1, h2⟩
      by_cases hx : x = s
      · exact Or.inr hx
      · exact Or.inl ⟨h1, hx, h2⟩
    · rintro (⟨h1, _, h3⟩ | rfl)
      · exact ⟨h1, h3⟩
      · exact ⟨hs_seen, hs_rest⟩
  have hd3 : ∀ x, Done st3 x ↔ (Done st x ∨ x = s) := fun x =>
    (done_pushAll _ st2 x hsub2).trans (hd2 x)
  have hmono : ∀ x, x ∈ st.seen → x ∈ st3.seen := fun x hx => (pushAll_seen _ st2 x).mpr (Or.inl hx)
  obtain ⟨hnd3, hsub3⟩ := pushAll_visiting_nodup (push1 g o s) st2 hrest_nd hsub2
  have hprev3 : st3.prev = none := by simp [st3, hp]
  have hsound3 : ∀ x ∈ st3.seen, Enq g o skip roots x := by
    intro x hx
    rcases (pushAll_seen _ st2 x).mp hx with h1 | h1
    · exact h.sound x h1
    · exact Enq.typesDep (h.sound s hs_seen) h1
  have hpush3 : ∀ x, Done st3 x → ∀ t ∈ push1 g o x, t ∈ st3.seen := by
    intro x hx t ht
    rcases (hd3 x).mp hx with h1 | rfl
    · exact hmono t (h.done_push x h1 t ht)
    · exact (pushAll_seen _ st2 t).mpr (Or.inr ht)
  have hs_not_acc : s ∉ acc.map (·.1) := by
    intro hm
    obtain ⟨⟨x, e⟩, hmem, hx⟩ := List.mem_map.mp hm
    simp only at hx
    subst hx
    have := ((h.acc_iff x e).mp hmem).1.2
    exact this (by rw [hv]; exact List.mem_cons_self)
  constructor
  · intro hy
    refine
      { vis_sub := hsub3, vis_nodup := hnd3, sound := hsound3,
        roots_in := fun x hx => hmono x (h.roots_in x hx),
        imps_in := fun x hx => hmono x (h.imps_in x hx), done_push := hpush3, done_succ := ?_,
        prev_ok := ?_, acc_iff := ?_, acc_nodup := h.acc_nodup }
    · intro x hx _ t ht
      rcases (hd3 x).mp hx with h1 | rfl
      · exact hmono t (h.done_succ x h1 (by intro e; rw [hp]; simp) t ht)
      · simp [succOf, hy] at ht
    · intro k e hk
      rw [hprev3] at hk
      cases hk
    · intro x e
      rw [h.acc_iff x e, hd3 x]
      constructor
      · rintro ⟨h1, h2⟩; exact ⟨Or.inl h1, h2⟩
      · rintro ⟨h1 | rfl, h2⟩
        · exact ⟨h1, h2⟩
        · rw [hy] at h2; cases h2
  · intro e hy
    have hd4 : ∀ x, Done ({ st3 with prev := if skip s then none else some (s, e) } : WalkState) x
        ↔ Done st3 x := fun x => Iff.rfl
    refine
      { vis_sub := hsub3, vis_nodup := hnd3, sound := hsound3,
        roots_in := fun x hx => hmono x (h.roots_in x hx),
        imps_in := fun x hx => hmono x (h.imps_in x hx), done_push := hpush3, done_succ := ?_,
        prev_ok := ?_, acc_iff := ?_, acc_nodup := ?_ }
    · intro x hx hne t ht
      rcases (hd3 x).mp ((hd4 x).mp hx) with h1 | rfl
      · exact hmono t (h.done_succ x h1 (by intro e; rw [hp]; simp) t ht)
      · -- x = s : either skipped (no successors) or it is `prev` (excluded)
        by_cases hsk : skip x = true
        · simp [succOf, hy, hsk] at ht
        · exfalso
          apply hne e
          simp [hsk]
    · intro k e' hk
      by_cases hsk : skip s = true
      · simp [hsk] at hk
      · simp only [hsk, Bool.false_eq_true, if_false, Option.some.injEq, Prod.mk.injEq] at hk
        obtain ⟨rfl, rfl⟩ := hk
        refine ⟨(hd3 s).mpr (Or.inr rfl), hy, by simpa using hsk⟩
    · intro x e'
      simp only [List.mem_cons, Prod.mk.injEq]
      rw [h.acc_iff x e']
      constructor
      · rintro (⟨rfl, rfl⟩ | ⟨h1, h2⟩)
        · exact ⟨(hd3 x).mpr (Or.inr rfl), hy⟩
        · exact ⟨(hd3 x).mpr (Or.inl h1), h2⟩
      · rintro ⟨h1, h2⟩
        rcases (hd3 x).mp h1 with h3 | rfl
        · exact Or.inr ⟨h3, h2⟩
        · rw [hy] at h2
          cases h2
          exact Or.inl ⟨rfl, rfl⟩
    · simp only [List.map_cons]
      exact List.nodup_cons.mpr ⟨hs_not_acc, h.acc_nodup⟩

/-- at exhaustion the seen set is closed under the specification's rules -/
theorem Inv.complete {st : WalkState} {acc} (h : Inv g o skip roots st acc)
    (hp : st.prev = none) (hv : st.visiting = []) :
    ∀ x, Enq g o skip roots x → x ∈ st.seen := by
  have hdone : ∀ x, x ∈ st.seen → Done st x := fun x hx => ⟨hx, by rw [hv]; simp⟩
  intro x hx
  induction hx with
  | root hr => exact h.roots_in _ hr
  | imp hi => exact h.imps_in _ hi
  | typesDep _ ht ih => exact h.done_push _ (hdone _ ih) _ ht
  | succ _ ht ih => exact h.done_succ _ (hdone _ ih) (by intro e; rw [hp]; simp) _ ht

/-- **main lemma**: whatever `walkLoop` returns from a state satisfying the invariant is exactly
the specified set, each entry once. -/
theorem walkLoop_spec :
    ∀ (fuel : Nat) (st : WalkState) (acc out : List (Spec × Entry)),
      Inv g o skip roots st acc → walkLoop g o skip fuel st acc = some out →
      (∀ x e, (x, e) ∈ out ↔ (Enq g o skip roots x ∧ yieldOf g o x = some e)) ∧
      (out.map (·.1)).Nodup := by
  intro fuel
  induction fuel with
  | zero => intro st acc out _ h; simp [walkLoop] at h
  | succ fuel ih =>
    intro st acc out hinv hrun
    obtain ⟨h1, hp1⟩ := hinv.expandPrev
    unfold walkLoop at hrun
    simp only at hrun
    rcases hv : (expandPrev o st).visiting with _ | ⟨s, rest⟩
    · rw [hv] at hrun
      simp only [Option.some.injEq] at hrun
      subst hrun
      have hcomp := h1.complete hp1 hv
      constructor
      · intro x e
        rw [List.mem_reverse, h1.acc_iff x e]
        constructor
        · rintro ⟨hd, hy⟩; exact ⟨h1.sound x hd.1, hy⟩
        · rintro ⟨he, hy⟩; exact ⟨⟨hcomp x he, by rw [hv]; simp⟩, hy⟩
      · rw [List.map_reverse]
        exact (List.reverse_perm _).nodup_iff.mpr h1.acc_nodup
    · rw [hv] at hrun
      obtain ⟨hnone, hsome⟩ := h1.pop hp1 hv
      simp only [visit] at hrun
      rcases hy : (visitInfo g o s).2 with _ | e
      · rw [hy] at hrun
        exact ih _ _ _ (hnone hy) hrun
      · rw [hy] at hrun
        exact ih _ _ _ (hsome e hy) hrun

end
end DG
