import Proofs.BuildStep
/-! The whole `resolve_pending` loop: a finished build has no pending slot. -/
namespace DG.Build
open DG Tables

theorem good_drain (w : World) (o : Opts) : Good (drain w o) := by
  constructor
  · intro ex st h
    unfold drain
    split
    · exact h
    · split
      · apply (good_foldl _ (fun p => good_load' w o 0 _) st.deferred).inv ex
        exact h.of_same rfl rfl
      · split
        · apply (good_foldl _ (fun p => good_load' w o 0 _) st.dyn).inv ex
          exact h.of_same rfl rfl
        · exact h
  · intro st r hr
    unfold drain
    split
    · exact hr
    · split
      · exact (good_foldl _ (fun p => good_load' w o 0 _) st.deferred).mono _ r hr
      · split
        · exact (good_foldl _ (fun p => good_load' w o 0 _) st.dyn).mono _ r hr
        · exact hr

theorem runLoop_inv (w : World) (o : Opts) :
    ∀ (fuel : Nat) (st out : St), PendInv st → runLoop w o fuel st = some out →
      PendInv out ∧ quiescent out = true := by
  intro fuel
  induction fuel with
  | zero => intro st out _ h; simp [runLoop] at h
  | succ fuel ih =>
    intro st out hinv hrun
    unfold runLoop at hrun
    by_cases hq : quiescent st = true
    · simp only [hq, if_true, Option.some.injEq] at hrun
      subst hrun
      exact ⟨hinv, hq⟩
    · simp only [hq, Bool.false_eq_true, if_false] at hrun
      apply ih _ out _ hrun
      unfold iter
      apply (good_drain w o).inv none
      rcases hp : st.pending with _ | ⟨r, rest⟩
      · simp only [hp]
        exact hinv
      · simp only [hp]
        apply stepPending_inv
        intro s a hs
        rcases hinv s a hs with ⟨q, hqm, hqs⟩ | hex
        · rw [hp] at hqm
          rcases List.mem_cons.mp hqm with rfl | hqm
          · exact Or.inr (by rw [hqs])
          · exact Or.inl ⟨q, hqm, hqs⟩
        · cases hex

theorem build_init_inv (w : World) (o : Opts) (roots : List Spec) (imports : List (Spec × List Dep)) :
    PendInv ((imports.flatMap (·.2)).foldl (fun st (d : Dep) =>
      match d.type with
      | .ok s rng =>
        load w o 0 { spec := s, range := some rng, spRef := none, isAsset := false, inDyn := st.inDyn,
                     isRoot := st.isResolvedRoot s, attr := none } st
      | _ => st)
      (roots.foldl (fun st r =>
        load w o 0 { spec := r, range := none, spRef := none, isAsset := false, inDyn := st.inDyn,
                     isRoot := true, attr := none } st) ({ inDyn := o.isDynamic } : St))) := by
  have h0 : PendInv ({ inDyn := o.isDynamic } : St) := by
    intro s a hs
    simp [St.slot, List.lookup] at hs
  have h1 := (good_foldl (fun st r =>
        load w o 0 { spec := r, range := none, spRef := none, isAsset := false, inDyn := st.inDyn,
                     isRoot := true, attr := none } st) (fun r => good_load' w o 0 _) roots).inv none _ h0
  refine (good_foldl _ (fun d => ?_) (imports.flatMap (·.2))).inv none _ h1
  constructor
  · intro ex st h
    split
    · exact (good_load w o 0 _).inv ex st h
    · exact h
  · intro st r hr
    split
    · exact (good_load w o 0 _).mono st r hr
    · exact hr

/-- **a finished build leaves no entry unfinished** -/
theorem build_no_pending (w : World) (o : Opts) (roots : List Spec) (imports : List (Spec × List Dep))
    (fuel : Nat) (out : St) (h : build w o roots imports fuel = some out) :
    ∀ s a, out.slot s ≠ some (.pending a) := by
  unfold build at h
  simp only at h
  obtain ⟨hinv, hq⟩ := runLoop_inv w o fuel _ out (build_init_inv w o roots imports) h
  intro s a hs
  rcases hinv s a hs with ⟨r, hr, _⟩ | hex
  · simp only [quiescent, Bool.and_eq_true, List.isEmpty_iff] at hq
    rw [hq.1.1] at hr
    cases hr
  · cases hex

end DG.Build
