import DG.Trace
/-! The tracer's invariant: every processed request has been served, and what it asked for is
scheduled (processed or waiting).  At completion nothing waits, so everything asked for is served. -/
namespace DG.Trace

theorem mem_ins {α} [BEq α] [LawfulBEq α] (x : α) (l : List α) : x ∈ ins x l := by
  unfold ins; split
  · rename_i h; simpa using h
  · simp

theorem mem_ins_of_mem {α} [BEq α] [LawfulBEq α] (x y : α) (l : List α) (h : y ∈ l) : y ∈ ins x l := by
  unfold ins; split
  · exact h
  · simp [h]

theorem mem_insAll_of_mem {α} [BEq α] [LawfulBEq α] (xs : List α) (l : List α) (y : α) (h : y ∈ l) :
    y ∈ insAll xs l := by
  unfold insAll
  induction xs generalizing l with
  | nil => exact h
  | cons x r ih => exact ih _ (mem_ins_of_mem x y l h)

theorem mem_insAll {α} [BEq α] [LawfulBEq α] (xs : List α) (l : List α) (y : α) (h : y ∈ xs) :
    y ∈ insAll xs l := by
  unfold insAll
  induction xs generalizing l with
  | nil => simp at h
  | cons x r ih =>
    simp only [List.mem_cons] at h
    simp only [List.foldl_cons]
    rcases h with rfl | h
    · exact mem_insAll_of_mem r _ y (mem_ins y l)
    · exact ih _ h

/-- scheduled: processed or waiting -/
def Sched (s : State) (t : Task) : Prop := t ∈ s.done ∨ t ∈ s.work

/-- what processing a task must have established -/
def Served (w : World) (s : State) : Task → Prop
  | .decl m name =>
    ∀ d, findDecl (w.mod m) name = some d → (m, name) ∈ s.decls ∧ (∀ r ∈ d.refs, Sched s (.local m r)) ∧
      ∀ q ∈ d.qrefs, Sched s (.qual m q.1 q.2)
  | .local m l =>
    match findDecl (w.mod m) l with
    | some d => Sched s (.decl m d.name)
    | none =>
      match findImport (w.mod m) l with
      | some p => (m, l) ∈ s.imports ∧ Sched s (.reqName p.2.1 p.2.2)
      | none =>
        match findNsImport (w.mod m) l with
        | some p => (m, l) ∈ s.imports ∧ Sched s (.reqAll p.2 false)
        | none => True
  | .qual m l x =>
    match findNsImport (w.mod m) l with
    | some p => (m, l) ∈ s.imports ∧ Sched s (.reqName p.2 x)
    | none => Sched s (.local m l)
  | .reqName m n =>
    m ∈ s.modules ∧
    match ownExport (w.mod m) n with
    | some d => Sched s (.decl m d.name)
    | none =>
      match findLocalExport (w.mod m) n with
      | some p => (m, n) ∈ s.exportLocal ∧ Sched s (.local m p.2)
      | none =>
        match findFrom (w.mod m) n with
        | some p => (m, n) ∈ s.exportFrom ∧ Sched s (.reqName p.2.1 p.2.2)
        | none =>
          match findPath w m n with
          | some (edges, d) => (∀ e ∈ edges, e ∈ s.stars) ∧ Sched s (.reqName d n)
          | none => ∀ x ∈ (w.mod m).stars, (m, x) ∈ s.stars
  | .reqAll m wd =>
    m ∈ s.modules ∧
    (∀ d ∈ (w.mod m).decls, exportedFor wd d = true → Sched s (.decl m d.name)) ∧
    (∀ p ∈ (w.mod m).exportLocal, keepL wd p = true → (m, p.1) ∈ s.exportLocal ∧ Sched s (.local m p.2)) ∧
    (∀ p ∈ (w.mod m).exportFrom, keepF wd p = true → (m, p.1) ∈ s.exportFrom ∧ Sched s (.reqName p.2.1 p.2.2)) ∧
    (∀ x ∈ (w.mod m).stars, (m, x) ∈ s.stars ∧ Sched s (.reqAll x false))

/-- the state only grows -/
structure Le (s s' : State) : Prop where
  decls : ∀ x ∈ s.decls, x ∈ s'.decls
  imports : ∀ x ∈ s.imports, x ∈ s'.imports
  exportFrom : ∀ x ∈ s.exportFrom, x ∈ s'.exportFrom
  stars : ∀ x ∈ s.stars, x ∈ s'.stars
  exportLocal : ∀ x ∈ s.exportLocal, x ∈ s'.exportLocal
  modules : ∀ x ∈ s.modules, x ∈ s'.modules
  sched : ∀ t, Sched s t → Sched s' t

theorem Le.refl (s : State) : Le s s :=
  ⟨fun _ h => h, fun _ h => h, fun _ h => h, fun _ h => h, fun _ h => h, fun _ h => h, fun _ h => h⟩

theorem Le.trans {a b c : State} (h1 : Le a b) (h2 : Le b c) : Le a c :=
  ⟨fun x h => h2.decls x (h1.decls x h), fun x h => h2.imports x (h1.imports x h),
   fun x h => h2.exportFrom x (h1.exportFrom x h), fun x h => h2.stars x (h1.stars x h),
   fun x h => h2.exportLocal x (h1.exportLocal x h), fun x h => h2.modules x (h1.modules x h),
   fun t h => h2.sched t (h1.sched t h)⟩

theorem served_mono (w : World) {s s' : State} (h : Le s s') (t : Task) (hs : Served w s t) :
    Served w s' t := by
  cases t with
  | decl m name =>
    intro d hd
    obtain ⟨h1, h2, h3⟩ := hs d hd
    exact ⟨h.decls _ h1, fun r hr => h.sched _ (h2 r hr), fun q hq => h.sched _ (h3 q hq)⟩
  | «local» m l =>
    simp only [Served] at hs ⊢
    cases hd : findDecl (w.mod m) l with
    | some d => simp only [hd] at hs ⊢; exact h.sched _ hs
    | none =>
      simp only [hd] at hs ⊢
      cases hp : findImport (w.mod m) l with
      | some p => simp only [hp] at hs ⊢; exact ⟨h.imports _ hs.1, h.sched _ hs.2⟩
      | none =>
        simp only [hp] at hs ⊢
        cases hn : findNsImport (w.mod m) l with
        | some p => simp only [hn] at hs ⊢; exact ⟨h.imports _ hs.1, h.sched _ hs.2⟩
        | none => simp only [hn]
  | qual m l x =>
    simp only [Served] at hs ⊢
    cases hn : findNsImport (w.mod m) l with
    | some p => simp only [hn] at hs ⊢; exact ⟨h.imports _ hs.1, h.sched _ hs.2⟩
    | none => simp only [hn] at hs ⊢; exact h.sched _ hs
  | reqName m n =>
    simp only [Served] at hs ⊢
    refine ⟨h.modules _ hs.1, ?_⟩
    have hs2 := hs.2
    cases hd : ownExport (w.mod m) n with
    | some d => simp only [hd] at hs2 ⊢; exact h.sched _ hs2
    | none =>
      simp only [hd] at hs2 ⊢
      cases hp : findLocalExport (w.mod m) n with
      | some p => simp only [hp] at hs2 ⊢; exact ⟨h.exportLocal _ hs2.1, h.sched _ hs2.2⟩
      | none =>
        simp only [hp] at hs2 ⊢
        cases hq : findFrom (w.mod m) n with
        | some q => simp only [hq] at hs2 ⊢; exact ⟨h.exportFrom _ hs2.1, h.sched _ hs2.2⟩
        | none =>
          simp only [hq] at hs2 ⊢
          cases hsp : findPath w m n with
          | some pd =>
            obtain ⟨edges, d⟩ := pd
            simp only [hsp] at hs2 ⊢
            exact ⟨fun e he => h.stars _ (hs2.1 e he), h.sched _ hs2.2⟩
          | none => simp only [hsp] at hs2 ⊢; exact fun x hx => h.stars _ (hs2 x hx)
  | reqAll m wd =>
    obtain ⟨h0, h1, h2, h3, h4⟩ := hs
    exact ⟨h.modules _ h0, fun d hd he => h.sched _ (h1 d hd he),
      fun p hp hk => ⟨h.exportLocal _ (h2 p hp hk).1, h.sched _ (h2 p hp hk).2⟩,
      fun p hp hk => ⟨h.exportFrom _ (h3 p hp hk).1, h.sched _ (h3 p hp hk).2⟩,
      fun x hx => ⟨h.stars _ (h4 x hx).1, h.sched _ (h4 x hx).2⟩⟩

def Inv (w : World) (s : State) : Prop := ∀ t ∈ s.done, Served w s t

/-- taking a task off the worklist and recording it as processed loses nothing -/
theorem le_pop_done (s : State) (t : Task) (rest : List Task) (hw : s.work = t :: rest) :
    Le s { s with work := rest, done := s.done ++ [t] } := by
  refine ⟨fun _ h => h, fun _ h => h, fun _ h => h, fun _ h => h, fun _ h => h, fun _ h => h, ?_⟩
  intro u hu
  rcases hu with hu | hu
  · exact Or.inl (by simp [hu])
  · rw [hw] at hu
    simp only [List.mem_cons] at hu
    rcases hu with rfl | hu
    · exact Or.inl (by simp)
    · exact Or.inr hu

theorem le_pop_already (s : State) (t : Task) (rest : List Task) (hw : s.work = t :: rest) (hd : t ∈ s.done) :
    Le s { s with work := rest } := by
  refine ⟨fun _ h => h, fun _ h => h, fun _ h => h, fun _ h => h, fun _ h => h, fun _ h => h, ?_⟩
  intro u hu
  rcases hu with hu | hu
  · exact Or.inl hu
  · rw [hw] at hu
    simp only [List.mem_cons] at hu
    rcases hu with rfl | hu
    · exact Or.inl hd
    · exact Or.inr hu

/-- the four kinds of processing only add to the state … -/
theorem le_stepReqAll (w : World) (s : State) (m : Nat) (wd : Bool) : Le s (stepReqAll w s m wd) := by
  unfold stepReqAll
  refine ⟨fun _ h => h, fun _ h => h, fun x h => mem_insAll_of_mem _ _ x h, fun x h => mem_insAll_of_mem _ _ x h,
    fun x h => mem_insAll_of_mem _ _ x h, fun x h => mem_ins_of_mem _ x _ h, ?_⟩
  intro t ht
  rcases ht with ht | ht
  · exact Or.inl ht
  · exact Or.inr (by simp [ht])

theorem le_stepReqName (w : World) (s : State) (m n : Nat) : Le s (stepReqName w s m n) := by
  unfold stepReqName
  simp only
  split
  · exact ⟨fun _ h => h, fun _ h => h, fun _ h => h, fun _ h => h, fun _ h => h, fun x h => mem_ins_of_mem _ x _ h,
      fun t ht => ht.elim Or.inl fun h => Or.inr (by simp [h])⟩
  · split
    · exact ⟨fun _ h => h, fun _ h => h, fun _ h => h, fun _ h => h, fun x h => mem_ins_of_mem _ x _ h,
        fun x h => mem_ins_of_mem _ x _ h, fun t ht => ht.elim Or.inl fun h => Or.inr (by simp [h])⟩
    · split
      · exact ⟨fun _ h => h, fun _ h => h, fun x h => mem_ins_of_mem _ x _ h, fun _ h => h, fun _ h => h,
          fun x h => mem_ins_of_mem _ x _ h, fun t ht => ht.elim Or.inl fun h => Or.inr (by simp [h])⟩
      · split
        · exact ⟨fun _ h => h, fun _ h => h, fun _ h => h, fun x h => mem_insAll_of_mem _ _ x h, fun _ h => h,
            fun x h => mem_insAll_of_mem _ _ x (mem_ins_of_mem _ x _ h), fun t ht => ht.elim Or.inl fun h => Or.inr (by simp [h])⟩
        · exact ⟨fun _ h => h, fun _ h => h, fun _ h => h, fun x h => mem_insAll_of_mem _ _ x h, fun _ h => h,
            fun x h => mem_ins_of_mem _ x _ h, fun t ht => ht⟩

theorem le_stepLocal (w : World) (s : State) (m l : Nat) : Le s (stepLocal w s m l) := by
  unfold stepLocal
  simp only
  split
  · exact ⟨fun _ h => h, fun _ h => h, fun _ h => h, fun _ h => h, fun _ h => h, fun _ h => h,
      fun t ht => ht.elim Or.inl fun h => Or.inr (by simp [h])⟩
  · split
    · exact ⟨fun _ h => h, fun x h => mem_ins_of_mem _ x _ h, fun _ h => h, fun _ h => h, fun _ h => h, fun _ h => h,
        fun t ht => ht.elim Or.inl fun h => Or.inr (by simp [h])⟩
    · split
      · exact ⟨fun _ h => h, fun x h => mem_ins_of_mem _ x _ h, fun _ h => h, fun _ h => h, fun _ h => h, fun _ h => h,
          fun t ht => ht.elim Or.inl fun h => Or.inr (by simp [h])⟩
      · exact Le.refl _

theorem le_stepQual (w : World) (s : State) (m l x : Nat) : Le s (stepQual w s m l x) := by
  unfold stepQual
  simp only
  split
  · exact ⟨fun _ h => h, fun x h => mem_ins_of_mem _ x _ h, fun _ h => h, fun _ h => h, fun _ h => h, fun _ h => h,
      fun t ht => ht.elim Or.inl fun h => Or.inr (by simp [h])⟩
  · exact ⟨fun _ h => h, fun _ h => h, fun _ h => h, fun _ h => h, fun _ h => h, fun _ h => h,
      fun t ht => ht.elim Or.inl fun h => Or.inr (by simp [h])⟩

theorem le_stepDecl (w : World) (s : State) (m name : Nat) : Le s (stepDecl w s m name) := by
  unfold stepDecl
  simp only
  split
  · exact ⟨fun x h => mem_ins_of_mem _ x _ h, fun _ h => h, fun _ h => h, fun _ h => h, fun _ h => h, fun _ h => h,
      fun t ht => ht.elim Or.inl fun h => Or.inr (by simp [h])⟩
  · exact Le.refl _

/-- … and serve the task they process -/
theorem served_stepReqAll (w : World) (s : State) (m : Nat) (wd : Bool) :
    Served w (stepReqAll w s m wd) (.reqAll m wd) := by
  unfold stepReqAll Served
  refine ⟨mem_ins _ _, ?_, ?_, ?_, ?_⟩
  · intro d hd he
    exact Or.inr (by simp only [List.mem_append, List.mem_map, List.mem_filter]
                     exact Or.inl (Or.inl (Or.inl (Or.inr ⟨d, ⟨hd, he⟩, rfl⟩))))
  · intro p hp hk
    refine ⟨mem_insAll _ _ _ (List.mem_map.mpr ⟨p, List.mem_filter.mpr ⟨hp, hk⟩, rfl⟩), Or.inr ?_⟩
    simp only [List.mem_append, List.mem_map, List.mem_filter]
    exact Or.inl (Or.inl (Or.inr ⟨p, ⟨hp, hk⟩, rfl⟩))
  · intro p hp hk
    refine ⟨mem_insAll _ _ _ (List.mem_map.mpr ⟨p, List.mem_filter.mpr ⟨hp, hk⟩, rfl⟩), Or.inr ?_⟩
    simp only [List.mem_append, List.mem_map, List.mem_filter]
    exact Or.inl (Or.inr ⟨p, ⟨hp, hk⟩, rfl⟩)
  · intro x hx
    refine ⟨mem_insAll _ _ _ (List.mem_map.mpr ⟨x, hx, rfl⟩), Or.inr ?_⟩
    simp only [List.mem_append, List.mem_map]
    exact Or.inr ⟨x, hx, rfl⟩

theorem served_stepReqName (w : World) (s : State) (m n : Nat) :
    Served w (stepReqName w s m n) (.reqName m n) := by
  unfold stepReqName Served
  simp only
  split
  · rename_i d hd
    exact ⟨mem_ins _ _, by simp [hd, Sched]⟩
  · rename_i hd
    split
    · rename_i p hp
      exact ⟨mem_ins _ _, by simp only [hd, hp]; exact ⟨mem_ins _ _, Or.inr (by simp)⟩⟩
    · rename_i hp
      split
      · rename_i q hq
        exact ⟨mem_ins _ _, by simp only [hd, hp, hq]; exact ⟨mem_ins _ _, Or.inr (by simp)⟩⟩
      · rename_i hq
        split
        · rename_i edges d hsp
          exact ⟨mem_insAll_of_mem _ _ _ (mem_ins _ _), by
            simp only [hd, hp, hq, hsp]
            exact ⟨fun e he => mem_insAll _ _ _ he, Or.inr (by simp)⟩⟩
        · rename_i hsp
          refine ⟨mem_ins _ _, ?_⟩
          simp only [hd, hp, hq, hsp]
          intro x hx
          exact mem_insAll _ _ _ (List.mem_map.mpr ⟨x, hx, rfl⟩)

theorem served_stepLocal (w : World) (s : State) (m l : Nat) :
    Served w (stepLocal w s m l) (.local m l) := by
  unfold stepLocal Served
  simp only
  split
  · rename_i d hd; simp [hd, Sched]
  · rename_i hd
    split
    · rename_i p hp
      simp only [hd, hp]
      exact ⟨mem_ins _ _, Or.inr (by simp)⟩
    · rename_i hp
      split
      · rename_i q hq
        simp only [hd, hp, hq]
        exact ⟨mem_ins _ _, Or.inr (by simp)⟩
      · rename_i hq; simp [hd, hp, hq]

theorem served_stepQual (w : World) (s : State) (m l x : Nat) :
    Served w (stepQual w s m l x) (.qual m l x) := by
  unfold stepQual Served
  simp only
  split
  · rename_i p hp
    simp only [hp]
    exact ⟨mem_ins _ _, Or.inr (by simp)⟩
  · rename_i hp
    simp only [hp]
    exact Or.inr (by simp)

theorem served_stepDecl (w : World) (s : State) (m name : Nat) :
    Served w (stepDecl w s m name) (.decl m name) := by
  unfold stepDecl Served
  simp only
  intro d hd
  simp only [hd]
  exact ⟨mem_ins _ _,
    fun r hr => Or.inr (List.mem_append.mpr (Or.inl (List.mem_append.mpr (Or.inr (List.mem_map.mpr ⟨r, hr, rfl⟩))))),
    fun q hq => Or.inr (List.mem_append.mpr (Or.inr (List.mem_map.mpr ⟨q, hq, rfl⟩)))⟩

/-- one iteration of the loop keeps the invariant -/
theorem inv_step (w : World) (s : State) (t : Task) (rest : List Task) (hw : s.work = t :: rest)
    (hi : Inv w s) : Inv w (step w { s with work := rest } t) ∧ Le s (step w { s with work := rest } t) := by
  unfold step
  split
  · rename_i hc
    have hd : t ∈ s.done := by simpa using hc
    have hle := le_pop_already s t rest hw hd
    exact ⟨fun u hu => served_mono w hle u (hi u hu), hle⟩
  · have hle := le_pop_done s t rest hw
    -- the state after recording `t` as processed
    cases t with
    | reqAll m wd =>
      have h2 := le_stepReqAll w { s with work := rest, done := s.done ++ [Task.reqAll m wd] } m wd
      refine ⟨?_, hle.trans h2⟩
      intro u hu
      have hu' : u ∈ s.done ++ [Task.reqAll m wd] := by simpa [stepReqAll] using hu
      simp only [List.mem_append, List.mem_singleton] at hu'
      rcases hu' with hu' | rfl
      · exact served_mono w (hle.trans h2) u (hi u hu')
      · exact served_stepReqAll w _ m wd
    | reqName m n =>
      have h2 := le_stepReqName w { s with work := rest, done := s.done ++ [Task.reqName m n] } m n
      refine ⟨?_, hle.trans h2⟩
      intro u hu
      have hu' : u ∈ s.done ++ [Task.reqName m n] := by
        have : (stepReqName w { s with work := rest, done := s.done ++ [Task.reqName m n] } m n).done
            = s.done ++ [Task.reqName m n] := by
          unfold stepReqName; simp only; split <;> (try split) <;> (try split) <;> (try split) <;> rfl
        simpa [this] using hu
      simp only [List.mem_append, List.mem_singleton] at hu'
      rcases hu' with hu' | rfl
      · exact served_mono w (hle.trans h2) u (hi u hu')
      · exact served_stepReqName w _ m n
    | «local» m l =>
      have h2 := le_stepLocal w { s with work := rest, done := s.done ++ [Task.local m l] } m l
      refine ⟨?_, hle.trans h2⟩
      intro u hu
      have hu' : u ∈ s.done ++ [Task.local m l] := by
        have : (stepLocal w { s with work := rest, done := s.done ++ [Task.local m l] } m l).done
            = s.done ++ [Task.local m l] := by
          unfold stepLocal; simp only; split <;> (try split) <;> (try split) <;> rfl
        simpa [this] using hu
      simp only [List.mem_append, List.mem_singleton] at hu'
      rcases hu' with hu' | rfl
      · exact served_mono w (hle.trans h2) u (hi u hu')
      · exact served_stepLocal w _ m l
    | decl m name =>
      have h2 := le_stepDecl w { s with work := rest, done := s.done ++ [Task.decl m name] } m name
      refine ⟨?_, hle.trans h2⟩
      intro u hu
      have hu' : u ∈ s.done ++ [Task.decl m name] := by
        have : (stepDecl w { s with work := rest, done := s.done ++ [Task.decl m name] } m name).done
            = s.done ++ [Task.decl m name] := by
          unfold stepDecl; simp only; split <;> rfl
        simpa [this] using hu
      simp only [List.mem_append, List.mem_singleton] at hu'
      rcases hu' with hu' | rfl
      · exact served_mono w (hle.trans h2) u (hi u hu')
      · exact served_stepDecl w _ m name
    | qual m l x =>
      have h2 := le_stepQual w { s with work := rest, done := s.done ++ [Task.qual m l x] } m l x
      refine ⟨?_, hle.trans h2⟩
      intro u hu
      have hu' : u ∈ s.done ++ [Task.qual m l x] := by
        have : (stepQual w { s with work := rest, done := s.done ++ [Task.qual m l x] } m l x).done
            = s.done ++ [Task.qual m l x] := by
          unfold stepQual; simp only; split <;> rfl
        simpa [this] using hu
      simp only [List.mem_append, List.mem_singleton] at hu'
      rcases hu' with hu' | rfl
      · exact served_mono w (hle.trans h2) u (hi u hu')
      · exact served_stepQual w _ m l x

/-- **a completed run has served everything and nothing waits** -/
theorem run_inv (w : World) : ∀ (f : Nat) (s s' : State), Inv w s → run w f s = some s' →
    Inv w s' ∧ s'.work = [] ∧ Le s s' := by
  intro f
  induction f with
  | zero =>
    intro s s' hi h
    simp only [run] at h
    split at h
    · rename_i he
      simp only [Option.some.injEq] at h; subst h
      exact ⟨hi, by simpa using he, Le.refl _⟩
    · exact absurd h (by simp)
  | succ f ih =>
    intro s s' hi h
    simp only [run] at h
    split at h
    · rename_i hw
      simp only [Option.some.injEq] at h; subst h
      exact ⟨hi, hw, Le.refl _⟩
    · rename_i t rest hw
      obtain ⟨h1, h2⟩ := inv_step w s t rest hw hi
      obtain ⟨a, b, c⟩ := ih _ s' h1 h
      exact ⟨a, b, h2.trans c⟩

end DG.Trace
