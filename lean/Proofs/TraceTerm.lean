import DG.Trace
/-!
# The tracer terminates

Every task the tracer ever queues is drawn from a finite universe determined by the package
(`Univ`: module numbers × names), a task is processed at most once, and processing a task that was
processed before only shortens the queue.  Lexicographic descent on (unprocessed tasks of the
universe, queue length) gives: for every package and every set of entry points there is an amount
of fuel with which `run` finishes; more fuel never changes the result.
-/
namespace DG.Trace

structure Univ where
  mods : List Nat
  names : List Nat

def Univ.has (u : Univ) : Task → Prop
  | .reqAll m _ => m ∈ u.mods
  | .reqName m n => m ∈ u.mods ∧ n ∈ u.names
  | .local m l => m ∈ u.mods ∧ l ∈ u.names
  | .decl m n => m ∈ u.mods ∧ n ∈ u.names
  | .qual m l x => m ∈ u.mods ∧ l ∈ u.names ∧ x ∈ u.names

def Univ.tasks (u : Univ) : List Task :=
  u.mods.flatMap fun m =>
    [Task.reqAll m true, Task.reqAll m false] ++
      u.names.flatMap fun n => [Task.reqName m n, Task.local m n, Task.decl m n] ++ u.names.map fun x => Task.qual m n x

theorem Univ.mem_tasks (u : Univ) (t : Task) (h : u.has t) : t ∈ u.tasks := by
  unfold Univ.tasks
  cases t with
  | reqAll m wd =>
    refine List.mem_flatMap.mpr ⟨m, h, ?_⟩
    cases wd <;> simp
  | reqName m n =>
    refine List.mem_flatMap.mpr ⟨m, h.1, ?_⟩
    simp only [List.mem_append, List.mem_flatMap]
    exact Or.inr ⟨n, h.2, by simp⟩
  | «local» m n =>
    refine List.mem_flatMap.mpr ⟨m, h.1, ?_⟩
    simp only [List.mem_append, List.mem_flatMap]
    exact Or.inr ⟨n, h.2, by simp⟩
  | decl m n =>
    refine List.mem_flatMap.mpr ⟨m, h.1, ?_⟩
    simp only [List.mem_append, List.mem_flatMap]
    exact Or.inr ⟨n, h.2, by simp⟩
  | qual m l x =>
    refine List.mem_flatMap.mpr ⟨m, h.1, ?_⟩
    simp only [List.mem_append, List.mem_flatMap]
    exact Or.inr ⟨l, h.2.1, by simp [h.2.2]⟩

/-- the universe is closed under everything a module of it mentions -/
def ClosedU (w : World) (u : Univ) : Prop :=
  ∀ m ∈ u.mods,
    (∀ d ∈ (w.mod m).decls, d.name ∈ u.names ∧ (∀ r ∈ d.refs, r ∈ u.names) ∧
      ∀ q ∈ d.qrefs, q.1 ∈ u.names ∧ q.2 ∈ u.names) ∧
    (∀ p ∈ (w.mod m).imports, p.2.1 ∈ u.mods ∧ p.2.2 ∈ u.names) ∧
    (∀ p ∈ (w.mod m).exportFrom, p.2.1 ∈ u.mods ∧ p.2.2 ∈ u.names) ∧
    (∀ x ∈ (w.mod m).stars, x ∈ u.mods) ∧
    (∀ p ∈ (w.mod m).exportLocal, p.2 ∈ u.names) ∧
    (∀ p ∈ (w.mod m).nsImports, p.2 ∈ u.mods)

def WorkIn (u : Univ) (s : State) : Prop := ∀ t ∈ s.work, u.has t

theorem workIn_append {u : Univ} {s : State} (h : WorkIn u s) (extra : List Task) (he : ∀ t ∈ extra, u.has t)
    (s' : State) (hw : s'.work = s.work ++ extra) : WorkIn u s' := by
  intro t ht
  rw [hw] at ht
  rcases List.mem_append.mp ht with ht | ht
  · exact h t ht
  · exact he t ht

theorem find?_mem' {α} (p : α → Bool) (l : List α) (a : α) (h : l.find? p = some a) : a ∈ l :=
  List.mem_of_find?_eq_some h

theorem stepReqAll_work (w : World) (s : State) (m : Nat) (wd : Bool) :
    (stepReqAll w s m wd).work = s.work ++
      (((w.mod m).decls.filter (exportedFor wd)).map fun d => Task.decl m d.name) ++
      (((w.mod m).exportLocal.filter (keepL wd)).map fun p => Task.local m p.2) ++
      (((w.mod m).exportFrom.filter (keepF wd)).map fun p => Task.reqName p.2.1 p.2.2) ++
      (w.mod m).stars.map (fun x => Task.reqAll x false) := rfl

theorem stepReqAll_done (w : World) (s : State) (m : Nat) (wd : Bool) : (stepReqAll w s m wd).done = s.done := rfl

theorem workIn_stepReqAll (w : World) (u : Univ) (hu : ClosedU w u) (s : State) (m : Nat) (wd : Bool)
    (hm : m ∈ u.mods) (h : WorkIn u s) : WorkIn u (stepReqAll w s m wd) := by
  obtain ⟨hd, _, hf, hs, hl, _⟩ := hu m hm
  intro t ht
  rw [stepReqAll_work] at ht
  simp only [List.mem_append, List.mem_map, List.mem_filter] at ht
  rcases ht with (((ht | ⟨d, ⟨hdm, _⟩, rfl⟩) | ⟨p, ⟨hpm, _⟩, rfl⟩) | ⟨p, ⟨hpm, _⟩, rfl⟩) | ⟨x, hx, rfl⟩
  · exact h t ht
  · exact ⟨hm, (hd d hdm).1⟩
  · exact ⟨hm, hl p hpm⟩
  · exact hf p hpm
  · exact hs x hx

theorem foldl_inv {α β} (g : β → α → β) (P : β → Prop) : ∀ (l : List α) (b : β), P b →
    (∀ b a, a ∈ l → P b → P (g b a)) → P (l.foldl g b)
  | [], b, hb, _ => hb
  | a :: l, b, hb, hstep => by
    simp only [List.foldl]
    exact foldl_inv g P l (g b a) (hstep b a (by simp) hb) (fun b' a' ha' => hstep b' a' (List.mem_cons_of_mem _ ha'))

/-- the module at the end of a resolved path lies in the universe -/
theorem findName_mods (w : World) (u : Univ) (hu : ClosedU w u) : ∀ (f : Nat) (vis : List Nat) (x n : Nat),
    x ∈ u.mods → ∀ p d, (findName w f vis x n).2 = some (p, d) → d ∈ u.mods
  | 0, vis, x, n, _, p, d, h => by simp [findName] at h
  | f + 1, vis, x, n, hx, p, d, h => by
    unfold findName at h
    split at h
    · simp at h
    · split at h
      · simp only [Option.some.injEq, Prod.mk.injEq] at h
        obtain ⟨_, rfl⟩ := h
        exact hx
      · have hstars := (hu x hx).2.2.2.1
        refine foldl_inv _ (fun (acc : List Nat × Option (List (Nat × Nat) × Nat)) => ∀ p d, acc.2 = some (p, d) → d ∈ u.mods) _ _ ?_ ?_ p d h
        · intro p d hp; simp at hp
        · intro acc s hs hacc p d hp
          cases ha : acc.2 with
          | some r =>
            simp only [ha] at hp
            exact hacc p d (by rw [ha]; exact hp)
          | none =>
            simp only [ha] at hp
            cases hr : (findName w f acc.1 s n).2 with
            | none => simp [hr] at hp
            | some pd =>
              simp only [hr, Option.map_some, Option.some.injEq, Prod.mk.injEq] at hp
              obtain ⟨_, rfl⟩ := hp
              exact findName_mods w u hu f acc.1 s n (hstars s hs) pd.1 pd.2 (by rw [hr])

theorem stepReqName_done (w : World) (s : State) (m n : Nat) : (stepReqName w s m n).done = s.done := by
  unfold stepReqName
  simp only
  split
  · rfl
  · split
    · rfl
    · split
      · rfl
      · split <;> rfl

theorem workIn_stepReqName (w : World) (u : Univ) (hu : ClosedU w u) (s : State) (m n : Nat)
    (hm : m ∈ u.mods) (hn : n ∈ u.names) (h : WorkIn u s) : WorkIn u (stepReqName w s m n) := by
  obtain ⟨hd, _, hf, hs, hl, _⟩ := hu m hm
  unfold stepReqName
  simp only
  split
  · rename_i d hfd
    refine workIn_append h [.decl m d.name] ?_ _ rfl
    intro t ht
    simp only [List.mem_singleton] at ht
    subst ht
    exact ⟨hm, (hd d (find?_mem' _ _ _ hfd)).1⟩
  · split
    · rename_i p hfp
      refine workIn_append h [.local m p.2] ?_ _ rfl
      intro t ht
      simp only [List.mem_singleton] at ht
      subst ht
      exact ⟨hm, hl p (find?_mem' _ _ _ hfp)⟩
    · split
      · rename_i p hfp
        refine workIn_append h [.reqName p.2.1 p.2.2] ?_ _ rfl
        intro t ht
        simp only [List.mem_singleton] at ht
        subst ht
        exact hf p (find?_mem' _ _ _ hfp)
      · split
        · rename_i edges d hsp
          refine workIn_append h [.reqName d n] ?_ _ rfl
          intro t ht
          simp only [List.mem_singleton] at ht
          subst ht
          have hd' : d ∈ u.mods := by
            unfold findPath at hsp
            split at hsp
            · cases hsp
            · exact findName_mods w u hu _ _ m n hm edges d hsp
          exact ⟨hd', hn⟩
        · exact h

theorem stepLocal_done (w : World) (s : State) (m l : Nat) : (stepLocal w s m l).done = s.done := by
  unfold stepLocal
  simp only
  split
  · rfl
  · split
    · rfl
    · split <;> rfl

theorem stepQual_done (w : World) (s : State) (m l x : Nat) : (stepQual w s m l x).done = s.done := by
  unfold stepQual
  simp only
  split <;> rfl

theorem workIn_stepQual (w : World) (u : Univ) (hu : ClosedU w u) (s : State) (m l x : Nat)
    (hm : m ∈ u.mods) (hl : l ∈ u.names) (hx : x ∈ u.names) (h : WorkIn u s) : WorkIn u (stepQual w s m l x) := by
  obtain ⟨_, _, _, _, _, hns⟩ := hu m hm
  unfold stepQual
  simp only
  split
  · rename_i p hfp
    refine workIn_append h [.reqName p.2 x] ?_ _ rfl
    intro t ht
    simp only [List.mem_singleton] at ht
    subst ht
    exact ⟨hns p (find?_mem' _ _ _ hfp), hx⟩
  · refine workIn_append h [.local m l] ?_ _ rfl
    intro t ht
    simp only [List.mem_singleton] at ht
    subst ht
    exact ⟨hm, hl⟩

theorem workIn_stepLocal (w : World) (u : Univ) (hu : ClosedU w u) (s : State) (m l : Nat)
    (hm : m ∈ u.mods) (h : WorkIn u s) : WorkIn u (stepLocal w s m l) := by
  obtain ⟨hd, hi, _, _, _, hns⟩ := hu m hm
  unfold stepLocal
  simp only
  split
  · rename_i d hfd
    refine workIn_append h [.decl m d.name] ?_ _ rfl
    intro t ht
    simp only [List.mem_singleton] at ht
    subst ht
    exact ⟨hm, (hd d (find?_mem' _ _ _ hfd)).1⟩
  · split
    · rename_i p hfp
      refine workIn_append h [.reqName p.2.1 p.2.2] ?_ _ rfl
      intro t ht
      simp only [List.mem_singleton] at ht
      subst ht
      exact hi p (find?_mem' _ _ _ hfp)
    · split
      · rename_i p hfp
        refine workIn_append h [.reqAll p.2 false] ?_ _ rfl
        intro t ht
        simp only [List.mem_singleton] at ht
        subst ht
        exact hns p (find?_mem' _ _ _ hfp)
      · exact h

theorem stepDecl_done (w : World) (s : State) (m n : Nat) : (stepDecl w s m n).done = s.done := by
  unfold stepDecl
  simp only
  split <;> rfl

theorem workIn_stepDecl (w : World) (u : Univ) (hu : ClosedU w u) (s : State) (m n : Nat)
    (hm : m ∈ u.mods) (h : WorkIn u s) : WorkIn u (stepDecl w s m n) := by
  obtain ⟨hd, _, _, _, _, _⟩ := hu m hm
  unfold stepDecl
  simp only
  split
  · rename_i d hfd
    refine workIn_append h ((d.refs.map fun r => Task.local m r) ++ d.qrefs.map fun q => Task.qual m q.1 q.2) ?_ _
      (by simp [List.append_assoc])
    intro t ht
    simp only [List.mem_append, List.mem_map] at ht
    rcases ht with ⟨r, hr, rfl⟩ | ⟨q, hq, rfl⟩
    · exact ⟨hm, (hd d (find?_mem' _ _ _ hfd)).2.1 r hr⟩
    · exact ⟨hm, (hd d (find?_mem' _ _ _ hfd)).2.2 q hq⟩
  · exact h

/-- a step keeps the queue inside the universe … -/
theorem workIn_step (w : World) (u : Univ) (hu : ClosedU w u) (s : State) (t : Task) (ht : u.has t)
    (h : WorkIn u s) : WorkIn u (step w s t) := by
  unfold step
  split
  · exact h
  · have h' : WorkIn u { s with done := s.done ++ [t] } := h
    cases t with
    | reqAll m wd => exact workIn_stepReqAll w u hu _ m wd ht h'
    | reqName m n => exact workIn_stepReqName w u hu _ m n ht.1 ht.2 h'
    | «local» m l => exact workIn_stepLocal w u hu _ m l ht.1 h'
    | decl m n => exact workIn_stepDecl w u hu _ m n ht.1 h'
    | qual m l x => exact workIn_stepQual w u hu _ m l x ht.1 ht.2.1 ht.2.2 h'

/-- … and marks exactly the task as processed -/
theorem step_done (w : World) (s : State) (t : Task) :
    (step w s t).done = if s.done.contains t then s.done else s.done ++ [t] := by
  unfold step
  split
  · rfl
  · cases t with
    | reqAll m wd => exact stepReqAll_done w _ m wd
    | reqName m n => exact stepReqName_done w _ m n
    | «local» m l => exact stepLocal_done w _ m l
    | decl m n => exact stepDecl_done w _ m n
    | qual m l x => exact stepQual_done w _ m l x

/-- tasks of the universe not processed yet -/
def todo (u : Univ) (done : List Task) : Nat := (u.tasks.filter fun t => !done.contains t).length

theorem filter_length_lt {α} (l : List α) (p q : α → Bool) (hpq : ∀ a, q a = true → p a = true)
    (a : α) (ha : a ∈ l) (hp : p a = true) (hq : q a = false) : (l.filter q).length < (l.filter p).length := by
  induction l with
  | nil => cases ha
  | cons b l ih =>
    have hle : (l.filter q).length ≤ (l.filter p).length := by
      clear ih ha
      induction l with
      | nil => simp
      | cons c l ih =>
        simp only [List.filter_cons]
        by_cases hqc : q c = true
        · simp only [hqc, hpq c hqc, if_true, List.length_cons]; omega
        · simp only [hqc, Bool.false_eq_true, if_false]
          split
          · simp only [List.length_cons]; omega
          · exact ih
    rcases List.mem_cons.mp ha with rfl | ha
    · simp only [List.filter_cons, hp, hq, if_true, Bool.false_eq_true, if_false, List.length_cons]
      omega
    · have := ih ha
      simp only [List.filter_cons]
      by_cases hqb : q b = true
      · simp only [hqb, hpq b hqb, if_true, List.length_cons]; omega
      · simp only [hqb, Bool.false_eq_true, if_false]
        split
        · simp only [List.length_cons]; omega
        · exact this

theorem todo_lt (u : Univ) (done : List Task) (t : Task) (ht : u.has t) (hn : done.contains t = false) :
    todo u (done ++ [t]) < todo u done := by
  unfold todo
  apply filter_length_lt u.tasks _ _ _ t (u.mem_tasks t ht)
  · show (!done.contains t) = true
    rw [hn]; rfl
  · simp
  · intro a ha
    simp at ha ⊢
    exact ha.1

theorem step_of_done (w : World) (s : State) (t : Task) (h : s.done.contains t = true) : step w s t = s := by
  unfold step
  rw [if_pos h]

/-- **termination**: inside a closed universe the work list is exhausted with some amount of fuel -/
theorem run_terminates (w : World) (u : Univ) (hu : ClosedU w u) :
    ∀ (n : Nat) (s : State), todo u s.done ≤ n → WorkIn u s → ∃ fuel r, run w fuel s = some r := by
  intro n
  induction n with
  | zero =>
    intro s hn
    -- nothing of the universe is left: every queued task was processed before
    generalize hk : s.work.length = k
    induction k generalizing s with
    | zero =>
      intro _
      refine ⟨0, s, ?_⟩
      have : s.work = [] := List.length_eq_zero_iff.mp hk
      simp [run, this]
    | succ k ih =>
      intro hw
      rcases hwk : s.work with _ | ⟨t, rest⟩
      · rw [hwk] at hk; cases hk
      · have ht : u.has t := hw t (by rw [hwk]; simp)
        have hc : s.done.contains t = true := by
          rcases hcc : s.done.contains t with _ | _
          · have := todo_lt u s.done t ht hcc
            omega
          · rfl
        have hstep : step w { s with work := rest } t = { s with work := rest } := step_of_done w _ t hc
        obtain ⟨fuel, r, hr⟩ := ih { s with work := rest } hn (by simp [hwk] at hk; simpa using hk)
          (fun x hx => hw x (by rw [hwk]; exact List.mem_cons_of_mem _ hx))
        exact ⟨fuel + 1, r, by simp only [run, hwk, hstep]; exact hr⟩
  | succ n ihn =>
    intro s hn
    generalize hk : s.work.length = k
    induction k generalizing s with
    | zero =>
      intro _
      refine ⟨0, s, ?_⟩
      have : s.work = [] := List.length_eq_zero_iff.mp hk
      simp [run, this]
    | succ k ih =>
      intro hw
      rcases hwk : s.work with _ | ⟨t, rest⟩
      · rw [hwk] at hk; cases hk
      · have ht : u.has t := hw t (by rw [hwk]; simp)
        have hw0 : WorkIn u { s with work := rest } :=
          fun x hx => hw x (by rw [hwk]; exact List.mem_cons_of_mem _ hx)
        rcases hcc : s.done.contains t with _ | _
        · -- a new task: the universe shrinks
          have hlt := todo_lt u s.done t ht hcc
          have hd : (step w { s with work := rest } t).done = s.done ++ [t] := by
            rw [step_done]
            show (if s.done.contains t = true then s.done else s.done ++ [t]) = s.done ++ [t]
            rw [hcc]; rfl
          obtain ⟨fuel, r, hr⟩ := ihn (step w { s with work := rest } t) (by rw [hd]; omega)
            (workIn_step w u hu _ t ht hw0)
          exact ⟨fuel + 1, r, by simp only [run, hwk]; exact hr⟩
        · have hstep : step w { s with work := rest } t = { s with work := rest } := step_of_done w _ t hcc
          obtain ⟨fuel, r, hr⟩ := ih { s with work := rest } hn (by simp [hwk] at hk; simpa using hk) hw0
          exact ⟨fuel + 1, r, by simp only [run, hwk, hstep]; exact hr⟩

/-- more fuel never changes the result -/
theorem run_fuel_mono (w : World) : ∀ (fuel : Nat) (s r : State), run w fuel s = some r → run w (fuel + 1) s = some r := by
  intro fuel
  induction fuel with
  | zero =>
    intro s r h
    rw [run] at h
    split at h
    · rename_i he
      have hw : s.work = [] := by simpa using he
      rw [run, hw]
      exact h
    · cases h
  | succ fuel ih =>
    intro s r h
    rcases hw : s.work with _ | ⟨t, rest⟩
    · simp only [run, hw] at h ⊢; exact h
    · simp only [run, hw] at h ⊢; exact ih _ r h

/-! ## a closed universe exists for every package -/

def modNums (md : Mod) : List Nat :=
  md.imports.map (·.2.1) ++ md.exportFrom.map (·.2.1) ++ md.stars ++ md.nsImports.map (·.2)

def modNames (md : Mod) : List Nat :=
  md.decls.flatMap (fun d => d.name :: d.refs ++ d.qrefs.flatMap fun q => [q.1, q.2]) ++ md.imports.map (·.2.2) ++ md.exportFrom.map (·.2.2) ++
    md.exportLocal.map (·.2)

/-- every module number and every name the package mentions -/
def univOf (w : World) (entries : List Nat) : Univ :=
  { mods := entries ++ List.range w.length ++ w.flatMap modNums,
    names := 0 :: w.flatMap modNames }

theorem mod_mem_or_empty (w : World) (m : Nat) :
    w.mod m ∈ w ∨ w.mod m = { decls := [], imports := [], exportFrom := [], stars := [], exportLocal := [], nsImports := [] } := by
  unfold World.mod
  by_cases h : m < w.length
  · left
    simp [List.getD, List.getElem?_eq_getElem h]
  · right
    simp [List.getD, List.getElem?_eq_none (by omega : w.length ≤ m)]

theorem closed_univOf (w : World) (entries : List Nat) : ClosedU w (univOf w entries) := by
  intro m _
  rcases mod_mem_or_empty w m with hmem | hempty
  · have hnum : ∀ x ∈ modNums (w.mod m), x ∈ (univOf w entries).mods := by
      intro x hx
      simp only [univOf, List.mem_append, List.mem_flatMap]
      exact Or.inr ⟨w.mod m, hmem, hx⟩
    have hname : ∀ x ∈ modNames (w.mod m), x ∈ (univOf w entries).names := by
      intro x hx
      simp only [univOf, List.mem_cons, List.mem_flatMap]
      exact Or.inr ⟨w.mod m, hmem, hx⟩
    refine ⟨?_, ?_, ?_, ?_, ?_, ?_⟩
    · intro d hd
      refine ⟨?_, ?_, ?_⟩
      · apply hname
        simp only [modNames, List.mem_append, List.mem_flatMap]
        exact Or.inl (Or.inl (Or.inl ⟨d, hd, by simp⟩))
      · intro r hr
        apply hname
        simp only [modNames, List.mem_append, List.mem_flatMap]
        exact Or.inl (Or.inl (Or.inl ⟨d, hd, by simp [hr]⟩))
      · intro q hq
        constructor
        · apply hname
          simp only [modNames, List.mem_append, List.mem_flatMap]
          exact Or.inl (Or.inl (Or.inl ⟨d, hd, Or.inr ⟨q, hq, List.mem_cons_self⟩⟩))
        · apply hname
          simp only [modNames, List.mem_append, List.mem_flatMap]
          exact Or.inl (Or.inl (Or.inl ⟨d, hd, Or.inr ⟨q, hq, List.mem_cons_of_mem _ List.mem_cons_self⟩⟩))
    · intro p hp
      constructor
      · apply hnum
        simp only [modNums, List.mem_append, List.mem_map]
        exact Or.inl (Or.inl (Or.inl ⟨p, hp, rfl⟩))
      · apply hname
        simp only [modNames, List.mem_append, List.mem_map]
        exact Or.inl (Or.inl (Or.inr ⟨p, hp, rfl⟩))
    · intro p hp
      constructor
      · apply hnum
        simp only [modNums, List.mem_append, List.mem_map]
        exact Or.inl (Or.inl (Or.inr ⟨p, hp, rfl⟩))
      · apply hname
        simp only [modNames, List.mem_append, List.mem_map]
        exact Or.inl (Or.inr ⟨p, hp, rfl⟩)
    · intro x hx
      apply hnum
      simp only [modNums, List.mem_append]
      exact Or.inl (Or.inr hx)
    · intro p hp
      apply hname
      simp only [modNames, List.mem_append, List.mem_map]
      exact Or.inr ⟨p, hp, rfl⟩
    · intro p hp
      apply hnum
      simp only [modNums, List.mem_append, List.mem_map]
      exact Or.inr ⟨p, hp, rfl⟩
  · rw [hempty]
    refine ⟨?_, ?_, ?_, ?_, ?_, ?_⟩ <;> intro x hx <;> cases hx

/-- **the tracer terminates on every package from every set of entry points** -/
theorem trace_terminates (w : World) (entries : List Nat) : ∃ fuel r, trace w entries fuel = some r := by
  unfold trace
  apply run_terminates w (univOf w entries) (closed_univOf w entries) _ _ (Nat.le_refl _)
  intro t ht
  simp only [List.mem_map] at ht
  obtain ⟨m, hm, rfl⟩ := ht
  show m ∈ (univOf w entries).mods
  simp only [univOf, List.mem_append]
  exact Or.inl (Or.inl hm)

end DG.Trace

namespace DG.Trace

/-- a chain of `export *` edges from `x` to `d` -/
def IsStarPath (w : World) : Nat → List (Nat × Nat) → Nat → Prop
  | x, [], d => x = d
  | x, (a, b) :: rest, d => a = x ∧ b ∈ (w.mod x).stars ∧ IsStarPath w b rest d

/-- **what a resolved path is**: a chain of `export *` edges from the asking module to a module
that has the name as its own -/
theorem findName_spec (w : World) : ∀ (f : Nat) (vis : List Nat) (x n : Nat) (p : List (Nat × Nat)) (d : Nat),
    (findName w f vis x n).2 = some (p, d) → IsStarPath w x p d ∧ ownsName (w.mod d) n = true
  | 0, vis, x, n, p, d, h => by simp [findName] at h
  | f + 1, vis, x, n, p, d, h => by
    unfold findName at h
    split at h
    · simp at h
    · split at h
      · rename_i hown
        simp only [Option.some.injEq, Prod.mk.injEq] at h
        obtain ⟨rfl, rfl⟩ := h
        exact ⟨rfl, hown⟩
      · refine foldl_inv _ (fun (acc : List Nat × Option (List (Nat × Nat) × Nat)) =>
          ∀ p d, acc.2 = some (p, d) → IsStarPath w x p d ∧ ownsName (w.mod d) n = true) _ _ ?_ ?_ p d h
        · intro p d hp; simp at hp
        · intro acc s hs hacc p d hp
          cases ha : acc.2 with
          | some r =>
            simp only [ha] at hp
            exact hacc p d (by rw [ha]; exact hp)
          | none =>
            simp only [ha] at hp
            cases hr : (findName w f acc.1 s n).2 with
            | none => simp [hr] at hp
            | some pd =>
              simp only [hr, Option.map_some, Option.some.injEq, Prod.mk.injEq] at hp
              obtain ⟨rfl, rfl⟩ := hp
              obtain ⟨h1, h2⟩ := findName_spec w f acc.1 s n pd.1 pd.2 (by rw [hr])
              exact ⟨⟨rfl, hs, h1⟩, h2⟩

theorem findPath_spec (w : World) (m n : Nat) (p : List (Nat × Nat)) (d : Nat) (h : findPath w m n = some (p, d)) :
    n ≠ 0 ∧ IsStarPath w m p d ∧ ownsName (w.mod d) n = true := by
  unfold findPath at h
  split at h
  · cases h
  · rename_i hn
    exact ⟨hn, findName_spec w _ _ m n p d h⟩

end DG.Trace
