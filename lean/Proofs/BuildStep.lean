import Proofs.BuildInv
/-! One iteration of `resolve_pending` keeps "every pending slot has a queued request". -/
namespace DG.Build
open DG Tables

theorem slot_logCall (st : St) (r : Req) (b : Bool) (s : Spec) : (logCall st r b).slot s = st.slot s := rfl
@[simp] theorem pending_logCall (st : St) (r : Req) (b : Bool) : (logCall st r b).pending = st.pending := rfl

@[simp] theorem pending_dropPending (st : St) (a : Spec) : (dropPending st a).pending = st.pending := by
  unfold dropPending; split <;> rfl

@[simp] theorem pending_recordRedirect (st : St) (a b : Spec) : (recordRedirect st a b).pending = st.pending := by
  unfold recordRedirect; split <;> rfl

theorem slots_recordRedirect (st : St) (a b : Spec) : (recordRedirect st a b).slots = st.slots := by
  unfold recordRedirect; split <;> rfl

@[simp] theorem pending_checkSpecifier (st : St) (a b : Spec) :
    (checkSpecifier st a b).pending = st.pending := by
  unfold checkSpecifier; split <;> simp

/-- after `dropPending` there is no pending slot at `req`, other slots are as before -/
theorem slot_dropPending (st : St) (req s : Spec) (a : Bool)
    (h : (dropPending st req).slot s = some (.pending a)) :
    st.slot s = some (.pending a) ∧ s ≠ req := by
  unfold dropPending at h
  split at h
  · have : (erase st.slots req).lookup s = some (.pending a) := h
    rw [lookup_erase] at this
    split at this
    · cases this
    · rename_i hne; exact ⟨this, hne⟩
  · rename_i hnp
    refine ⟨h, ?_⟩
    intro hs
    subst hs
    exact hnp a h

/-- `check_specifier` discharges the exception when the answer names a different specifier -/
theorem checkSpecifier_ne (st : St) (req tgt : Spec) (hne : req ≠ tgt) (h : PendInvEx (some req) st) :
    PendInv (checkSpecifier st req tgt) := by
  unfold checkSpecifier
  have : (req == tgt) = false := by simpa using hne
  simp only [this, Bool.false_eq_true, if_false]
  intro s a hs
  have hs1 : (dropPending st req).slot s = some (.pending a) := by
    simpa [St.slot, slots_recordRedirect] using hs
  obtain ⟨h1, h2⟩ := slot_dropPending st req s a hs1
  rcases h s a h1 with ⟨r, hr, hrs⟩ | hex
  · exact Or.inl ⟨r, by simpa using hr, hrs⟩
  · cases hex; exact absurd rfl h2

theorem checkSpecifier_eq (st : St) (req : Spec) : checkSpecifier st req req = st := by
  simp [checkSpecifier]

theorem PendInvEx.markRoot {ex : Option Spec} {st : St} (h : PendInvEx ex st) (b : Bool) (s : Spec) :
    PendInvEx ex (markRoot st b s) := by
  unfold Build.markRoot St.addResolvedRoot
  split
  · split
    · exact h
    · exact h.of_same rfl rfl
  · exact h

theorem PendInvEx.weaken {st : St} (h : PendInv st) (ex : Option Spec) : PendInvEx ex st := by
  intro s a hs
  rcases h s a hs with hq | hex
  · exact Or.inl hq
  · cases hex

theorem moduleOutcome_not_redirect (w : World) (o : Opts) (r : Req) (f to : Spec) :
    moduleOutcome w o r f ≠ .redirect to := by
  unfold moduleOutcome
  simp only
  split <;> (intro h; cases h)

theorem moduleOutcome_module_cls (w : World) (o : Opts) (r : Req) (f f' : Spec) (cls : Class)
    (h : moduleOutcome w o r f = .module f' cls) : ∀ k ref, cls ≠ .err k ref := by
  unfold moduleOutcome at h
  simp only at h
  split at h
  · cases h
  · rename_i hcls
    simp only [Outcome.module.injEq] at h
    obtain ⟨_, rfl⟩ := h
    intro k ref heq
    exact hcls k ref heq

theorem tryLoad_redirect_ne (w : World) (o : Opts) (r : Req) (to : Spec)
    (h : tryLoad w o r = .redirect to) : to ≠ r.spec := by
  unfold tryLoad tryLoad' at h
  simp only at h
  split at h
  · simp only at h
    split at h
    · cases h
    · split at h
      · cases h
      · rename_i hc
        simp only [Outcome.redirect.injEq] at h
        subst h
        intro heq
        apply hc
        simp [heq]
  · cases h
  · cases h
  · simp only at h; split at h <;> cases h
  · simp only at h
    split at h
    · cases h
    · exact absurd h (moduleOutcome_not_redirect w o r _ to)
  · split at h
    · simp only at h
      split at h
      · cases h
      · exact absurd h (moduleOutcome_not_redirect w o r _ to)
    · simp only at h; split at h <;> cases h
    · cases h

theorem tryLoad_module_cls (w : World) (o : Opts) (r : Req) (f : Spec) (cls : Class)
    (h : tryLoad w o r = .module f cls) : ∀ k ref, cls ≠ .err k ref := by
  unfold tryLoad tryLoad' at h
  simp only at h
  split at h
  · simp only at h
    split at h
    · cases h
    · split at h <;> cases h
  · cases h
  · cases h
  · simp only at h; split at h <;> cases h
  · simp only at h
    split at h
    · cases h
    · exact moduleOutcome_module_cls w o r _ f cls h
  · split at h
    · simp only at h
      split at h
      · cases h
      · exact moduleOutcome_module_cls w o r _ f cls h
    · simp only at h; split at h <;> cases h
    · cases h

/-- settle the slot at `tgt` with a non-pending value: the exception (if `tgt` is the request
itself) is discharged -/
theorem settle (st : St) (req tgt : Spec) (sl : BSlot) (hsl : ∀ a, sl ≠ .pending a)
    (h : PendInvEx (if req = tgt then some req else none) st) : PendInv (st.setSlot tgt sl) := by
  intro s a hs
  rw [slot_setSlot] at hs
  split at hs
  · cases hs; exact absurd rfl (hsl a)
  · rename_i hne
    rcases h s a hs with hq | hex
    · exact Or.inl hq
    · split at hex
      · rename_i heq
        cases hex
        exact absurd heq hne
      · cases hex

/-- the invariant after `check_specifier`, whichever specifier the answer names -/
theorem checkSpecifier_ex (st : St) (req tgt : Spec) (h : PendInvEx (some req) st) :
    PendInvEx (if req = tgt then some req else none) (checkSpecifier st req tgt) := by
  by_cases heq : req = tgt
  · subst heq
    simp only [if_true, checkSpecifier_eq]
    exact h
  · simp only [heq, if_false]
    exact checkSpecifier_ne st req tgt heq h

theorem PendInvEx.logRequest {ex : Option Spec} {st : St} (h : PendInvEx ex st) (w : World) (o : Opts) (r : Req) :
    PendInvEx ex (logRequest w o r st) := by
  unfold Build.logRequest
  simp only
  split
  · exact fun s a hs => h s a hs
  · exact fun s a hs => h s a hs

@[simp] theorem pending_logRequest (w : World) (o : Opts) (r : Req) (st : St) :
    (logRequest w o r st).pending = st.pending := by
  unfold logRequest
  simp only
  split <;> rfl

theorem PendInvEx.recordChecksum {ex : Option Spec} {st : St} (h : PendInvEx ex st) (w : World) (cls : Class) (f : Spec)
    (hash : Option Nat) : PendInvEx ex (recordChecksum w cls f hash st) := by
  unfold Build.recordChecksum
  split
  · exact h.of_same rfl rfl
  · exact h

@[simp] theorem pending_recordChecksum (w : World) (cls : Class) (f : Spec) (hash : Option Nat) (st : St) :
    (recordChecksum w cls f hash st).pending = st.pending := by
  unfold recordChecksum
  split <;> rfl

/-- **one iteration**: processing the head request re-establishes the invariant -/
theorem stepPending_inv (w : World) (o : Opts) (r : Req) (st : St)
    (h : PendInvEx (some r.spec) st) : PendInv (stepPending w o r st) := by
  have h0 : PendInvEx (some r.spec) (logRequest w o r st) := h.logRequest w o r
  unfold stepPending
  generalize logRequest w o r st = st0 at h0
  rcases htl : tryLoad w o r with ⟨spec, isAsset⟩ | ⟨f, cls⟩ | ⟨to⟩ | ⟨e⟩
  · -- external
    simp only [applyOutcome]
    have h2 := (checkSpecifier_ex st0 r.spec spec h0).markRoot r.isRoot spec
    generalize Build.markRoot (checkSpecifier st0 r.spec spec) r.isRoot spec = st2 at h2
    rcases hsl : st2.slot spec with _ | sl
    · exact settle st2 r.spec spec _ (by intro a hh; cases hh) h2
    · cases sl with
      | pending b => exact settle st2 r.spec spec _ (by intro a hh; cases hh) h2
      | module m =>
        intro s a hs
        rcases h2 s a hs with hq | hex
        · exact Or.inl hq
        · split at hex
          · rename_i heq
            cases hex
            rw [heq, hsl] at hs
            cases hs
          · cases hex
      | err e =>
        intro s a hs
        rcases h2 s a hs with hq | hex
        · exact Or.inl hq
        · split at hex
          · rename_i heq
            cases hex
            rw [heq, hsl] at hs
            cases hs
          · cases hex
  · -- module
    simp only [applyOutcome]
    have hcls := tryLoad_module_cls w o r f cls htl
    have h2 := ((checkSpecifier_ex st0 r.spec f h0).markRoot r.isRoot f).recordChecksum w cls f
      (if (tryLoad' w o r).2 then w.hashReload.lookup r.spec else w.hashUse.lookup r.spec)
    generalize Build.recordChecksum w cls f _ (Build.markRoot (checkSpecifier st0 r.spec f) r.isRoot f) = st2 at h2
    have h3 := (good_visitModule w o cls (w.contentOf r.spec)).inv _ st2 h2
    exact settle _ r.spec f _ (visitModule_slot_not_pending w o cls (w.contentOf r.spec) st2 hcls) h3
  · -- redirect
    simp only [applyOutcome]
    have hne : r.spec ≠ to := fun heq => tryLoad_redirect_ne w o r to htl heq.symm
    exact (good_load w o _ _).inv none _ (checkSpecifier_ne _ r.spec to hne h0)
  · -- error
    simp only [applyOutcome]
    exact settle _ r.spec e.spec _ (by intro a hh; cases hh) (checkSpecifier_ex _ r.spec e.spec h0)

/-- queue entries other than the head survive an iteration -/
theorem stepPending_mono (w : World) (o : Opts) (r : Req) (st : St) (q : Req) (hq : q ∈ st.pending) :
    q ∈ (stepPending w o r st).pending := by
  unfold stepPending
  have hq0 : q ∈ (logRequest w o r st).pending := by simpa using hq
  generalize logRequest w o r st = st0 at hq0
  rcases htl : tryLoad w o r with ⟨spec, isAsset⟩ | ⟨f, cls⟩ | ⟨to⟩ | ⟨e⟩
  · simp only [applyOutcome]
    have : q ∈ (Build.markRoot (checkSpecifier st0 r.spec spec) r.isRoot spec).pending := by
      unfold Build.markRoot St.addResolvedRoot
      split
      · split <;> simpa using hq0
      · simpa using hq0
    generalize Build.markRoot (checkSpecifier st0 r.spec spec) r.isRoot spec = st2 at this
    split <;> simpa using this
  · simp only [applyOutcome]
    have : q ∈ (Build.recordChecksum w cls f (if (tryLoad' w o r).2 then w.hashReload.lookup r.spec else w.hashUse.lookup r.spec)
        (Build.markRoot (checkSpecifier st0 r.spec f) r.isRoot f)).pending := by
      simp only [pending_recordChecksum]
      unfold Build.markRoot St.addResolvedRoot
      split
      · split <;> simpa using hq0
      · simpa using hq0
    have := (good_visitModule w o cls (w.contentOf r.spec)).mono _ q this
    simpa using this
  · simp only [applyOutcome]
    exact (good_load w o _ _).mono _ q (by simpa using hq0)
  · simp only [applyOutcome]
    simpa using hq0

end DG.Build
