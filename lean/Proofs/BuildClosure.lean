import Proofs.BuildLoop
/-!
# Closure of a finished build ("nothing reachable is absent")

`Acc st x`: the specifier `x` is accounted for in the graph — it has an entry or it is a
redirect source.  Every step of the builder keeps what is accounted for accounted for, every
`load` accounts for the requested specifier, every recorded redirect has an accounted target,
and every followed dependency target of every module entry is accounted for or waits in the
dynamic-branch table.  At the end of the build that table is empty.
-/
namespace DG.Build
open DG Tables

def Acc (st : St) (x : Spec) : Prop :=
  (st.slot x).isSome = true ∨ (st.redirects.lookup x).isSome = true

def InDyn (st : St) (x : Spec) : Prop := ∃ b, (x, b) ∈ st.dyn

def Cover (st : St) (x : Spec) : Prop := Acc st x ∨ InDyn st x

/-- a state transformer that never forgets a specifier -/
structure Mono (f : St → St) : Prop where
  acc : ∀ st x, Acc st x → Acc (f st) x
  dyn : ∀ st x, InDyn st x → Cover (f st) x

theorem Mono.cover {f : St → St} (h : Mono f) (st : St) (x : Spec) (hc : Cover st x) : Cover (f st) x := by
  rcases hc with ha | hd
  · exact Or.inl (h.acc st x ha)
  · exact h.dyn st x hd

theorem Mono.id : Mono (fun st => st) := ⟨fun _ _ h => h, fun _ _ h => Or.inr h⟩

theorem Mono.comp {f g : St → St} (hf : Mono f) (hg : Mono g) : Mono (fun st => g (f st)) :=
  ⟨fun st x h => hg.acc _ x (hf.acc st x h), fun st x h => hg.cover _ x (hf.dyn st x h)⟩

theorem mono_foldl {α} (f : St → α → St) (hf : ∀ a, Mono (fun st => f st a)) (l : List α) :
    Mono (fun st => l.foldl f st) := by
  induction l with
  | nil => exact Mono.id
  | cons a l ih =>
    simp only [List.foldl_cons]
    exact Mono.comp (hf a) ih

/-- transformers that touch neither slots, redirects nor the dynamic-branch table -/
theorem mono_of_same (f : St → St) (hs : ∀ st, (f st).slots = st.slots)
    (hr : ∀ st, (f st).redirects = st.redirects) (hd : ∀ st, (f st).dyn = st.dyn) : Mono f := by
  constructor
  · intro st x h
    unfold Acc St.slot at *
    rw [hs, hr]; exact h
  · intro st x h
    right
    unfold InDyn at *
    rw [hd]; exact h

theorem acc_setSlot (st : St) (k : Spec) (sl : BSlot) (x : Spec) (h : Acc st x) : Acc (st.setSlot k sl) x := by
  rcases h with h | h
  · left
    rw [slot_setSlot]
    split
    · rfl
    · exact h
  · exact Or.inr h

theorem acc_setSlot_self (st : St) (k : Spec) (sl : BSlot) : Acc (st.setSlot k sl) k := by
  left
  rw [slot_setSlot]
  simp

theorem mono_setSlot (k : Spec) (sl : BSlot) : Mono (fun st => st.setSlot k sl) :=
  ⟨fun st x h => acc_setSlot st k sl x h, fun _ _ h => Or.inr h⟩

theorem mono_addDeferred (spec : Spec) (lo : LoadOpts) : Mono (fun st => addDeferred st spec lo) := by
  apply mono_of_same <;> intro st <;> unfold addDeferred <;> split <;> rfl

theorem mono_lpm (w : World) (lo : LoadOpts) (count : Nat) (spec : Spec) :
    Mono (fun st => loadPendingModule w st lo count spec) := by
  constructor
  · intro st x h
    have := acc_setSlot st spec (.pending lo.isAsset) x h
    exact this
  · intro st x h; exact Or.inr h

theorem acc_lpm_self (w : World) (st : St) (lo : LoadOpts) (count : Nat) (spec : Spec) :
    Acc (loadPendingModule w st lo count spec) spec :=
  acc_setSlot_self st spec (.pending lo.isAsset)

theorem mono_load' (w : World) (o : Opts) (count : Nat) (lof : St → LoadOpts) :
    Mono (fun st => load w o count (lof st) st) := by
  constructor
  · intro st x h
    show Acc (load w o count (lof st) st) x
    unfold load
    simp only
    split
    · exact acc_setSlot _ _ _ x h
    · exact h
    · exact (mono_addDeferred _ (lof st)).acc st x h
    · split
      · exact acc_setSlot _ _ _ x h
      · exact (mono_lpm w (lof st) count _).acc st x h
  · intro st x h
    show Cover (load w o count (lof st) st) x
    unfold load
    simp only
    split
    · exact Or.inr h
    · exact Or.inr h
    · exact (mono_addDeferred _ (lof st)).dyn st x h
    · split
      · exact Or.inr h
      · exact Or.inr h

theorem mono_load (w : World) (o : Opts) (count : Nat) (lo : LoadOpts) : Mono (load w o count lo) :=
  mono_load' w o count (fun _ => lo)

theorem redirects_setSlot (st : St) (k : Spec) (sl : BSlot) : (st.setSlot k sl).redirects = st.redirects := rfl

theorem redirects_load (w : World) (o : Opts) (count : Nat) (lo : LoadOpts) (st : St) :
    (load w o count lo st).redirects = st.redirects := by
  unfold load
  simp only
  split
  · rfl
  · rfl
  · unfold addDeferred; split <;> rfl
  · split <;> rfl

/-- where the redirect walk of `load` ends: at the requested specifier itself, or the requested
specifier is a redirect source -/
theorem resolveForLoad_start (st : St) (s : Spec) :
    st.resolveForLoad s = s ∨ (st.redirects.lookup s).isSome = true := by
  unfold St.resolveForLoad St.resolveForLoadGo
  split
  · exact Or.inl rfl
  · split
    · rename_i h; right; rw [h]; rfl
    · exact Or.inl rfl

theorem loadDecision_skip_slot (w : World) (o : Opts) (lo : LoadOpts) (st : St) (spec : Spec)
    (h : loadDecision w o lo st spec = .skip ∨ loadDecision w o lo st spec = .defer) :
    (st.slot spec).isSome = true := by
  unfold loadDecision at h
  split at h
  · rcases h with h | h <;> cases h
  · split at h
    · rename_i hs; rw [hs]; rfl
    · rcases h with h | h <;> cases h

/-- **a load accounts for the requested specifier** -/
theorem acc_load (w : World) (o : Opts) (count : Nat) (lo : LoadOpts) (st : St) :
    Acc (load w o count lo st) lo.spec := by
  rcases resolveForLoad_start st lo.spec with he | hr
  · unfold load
    simp only
    rw [he]
    rcases hd : loadDecision w o lo st lo.spec with e | _ | _ | _
    · exact acc_setSlot_self _ _ _
    · exact Or.inl (loadDecision_skip_slot w o lo st lo.spec (Or.inl hd))
    · exact (mono_addDeferred _ lo).acc st _ (Or.inl (loadDecision_skip_slot w o lo st lo.spec (Or.inr hd)))
    · simp only
      split
      · exact acc_setSlot_self _ _ _
      · exact acc_lpm_self w st lo count lo.spec
  · right
    rw [redirects_load]
    exact hr

/-! ## redirects -/

theorem lookup_isSome_of_any {α} (l : List (Spec × α)) (k : Spec) (h : l.any (·.1 == k) = true) :
    (l.lookup k).isSome = true := by
  induction l with
  | nil => simp at h
  | cons a l ih =>
    obtain ⟨k', v⟩ := a
    simp only [List.lookup]
    by_cases hk : (k == k') = true
    · simp [hk]
    · have hk' : (k == k') = false := by simpa using hk
      simp only [hk']
      apply ih
      simp only [List.any_cons] at h
      have : (k' == k) = false := by
        have : ¬ k = k' := by simpa using hk'
        simpa using fun e => this e.symm
      simpa [this] using h

theorem lookup_append_isSome {α} (l : List (Spec × α)) (k x : Spec) (v : α)
    (h : (l.lookup x).isSome = true ∨ x = k) : ((l ++ [(k, v)]).lookup x).isSome = true := by
  induction l with
  | nil =>
    rcases h with h | h
    · simp [List.lookup] at h
    · subst h; simp [List.lookup]
  | cons a l ih =>
    obtain ⟨k', v'⟩ := a
    simp only [List.cons_append, List.lookup]
    by_cases hk : (x == k') = true
    · simp [hk]
    · have hk' : (x == k') = false := by simpa using hk
      simp only [List.lookup, hk'] at h ⊢
      exact ih h

theorem acc_recordRedirect (st : St) (a b x : Spec) (h : Acc st x ∨ x = a) : Acc (recordRedirect st a b) x := by
  unfold recordRedirect
  split
  · rename_i hany
    rcases h with h | h
    · exact h
    · subst h; exact Or.inr (lookup_isSome_of_any _ _ hany)
  · rcases h with (h | h) | h
    · exact Or.inl h
    · exact Or.inr (lookup_append_isSome _ _ _ _ (Or.inl h))
    · exact Or.inr (lookup_append_isSome _ _ _ _ (Or.inr h))

theorem acc_dropPending (st : St) (req x : Spec) (h : Acc st x) : Acc (dropPending st req) x ∨ x = req := by
  by_cases hx : x = req
  · exact Or.inr hx
  · left
    unfold dropPending
    split
    · rcases h with h | h
      · left
        show ((erase st.slots req).lookup x).isSome = true
        rw [lookup_erase]
        simp only [hx, if_false]
        exact h
      · exact Or.inr h
    · exact h

theorem acc_checkSpecifier (st : St) (req tgt x : Spec) (h : Acc st x) : Acc (checkSpecifier st req tgt) x := by
  unfold checkSpecifier
  split
  · exact h
  · apply acc_recordRedirect
    rcases acc_dropPending st req x h with h' | h'
    · exact Or.inl h'
    · exact Or.inr h'

theorem dyn_checkSpecifier (st : St) (req tgt : Spec) : (checkSpecifier st req tgt).dyn = st.dyn := by
  unfold checkSpecifier
  split
  · rfl
  · unfold recordRedirect dropPending
    split <;> split <;> rfl

theorem mono_checkSpecifier (req tgt : Spec) : Mono (fun st => checkSpecifier st req tgt) :=
  ⟨fun st x h => acc_checkSpecifier st req tgt x h,
   fun st x h => Or.inr (by unfold InDyn at *; rw [dyn_checkSpecifier]; exact h)⟩

/-- the redirects after `check_specifier`: the old ones, plus possibly `req → tgt` -/
theorem mem_redirects_checkSpecifier (st : St) (req tgt : Spec) (p : Spec × Spec)
    (h : p ∈ (checkSpecifier st req tgt).redirects) : p ∈ st.redirects ∨ p = (req, tgt) := by
  unfold checkSpecifier at h
  split at h
  · exact Or.inl h
  · unfold recordRedirect at h
    split at h
    · left
      unfold dropPending at h
      split at h <;> exact h
    · simp only [List.mem_append, List.mem_singleton] at h
      rcases h with h | h
      · left
        unfold dropPending at h
        split at h <;> exact h
      · exact Or.inr h

theorem mono_markRoot (b : Bool) (s : Spec) : Mono (fun st => markRoot st b s) := by
  apply mono_of_same <;> intro st <;> unfold markRoot St.addResolvedRoot <;> split <;> (try split) <;> rfl

theorem mono_recordChecksum (w : World) (cls : Class) (f : Spec) (hash : Option Nat) :
    Mono (recordChecksum w cls f hash) := by
  apply mono_of_same <;> intro st <;> unfold recordChecksum <;> split <;> rfl

theorem mono_logRequest (w : World) (o : Opts) (r : Req) : Mono (logRequest w o r) := by
  apply mono_of_same <;> intro st <;> unfold logRequest <;> simp only <;> split <;> rfl

/-! ## visiting a module's dependencies -/

theorem inDyn_map {st : St} (x : Spec) (g : Spec × DynBranch → Spec × DynBranch) (hg : ∀ p, (g p).1 = p.1)
    (h : InDyn st x) : InDyn { st with dyn := st.dyn.map g } x := by
  obtain ⟨b, hb⟩ := h
  refine ⟨(g (x, b)).2, ?_⟩
  have : (x, (g (x, b)).2) = g (x, b) := by
    have := hg (x, b)
    ext <;> simp_all
  rw [this]
  exact List.mem_map.mpr ⟨(x, b), hb, rfl⟩

theorem mem_upsert_self {α} (l : List (Spec × α)) (k : Spec) (v : α) : (k, v) ∈ upsert l k v := by
  unfold upsert
  split
  · rename_i hany
    rw [List.any_eq_true] at hany
    obtain ⟨p, hp, hk⟩ := hany
    refine List.mem_map.mpr ⟨p, hp, ?_⟩
    simp [hk]
  · simp

theorem mem_upsert_key {α} (l : List (Spec × α)) (k : Spec) (v : α) (x : Spec) (b : α) (h : (x, b) ∈ l) :
    ∃ b', (x, b') ∈ upsert l k v := by
  unfold upsert
  split
  · by_cases hx : (x == k) = true
    · refine ⟨v, List.mem_map.mpr ⟨(x, b), h, ?_⟩⟩
      have : x = k := by simpa using hx
      simp [this]
    · refine ⟨b, List.mem_map.mpr ⟨(x, b), h, ?_⟩⟩
      simp [hx]
  · exact ⟨b, by simp [h]⟩

/-- the dependency targets that are followed, read off a recorded dependency -/
def depTargets (o : Opts) (d : BDep) : List Spec :=
  if d.dyn && o.skipDynamicDeps then []
  else (match d.code with | .ok s _ => [s] | _ => []) ++ (match d.type with | .ok s _ => [s] | _ => [])

theorem mono_visitDepCode (w : World) (o : Opts) (d : BDep) : Mono (fun st => (visitDepCode w o d st).2) := by
  constructor
  · intro st x h
    unfold visitDepCode
    split
    · split
      · split
        · split <;> exact h
        · exact (mono_load w o 0 _).acc st x h
      · exact h
    · exact h
  · intro st x h
    unfold visitDepCode
    split
    · split
      · split
        · split
          · right
            exact inDyn_map x _ (by intro p; simp only; split <;> rfl) h
          · right
            obtain ⟨b, hb⟩ := h
            exact ⟨b, by simp [hb]⟩
        · exact (mono_load w o 0 _).dyn st x h
      · exact Or.inr h
    · exact Or.inr h

theorem mono_visitDepType (w : World) (o : Opts) (d : BDep) : Mono (fun st => (visitDepType w o d st).2) := by
  constructor
  · intro st x h
    unfold visitDepType
    split
    · split
      · split
        · exact h
        · exact (mono_load w o 0 _).acc st x h
      · exact h
    · exact h
  · intro st x h
    unfold visitDepType
    split
    · split
      · split
        · right
          obtain ⟨b, hb⟩ := h
          exact mem_upsert_key st.dyn _ _ x b hb
        · exact (mono_load w o 0 _).dyn st x h
      · exact Or.inr h
    · exact Or.inr h

theorem visitDepCode_code (w : World) (o : Opts) (d : BDep) (st : St) :
    (visitDepCode w o d st).1.code = if o.kind.includeCode || d.type == .none then d.code else .none := by
  unfold visitDepCode
  by_cases hc : (o.kind.includeCode || d.type == .none) = true
  · simp only [hc, if_true]
    split
    · split <;> rfl
    · rfl
  · simp only [hc, Bool.false_eq_true, if_false]

theorem visitDepType_type (w : World) (o : Opts) (d : BDep) (st : St) :
    (visitDepType w o d st).1.type = if o.kind.includeTypes then d.type else .none := by
  unfold visitDepType
  by_cases ht : o.kind.includeTypes = true
  · simp only [ht, if_true]
    split
    · split <;> rfl
    · rfl
  · simp only [ht, Bool.false_eq_true, if_false]

/-- the code target a dependency keeps after `visitDepCode` has been requested or queued as a
dynamic branch -/
theorem cover_visitDepCode (w : World) (o : Opts) (d : BDep) (st : St) (s : Spec) (rng : Nat)
    (h : (visitDepCode w o d st).1.code = .ok s rng) : Cover (visitDepCode w o d st).2 s := by
  rw [visitDepCode_code] at h
  by_cases hc : (o.kind.includeCode || d.type == .none) = true
  · simp only [hc, if_true] at h
    unfold visitDepCode
    simp only [hc, if_true, h]
    split
    · right
      simp only
      split
      · rename_i hany
        rw [List.any_eq_true] at hany
        obtain ⟨p, hp, hk⟩ := hany
        have hk' : p.1 = s := by simpa using hk
        apply inDyn_map s _ (by intro p; split <;> rfl)
        exact ⟨p.2, by rw [← hk']; exact hp⟩
      · exact ⟨{ range := rng, spRef := d.sourcePhase, isAsset := d.isAsset, attr := Option.map (fun a => (a, rng)) d.attr },
          by simp⟩
    · left
      exact acc_load w o 0 _ st
  · simp only [hc, Bool.false_eq_true, if_false] at h
    cases h

theorem cover_visitDepType (w : World) (o : Opts) (d : BDep) (st : St) (s : Spec) (rng : Nat)
    (h : (visitDepType w o d st).1.type = .ok s rng) : Cover (visitDepType w o d st).2 s := by
  rw [visitDepType_type] at h
  by_cases ht : o.kind.includeTypes = true
  · simp only [ht, if_true] at h
    unfold visitDepType
    simp only [ht, if_true, h]
    split
    · right
      exact ⟨_, mem_upsert_self st.dyn s _⟩
    · left
      exact acc_load w o 0 _ st
  · simp only [ht, Bool.false_eq_true, if_false] at h
    cases h

theorem visitDepType_code (w : World) (o : Opts) (d : BDep) (st : St) :
    (visitDepType w o d st).1.code = d.code := by
  unfold visitDepType
  split
  · split
    · split <;> rfl
    · rfl
  · rfl

theorem mono_visitDeps (w : World) (o : Opts) (deps : List BDep) :
    Mono (fun st => (visitDeps w o deps st).2) := by
  induction deps with
  | nil => exact Mono.id
  | cons d rest ih =>
    constructor
    · intro st x h
      unfold visitDeps
      split
      · exact ih.acc st x h
      · exact ih.acc _ x ((mono_visitDepType w o _).acc _ x ((mono_visitDepCode w o d).acc st x h))
    · intro st x h
      unfold visitDeps
      split
      · exact ih.dyn st x h
      · exact ih.cover _ x ((mono_visitDepType w o _).cover _ x ((mono_visitDepCode w o d).dyn st x h))

theorem visitDepCode_dyn (w : World) (o : Opts) (d : BDep) (st : St) : (visitDepCode w o d st).1.dyn = d.dyn := by
  unfold visitDepCode
  split
  · split
    · split <;> rfl
    · rfl
  · rfl

theorem visitDepType_dyn (w : World) (o : Opts) (d : BDep) (st : St) : (visitDepType w o d st).1.dyn = d.dyn := by
  unfold visitDepType
  split
  · split
    · split <;> rfl
    · rfl
  · rfl

/-- **every followed target of the recorded dependencies is covered after the visit** -/
theorem cover_visitDeps (w : World) (o : Opts) (deps : List BDep) (st : St) (x : Spec)
    (h : x ∈ (visitDeps w o deps st).1.flatMap (depTargets o)) : Cover (visitDeps w o deps st).2 x := by
  induction deps generalizing st with
  | nil => simp [visitDeps] at h
  | cons d rest ih =>
    by_cases hskip : (d.dyn && o.skipDynamicDeps) = true
    · rw [visitDeps, if_pos hskip] at h ⊢
      simp only [List.flatMap_cons, List.mem_append] at h
      rcases h with h | h
      · simp [depTargets, hskip] at h
      · exact ih st h
    · rw [visitDeps, if_neg hskip] at h ⊢
      simp only [List.flatMap_cons, List.mem_append] at h
      rcases h with h | h
      · apply (mono_visitDeps w o rest).cover
        have hdyn : (visitDepType w o (visitDepCode w o d st).1 (visitDepCode w o d st).2).1.dyn = d.dyn := by
          rw [visitDepType_dyn, visitDepCode_dyn]
        unfold depTargets at h
        rw [hdyn, if_neg hskip] at h
        simp only [List.mem_append] at h
        rcases h with h | h
        · rw [visitDepType_code] at h
          split at h
          · rename_i s rng hc
            simp only [List.mem_singleton] at h
            subst h
            exact (mono_visitDepType w o _).cover _ _ (cover_visitDepCode w o d st _ rng hc)
          · simp at h
        · split at h
          · rename_i s rng hc
            simp only [List.mem_singleton] at h
            subst h
            exact cover_visitDepType w o _ _ _ rng hc
          · simp at h
      · exact ih _ h

theorem mono_loadSourceMap (w : World) (o : Opts) (p : Parsed) : Mono (loadSourceMap w o p) := by
  constructor
  · intro st x h; unfold loadSourceMap; split
    · exact (mono_load w o 0 _).acc st x h
    · exact h
  · intro st x h; unfold loadSourceMap; split
    · exact (mono_load w o 0 _).dyn st x h
    · exact Or.inr h

theorem mono_loadTypesDep (w : World) (o : Opts) (p : Parsed) : Mono (loadTypesDep w o p) := by
  constructor
  · intro st x h; unfold loadTypesDep; split
    · exact (mono_load w o 0 _).acc st x h
    · exact h
  · intro st x h; unfold loadTypesDep; split
    · exact (mono_load w o 0 _).dyn st x h
    · exact Or.inr h

theorem mono_visitJsDeps (w : World) (o : Opts) (p : Parsed) : Mono (fun st => (visitJsDeps w o p st).2) := by
  constructor
  · intro st x h; unfold visitJsDeps; split
    · exact (mono_visitDeps w o _).acc _ x ((mono_loadSourceMap w o p).acc st x h)
    · exact h
  · intro st x h; unfold visitJsDeps; split
    · exact (mono_visitDeps w o _).cover _ x ((mono_loadSourceMap w o p).dyn st x h)
    · exact Or.inr h

theorem mono_visitModule (w : World) (o : Opts) (cls : Class) (c : Content) :
    Mono (fun st => (visitModule w o cls c st).2) := by
  constructor
  · intro st x h
    unfold visitModule
    split
    · exact h
    · exact h
    · exact (mono_visitDeps w o _).acc st x h
    · simp only
      split
      · exact (mono_loadTypesDep w o _).acc _ x ((mono_visitJsDeps w o _).acc st x h)
      · exact (mono_visitJsDeps w o _).acc st x h
  · intro st x h
    unfold visitModule
    split
    · exact Or.inr h
    · exact Or.inr h
    · exact (mono_visitDeps w o _).dyn st x h
    · simp only
      split
      · exact (mono_loadTypesDep w o _).cover _ x ((mono_visitJsDeps w o _).dyn st x h)
      · exact (mono_visitJsDeps w o _).dyn st x h

/-- the followed targets of a module entry -/
def modTargets (o : Opts) : BMod → List Spec
  | .js _ deps td _ => deps.flatMap (depTargets o) ++ (match td with | some (.ok s _) => [s] | _ => [])
  | .wasm deps => deps.flatMap (depTargets o)
  | _ => []

def slotTargets (o : Opts) : BSlot → List Spec
  | .module m => modTargets o m
  | _ => []

theorem cover_visitJsDeps (w : World) (o : Opts) (p : Parsed) (st : St) (x : Spec)
    (h : x ∈ (visitJsDeps w o p st).1.flatMap (depTargets o)) : Cover (visitJsDeps w o p st).2 x := by
  unfold visitJsDeps at h ⊢
  by_cases hk : (o.kind == .All || o.kind == .CodeOnly || p.typesDep.isNone) = true
  · rw [if_pos hk] at h ⊢
    exact cover_visitDeps w o _ _ x h
  · rw [if_neg hk] at h ⊢
    simp at h

/-- **visiting a module covers everything its entry says is followed** -/
theorem cover_visitModule (w : World) (o : Opts) (cls : Class) (c : Content) (st : St) (x : Spec)
    (h : x ∈ slotTargets o (visitModule w o cls c st).1) : Cover (visitModule w o cls c st).2 x := by
  cases cls with
  | err k r => simp [visitModule, slotTargets] at h
  | json => simp [visitModule, slotTargets, modTargets] at h
  | wasm =>
    simp only [visitModule, slotTargets, modTargets] at h ⊢
    exact cover_visitDeps w o _ st x h
  | js mt =>
    by_cases hty : o.kind.includeTypes = true
    · simp only [visitModule, hty, if_true, slotTargets, modTargets, List.mem_append] at h ⊢
      rcases h with h | h
      · exact (mono_loadTypesDep w o _).cover _ _ (cover_visitJsDeps w o _ st x h)
      · left
        unfold loadTypesDep
        split at h
        · rename_i s rng htd
          simp only [List.mem_singleton] at h
          subst h
          simp only [htd]
          exact acc_load w o 0 _ _
        · simp at h
    · simp only [visitModule, hty, Bool.false_eq_true, if_false, slotTargets, modTargets, List.mem_append] at h ⊢
      rcases h with h | h
      · exact cover_visitJsDeps w o _ st x h
      · simp at h

/-! ## the invariants -/

/-- every followed target of every module entry is accounted for or queued as a dynamic branch -/
def DepInv (o : Opts) (st : St) : Prop :=
  ∀ f sl, st.slot f = some sl → ∀ x ∈ slotTargets o sl, Cover st x

end DG.Build
