import Proofs.BuildClosure2
/-!
# The redirect walk at the head of `load`

`Ends st x`: following the recorded redirects from `x` through specifiers without an entry reaches
a specifier that has one.  When every recorded redirect target ends (`WalkInv`), the walk of
`resolveForLoad` stops at a specifier that has an entry or has neither entry nor redirect: a load
never queues a request at a specifier that is only a redirect source.
-/
namespace DG.Build
open DG Tables

/-- `f`: a specifier that is about to be given its entry (the final specifier of the module being
visited): until then a walk may also stop there, provided it has neither entry nor redirect -/
inductive EndsX (f : Option Spec) (st : St) : Spec → Prop
  | here {x} : (st.slot x).isSome = true → EndsX f st x
  | stop {x} : f = some x → st.slot x = none → st.redirects.lookup x = none → EndsX f st x
  | step {x y} : st.slot x = none → st.redirects.lookup x = some y → EndsX f st y → EndsX f st x

/-- every recorded redirect leads, through entry-less specifiers, to an entry -/
def WalkInvX (f : Option Spec) (st : St) : Prop := ∀ p ∈ st.redirects, EndsX f st p.2

abbrev Ends (st : St) (x : Spec) : Prop := EndsX none st x
abbrev WalkInv (st : St) : Prop := WalkInvX none st

theorem Ends.here {st : St} {x : Spec} (h : (st.slot x).isSome = true) : Ends st x := EndsX.here h
theorem Ends.step {st : St} {x y : Spec} (hs : st.slot x = none) (hl : st.redirects.lookup x = some y)
    (h : Ends st y) : Ends st x := EndsX.step hs hl h

/-- a chain of redirect hops through specifiers without an entry -/
inductive Hops (st : St) : Spec → Spec → Prop
  | one {a b} : st.slot a = none → st.redirects.lookup a = some b → Hops st a b
  | cons {a b c} : st.slot a = none → st.redirects.lookup a = some b → Hops st b c → Hops st a c

theorem Hops.trans {st : St} {a b c : Spec} (h1 : Hops st a b) (h2 : Hops st b c) : Hops st a c := by
  induction h1 with
  | one hs hl => exact Hops.cons hs hl h2
  | cons hs hl _ ih => exact Hops.cons hs hl (ih h2)

theorem Hops.first {st : St} {a b : Spec} (h : Hops st a b) : st.slot a = none ∧ ∃ y, st.redirects.lookup a = some y := by
  cases h with
  | one hs hl => exact ⟨hs, _, hl⟩
  | cons hs hl _ => exact ⟨hs, _, hl⟩

/-- a cycle of entry-less redirect hops never ends -/
theorem no_cycle {f : Option Spec} {st : St} {z : Spec} (hc : Hops st z z) : ¬ EndsX f st z := by
  intro he
  induction he with
  | here hs =>
    rw [hc.first.1] at hs; cases hs
  | stop _ _ hl =>
    obtain ⟨_, y, hy⟩ := hc.first
    rw [hl] at hy; cases hy
  | @step x y hs hl _ ih =>
    apply ih
    cases hc with
    | one hs' hl' =>
      rw [hl] at hl'
      cases hl'
      exact Hops.one hs hl
    | cons hs' hl' hrest =>
      rw [hl] at hl'
      cases hl'
      exact hrest.trans (Hops.one hs hl)

theorem lookup_mem {α} (l : List (Spec × α)) (k : Spec) (v : α) (h : l.lookup k = some v) : (k, v) ∈ l := by
  induction l with
  | nil => simp [List.lookup] at h
  | cons a l ih =>
    obtain ⟨k', v'⟩ := a
    simp only [List.lookup] at h
    by_cases hk : (k == k') = true
    · simp only [hk] at h
      cases h
      have : k = k' := by simpa using hk
      subst this
      simp
    · have hk' : (k == k') = false := by simpa using hk
      simp only [hk'] at h
      exact List.mem_cons_of_mem _ (ih h)

theorem ends_of_lookup {f : Option Spec} {st : St} (hw : WalkInvX f st) {x y : Spec} (hl : st.redirects.lookup x = some y) : EndsX f st y :=
  hw (x, y) (lookup_mem _ _ _ hl)

/-- the invariant of the walk: the specifiers seen so far are distinct, all but the current one are
entry-less redirect sources leading to the current one, and the fuel suffices -/
structure GoInv (st : St) (n : Nat) (seen : List Spec) (cur : Spec) : Prop where
  nodup : seen.Nodup
  cur_mem : cur ∈ seen
  others : ∀ y ∈ seen, y ≠ cur → Hops st y cur
  fuel : st.redirects.length + 2 ≤ n + seen.length

theorem keys_length {α} (l : List (Spec × α)) : (l.map (·.1)).length = l.length := by simp

theorem lookup_key_mem {α} (l : List (Spec × α)) (k : Spec) (v : α) (h : l.lookup k = some v) : k ∈ l.map (·.1) :=
  List.mem_map.mpr ⟨(k, v), lookup_mem l k v h, rfl⟩

/-- **where the walk stops**: at a specifier that has an entry, or at one that has neither an
entry nor a recorded redirect -/
theorem go_end {f : Option Spec} (st : St) (hw : WalkInvX f st) : ∀ (n : Nat) (seen : List Spec) (cur : Spec), GoInv st n seen cur →
    st.slot (st.resolveForLoadGo n seen cur) = none → st.redirects.lookup (st.resolveForLoadGo n seen cur) = none := by
  intro n
  induction n with
  | zero =>
    intro seen cur hinv _
    -- out of fuel: impossible, the specifiers seen (but the current one) are distinct redirect sources
    exfalso
    have hsub : (seen.erase cur) ⊆ st.redirects.map (·.1) := by
      intro y hy
      have hym : y ∈ seen := List.mem_of_mem_erase hy
      have hne : y ≠ cur := by
        intro he
        subst he
        exact (List.Nodup.mem_erase_iff hinv.nodup).mp hy |>.1 rfl
      obtain ⟨_, z, hz⟩ := (hinv.others y hym hne).first
      exact lookup_key_mem _ _ _ hz
    have hlen := List.Nodup.length_le_of_subset (hinv.nodup.erase cur) hsub
    rw [List.length_erase_of_mem hinv.cur_mem, keys_length] at hlen
    have := hinv.fuel
    omega
  | succ n ih =>
    intro seen cur hinv hs
    unfold St.resolveForLoadGo at hs ⊢
    split
    · rename_i hsl
      simp only [hsl, if_true] at hs
      rw [hs] at hsl; cases hsl
    · rename_i hsl
      simp only [hsl, Bool.false_eq_true, if_false] at hs
      have hcur : st.slot cur = none := by
        cases h : st.slot cur with
        | none => rfl
        | some v => rw [h] at hsl; simp at hsl
      cases hl : st.redirects.lookup cur with
      | none => simp only [hl]
      | some nx =>
        simp only [hl] at hs ⊢
        by_cases hin : nx ∈ seen
        · -- the walk would close a cycle of entry-less specifiers: excluded by the invariant
          exfalso
          simp only [hin, if_true] at hs
          have hcyc : Hops st nx nx := by
            by_cases he : nx = cur
            · subst he; exact Hops.one hcur hl
            · exact (hinv.others nx hin he).trans (Hops.one hcur hl)
          exact no_cycle hcyc (ends_of_lookup hw hl)
        · simp only [hin, if_false] at hs ⊢
          apply ih (nx :: seen) nx _ hs
          refine ⟨?_, by simp, ?_, ?_⟩
          · exact List.nodup_cons.mpr ⟨hin, hinv.nodup⟩
          · intro y hy hne
            simp only [List.mem_cons] at hy
            rcases hy with rfl | hy
            · exact absurd rfl hne
            · by_cases he : y = cur
              · subst he; exact Hops.one hcur hl
              · exact (hinv.others y hy he).trans (Hops.one hcur hl)
          · have := hinv.fuel
            simp only [List.length_cons]
            omega

theorem goInv_init (st : St) (s : Spec) : GoInv st (st.redirects.length + 1) [s] s :=
  ⟨by simp, by simp, fun y hy hne => by simp at hy; exact absurd hy hne, by simp⟩

/-- **a load never queues a request at a specifier that is only a redirect source** -/
theorem resolveForLoad_fresh {f : Option Spec} (st : St) (hw : WalkInvX f st) (s : Spec)
    (hs : st.slot (st.resolveForLoad s) = none) : ¬ Acc st (st.resolveForLoad s) := by
  have h := go_end st hw _ _ _ (goInv_init st s) hs
  intro hacc
  rcases hacc with h1 | h1
  · rw [hs] at h1; cases h1
  · unfold St.resolveForLoad at h1
    rw [h] at h1; cases h1

/-! ## after the endpoint of a walk is settled, the start of the walk ends -/

/-- a state that has at least the entries of another and the same redirects -/
structure Grew (st st' : St) : Prop where
  slots : ∀ x, (st.slot x).isSome = true → (st'.slot x).isSome = true
  redirects : st'.redirects = st.redirects

theorem Grew.refl (st : St) : Grew st st := ⟨fun _ h => h, rfl⟩

theorem Grew.trans {a b c : St} (h1 : Grew a b) (h2 : Grew b c) : Grew a c :=
  ⟨fun x h => h2.slots x (h1.slots x h), by rw [h2.redirects, h1.redirects]⟩

theorem EndsX.grew {f : Option Spec} {st st' : St} (hg : Grew st st') {x : Spec} (h : EndsX f st x) : EndsX f st' x := by
  induction h with
  | here hs => exact EndsX.here (hg.slots _ hs)
  | @stop x hf hs hl =>
    cases hx : st'.slot x with
    | some v => exact EndsX.here (by rw [hx]; rfl)
    | none => exact EndsX.stop hf hx (by rw [hg.redirects]; exact hl)
  | @step x y hs hl _ ih =>
    cases hx : st'.slot x with
    | some v => exact EndsX.here (by rw [hx]; rfl)
    | none => exact EndsX.step hx (by rw [hg.redirects]; exact hl) ih

theorem Ends.grew {st st' : St} (hg : Grew st st') {x : Spec} (h : Ends st x) : Ends st' x := EndsX.grew hg h

theorem WalkInvX.grew {f : Option Spec} {st st' : St} (hg : Grew st st') (h : WalkInvX f st) : WalkInvX f st' := by
  intro p hp
  rw [hg.redirects] at hp
  exact (h p hp).grew hg

theorem WalkInv.grew {st st' : St} (hg : Grew st st') (h : WalkInv st) : WalkInv st' := WalkInvX.grew hg h

/-- once the specifier the walk stops at has an entry, the specifier the walk started from ends -/
theorem ends_after_settle {f : Option Spec} (st st' : St) (hg : Grew st st') : ∀ (n : Nat) (seen : List Spec) (cur : Spec),
    (st'.slot (st.resolveForLoadGo n seen cur)).isSome = true → EndsX f st' cur := by
  intro n
  induction n with
  | zero =>
    intro seen cur h
    exact EndsX.here h
  | succ n ih =>
    intro seen cur h
    unfold St.resolveForLoadGo at h
    split at h
    · exact EndsX.here h
    · split at h
      · rename_i nx hl
        split at h
        · exact EndsX.here h
        · have := ih (nx :: seen) nx h
          cases hx : st'.slot cur with
          | some v => exact EndsX.here (by rw [hx]; rfl)
          | none => exact EndsX.step hx (by rw [hg.redirects]; exact hl) this
      · exact EndsX.here h

theorem ends_after_settle' {f : Option Spec} (st st' : St) (hg : Grew st st') (s : Spec)
    (h : (st'.slot (st.resolveForLoad s)).isSome = true) : EndsX f st' s :=
  ends_after_settle st st' hg _ _ _ h

end DG.Build
