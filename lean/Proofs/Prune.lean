import DG.Prune
import Proofs.BuildInv
/-!
# `prune_types`: the worklist computes exactly the code-reachable part

`PReach` is the statement's reachability: roots; the target of a redirect of a reachable
specifier; the code targets (and the source-map target) of a reachable entry.  The loop invariant
`PInv` gives, for enough fuel (`pruneFuel`), that the final `seen` set is exactly `PReach` and that
every reachable entry has been pruned exactly once.
-/
namespace DG.Prune
open DG DG.Build Tables

variable (roots : List Spec) (slots0 : List (Spec × BSlot)) (redirects : List (Spec × Spec))

/-- what pruning keeps, spelled from the statement: reachable from the roots through redirect
hops and through the code side of entries -/
inductive PReach : Spec → Prop where
  | root {r} : r ∈ roots → PReach r
  | redirect {s t} : PReach s → redirects.lookup s = some t → PReach t
  | edge {s sl t} : PReach s → slots0.lookup s = some sl → t ∈ slotTargets sl → PReach t

/-! ## small facts -/

theorem pruneDep_idem (d : BDep) : pruneDep (pruneDep d) = pruneDep d := rfl

theorem depCodeTargets_prune (deps : List BDep) :
    depCodeTargets (deps.map pruneDep) = depCodeTargets deps := by
  unfold depCodeTargets
  induction deps with
  | nil => rfl
  | cons d ds ih =>
    simp only [List.map_cons, List.filterMap_cons]
    have : (pruneDep d).code.okSpec? = d.code.okSpec? := rfl
    rw [this, ih]

theorem slotTargets_pruneSlot (sl : BSlot) : slotTargets (pruneSlot sl) = slotTargets sl := by
  cases sl with
  | module m =>
    cases m with
    | js mt deps td sm => simp only [pruneSlot, slotTargets, depCodeTargets_prune]
    | wasm deps => simp only [pruneSlot, slotTargets, depCodeTargets_prune]
    | json => rfl
    | node => rfl
    | external a => rfl
  | err e => rfl
  | pending a => rfl

theorem map_pruneDep_idem (deps : List BDep) : (deps.map pruneDep).map pruneDep = deps.map pruneDep := by
  induction deps with
  | nil => rfl
  | cons d ds ih => simp only [List.map_cons, ih, pruneDep_idem]

theorem pruneSlot_idem (sl : BSlot) : pruneSlot (pruneSlot sl) = pruneSlot sl := by
  cases sl with
  | module m =>
    cases m with
    | js mt deps td sm => simp only [pruneSlot, map_pruneDep_idem]
    | wasm deps => simp only [pruneSlot, map_pruneDep_idem]
    | json => rfl
    | node => rfl
    | external a => rfl
  | err e => rfl
  | pending a => rfl

theorem addSeen_mem_iff (seen : List Spec) (s x : Spec) : x ∈ addSeen seen s ↔ x ∈ seen ∨ x = s := by
  unfold addSeen
  split
  · rename_i h
    have hs : s ∈ seen := by simpa using h
    constructor
    · intro hx; exact Or.inl hx
    · rintro (hx | rfl); exact hx; exact hs
  · simp

theorem addSeen_nodup (seen : List Spec) (s : Spec) (h : seen.Nodup) : (addSeen seen s).Nodup := by
  unfold addSeen
  split
  · exact h
  · rename_i hc
    have hs : s ∉ seen := by simpa using hc
    rw [List.nodup_append]
    refine ⟨h, by simp, ?_⟩
    intro a ha b hb
    simp at hb
    subst hb
    intro hab; subst hab; exact hs ha

theorem addSeen_prefix (seen : List Spec) (s : Spec) : ∃ ext, addSeen seen s = seen ++ ext := by
  unfold addSeen
  split
  · exact ⟨[], by simp⟩
  · exact ⟨[s], rfl⟩

theorem foldl_addSeen_mem_iff (ts : List Spec) (seen : List Spec) (x : Spec) :
    x ∈ ts.foldl addSeen seen ↔ x ∈ seen ∨ x ∈ ts := by
  induction ts generalizing seen with
  | nil => simp
  | cons a ts ih =>
    simp only [List.foldl_cons, ih, addSeen_mem_iff, List.mem_cons]
    constructor
    · rintro ((h | h) | h)
      · exact Or.inl h
      · exact Or.inr (Or.inl h)
      · exact Or.inr (Or.inr h)
    · rintro (h | h | h)
      · exact Or.inl (Or.inl h)
      · exact Or.inl (Or.inr h)
      · exact Or.inr h

theorem foldl_addSeen_nodup (ts : List Spec) (seen : List Spec) (h : seen.Nodup) :
    (ts.foldl addSeen seen).Nodup := by
  induction ts generalizing seen with
  | nil => exact h
  | cons a ts ih => exact ih _ (addSeen_nodup seen a h)

theorem foldl_addSeen_prefix (ts : List Spec) (seen : List Spec) :
    ∃ ext, ts.foldl addSeen seen = seen ++ ext := by
  induction ts generalizing seen with
  | nil => exact ⟨[], by simp⟩
  | cons a ts ih =>
    obtain ⟨e1, h1⟩ := addSeen_prefix seen a
    obtain ⟨e2, h2⟩ := ih (addSeen seen a)
    exact ⟨e1 ++ e2, by rw [List.foldl_cons, h2, h1, List.append_assoc]⟩

/-! ## one iteration -/

/-- the `seen` list after the iteration for `s` -/
def seenAfter (p : PState) (s : Spec) : List Spec :=
  let s1 := match redirects.lookup s with
    | some t => addSeen p.seen t
    | none => p.seen
  match p.slots.lookup s with
  | some sl => (slotTargets sl).foldl addSeen s1
  | none => s1

/-- the slots after the iteration for `s` -/
def slotsAfter (p : PState) (s : Spec) : List (Spec × BSlot) :=
  match p.slots.lookup s with
  | some sl => upsert p.slots s (pruneSlot sl)
  | none => p.slots

theorem pruneIter_eq (p : PState) (s : Spec) :
    pruneIter redirects p s =
      { slots := slotsAfter p s, seen := seenAfter redirects p s, idx := p.idx + 1 } := by
  unfold pruneIter seenAfter slotsAfter
  cases hr : redirects.lookup s with
  | none =>
    simp only [visitEntry]
    cases hs : p.slots.lookup s <;> rfl
  | some t =>
    simp only [Tables.pruneVisitsEntryOnSource, if_true, visitEntry]
    cases hs : p.slots.lookup s <;> rfl

theorem seenAfter_mem_iff (p : PState) (s x : Spec) :
    x ∈ seenAfter redirects p s ↔
      x ∈ p.seen ∨ redirects.lookup s = some x ∨
        ∃ sl, p.slots.lookup s = some sl ∧ x ∈ slotTargets sl := by
  unfold seenAfter
  cases hr : redirects.lookup s with
  | none =>
    cases hs : p.slots.lookup s with
    | none => simp
    | some sl => simp [foldl_addSeen_mem_iff]
  | some t =>
    cases hs : p.slots.lookup s with
    | none =>
      simp only [addSeen_mem_iff, Option.some.injEq, reduceCtorEq, false_and, exists_false, or_false]
      constructor
      · rintro (h | h); exact Or.inl h; exact Or.inr h.symm
      · rintro (h | h); exact Or.inl h; exact Or.inr h.symm
    | some sl =>
      simp only [foldl_addSeen_mem_iff, addSeen_mem_iff, Option.some.injEq, exists_eq_left']
      constructor
      · rintro ((h | h) | h)
        · exact Or.inl h
        · exact Or.inr (Or.inl h.symm)
        · exact Or.inr (Or.inr h)
      · rintro (h | h | h)
        · exact Or.inl (Or.inl h)
        · exact Or.inl (Or.inr h.symm)
        · exact Or.inr h

theorem seenAfter_nodup (p : PState) (s : Spec) (h : p.seen.Nodup) :
    (seenAfter redirects p s).Nodup := by
  unfold seenAfter
  cases hr : redirects.lookup s with
  | none =>
    cases hs : p.slots.lookup s with
    | none => exact h
    | some sl => exact foldl_addSeen_nodup _ _ h
  | some t =>
    cases hs : p.slots.lookup s with
    | none => exact addSeen_nodup _ _ h
    | some sl => exact foldl_addSeen_nodup _ _ (addSeen_nodup _ _ h)

theorem seenAfter_prefix (p : PState) (s : Spec) :
    ∃ ext, seenAfter redirects p s = p.seen ++ ext := by
  unfold seenAfter
  cases hr : redirects.lookup s with
  | none =>
    cases hs : p.slots.lookup s with
    | none => exact ⟨[], by simp⟩
    | some sl => exact foldl_addSeen_prefix _ _
  | some t =>
    obtain ⟨e1, h1⟩ := addSeen_prefix p.seen t
    cases hs : p.slots.lookup s with
    | none => exact ⟨e1, h1⟩
    | some sl =>
      obtain ⟨e2, h2⟩ := foldl_addSeen_prefix (slotTargets sl) (addSeen p.seen t)
      exact ⟨e1 ++ e2, by simp only []; rw [h2, h1, List.append_assoc]⟩

/-! ## the invariant -/

structure PInv (p : PState) : Prop where
  nodup : p.seen.Nodup
  sound : ∀ x ∈ p.seen, PReach roots slots0 redirects x
  roots : ∀ r ∈ roots, r ∈ p.seen
  /-- processed specifiers are closed -/
  done : ∀ i s, i < p.idx → p.seen[i]? = some s →
    (∀ t, redirects.lookup s = some t → t ∈ p.seen) ∧
    (∀ sl t, slots0.lookup s = some sl → t ∈ slotTargets sl → t ∈ p.seen)
  /-- the entries: pruned where processed, untouched elsewhere -/
  vis : ∀ k, p.slots.lookup k =
    (slots0.lookup k).map fun sl => if k ∈ p.seen.take p.idx then pruneSlot sl else sl
  idx_le : p.idx ≤ p.seen.length

theorem slot_targets_inv {p : PState} (h : PInv roots slots0 redirects p) (k : Spec) (sl : BSlot)
    (hk : p.slots.lookup k = some sl) :
    ∃ sl0, slots0.lookup k = some sl0 ∧ slotTargets sl = slotTargets sl0 ∧ pruneSlot sl = pruneSlot sl0 := by
  have hv := h.vis k
  rw [hk] at hv
  cases h0 : slots0.lookup k with
  | none => rw [h0] at hv; cases hv
  | some sl0 =>
    rw [h0] at hv
    simp only [Option.map_some, Option.some.injEq] at hv
    refine ⟨sl0, rfl, ?_, ?_⟩
    · rw [hv]; split
      · exact slotTargets_pruneSlot sl0
      · rfl
    · rw [hv]; split
      · exact pruneSlot_idem sl0
      · rfl

theorem pinv_init : PInv roots slots0 redirects
    { slots := slots0, seen := roots.foldl addSeen [], idx := 0 } where
  nodup := foldl_addSeen_nodup _ _ (by simp)
  sound := by
    intro x hx
    rcases (foldl_addSeen_mem_iff roots [] x).mp hx with h | h
    · cases h
    · exact .root h
  roots := by
    intro r hr
    exact (foldl_addSeen_mem_iff roots [] r).mpr (Or.inr hr)
  done := by intro i s hi; exact absurd hi (Nat.not_lt_zero _)
  vis := by
    intro k
    cases slots0.lookup k <;> simp
  idx_le := Nat.zero_le _

theorem take_succ_of_getElem? {l : List Spec} {i : Nat} {s : Spec} (h : l[i]? = some s) (ext : List Spec) :
    (l ++ ext).take (i + 1) = l.take i ++ [s] := by
  have hi : i < l.length := by
    rcases Nat.lt_or_ge i l.length with h' | h'
    · exact h'
    · rw [List.getElem?_eq_none h'] at h; cases h
  rw [List.take_append_of_le_length (by omega)]
  rw [List.take_add_one, h]
  rfl

theorem pinv_step {p : PState} (h : PInv roots slots0 redirects p) (s : Spec)
    (hs : p.seen[p.idx]? = some s) : PInv roots slots0 redirects (pruneIter redirects p s) := by
  rw [pruneIter_eq]
  have hsmem : s ∈ p.seen := List.mem_of_getElem? hs
  have hidx : p.idx < p.seen.length := by
    rcases Nat.lt_or_ge p.idx p.seen.length with h' | h'
    · exact h'
    · rw [List.getElem?_eq_none h'] at hs; cases hs
  obtain ⟨ext, hext⟩ := seenAfter_prefix redirects p s
  constructor
  · exact seenAfter_nodup redirects p s h.nodup
  · intro x hx
    rcases (seenAfter_mem_iff redirects p s x).mp hx with hx | hx | ⟨sl, hsl, hx⟩
    · exact h.sound x hx
    · exact .redirect (h.sound s hsmem) hx
    · obtain ⟨sl0, h0, ht, _⟩ := slot_targets_inv roots slots0 redirects h s sl hsl
      exact .edge (h.sound s hsmem) h0 (ht ▸ hx)
  · intro r hr
    exact (seenAfter_mem_iff redirects p s r).mpr (Or.inl (h.roots r hr))
  · intro i s' hi hs'
    simp only at hi hs'
    rw [hext] at hs'
    by_cases hlt : i < p.idx
    · have hs'' : p.seen[i]? = some s' := by
        rw [List.getElem?_append_left (by omega)] at hs'; exact hs'
      obtain ⟨h1, h2⟩ := h.done i s' hlt hs''
      exact ⟨fun t ht => (seenAfter_mem_iff redirects p s t).mpr (Or.inl (h1 t ht)),
             fun sl t hsl ht => (seenAfter_mem_iff redirects p s t).mpr (Or.inl (h2 sl t hsl ht))⟩
    · have hieq : i = p.idx := by omega
      subst hieq
      rw [List.getElem?_append_left hidx, hs] at hs'
      cases hs'
      refine ⟨fun t ht => (seenAfter_mem_iff redirects p s t).mpr (Or.inr (Or.inl ht)), ?_⟩
      intro sl0 t h0 ht
      apply (seenAfter_mem_iff redirects p s t).mpr
      right; right
      have hv := h.vis s
      rw [h0] at hv
      simp only [Option.map_some] at hv
      refine ⟨_, hv, ?_⟩
      split
      · rw [slotTargets_pruneSlot]; exact ht
      · exact ht
  · intro k
    simp only
    rw [hext, take_succ_of_getElem? hs ext]
    unfold slotsAfter
    cases hsl : p.slots.lookup s with
    | none =>
      simp only
      rw [h.vis k]
      cases h0 : slots0.lookup k with
      | none => rfl
      | some sl0 =>
        simp only [Option.map_some, Option.some.injEq, List.mem_append, List.mem_singleton]
        by_cases hk : k = s
        · subst hk
          have := h.vis k
          rw [hsl, h0] at this
          cases this
        · simp [hk]
    | some sl =>
      simp only
      rw [lookup_upsert]
      by_cases hk : k = s
      · subst hk
        obtain ⟨sl0, h0, _, hp⟩ := slot_targets_inv roots slots0 redirects h k sl hsl
        simp [h0, hp]
      · simp only [hk, if_false]
        rw [h.vis k]
        cases h0 : slots0.lookup k with
        | none => rfl
        | some sl0 => simp [hk]
  · simp only
    rw [hext, List.length_append]
    omega

/-! ## the loop -/

theorem pruneLoop_inv (U : Nat) :
    ∀ (fuel : Nat) (p : PState), PInv roots slots0 redirects p →
      (∀ q : PState, PInv roots slots0 redirects q → q.seen.length ≤ U) →
      U - p.idx < fuel →
      PInv roots slots0 redirects (pruneLoop redirects fuel p) ∧
      (pruneLoop redirects fuel p).seen[(pruneLoop redirects fuel p).idx]? = none := by
  intro fuel
  induction fuel with
  | zero => intro p _ _ h; omega
  | succ fuel ih =>
    intro p hp hU hm
    unfold pruneLoop
    cases hs : p.seen[p.idx]? with
    | none => exact ⟨hp, hs⟩
    | some s =>
      simp only
      have hstep := pinv_step roots slots0 redirects hp s hs
      apply ih _ hstep hU
      have hidx : p.idx < p.seen.length := by
        rcases Nat.lt_or_ge p.idx p.seen.length with h' | h'
        · exact h'
        · rw [List.getElem?_eq_none h'] at hs; cases hs
      have := hU p hp
      rw [pruneIter_eq]
      simp only
      omega

/-- the univ: everything `PReach` can mention -/
def univ : List Spec :=
  roots ++ redirects.map (·.2) ++ slots0.flatMap fun (_, sl) => slotTargets sl

theorem lookup_mem' {α} (l : List (Spec × α)) (k : Spec) (v : α) (h : l.lookup k = some v) :
    (k, v) ∈ l := by
  induction l with
  | nil => cases h
  | cons a l ih =>
    obtain ⟨k', v'⟩ := a
    simp only [List.lookup] at h
    split at h
    · rename_i heq
      have : k = k' := by simpa using heq
      cases h; subst this; exact List.mem_cons_self
    · exact List.mem_cons_of_mem _ (ih h)

theorem preach_in_univ (x : Spec) (h : PReach roots slots0 redirects x) :
    x ∈ univ roots slots0 redirects := by
  unfold univ
  cases h with
  | root hr => exact List.mem_append_left _ (List.mem_append_left _ hr)
  | redirect _ hr =>
    apply List.mem_append_left
    apply List.mem_append_right
    exact List.mem_map.mpr ⟨_, lookup_mem' _ _ _ hr, rfl⟩
  | edge _ hs ht =>
    apply List.mem_append_right
    exact List.mem_flatMap.mpr ⟨_, lookup_mem' _ _ _ hs, ht⟩

theorem univ_length :
    (univ roots slots0 redirects).length + 1 = pruneFuel roots slots0 redirects := by
  simp [univ, pruneFuel]
  omega

/-- **the worklist ends, within `pruneFuel`, with exactly the reachable set seen and every
reachable entry pruned** -/
theorem pruneLoop_final :
    let q := pruneLoop redirects (pruneFuel roots slots0 redirects)
      { slots := slots0, seen := roots.foldl addSeen [], idx := 0 }
    (∀ x, x ∈ q.seen ↔ PReach roots slots0 redirects x) ∧
    (∀ k, q.slots.lookup k =
      (slots0.lookup k).map fun sl => if k ∈ q.seen then pruneSlot sl else sl) := by
  intro q
  have hU : ∀ r : PState, PInv roots slots0 redirects r →
      r.seen.length ≤ (univ roots slots0 redirects).length := by
    intro r hr
    exact List.Nodup.length_le_of_subset hr.nodup
      (fun x hx => preach_in_univ roots slots0 redirects x (hr.sound x hx))
  obtain ⟨hinv, hend⟩ := pruneLoop_inv roots slots0 redirects (univ roots slots0 redirects).length
    (pruneFuel roots slots0 redirects) _ (pinv_init roots slots0 redirects) hU
    (by have := univ_length roots slots0 redirects; simp only; omega)
  have hlen : q.seen.length ≤ q.idx := by
    rcases Nat.lt_or_ge q.idx q.seen.length with h' | h'
    · have : q.seen[q.idx]? = some q.seen[q.idx] := List.getElem?_eq_getElem h'
      rw [this] at hend; cases hend
    · exact h'
  have hclosed : ∀ s, s ∈ q.seen →
      (∀ t, redirects.lookup s = some t → t ∈ q.seen) ∧
      (∀ sl t, slots0.lookup s = some sl → t ∈ slotTargets sl → t ∈ q.seen) := by
    intro s hs
    obtain ⟨i, hi, hget⟩ := List.mem_iff_getElem.mp hs
    have : q.seen[i]? = some s := by rw [List.getElem?_eq_getElem hi, hget]
    have hq : i < q.idx := Nat.lt_of_lt_of_le hi hlen
    exact hinv.done i s hq this
  refine ⟨?_, ?_⟩
  · intro x
    constructor
    · exact hinv.sound x
    · intro hx
      induction hx with
      | root hr => exact hinv.roots _ hr
      | redirect _ hr ih => exact (hclosed _ ih).1 _ hr
      | edge _ hs ht ih => exact (hclosed _ ih).2 _ _ hs ht
  · intro k
    rw [hinv.vis k]
    have : q.seen.take q.idx = q.seen := List.take_of_length_le hlen
    rw [this]

end DG.Prune
