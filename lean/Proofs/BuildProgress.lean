import Proofs.BuildLoop
/-!
# The build loop cannot spin

Every iteration that takes a request off the queue calls the loader at least once, and at most two
consecutive iterations can pass without taking one (the deferred drain, then the dynamic-branch
drain): a build that does not finish keeps calling the loader.  (Finding F13 was a loop that span
without a single call.)  Whether the number of calls is bounded is the loader's side of
termination and is checked operationally.
-/
namespace DG.Build
open DG Tables

theorem log_logRequest (w : World) (o : Opts) (r : Req) (st : St) :
    (logRequest w o r st).log.length ≥ st.log.length + 1 := by
  unfold logRequest
  simp only
  split <;> simp [logCall] <;> omega

/-- loads, visits and slot updates never touch the loader-call log -/
structure KeepsLog (f : St → St) : Prop where
  log : ∀ st, (f st).log = st.log

theorem KeepsLog.comp {f g : St → St} (hf : KeepsLog f) (hg : KeepsLog g) : KeepsLog (fun st => g (f st)) :=
  ⟨fun st => by show (g (f st)).log = st.log; rw [hg.log, hf.log]⟩

theorem keepsLog_foldl {α} (f : St → α → St) (hf : ∀ a, KeepsLog (fun st => f st a)) (l : List α) :
    KeepsLog (fun st => l.foldl f st) := by
  induction l with
  | nil => exact ⟨fun _ => rfl⟩
  | cons a l ih =>
    simp only [List.foldl_cons]
    exact KeepsLog.comp (hf a) ih

theorem keepsLog_load' (w : World) (o : Opts) (count : Nat) (lof : St → LoadOpts) :
    KeepsLog (fun st => load w o count (lof st) st) := by
  constructor
  intro st
  show (load w o count (lof st) st).log = st.log
  unfold load
  simp only
  split
  · rfl
  · rfl
  · unfold addDeferred; split <;> rfl
  · split <;> rfl

theorem keepsLog_load (w : World) (o : Opts) (count : Nat) (lo : LoadOpts) : KeepsLog (load w o count lo) :=
  keepsLog_load' w o count (fun _ => lo)

theorem keepsLog_visitDepCode (w : World) (o : Opts) (d : BDep) : KeepsLog (fun st => (visitDepCode w o d st).2) := by
  constructor
  intro st
  unfold visitDepCode
  split
  · split
    · split
      · split <;> rfl
      · exact (keepsLog_load w o 0 _).log st
    · rfl
  · rfl

theorem keepsLog_visitDepType (w : World) (o : Opts) (d : BDep) : KeepsLog (fun st => (visitDepType w o d st).2) := by
  constructor
  intro st
  unfold visitDepType
  split
  · split
    · split
      · rfl
      · exact (keepsLog_load w o 0 _).log st
    · rfl
  · rfl

theorem keepsLog_visitDeps (w : World) (o : Opts) (deps : List BDep) : KeepsLog (fun st => (visitDeps w o deps st).2) := by
  induction deps with
  | nil => exact ⟨fun _ => rfl⟩
  | cons d rest ih =>
    constructor
    intro st
    rw [visitDeps]
    split
    · exact ih.log st
    · show (visitDeps w o rest _).2.log = st.log
      rw [ih.log, (keepsLog_visitDepType w o _).log, (keepsLog_visitDepCode w o d).log]

theorem keepsLog_visitModule (w : World) (o : Opts) (cls : Class) (c : Content) :
    KeepsLog (fun st => (visitModule w o cls c st).2) := by
  constructor
  intro st
  unfold visitModule
  split
  · rfl
  · rfl
  · exact (keepsLog_visitDeps w o _).log st
  · have hjs : ∀ s, (visitJsDeps w o c.parsed s).2.log = s.log := by
      intro s
      unfold visitJsDeps
      split
      · rw [(keepsLog_visitDeps w o _).log]
        unfold loadSourceMap
        split
        · exact (keepsLog_load w o 0 _).log s
        · rfl
      · rfl
    simp only
    split
    · unfold loadTypesDep
      split
      · rw [(keepsLog_load w o 0 _).log]; exact hjs st
      · exact hjs st
    · exact hjs st

theorem log_checkSpecifier (st : St) (a b : Spec) : (checkSpecifier st a b).log = st.log := by
  unfold checkSpecifier
  split
  · rfl
  · unfold recordRedirect dropPending
    split <;> split <;> rfl

theorem log_markRoot (st : St) (b : Bool) (s : Spec) : (markRoot st b s).log = st.log := by
  unfold markRoot St.addResolvedRoot
  split
  · split <;> rfl
  · rfl

theorem log_recordChecksum (w : World) (cls : Class) (f : Spec) (h : Option Nat) (st : St) :
    (recordChecksum w cls f h st).log = st.log := by
  unfold recordChecksum; split <;> rfl

theorem log_applyOutcome (w : World) (o : Opts) (r : Req) (st : St) (out : Outcome) :
    (applyOutcome w o r st out).log = st.log := by
  cases out with
  | err e => simp only [applyOutcome]; exact log_checkSpecifier st _ _
  | external spec isAsset =>
    simp only [applyOutcome]
    have h : (markRoot (checkSpecifier st r.spec spec) r.isRoot spec).log = st.log := by
      rw [log_markRoot, log_checkSpecifier]
    split
    · exact h
    · exact h
    · exact h
  | redirect to =>
    simp only [applyOutcome]
    rw [(keepsLog_load w o _ _).log, log_checkSpecifier]
  | module f cls =>
    simp only [applyOutcome]
    show (visitModule w o cls (w.contentOf r.spec) _).2.log = st.log
    rw [(keepsLog_visitModule w o cls _).log, log_recordChecksum, log_markRoot, log_checkSpecifier]

/-- **a request taken off the queue is a loader call** -/
theorem log_stepPending (w : World) (o : Opts) (r : Req) (st : St) :
    (stepPending w o r st).log.length ≥ st.log.length + 1 := by
  unfold stepPending
  rw [log_applyOutcome]
  exact log_logRequest w o r st

theorem log_drain (w : World) (o : Opts) (st : St) : (drain w o st).log = st.log := by
  unfold drain
  split
  · rfl
  · split
    · exact (keepsLog_foldl _ (fun p => keepsLog_load' w o 0 _) st.deferred).log _
    · split
      · exact (keepsLog_foldl _ (fun p => keepsLog_load' w o 0 _) st.dyn).log _
      · rfl

/-- the log never shrinks, and grows whenever the queue was not empty -/
theorem log_iter (w : World) (o : Opts) (st : St) :
    (iter w o st).log.length ≥ st.log.length + (if st.pending.isEmpty then 0 else 1) := by
  unfold iter
  rw [log_drain]
  rcases hp : st.pending with _ | ⟨r, rest⟩
  · simp
  · simp only [List.isEmpty_cons, Bool.false_eq_true, if_false]
    exact log_stepPending w o r _

/-! ## at most two iterations in a row without a request -/

def NoPendingSlot (st : St) : Prop := ∀ s a, st.slot s ≠ some (.pending a)

theorem noPendingSlot_of_inv (st : St) (h : PendInv st) (hp : st.pending = []) : NoPendingSlot st := by
  intro s a hs
  rcases h s a hs with ⟨r, hr, _⟩ | hex
  · rw [hp] at hr; cases hr
  · cases hex

theorem loadDecision_defer_pending (w : World) (o : Opts) (lo : LoadOpts) (st : St) (spec : Spec)
    (h : loadDecision w o lo st spec = .defer) : st.slot spec = some (.pending true) := by
  unfold loadDecision at h
  cases ha : assetReject w o lo spec with
  | some e => simp [ha] at h
  | none =>
    simp only [ha] at h
    cases hs : st.slot spec with
    | none => simp [hs] at h
    | some sl =>
      simp only [hs] at h
      cases sl with
      | pending b =>
        cases b with
        | true => rfl
        | false => simp at h
      | module m =>
        cases m with
        | external a =>
          cases a <;> cases hl : lo.isAsset <;> simp [hl] at h
        | js _ _ _ => simp at h
        | wasm _ => simp at h
        | json => simp at h
        | node => simp at h
      | err e => simp at h

/-- a load on a state without pending entries defers nothing; if it queues nothing either, the
state still has no pending entry -/
theorem load_no_defer (w : World) (o : Opts) (count : Nat) (lo : LoadOpts) (st : St) (h : NoPendingSlot st) :
    (load w o count lo st).deferred = st.deferred ∧
    ((load w o count lo st).pending = st.pending → NoPendingSlot (load w o count lo st)) := by
  unfold load
  simp only
  rcases hd : loadDecision w o lo st (st.resolveForLoad lo.spec) with e | _ | _ | _
  · refine ⟨rfl, fun _ => ?_⟩
    intro s a hs
    rw [slot_setSlot] at hs
    split at hs
    · cases hs
    · exact h s a hs
  · exact ⟨rfl, fun _ => h⟩
  · exact absurd (loadDecision_defer_pending w o lo st _ hd) (h _ true)
  · simp only
    split
    · refine ⟨rfl, fun _ => ?_⟩
      intro s a hs
      rw [slot_setSlot] at hs
      split at hs
      · cases hs
      · exact h s a hs
    · refine ⟨rfl, fun hp => ?_⟩
      exfalso
      simp only [loadPendingModule, pending_setSlot] at hp
      have := congrArg List.length hp
      simp at this

/-- a load leaves the queue alone or appends one request -/
theorem pending_load (w : World) (o : Opts) (count : Nat) (lo : LoadOpts) (st : St) :
    (load w o count lo st).pending = st.pending ∨ ∃ r, (load w o count lo st).pending = st.pending ++ [r] := by
  unfold load
  simp only
  split
  · exact Or.inl rfl
  · exact Or.inl rfl
  · left; unfold addDeferred; split <;> rfl
  · split
    · exact Or.inl rfl
    · exact Or.inr ⟨_, rfl⟩

theorem len_load (w : World) (o : Opts) (count : Nat) (lo : LoadOpts) (st : St) :
    st.pending.length ≤ (load w o count lo st).pending.length := by
  rcases pending_load w o count lo st with h | ⟨r, h⟩ <;> rw [h] <;> simp

/-- a step that is one load -/
def IsLoad (w : World) (o : Opts) {α} (f : St → α → St) : Prop := ∀ st a, ∃ lo, f st a = load w o 0 lo st

theorem len_foldl_load {α} (w : World) (o : Opts) (f : St → α → St) (hf : IsLoad w o f) (items : List α) (st : St) :
    st.pending.length ≤ (items.foldl f st).pending.length := by
  induction items generalizing st with
  | nil => exact Nat.le_refl _
  | cons a rest ih =>
    simp only [List.foldl_cons]
    obtain ⟨lo, hlo⟩ := hf st a
    rw [hlo]
    exact Nat.le_trans (len_load w o 0 lo st) (ih _)

/-- loads on a state without pending entries: if in the end nothing was queued, nothing was deferred -/
theorem foldl_load_no_defer {α} (w : World) (o : Opts) (f : St → α → St) (hf : IsLoad w o f) (items : List α) (st : St)
    (h : NoPendingSlot st) (hp : (items.foldl f st).pending.length = st.pending.length) :
    (items.foldl f st).deferred = st.deferred := by
  induction items generalizing st with
  | nil => rfl
  | cons a rest ih =>
    simp only [List.foldl_cons] at hp ⊢
    obtain ⟨lo, hlo⟩ := hf st a
    rw [hlo] at hp ⊢
    have h1 := load_no_defer w o 0 lo st h
    have hl1 := len_load w o 0 lo st
    have hl2 := len_foldl_load w o f hf rest (load w o 0 lo st)
    have hlen : (load w o 0 lo st).pending.length = st.pending.length := by omega
    have hp1 : (load w o 0 lo st).pending = st.pending := by
      rcases pending_load w o 0 lo st with h' | ⟨r, h'⟩
      · exact h'
      · rw [h'] at hlen; simp at hlen
    rw [← h1.1]
    exact ih _ (h1.2 hp1) (by rw [hlen]; exact hp)

theorem fold_progress {α} (w : World) (o : Opts) (f : St → α → St) (hf : IsLoad w o f) (items : List α) (s0 : St)
    (h : NoPendingSlot s0) (hp0 : s0.pending = []) :
    (items.foldl f s0).pending ≠ [] ∨ (items.foldl f s0).deferred = s0.deferred := by
  by_cases hq : (items.foldl f s0).pending = []
  · exact Or.inr (foldl_load_no_defer w o f hf items s0 h (by rw [hq, hp0]))
  · exact Or.inl hq

/-- a drain-only iteration on a state that satisfies the invariant: afterwards a request is queued,
or the deferred table is empty -/
theorem drain_progress (w : World) (o : Opts) (st : St) (hinv : PendInv st) (hp : st.pending = []) :
    (drain w o st).pending ≠ [] ∨ (drain w o st).deferred = [] := by
  have hnp := noPendingSlot_of_inv st hinv hp
  unfold drain
  simp only [hp, List.isEmpty_nil, Bool.not_true, Bool.false_eq_true, if_false]
  split
  · -- deferred drain
    refine (fold_progress w o _ (fun st a => ⟨_, rfl⟩) _ _ ?_ ?_).imp id ?_
    · exact fun s a hs => hnp s a hs
    · rfl
    · intro h; exact h
  · rename_i hdef
    have hd0 : st.deferred = [] := by simpa using hdef
    split
    · refine (fold_progress w o _ (fun st a => ⟨_, rfl⟩) _ _ ?_ ?_).imp id ?_
      · exact fun s a hs => hnp s a hs
      · rfl
      · intro h; rw [h]; exact hd0
    · exact Or.inr hd0

/-- after the dynamic-branch drain the table of dynamic branches is empty and stays so -/
theorem drain_dyn (w : World) (o : Opts) (st : St) (hp : st.pending = []) (hd : st.deferred = []) :
    (drain w o st).dyn = [] ∨ (st.inDyn = true ∧ drain w o st = st) := by
  unfold drain
  simp only [hp, hd, List.isEmpty_nil, Bool.not_true, Bool.false_eq_true, if_false]
  split
  · left
    have : ∀ (items : List (Spec × DynBranch)) (s : St), s.dyn = [] →
        (items.foldl (fun st (p : Spec × DynBranch) =>
          load w o 0 { spec := p.1, range := some p.2.range, spRef := p.2.spRef, isAsset := p.2.isAsset,
                       inDyn := true, isRoot := st.isResolvedRoot p.1, attr := p.2.attr } st) s).dyn = [] := by
      intro items
      induction items with
      | nil => intro s h; exact h
      | cons a rest ih =>
        intro s h
        simp only [List.foldl_cons]
        apply ih
        have : ∀ lo, (load w o 0 lo s).dyn = s.dyn := by
          intro lo
          unfold load
          simp only
          split
          · rfl
          · rfl
          · unfold addDeferred; split <;> rfl
          · split <;> rfl
        rw [this]; exact h
    exact this st.dyn _ rfl
  · rename_i hin
    right
    exact ⟨by simpa using hin, rfl⟩

end DG.Build

namespace DG.Build
open DG Tables

/-! ## once dynamic branches are being resolved, none is queued any more -/

def DynInv (st : St) : Prop := st.inDyn = true → st.dyn = []

/-- leaves `inDyn` alone, and the dynamic-branch table too once `inDyn` is set -/
structure KeepsDyn (f : St → St) : Prop where
  flag : ∀ st, (f st).inDyn = st.inDyn
  table : ∀ st, st.inDyn = true → (f st).dyn = st.dyn

theorem KeepsDyn.comp {f g : St → St} (hf : KeepsDyn f) (hg : KeepsDyn g) : KeepsDyn (fun st => g (f st)) :=
  ⟨fun st => by show (g (f st)).inDyn = st.inDyn; rw [hg.flag, hf.flag],
   fun st h => by
     show (g (f st)).dyn = st.dyn
     rw [hg.table _ (by rw [hf.flag]; exact h), hf.table st h]⟩

theorem KeepsDyn.inv {f : St → St} (hf : KeepsDyn f) (st : St) (h : DynInv st) : DynInv (f st) := by
  intro hi
  rw [hf.flag] at hi
  rw [hf.table st hi]
  exact h hi

theorem keepsDyn_foldl {α} (f : St → α → St) (hf : ∀ a, KeepsDyn (fun st => f st a)) (l : List α) :
    KeepsDyn (fun st => l.foldl f st) := by
  induction l with
  | nil => exact ⟨fun _ => rfl, fun _ _ => rfl⟩
  | cons a l ih =>
    simp only [List.foldl_cons]
    exact KeepsDyn.comp (hf a) ih

theorem keepsDyn_same (f : St → St) (h1 : ∀ st, (f st).inDyn = st.inDyn) (h2 : ∀ st, (f st).dyn = st.dyn) : KeepsDyn f :=
  ⟨h1, fun st _ => h2 st⟩

theorem keepsDyn_load' (w : World) (o : Opts) (count : Nat) (lof : St → LoadOpts) :
    KeepsDyn (fun st => load w o count (lof st) st) := by
  apply keepsDyn_same
  · intro st
    show (load w o count (lof st) st).inDyn = st.inDyn
    unfold load; simp only
    split
    · rfl
    · rfl
    · unfold addDeferred; split <;> rfl
    · split <;> rfl
  · intro st
    show (load w o count (lof st) st).dyn = st.dyn
    unfold load; simp only
    split
    · rfl
    · rfl
    · unfold addDeferred; split <;> rfl
    · split <;> rfl

theorem keepsDyn_load (w : World) (o : Opts) (count : Nat) (lo : LoadOpts) : KeepsDyn (load w o count lo) :=
  keepsDyn_load' w o count (fun _ => lo)

theorem keepsDyn_visitDepCode (w : World) (o : Opts) (d : BDep) : KeepsDyn (fun st => (visitDepCode w o d st).2) := by
  constructor
  · intro st
    unfold visitDepCode
    split
    · split
      · split
        · split <;> rfl
        · exact (keepsDyn_load w o 0 _).flag st
      · rfl
    · rfl
  · intro st hin
    unfold visitDepCode
    split
    · split
      · split
        · rename_i hc; simp [hin] at hc
        · exact (keepsDyn_load w o 0 _).table st hin
      · rfl
    · rfl

theorem keepsDyn_visitDepType (w : World) (o : Opts) (d : BDep) : KeepsDyn (fun st => (visitDepType w o d st).2) := by
  constructor
  · intro st
    unfold visitDepType
    split
    · split
      · split
        · rfl
        · exact (keepsDyn_load w o 0 _).flag st
      · rfl
    · rfl
  · intro st hin
    unfold visitDepType
    split
    · split
      · split
        · rename_i hc; simp [hin] at hc
        · exact (keepsDyn_load w o 0 _).table st hin
      · rfl
    · rfl

theorem keepsDyn_visitDeps (w : World) (o : Opts) (deps : List BDep) : KeepsDyn (fun st => (visitDeps w o deps st).2) := by
  induction deps with
  | nil => exact ⟨fun _ => rfl, fun _ _ => rfl⟩
  | cons d rest ih =>
    have hstep := KeepsDyn.comp (KeepsDyn.comp (keepsDyn_visitDepCode w o d)
      (f := fun st => (visitDepCode w o d st).2) (g := fun st => st) ⟨fun _ => rfl, fun _ _ => rfl⟩) ih
    constructor
    · intro st
      rw [visitDeps]
      split
      · exact ih.flag st
      · show (visitDeps w o rest _).2.inDyn = st.inDyn
        rw [ih.flag, (keepsDyn_visitDepType w o _).flag, (keepsDyn_visitDepCode w o d).flag]
    · intro st hin
      rw [visitDeps]
      split
      · exact ih.table st hin
      · show (visitDeps w o rest _).2.dyn = st.dyn
        have h1 := (keepsDyn_visitDepCode w o d).flag st
        have h2 := (keepsDyn_visitDepType w o (visitDepCode w o d st).1).flag (visitDepCode w o d st).2
        rw [ih.table _ (by rw [h2, h1]; exact hin), (keepsDyn_visitDepType w o _).table _ (by rw [h1]; exact hin),
          (keepsDyn_visitDepCode w o d).table st hin]

theorem keepsDyn_visitModule (w : World) (o : Opts) (cls : Class) (c : Content) :
    KeepsDyn (fun st => (visitModule w o cls c st).2) := by
  have hsm : KeepsDyn (loadSourceMap w o c.parsed) := by
    constructor
    · intro st; unfold loadSourceMap; split
      · exact (keepsDyn_load w o 0 _).flag st
      · rfl
    · intro st hin; unfold loadSourceMap; split
      · exact (keepsDyn_load w o 0 _).table st hin
      · rfl
  have htd : KeepsDyn (loadTypesDep w o c.parsed) := by
    constructor
    · intro st; unfold loadTypesDep; split
      · exact (keepsDyn_load w o 0 _).flag st
      · rfl
    · intro st hin; unfold loadTypesDep; split
      · exact (keepsDyn_load w o 0 _).table st hin
      · rfl
  have hjs : KeepsDyn (fun st => (visitJsDeps w o c.parsed st).2) := by
    constructor
    · intro st; unfold visitJsDeps; split
      · exact (KeepsDyn.comp hsm (keepsDyn_visitDeps w o c.parsed.deps)).flag st
      · rfl
    · intro st hin; unfold visitJsDeps; split
      · exact (KeepsDyn.comp hsm (keepsDyn_visitDeps w o c.parsed.deps)).table st hin
      · rfl
  constructor
  · intro st
    unfold visitModule
    split
    · rfl
    · rfl
    · exact (keepsDyn_visitDeps w o _).flag st
    · simp only
      split
      · exact (KeepsDyn.comp hjs htd).flag st
      · exact hjs.flag st
  · intro st hin
    unfold visitModule
    split
    · rfl
    · rfl
    · exact (keepsDyn_visitDeps w o _).table st hin
    · simp only
      split
      · exact (KeepsDyn.comp hjs htd).table st hin
      · exact hjs.table st hin

theorem keepsDyn_checkSpecifier (a b : Spec) : KeepsDyn (fun st => checkSpecifier st a b) := by
  apply keepsDyn_same
  · intro st; unfold checkSpecifier; split
    · rfl
    · unfold recordRedirect dropPending; split <;> split <;> rfl
  · intro st; unfold checkSpecifier; split
    · rfl
    · unfold recordRedirect dropPending; split <;> split <;> rfl

theorem keepsDyn_stepPending (w : World) (o : Opts) (r : Req) : KeepsDyn (stepPending w o r) := by
  have hlog : KeepsDyn (logRequest w o r) := by
    apply keepsDyn_same <;> intro st <;> unfold logRequest <;> simp only <;> split <;> rfl
  have hmr : ∀ b s, KeepsDyn (fun st => markRoot st b s) := by
    intro b s
    apply keepsDyn_same <;> intro st <;> unfold markRoot St.addResolvedRoot <;> split <;> (try split) <;> rfl
  have hrc : ∀ cls f h, KeepsDyn (recordChecksum w cls f h) := by
    intro cls f h
    apply keepsDyn_same <;> intro st <;> unfold recordChecksum <;> split <;> rfl
  have hset : ∀ k sl, KeepsDyn (fun st => St.setSlot st k sl) := fun k sl => keepsDyn_same _ (fun _ => rfl) (fun _ => rfl)
  have happly : ∀ out, KeepsDyn (fun st => applyOutcome w o r st out) := by
    intro out
    cases out with
    | err e => exact KeepsDyn.comp (keepsDyn_checkSpecifier _ _) (hset _ _)
    | external spec isAsset =>
      have h2 := KeepsDyn.comp (keepsDyn_checkSpecifier r.spec spec) (hmr r.isRoot spec)
      constructor
      · intro st
        simp only [applyOutcome]
        split
        · exact h2.flag st
        · exact h2.flag st
        · exact h2.flag st
      · intro st hin
        simp only [applyOutcome]
        split
        · exact h2.table st hin
        · exact h2.table st hin
        · exact h2.table st hin
    | redirect to => exact KeepsDyn.comp (keepsDyn_checkSpecifier _ _) (keepsDyn_load w o _ _)
    | module f cls =>
      have h2 := KeepsDyn.comp (KeepsDyn.comp (keepsDyn_checkSpecifier r.spec f) (hmr r.isRoot f))
        (hrc cls f (if (tryLoad' w o r).2 then w.hashReload.lookup r.spec else w.hashUse.lookup r.spec))
      have h3 := KeepsDyn.comp h2 (keepsDyn_visitModule w o cls (w.contentOf r.spec))
      constructor
      · intro st; simp only [applyOutcome]; exact h3.flag st
      · intro st hin; simp only [applyOutcome]; exact h3.table st hin
  unfold stepPending
  exact KeepsDyn.comp hlog (happly _)

theorem dynInv_drain (w : World) (o : Opts) (st : St) (h : DynInv st) : DynInv (drain w o st) := by
  unfold drain
  split
  · exact h
  · split
    · exact (keepsDyn_foldl _ (fun p => keepsDyn_load' w o 0 _) st.deferred).inv _ (fun hi => h hi)
    · split
      · exact (keepsDyn_foldl _ (fun p => keepsDyn_load' w o 0 _) st.dyn).inv _ (fun _ => rfl)
      · exact h

theorem dynInv_iter (w : World) (o : Opts) (st : St) (h : DynInv st) : DynInv (iter w o st) := by
  unfold iter
  apply dynInv_drain
  rcases hp : st.pending with _ | ⟨r, rest⟩
  · exact h
  · exact (keepsDyn_stepPending w o r).inv _ (fun hi => h hi)

theorem pendInv_iter (w : World) (o : Opts) (st : St) (hinv : PendInv st) : PendInv (iter w o st) := by
  unfold iter
  apply (good_drain w o).inv none
  rcases hp : st.pending with _ | ⟨r, rest⟩
  · simp only
    exact hinv
  · simp only
    apply stepPending_inv
    intro s a hs
    rcases hinv s a hs with ⟨q, hqm, hqs⟩ | hex
    · rw [hp] at hqm
      rcases List.mem_cons.mp hqm with rfl | hqm
      · exact Or.inr (by rw [hqs])
      · exact Or.inl ⟨q, hqm, hqs⟩
    · cases hex

/-- **two idle iterations at most**: from a state with nothing queued, after at most two iterations
a request is queued or the build is finished -/
theorem idle_at_most_twice (w : World) (o : Opts) (st : St) (hinv : PendInv st) (hd : DynInv st)
    (hp : st.pending = []) :
    (iter w o st).pending ≠ [] ∨ quiescent (iter w o st) = true ∨
    (iter w o (iter w o st)).pending ≠ [] ∨ quiescent (iter w o (iter w o st)) = true := by
  have hi1 : iter w o st = drain w o st := by unfold iter; simp [hp]
  rcases drain_progress w o st hinv hp with h1 | h1
  · exact Or.inl (by rw [hi1]; exact h1)
  · by_cases hp1 : (drain w o st).pending = []
    · -- nothing queued, nothing deferred: finished unless dynamic branches wait
      by_cases hq : quiescent (drain w o st) = true
      · exact Or.inr (Or.inl (by rw [hi1]; exact hq))
      · right; right
        have hinv1 := pendInv_iter w o st hinv
        have hd1 := dynInv_iter w o st hd
        rw [hi1] at hinv1 hd1 ⊢
        have hi2 : iter w o (drain w o st) = drain w o (drain w o st) := by unfold iter; simp [hp1]
        rw [hi2]
        rcases drain_progress w o _ hinv1 hp1 with h2 | h2
        · exact Or.inl h2
        · by_cases hp2 : (drain w o (drain w o st)).pending = []
          · right
            rcases drain_dyn w o (drain w o st) hp1 h1 with h3 | ⟨h3, _⟩
            · simp [quiescent, hp2, h2, h3]
            · -- already resolving dynamic branches: the table is empty, so the state was finished
              exfalso
              apply hq
              simp [quiescent, hp1, h1, hd1 h3]
          · exact Or.inl hp2
    · exact Or.inl (by rw [hi1]; exact hp1)

end DG.Build
