import Proofs.BuildWalk2
/-!
# The measure that decreases along the build loop

Over a finite universe `U` of specifiers: `T` = specifiers neither entered nor redirected yet,
`A` = asset stand-ins plus asset requests in flight, `Q` = the redirect budget left to the queued
requests.  Lexicographically `(T, A, Q)` never increases, and decreases whenever a request is taken
off the queue.
-/
namespace DG.Build
open DG Tables

def accB (st : St) (x : Spec) : Bool := (st.slot x).isSome || (st.redirects.lookup x).isSome

theorem accB_iff (st : St) (x : Spec) : accB st x = true ↔ Acc st x := by
  unfold accB Acc
  simp [Bool.or_eq_true]

def isExtAsset (st : St) (x : Spec) : Bool :=
  match st.slot x with
  | some (.module (.external true)) => true
  | _ => false

/-- specifiers of the universe not accounted for yet -/
def T (U : List Spec) (st : St) : Nat := U.countP fun x => !accB st x

/-- asset stand-ins among the universe, plus asset requests in flight -/
def A (U : List Spec) (st : St) : Nat := U.countP (isExtAsset st) + st.pending.countP (·.isAsset)

def budget (w : World) (r : Req) : Nat := 1 + (w.maxRedirects + 1 - r.count)

/-- redirect budget left to the queued requests -/
def Q (w : World) (st : St) : Nat := (st.pending.map (budget w)).sum

theorem countP_le_of_imp {α} (l : List α) (p q : α → Bool) (h : ∀ a ∈ l, p a = true → q a = true) :
    l.countP p ≤ l.countP q := by
  induction l with
  | nil => simp
  | cons a l ih =>
    have ih' := ih (fun b hb => h b (List.mem_cons_of_mem _ hb))
    simp only [List.countP_cons]
    by_cases hp : p a = true
    · have := h a (by simp) hp
      simp only [hp, this, if_true]; omega
    · simp only [hp, Bool.false_eq_true, if_false]
      split <;> omega

theorem countP_lt_of_imp {α} (l : List α) (p q : α → Bool) (h : ∀ a ∈ l, p a = true → q a = true)
    (x : α) (hx : x ∈ l) (hq : q x = true) (hp : p x = false) : l.countP p < l.countP q := by
  induction l with
  | nil => cases hx
  | cons a l ih =>
    have hle := countP_le_of_imp l p q (fun b hb => h b (List.mem_cons_of_mem _ hb))
    simp only [List.countP_cons]
    rcases List.mem_cons.mp hx with rfl | hx'
    · simp only [hp, hq, Bool.false_eq_true, if_false, if_true]; omega
    · have := ih (fun b hb => h b (List.mem_cons_of_mem _ hb)) hx'
      by_cases hpa : p a = true
      · have := h a (by simp) hpa
        simp only [hpa, this, if_true]; omega
      · simp only [hpa, Bool.false_eq_true, if_false]
        split <;> omega

/-- when what is accounted for stays accounted for, `T` does not grow -/
theorem T_le_of_acc (U : List Spec) (st st' : St) (h : ∀ x, Acc st x → Acc st' x) : T U st' ≤ T U st := by
  unfold T
  apply countP_le_of_imp
  intro x _ hx
  simp only [Bool.not_eq_true', Bool.not_eq_eq_eq_not, Bool.not_true] at hx ⊢
  cases hb : accB st x with
  | false => rfl
  | true =>
    have := (accB_iff st' x).mpr (h x ((accB_iff st x).mp hb))
    rw [this] at hx; cases hx

theorem T_lt_of_acc (U : List Spec) (st st' : St) (h : ∀ x, Acc st x → Acc st' x) (e : Spec) (he : e ∈ U)
    (h0 : ¬ Acc st e) (h1 : Acc st' e) : T U st' < T U st := by
  unfold T
  apply countP_lt_of_imp U _ _ _ e he
  · simp only [Bool.not_eq_true', Bool.not_eq_eq_eq_not, Bool.not_true]
    cases hb : accB st e with
    | false => rfl
    | true => exact absurd ((accB_iff st e).mp hb) h0
  · simp only [Bool.not_eq_eq_eq_not, Bool.not_false]
    exact (accB_iff st' e).mpr h1
  · intro x _ hx
    simp only [Bool.not_eq_true', Bool.not_eq_eq_eq_not, Bool.not_true] at hx ⊢
    cases hb : accB st x with
    | false => rfl
    | true =>
      have := (accB_iff st' x).mpr (h x ((accB_iff st x).mp hb))
      rw [this] at hx; cases hx

/-- the lexicographic order on (T, A, Q) -/
def LexLe (a b : Nat × Nat × Nat) : Prop :=
  a.1 < b.1 ∨ (a.1 = b.1 ∧ (a.2.1 < b.2.1 ∨ (a.2.1 = b.2.1 ∧ a.2.2 ≤ b.2.2)))

def LexLt (a b : Nat × Nat × Nat) : Prop :=
  a.1 < b.1 ∨ (a.1 = b.1 ∧ (a.2.1 < b.2.1 ∨ (a.2.1 = b.2.1 ∧ a.2.2 < b.2.2)))

theorem LexLe.refl (a : Nat × Nat × Nat) : LexLe a a := Or.inr ⟨rfl, Or.inr ⟨rfl, Nat.le_refl _⟩⟩

theorem LexLe.trans {a b c : Nat × Nat × Nat} (h1 : LexLe a b) (h2 : LexLe b c) : LexLe a c := by
  unfold LexLe at *
  omega

theorem LexLt.of_le_of_lt {a b c : Nat × Nat × Nat} (h1 : LexLe a b) (h2 : LexLt b c) : LexLt a c := by
  unfold LexLe LexLt at *
  omega

theorem LexLt.of_lt_of_le {a b c : Nat × Nat × Nat} (h1 : LexLt a b) (h2 : LexLe b c) : LexLt a c := by
  unfold LexLe LexLt at *
  omega

theorem LexLt.le {a b : Nat × Nat × Nat} (h : LexLt a b) : LexLe a b := by
  unfold LexLe LexLt at *
  omega

def mu (w : World) (U : List Spec) (st : St) : Nat × Nat × Nat := (T U st, A U st, Q w st)

/-! ## what the primitive updates do to the measure -/

def isExtAssetSlot : BSlot → Bool
  | .module (.external true) => true
  | _ => false

theorem isExtAsset_eq (st : St) (x : Spec) : isExtAsset st x = ((st.slot x).map isExtAssetSlot).getD false := by
  unfold isExtAsset
  cases h : st.slot x with
  | none => rfl
  | some sl =>
    cases sl with
    | module m => cases m <;> (try rfl); rename_i a; cases a <;> rfl
    | err e => rfl
    | pending a => rfl

theorem isExtAsset_setSlot (st : St) (k : Spec) (v : BSlot) (x : Spec) :
    isExtAsset (st.setSlot k v) x = if x = k then isExtAssetSlot v else isExtAsset st x := by
  rw [isExtAsset_eq, slot_setSlot]
  split
  · rfl
  · rw [isExtAsset_eq]

theorem ext_setSlot_le (U : List Spec) (st : St) (k : Spec) (v : BSlot) (hv : isExtAssetSlot v = false) :
    U.countP (isExtAsset (st.setSlot k v)) ≤ U.countP (isExtAsset st) := by
  apply countP_le_of_imp
  intro x _ hx
  rw [isExtAsset_setSlot] at hx
  split at hx
  · rw [hv] at hx; cases hx
  · exact hx

theorem ext_setSlot_lt (U : List Spec) (st : St) (k : Spec) (v : BSlot) (hv : isExtAssetSlot v = false)
    (hk : k ∈ U) (hwas : isExtAsset st k = true) :
    U.countP (isExtAsset (st.setSlot k v)) < U.countP (isExtAsset st) := by
  apply countP_lt_of_imp U _ _ _ k hk hwas
  · rw [isExtAsset_setSlot]; simp [hv]
  · intro x _ hx
    rw [isExtAsset_setSlot] at hx
    split at hx
    · rw [hv] at hx; cases hx
    · exact hx

theorem countP_le_succ_of_imp_except {α} [DecidableEq α] (l : List α) (hl : l.Nodup) (p q : α → Bool) (k : α)
    (h : ∀ a ∈ l, a ≠ k → p a = true → q a = true) : l.countP p ≤ l.countP q + 1 := by
  induction l with
  | nil => simp
  | cons a l ih =>
    have hnd := List.nodup_cons.mp hl
    simp only [List.countP_cons]
    by_cases hak : a = k
    · -- the exceptional element occurs here only: the rest follows the rule
      subst hak
      have hrest : l.countP p ≤ l.countP q := by
        apply countP_le_of_imp
        intro b hb hpb
        exact h b (List.mem_cons_of_mem _ hb) (by intro e; subst e; exact hnd.1 hb) hpb
      split <;> split <;> omega
    · have ih' := ih hnd.2 (fun b hb => h b (List.mem_cons_of_mem _ hb))
      by_cases hpa : p a = true
      · have := h a (by simp) hak hpa
        simp only [hpa, this, if_true]; omega
      · simp only [hpa, Bool.false_eq_true, if_false]
        split <;> omega

theorem ext_setSlot_le_succ (U : List Spec) (hU : U.Nodup) (st : St) (k : Spec) (v : BSlot) :
    U.countP (isExtAsset (st.setSlot k v)) ≤ U.countP (isExtAsset st) + 1 := by
  apply countP_le_succ_of_imp_except U hU _ _ k
  intro x _ hxk hx
  rw [isExtAsset_setSlot] at hx
  simp only [hxk, if_false] at hx
  exact hx

theorem isExtAsset_checkSpecifier (st : St) (req tgt x : Spec) :
    isExtAsset (checkSpecifier st req tgt) x = isExtAsset st x := by
  by_cases hx : x = req
  · subst hx
    unfold checkSpecifier
    split
    · rfl
    · rw [isExtAsset_eq, isExtAsset_eq]
      have : (recordRedirect (dropPending st x) x tgt).slot x = (dropPending st x).slot x := by
        simp [St.slot, slots_recordRedirect]
      rw [this]
      unfold dropPending
      split
      · rename_i a hs
        have : ({ st with slots := erase st.slots x } : St).slot x = none := by
          show (erase st.slots x).lookup x = none
          rw [lookup_erase]; simp
        rw [this, hs]; rfl
      · rfl
  · rw [isExtAsset_eq, isExtAsset_eq, slot_checkSpecifier_of_ne st req tgt x hx]

theorem T_checkSpecifier (U : List Spec) (st : St) (req tgt : Spec) : T U (checkSpecifier st req tgt) ≤ T U st :=
  T_le_of_acc U _ _ (fun x h => acc_checkSpecifier st req tgt x h)

theorem A_checkSpecifier (U : List Spec) (st : St) (req tgt : Spec) : A U (checkSpecifier st req tgt) = A U st := by
  unfold A
  rw [pending_checkSpecifier]
  congr 1
  apply List.countP_congr
  intro x _
  rw [isExtAsset_checkSpecifier]

theorem Q_checkSpecifier (w : World) (st : St) (req tgt : Spec) : Q w (checkSpecifier st req tgt) = Q w st := by
  unfold Q; rw [pending_checkSpecifier]

/-- a state that differs from another in neither entries, redirects nor queue has the same measure -/
theorem mu_of_same (w : World) (U : List Spec) (st st' : St) (hs : st'.slots = st.slots)
    (hr : st'.redirects = st.redirects) (hp : st'.pending = st.pending) : mu w U st' = mu w U st := by
  unfold mu T A Q accB isExtAsset St.slot
  rw [hs, hr, hp]

/-! ## loads -/

/-- the targets of the recorded redirects lie in the universe -/
def UVals (U : List Spec) (st : St) : Prop := ∀ p ∈ st.redirects, p.2 ∈ U

theorem resolveForLoadGo_mem (U : List Spec) (st : St) (hu : UVals U st) :
    ∀ (n : Nat) (seen : List Spec) (cur : Spec), cur ∈ U → st.resolveForLoadGo n seen cur ∈ U := by
  intro n
  induction n with
  | zero => intro seen cur h; exact h
  | succ n ih =>
    intro seen cur h
    unfold St.resolveForLoadGo
    split
    · exact h
    · split
      · rename_i nx hl
        split
        · exact h
        · exact ih _ nx (hu (cur, nx) (lookup_mem _ _ _ hl))
      · exact h

theorem resolveForLoad_mem (U : List Spec) (st : St) (hu : UVals U st) (x : Spec) (hx : x ∈ U) :
    st.resolveForLoad x ∈ U :=
  resolveForLoadGo_mem U st hu _ _ _ hx

theorem loadDecision_proceed (w : World) (o : Opts) (lo : LoadOpts) (st : St) (spec : Spec)
    (h : loadDecision w o lo st spec = .proceed) :
    st.slot spec = none ∨ (st.slot spec = some (.module (.external true)) ∧ lo.isAsset = false) := by
  unfold loadDecision at h
  cases ha : assetReject w o lo spec with
  | some e => simp [ha] at h
  | none =>
    simp only [ha] at h
    cases hs : st.slot spec with
    | none => exact Or.inl rfl
    | some sl =>
      simp only [hs] at h
      right
      cases sl with
      | pending b => cases b <;> cases hl : lo.isAsset <;> simp [hl] at h
      | module m =>
        cases m with
        | external a =>
          cases a <;> cases hl : lo.isAsset <;> simp [hl] at h
          exact ⟨rfl, rfl⟩
        | js _ _ _ => simp at h
        | wasm _ => simp at h
        | json => simp at h
        | node => simp at h
      | err e => simp at h

theorem lexLe_of_le {a b : Nat × Nat × Nat} (h1 : a.1 ≤ b.1) (h2 : a.2.1 ≤ b.2.1) (h3 : a.2.2 ≤ b.2.2) : LexLe a b := by
  unfold LexLe; omega

/-- setting an entry that is not an asset stand-in never increases the measure -/
theorem mu_setSlot_le (w : World) (U : List Spec) (st : St) (k : Spec) (v : BSlot) (hv : isExtAssetSlot v = false) :
    LexLe (mu w U (st.setSlot k v)) (mu w U st) := by
  apply lexLe_of_le
  · exact T_le_of_acc U _ _ (fun x h => acc_setSlot st k v x h)
  · show U.countP (isExtAsset (st.setSlot k v)) + _ ≤ U.countP (isExtAsset st) + _
    have := ext_setSlot_le U st k v hv
    simp only [pending_setSlot]
    omega
  · exact Nat.le_refl _

theorem Q_append (w : World) (l : List Req) (r : Req) : ((l ++ [r]).map (budget w)).sum = (l.map (budget w)).sum + budget w r := by
  simp [List.map_append, List.sum_append]

theorem A_setSlot_le (U : List Spec) (st : St) (k : Spec) (v : BSlot) (hv : isExtAssetSlot v = false) :
    A U (st.setSlot k v) ≤ A U st := by
  unfold A
  have := ext_setSlot_le U st k v hv
  simp only [pending_setSlot]
  omega

theorem Q_setSlot (w : World) (st : St) (k : Spec) (v : BSlot) : Q w (st.setSlot k v) = Q w st := rfl

theorem isExtAsset_lpm (w : World) (st : St) (lo : LoadOpts) (count : Nat) (spec : Spec) :
    isExtAsset (loadPendingModule w st lo count spec) = isExtAsset (st.setSlot spec (.pending lo.isAsset)) := rfl

theorem A_lpm (w : World) (U : List Spec) (st : St) (lo : LoadOpts) (count : Nat) (spec : Spec) :
    A U (loadPendingModule w st lo count spec) =
      U.countP (isExtAsset (st.setSlot spec (.pending lo.isAsset))) + (st.pending.countP (·.isAsset) + (if lo.isAsset then 1 else 0)) := by
  unfold A
  rw [isExtAsset_lpm]
  simp only [loadPendingModule, pending_setSlot, List.countP_append, List.countP_cons, List.countP_nil]
  cases lo.isAsset <;> simp

theorem A_lpm_le (w : World) (U : List Spec) (st : St) (lo : LoadOpts) (count : Nat) (spec : Spec) :
    A U (loadPendingModule w st lo count spec) ≤ A U st + (if lo.isAsset then 1 else 0) := by
  rw [A_lpm]
  have h := ext_setSlot_le U st spec (.pending lo.isAsset) rfl
  unfold A
  omega

theorem Q_lpm (w : World) (st : St) (lo : LoadOpts) (count : Nat) (spec : Spec) :
    Q w (loadPendingModule w st lo count spec) = Q w st + (1 + (w.maxRedirects + 1 - count)) := by
  simp only [Q, loadPendingModule, pending_setSlot]
  rw [Q_append]
  rfl

/-- **a load in a state where redirects end never increases the measure**: a new request takes a
specifier out of `T`, or an asset stand-in out of `A` -/
theorem load_fresh {f : Option Spec} (w : World) (o : Opts) (U : List Spec) (count : Nat) (lo : LoadOpts) (st : St)
    (hw : WalkInvX f st) (hu : UVals U st) (hx : lo.spec ∈ U) :
    LexLe (mu w U (load w o count lo st)) (mu w U st) := by
  have he := resolveForLoad_mem U st hu lo.spec hx
  unfold load
  simp only
  rcases hd : loadDecision w o lo st (st.resolveForLoad lo.spec) with e | _ | _ | _
  · exact mu_setSlot_le w U st _ _ rfl
  · exact LexLe.refl _
  · rw [mu_of_same w U st (addDeferred st _ lo)]
    · exact LexLe.refl _
    all_goals (unfold addDeferred; split <;> rfl)
  · simp only
    split
    · exact mu_setSlot_le w U st _ _ rfl
    · -- a request is queued
      have hT : T U (loadPendingModule w st lo count (st.resolveForLoad lo.spec)) ≤ T U st :=
        T_le_of_acc U _ _ (fun x h => (mono_lpm w lo count _).acc st x h)
      rcases loadDecision_proceed w o lo st _ hd with hnone | ⟨hext, hna⟩
      · -- a specifier never seen before
        left
        exact T_lt_of_acc U _ _ (fun x h => (mono_lpm w lo count _).acc st x h) _ he
          (resolveForLoad_fresh st hw lo.spec hnone) (acc_lpm_self w st lo count _)
      · -- an asset stand-in whose contents are now needed
        unfold LexLe
        by_cases hTe : T U (loadPendingModule w st lo count (st.resolveForLoad lo.spec)) = T U st
        · right
          refine ⟨hTe, Or.inl ?_⟩
          have hlt := ext_setSlot_lt U st (st.resolveForLoad lo.spec) (.pending lo.isAsset) rfl he
            (by unfold isExtAsset; rw [hext])
          show A U _ < A U st
          rw [A_lpm]
          unfold A
          simp only [hna, Bool.false_eq_true, if_false] at hlt ⊢
          omega
        · left
          show T U _ < T U st
          omega

/-- a load continuing a redirect (no assumption on the recorded redirects): at most one request more -/
theorem load_moved (w : World) (o : Opts) (U : List Spec) (count : Nat) (lo : LoadOpts) (st : St) :
    T U (load w o count lo st) ≤ T U st ∧
    A U (load w o count lo st) ≤ A U st + (if lo.isAsset then 1 else 0) ∧
    Q w (load w o count lo st) ≤ Q w st + (1 + (w.maxRedirects + 1 - count)) := by
  refine ⟨T_le_of_acc U _ _ (fun x h => (mono_load w o count lo).acc st x h), ?_⟩
  have hA0 : A U st ≤ A U st + (if lo.isAsset then 1 else 0) := Nat.le_add_right _ _
  have hQ0 : Q w st ≤ Q w st + (1 + (w.maxRedirects + 1 - count)) := Nat.le_add_right _ _
  unfold load
  simp only
  rcases hd : loadDecision w o lo st (st.resolveForLoad lo.spec) with e | _ | _ | _
  · exact ⟨Nat.le_trans (A_setSlot_le U st _ _ rfl) hA0, by rw [Q_setSlot]; exact hQ0⟩
  · exact ⟨hA0, hQ0⟩
  · have hm := mu_of_same w U st (addDeferred st (st.resolveForLoad lo.spec) lo)
      (by unfold addDeferred; split <;> rfl) (by unfold addDeferred; split <;> rfl) (by unfold addDeferred; split <;> rfl)
    simp only [mu, Prod.mk.injEq] at hm
    exact ⟨by rw [hm.2.1]; exact hA0, by rw [hm.2.2]; exact hQ0⟩
  · simp only
    split
    · exact ⟨Nat.le_trans (A_setSlot_le U st _ _ rfl) hA0, by rw [Q_setSlot]; exact hQ0⟩
    · exact ⟨A_lpm_le w U st lo count _, by rw [Q_lpm]; exact Nat.le_refl _⟩

end DG.Build

namespace DG.Build
open DG Tables

/-! ## visiting a module: every load is a fresh one -/

/-- the keys of the dynamic-branch and deferred tables lie in the universe -/
structure KeysIn (U : List Spec) (st : St) : Prop where
  dyn : ∀ p ∈ st.dyn, p.1 ∈ U
  deferred : ∀ p ∈ st.deferred, p.1 ∈ U

theorem UVals.grew {U : List Spec} {st st' : St} (hg : Grew st st') (h : UVals U st) : UVals U st' := by
  intro p hp; rw [hg.redirects] at hp; exact h p hp

/-- a step made of fresh loads: the measure does not grow, the tables stay inside the universe -/
structure Step (w : World) (U : List Spec) (fx : Option Spec) (g : St → St) : Prop where
  grows : Grows g
  le : ∀ st, WalkInvX fx st → UVals U st → KeysIn U st → LexLe (mu w U (g st)) (mu w U st)
  keys : ∀ st, UVals U st → KeysIn U st → KeysIn U (g st)

theorem Step.id {w : World} {U : List Spec} {fx : Option Spec} : Step w U fx (fun st => st) :=
  ⟨Grows.id, fun st _ _ _ => LexLe.refl _, fun _ _ h => h⟩

theorem Step.comp {w : World} {U : List Spec} {fx : Option Spec} {f g : St → St} (hf : Step w U fx f) (hg : Step w U fx g) :
    Step w U fx (fun st => g (f st)) := by
  refine ⟨Grows.comp hf.grows hg.grows, ?_, ?_⟩
  · intro st hw hu hk
    have g1 := hf.grows.grew st
    exact (hg.le (f st) (hw.grew g1) (hu.grew g1) (hf.keys st hu hk)).trans (hf.le st hw hu hk)
  · intro st hu hk
    exact hg.keys (f st) (hu.grew (hf.grows.grew st)) (hf.keys st hu hk)

theorem step_foldl {w : World} {U : List Spec} {fx : Option Spec} {α} (f : St → α → St) (l : List α)
    (hf : ∀ a ∈ l, Step w U fx (fun st => f st a)) : Step w U fx (fun st => l.foldl f st) := by
  induction l with
  | nil => exact Step.id
  | cons a l ih =>
    simp only [List.foldl_cons]
    exact Step.comp (hf a (by simp)) (ih (fun b hb => hf b (by simp [hb])))

theorem keysIn_of_same (U : List Spec) (st st' : St) (h : KeysIn U st) (hd : st'.dyn = st.dyn) (he : st'.deferred = st.deferred) :
    KeysIn U st' :=
  ⟨fun p hp => h.dyn p (by rw [← hd]; exact hp), fun p hp => h.deferred p (by rw [← he]; exact hp)⟩

theorem dyn_load (w : World) (o : Opts) (count : Nat) (lo : LoadOpts) (st : St) : (load w o count lo st).dyn = st.dyn := by
  unfold load
  simp only
  split
  · rfl
  · rfl
  · unfold addDeferred; split <;> rfl
  · split <;> rfl

theorem deferred_load (w : World) (o : Opts) (count : Nat) (lo : LoadOpts) (st : St) :
    ∀ p ∈ (load w o count lo st).deferred, p ∈ st.deferred ∨ p.1 = st.resolveForLoad lo.spec := by
  intro p hp
  unfold load at hp
  simp only at hp
  split at hp
  · exact Or.inl hp
  · exact Or.inl hp
  · unfold addDeferred at hp
    split at hp
    · exact Or.inl hp
    · simp only [List.mem_append, List.mem_singleton] at hp
      rcases hp with hp | hp
      · exact Or.inl hp
      · right; rw [hp]
  · split at hp <;> exact Or.inl hp

/-- a fresh load of a specifier of the universe -/
theorem step_load' (w : World) (o : Opts) (U : List Spec) (fx : Option Spec) (count : Nat) (lof : St → LoadOpts)
    (hx : ∀ st, (lof st).spec ∈ U) : Step w U fx (fun st => load w o count (lof st) st) := by
  refine ⟨grows_load' w o count lof, ?_, ?_⟩
  · intro st hw hu _
    exact load_fresh w o U count (lof st) st hw hu (hx st)
  · intro st hu hk
    refine ⟨?_, ?_⟩
    · intro p hp
      have : (load w o count (lof st) st).dyn = st.dyn := dyn_load w o count (lof st) st
      exact hk.dyn p (by rw [← this]; exact hp)
    · intro p hp
      rcases deferred_load w o count (lof st) st p hp with h | h
      · exact hk.deferred p h
      · rw [h]; exact resolveForLoad_mem U st hu _ (hx st)

/-- the targets of a dependency list lie in the universe -/
def DepsIn (U : List Spec) (deps : List BDep) : Prop :=
  ∀ d ∈ deps, (∀ s r, d.code = .ok s r → s ∈ U) ∧ (∀ s r, d.type = .ok s r → s ∈ U)

theorem step_visitDepCode (w : World) (o : Opts) (U : List Spec) (fx : Option Spec) (d : BDep)
    (hd : ∀ s r, d.code = .ok s r → s ∈ U) : Step w U fx (fun st => (visitDepCode w o d st).2) := by
  refine ⟨grows_visitDepCode w o d, ?_, ?_⟩
  · intro st hw hu hk
    unfold visitDepCode
    split
    · split
      · rename_i s rng hc
        split
        · split
          · rw [mu_of_same] <;> first | exact LexLe.refl _ | rfl
          · rw [mu_of_same] <;> first | exact LexLe.refl _ | rfl
        · exact load_fresh w o U 0 _ st hw hu (hd s rng hc)
      · exact LexLe.refl _
    · exact LexLe.refl _
  · intro st hu hk
    unfold visitDepCode
    split
    · split
      · rename_i s rng hc
        split
        · split
          · refine ⟨?_, hk.deferred⟩
            intro p hp
            simp only [List.mem_map] at hp
            obtain ⟨q, hq, rfl⟩ := hp
            have := hk.dyn q hq
            split <;> exact this
          · refine ⟨?_, hk.deferred⟩
            intro p hp
            simp only [List.mem_append, List.mem_singleton] at hp
            rcases hp with hp | hp
            · exact hk.dyn p hp
            · rw [hp]; exact hd s rng hc
        · exact (step_load' w o U fx 0 (fun _ => _) (fun _ => hd s rng hc)).keys st hu hk
      · exact hk
    · exact hk

theorem mem_upsert {α} (l : List (Spec × α)) (k : Spec) (v : α) (p : Spec × α) (h : p ∈ upsert l k v) :
    p ∈ l ∨ p.1 = k := by
  unfold upsert at h
  split at h
  · obtain ⟨q, hq, rfl⟩ := List.mem_map.mp h
    split
    · exact Or.inr rfl
    · exact Or.inl hq
  · simp only [List.mem_append, List.mem_singleton] at h
    rcases h with h | h
    · exact Or.inl h
    · exact Or.inr (by rw [h])

theorem step_visitDepType (w : World) (o : Opts) (U : List Spec) (fx : Option Spec) (d : BDep)
    (hd : ∀ s r, d.type = .ok s r → s ∈ U) : Step w U fx (fun st => (visitDepType w o d st).2) := by
  refine ⟨grows_visitDepType w o d, ?_, ?_⟩
  · intro st hw hu hk
    unfold visitDepType
    split
    · split
      · rename_i s rng hc
        split
        · rw [mu_of_same] <;> first | exact LexLe.refl _ | rfl
        · exact load_fresh w o U 0 _ st hw hu (hd s rng hc)
      · exact LexLe.refl _
    · exact LexLe.refl _
  · intro st hu hk
    unfold visitDepType
    split
    · split
      · rename_i s rng hc
        split
        · refine ⟨?_, hk.deferred⟩
          intro p hp
          rcases mem_upsert _ _ _ p hp with h | h
          · exact hk.dyn p h
          · rw [h]; exact hd s rng hc
        · exact (step_load' w o U fx 0 (fun _ => _) (fun _ => hd s rng hc)).keys st hu hk
      · exact hk
    · exact hk

theorem visitDepCode_type (w : World) (o : Opts) (d : BDep) (st : St) : (visitDepCode w o d st).1.type = d.type := by
  unfold visitDepCode
  split
  · split
    · split <;> rfl
    · rfl
  · rfl

theorem step_visitDeps (w : World) (o : Opts) (U : List Spec) (fx : Option Spec) (deps : List BDep) (hd : DepsIn U deps) :
    Step w U fx (fun st => (visitDeps w o deps st).2) := by
  induction deps with
  | nil => exact Step.id
  | cons d rest ih =>
    have ihr := ih (fun x hx => hd x (by simp [hx]))
    have hdd := hd d (by simp)
    have hcode := step_visitDepCode w o U fx d hdd.1
    have htype : ∀ st, Step w U fx (fun s => (visitDepType w o (visitDepCode w o d st).1 s).2) := fun st =>
      step_visitDepType w o U fx _ (by rw [visitDepCode_type]; exact hdd.2)
    refine ⟨grows_visitDeps w o (d :: rest), ?_, ?_⟩
    · intro st hw hu hk
      rw [visitDeps]
      split
      · exact ihr.le st hw hu hk
      · have g1 := hcode.grows.grew st
        have k1 := hcode.keys st hu hk
        have g2 := (htype st).grows.grew (visitDepCode w o d st).2
        have k2 := (htype st).keys _ (hu.grew g1) k1
        exact (ihr.le _ ((hw.grew g1).grew g2) ((hu.grew g1).grew g2) k2).trans
          (((htype st).le _ (hw.grew g1) (hu.grew g1) k1).trans (hcode.le st hw hu hk))
    · intro st hu hk
      rw [visitDeps]
      split
      · exact ihr.keys st hu hk
      · have g1 := hcode.grows.grew st
        have k1 := hcode.keys st hu hk
        have g2 := (htype st).grows.grew (visitDepCode w o d st).2
        exact ihr.keys _ ((hu.grew g1).grew g2) ((htype st).keys _ (hu.grew g1) k1)

/-- what a module's analysis mentions lies in the universe -/
structure ParsedIn (U : List Spec) (p : Parsed) : Prop where
  deps : DepsIn U p.deps
  types : ∀ s r, p.typesDep = some (.ok s r) → s ∈ U
  sourceMap : ∀ s r, p.sourceMapDep = some (.ok s r) → s ∈ U

theorem step_visitModule (w : World) (o : Opts) (U : List Spec) (fx : Option Spec) (cls : Class) (c : Content)
    (hc : ParsedIn U c.parsed) : Step w U fx (fun st => (visitModule w o cls c st).2) := by
  have hsm : Step w U fx (loadSourceMap w o c.parsed) := by
    unfold loadSourceMap
    cases hs : c.parsed.sourceMapDep with
    | none => exact Step.id
    | some r =>
      cases r with
      | ok s rng => exact step_load' w o U fx 0 _ (fun _ => hc.sourceMap s rng hs)
      | none => exact Step.id
      | err e => exact Step.id
  have htd : Step w U fx (loadTypesDep w o c.parsed) := by
    unfold loadTypesDep
    cases hs : c.parsed.typesDep with
    | none => exact Step.id
    | some r =>
      cases r with
      | ok s rng => exact step_load' w o U fx 0 _ (fun _ => hc.types s rng hs)
      | none => exact Step.id
      | err e => exact Step.id
  have hjs : Step w U fx (fun st => (visitJsDeps w o c.parsed st).2) := by
    unfold visitJsDeps
    by_cases hk : (o.kind == .All || o.kind == .CodeOnly || c.parsed.typesDep.isNone) = true
    · simp only [hk, if_true]
      exact Step.comp hsm (step_visitDeps w o U fx _ hc.deps)
    · simp only [hk, Bool.false_eq_true, if_false]
      exact Step.id
  cases cls with
  | err k r => exact Step.id
  | json => exact Step.id
  | wasm => exact step_visitDeps w o U fx _ hc.deps
  | js mt =>
    unfold visitModule
    simp only
    by_cases hty : o.kind.includeTypes = true
    · simp only [hty, if_true]
      exact Step.comp hjs htd
    · simp only [hty, Bool.false_eq_true, if_false]
      exact hjs

end DG.Build

namespace DG.Build
open DG Tables

/-! ## one request -/

theorem lexLt_of_le_le_lt {a b : Nat × Nat × Nat} (h1 : a.1 ≤ b.1) (h2 : a.2.1 ≤ b.2.1) (h3 : a.2.2 < b.2.2) : LexLt a b := by
  unfold LexLt; omega

theorem lexLt_of_lexLe_of_comp {a m b : Nat × Nat × Nat} (h : LexLe a m) (h1 : m.1 ≤ b.1) (h2 : m.2.1 ≤ b.2.1) (h3 : m.2.2 < b.2.2) :
    LexLt a b := LexLt.of_le_of_lt h (lexLt_of_le_le_lt h1 h2 h3)

theorem tryLoad_external_asset (w : World) (o : Opts) (r : Req) (spec : Spec)
    (h : tryLoad w o r = .external spec true) : r.isAsset = true := by
  unfold tryLoad tryLoad' at h
  simp only at h
  cases hA : r.isAsset with
  | true => rfl
  | false =>
    exfalso
    simp only [hA, Bool.false_eq_true, if_false] at h
    have hm : ∀ f a, moduleOutcome w o r f ≠ .external spec a := by
      intro f a
      unfold moduleOutcome
      simp only
      split <;> (intro hh; cases hh)
    split at h
    · split at h
      · cases h
      · split at h <;> cases h
    · cases h
    · cases h
    · cases h
    · exact hm _ _ h
    · split at h
      · exact hm _ _ h
      · cases h
      · cases h

theorem tryLoad_redirect_count (w : World) (o : Opts) (r : Req) (to : Spec)
    (h : tryLoad w o r = .redirect to) : r.count < w.maxRedirects := by
  unfold tryLoad tryLoad' at h
  simp only at h
  split at h
  · simp only at h
    split at h
    · cases h
    · split at h
      · cases h
      · rename_i hc
        simp only [Bool.or_eq_true, decide_eq_true_eq, not_or, Nat.not_le] at hc
        exact hc.1
  · cases h
  · cases h
  · simp only at h; split at h <;> cases h
  · simp only at h
    split at h
    · cases h
    · exact absurd h (moduleOutcome_not_redirect w o r _ to)
  · split at h
    · simp only at h
      split at h
      · cases h
      · exact absurd h (moduleOutcome_not_redirect w o r _ to)
    · simp only at h; split at h <;> cases h
    · cases h

/-- a module outcome names the final specifier the world answers for the request -/
theorem tryLoad_module_resp (w : World) (hre : w.reloadResp = []) (o : Opts) (r : Req) (f : Spec) (cls : Class)
    (h : tryLoad w o r = .module f cls) : w.respOf r.spec = .module f := by
  have hmo : ∀ f', moduleOutcome w o r f' = .module f cls → f' = f := by
    intro f' hh
    have := moduleOutcome_target w o r f'
    rw [hh] at this
    exact this.symm
  unfold tryLoad tryLoad' at h
  simp only at h
  cases ha : w.answer r.spec r.checksum false with
  | redirect to =>
    simp only [ha] at h
    split at h
    · cases h
    · split at h <;> cases h
  | missing => simp only [ha] at h; cases h
  | error => simp only [ha] at h; cases h
  | external f' => simp only [ha] at h; split at h <;> cases h
  | module f' =>
    simp only [ha] at h
    have hr := answer_module w r.spec r.checksum false f' ha
    rw [respFor_eq w hre] at hr
    split at h
    · cases h
    · rw [← hmo f' h]; exact hr
  | checksumError =>
    simp only [ha] at h
    cases hb : w.answer r.spec r.checksum true with
    | module f' =>
      simp only [hb] at h
      have hr := answer_module w r.spec r.checksum true f' hb
      rw [respFor_eq w hre] at hr
      split at h
      · cases h
      · rw [← hmo f' h]; exact hr
    | external f' => simp only [hb] at h; split at h <;> cases h
    | redirect to => simp only [hb] at h; cases h
    | missing => simp only [hb] at h; cases h
    | error => simp only [hb] at h; cases h
    | checksumError => simp only [hb] at h; cases h

end DG.Build

namespace DG.Build
open DG Tables

/-- what is assumed of the world: a cache-bypassing reload answers like a normal load, the final
specifier a module is served under does not itself lead elsewhere, and everything the world
mentions lies in the (duplicate-free) universe -/
structure WorldOk (w : World) (U : List Spec) : Prop where
  reload : w.reloadResp = []
  finals : ∀ q f, w.respOf q = .module f → f ≠ q → finalOf w f = f
  parsed : ∀ s, ParsedIn U (w.contentOf s).parsed
  finalIn : ∀ s, finalOf w s ≠ s → finalOf w s ∈ U
  nodup : U.Nodup

/-- the invariants of the loop used for termination -/
structure TInv (w : World) (U : List Spec) (st : St) : Prop where
  pend : PendInv st
  dynInv : DynInv st
  wr : WR w st
  noSelf : ∀ p ∈ st.redirects, p.1 ≠ p.2
  uvals : UVals U st
  keys : KeysIn U st

theorem mu_pop (w : World) (U : List Spec) (st : St) (r : Req) (rest : List Req) (hp : st.pending = r :: rest) :
    T U ({ st with pending := rest } : St) = T U st ∧
    A U st = A U ({ st with pending := rest } : St) + (if r.isAsset then 1 else 0) ∧
    Q w st = Q w ({ st with pending := rest } : St) + budget w r := by
  refine ⟨rfl, ?_, ?_⟩
  · unfold A
    have : U.countP (isExtAsset ({ st with pending := rest } : St)) = U.countP (isExtAsset st) := rfl
    rw [this, hp]
    simp only [List.countP_cons]
    cases r.isAsset <;> simp <;> omega
  · unfold Q
    rw [hp]
    simp only [List.map_cons, List.sum_cons]
    omega

theorem visitModule_slot_not_ext (w : World) (o : Opts) (cls : Class) (c : Content) (st : St) :
    isExtAssetSlot (visitModule w o cls c st).1 = false := by
  unfold visitModule
  split
  · rfl
  · rfl
  · rfl
  · simp only; split <;> rfl

theorem A_setSlot_le_succ (U : List Spec) (hU : U.Nodup) (st : St) (k : Spec) (v : BSlot) :
    A U (st.setSlot k v) ≤ A U st + 1 := by
  unfold A
  have := ext_setSlot_le_succ U hU st k v
  simp only [pending_setSlot]
  omega

theorem budget_pos (w : World) (r : Req) : 0 < budget w r := by unfold budget; omega

/-- **taking a request off the queue strictly decreases the measure** -/
theorem stepPending_decreases (w : World) (o : Opts) (U : List Spec) (hwo : WorldOk w U) (st : St) (r : Req) (rest : List Req)
    (hp : st.pending = r :: rest) (inv : TInv w U st) :
    LexLt (mu w U (stepPending w o r { st with pending := rest })) (mu w U st) := by
  obtain ⟨hT, hA, hQ⟩ := mu_pop w U st r rest hp
  have hb := budget_pos w r
  generalize hsp : ({ st with pending := rest } : St) = sp at hT hA hQ
  have hwr : WR w sp := by subst hsp; exact wr_grew (st := st) ⟨fun _ hx => hx, rfl⟩ inv.wr
  have huv : UVals U sp := by subst hsp; exact inv.uvals
  have hkeys : KeysIn U sp := by subst hsp; exact ⟨inv.keys.dyn, inv.keys.deferred⟩
  have hns : ∀ p ∈ sp.redirects, p.1 ≠ p.2 := by subst hsp; exact inv.noSelf
  unfold stepPending
  -- logging the request changes nothing that is measured
  have hlog : mu w U (logRequest w o r sp) = mu w U sp :=
    mu_of_same w U sp _ (by unfold logRequest; simp only; split <;> rfl) (by unfold logRequest; simp only; split <;> rfl)
      (by unfold logRequest; simp only; split <;> rfl)
  have hlg : Grew sp (logRequest w o r sp) :=
    (grows_of_same (logRequest w o r)
      (by intro s; unfold logRequest; simp only; split <;> rfl)
      (by intro s; unfold logRequest; simp only; split <;> rfl)).grew sp
  have hkeys0 : KeysIn U (logRequest w o r sp) :=
    keysIn_of_same U sp _ hkeys (by unfold logRequest; simp only; split <;> rfl) (by unfold logRequest; simp only; split <;> rfl)
  have hwr0 := wr_grew hlg hwr
  have huv0 := huv.grew hlg
  have hns0 : ∀ p ∈ (logRequest w o r sp).redirects, p.1 ≠ p.2 := by
    intro p hp'; rw [hlg.redirects] at hp'; exact hns p hp'
  simp only [mu, Prod.mk.injEq] at hlog
  obtain ⟨hT0, hA0, hQ0⟩ := hlog
  generalize logRequest w o r sp = s0 at hT0 hA0 hQ0 hwr0 huv0 hkeys0 hns0
  have htgt := tryLoad_target w hwo.reload o r
  rcases hout : tryLoad w o r with ⟨spec, isAsset⟩ | ⟨f, cls⟩ | ⟨to⟩ | ⟨e⟩
  · -- external
    simp only [applyOutcome]
    have hm2 : mu w U (markRoot (checkSpecifier s0 r.spec spec) r.isRoot spec) = mu w U (checkSpecifier s0 r.spec spec) :=
      mu_of_same w U _ _ (by unfold markRoot St.addResolvedRoot; split <;> (try split) <;> rfl)
        (by unfold markRoot St.addResolvedRoot; split <;> (try split) <;> rfl)
        (by unfold markRoot St.addResolvedRoot; split <;> (try split) <;> rfl)
    simp only [mu, Prod.mk.injEq] at hm2
    have hT2 : T U (markRoot (checkSpecifier s0 r.spec spec) r.isRoot spec) ≤ T U st := by
      rw [hm2.1]; have := T_checkSpecifier U s0 r.spec spec; omega
    have hA2 : A U (markRoot (checkSpecifier s0 r.spec spec) r.isRoot spec) = A U sp := by
      rw [hm2.2.1, A_checkSpecifier, hA0]
    have hQ2 : Q w (markRoot (checkSpecifier s0 r.spec spec) r.isRoot spec) = Q w sp := by
      rw [hm2.2.2, Q_checkSpecifier, hQ0]
    generalize markRoot (checkSpecifier s0 r.spec spec) r.isRoot spec = s2 at hT2 hA2 hQ2
    have hset : LexLt (mu w U (s2.setSlot spec (.module (.external isAsset)))) (mu w U st) := by
      apply lexLt_of_le_le_lt
      · show T U _ ≤ T U st
        have := T_le_of_acc U s2 (s2.setSlot spec (.module (.external isAsset))) (fun x h => acc_setSlot s2 _ _ x h)
        omega
      · show A U _ ≤ A U st
        cases isAsset with
        | false =>
          have := A_setSlot_le U s2 spec (.module (.external false)) rfl
          omega
        | true =>
          have hra := tryLoad_external_asset w o r spec hout
          have := A_setSlot_le_succ U hwo.nodup s2 spec (.module (.external true))
          rw [hra] at hA
          simp only [if_true] at hA
          omega
      · show Q w _ < Q w st
        rw [Q_setSlot]; omega
    have hsame : LexLt (mu w U s2) (mu w U st) := by
      apply lexLt_of_le_le_lt
      · exact hT2
      · show A U s2 ≤ A U st; omega
      · show Q w s2 < Q w st; omega
    split
    · exact hset
    · exact hsame
    · exact hset
  · -- module
    simp only [applyOutcome]
    have hm2 : mu w U (recordChecksum w cls f (if (tryLoad' w o r).2 then w.hashReload.lookup r.spec else w.hashUse.lookup r.spec)
        (markRoot (checkSpecifier s0 r.spec f) r.isRoot f)) = mu w U (checkSpecifier s0 r.spec f) :=
      mu_of_same w U _ _
        (by unfold recordChecksum markRoot St.addResolvedRoot; split <;> split <;> (try split) <;> rfl)
        (by unfold recordChecksum markRoot St.addResolvedRoot; split <;> split <;> (try split) <;> rfl)
        (by unfold recordChecksum markRoot St.addResolvedRoot; split <;> split <;> (try split) <;> rfl)
    have hg2 : Grew (checkSpecifier s0 r.spec f) (recordChecksum w cls f
        (if (tryLoad' w o r).2 then w.hashReload.lookup r.spec else w.hashUse.lookup r.spec)
        (markRoot (checkSpecifier s0 r.spec f) r.isRoot f)) :=
      (grew_markRoot _ _ _).trans (grew_recordChecksum w cls f _ _)
    have hk2 : KeysIn U (recordChecksum w cls f (if (tryLoad' w o r).2 then w.hashReload.lookup r.spec else w.hashUse.lookup r.spec)
        (markRoot (checkSpecifier s0 r.spec f) r.isRoot f)) := by
      apply keysIn_of_same U s0 _ hkeys0
      · unfold recordChecksum markRoot St.addResolvedRoot
        split <;> split <;> (try split) <;> simp [dyn_checkSpecifier]
      · unfold recordChecksum markRoot St.addResolvedRoot
        have : (checkSpecifier s0 r.spec f).deferred = s0.deferred := by
          unfold checkSpecifier; split
          · rfl
          · unfold recordRedirect dropPending; split <;> split <;> rfl
        split <;> split <;> (try split) <;> simp [this]
    -- the recorded redirects still end, except that a walk may stop at the module's own specifier
    have htf : (Outcome.module f cls).target = r.spec ∨ (Outcome.module f cls).target = finalOf w r.spec := by
      rw [← hout]; exact htgt
    simp only [Outcome.target] at htf
    have hwx : WalkInvX (some f) (recordChecksum w cls f (if (tryLoad' w o r).2 then w.hashReload.lookup r.spec else w.hashUse.lookup r.spec)
        (markRoot (checkSpecifier s0 r.spec f) r.isRoot f)) := by
      apply walkInvX_after_settle (some f) w s0 _ r.spec f hwr0.walk hwr0.rw htf hg2
      -- the module's specifier has an entry, or neither entry nor redirect
      generalize recordChecksum w cls f _ (markRoot (checkSpecifier s0 r.spec f) r.isRoot f) = s3 at hg2
      cases hs : s3.slot f with
      | some v => exact EndsX.here (by rw [hs]; rfl)
      | none =>
        apply EndsX.stop rfl hs
        rw [hg2.redirects]
        cases hl : (checkSpecifier s0 r.spec f).redirects.lookup f with
        | none => rfl
        | some g =>
          exfalso
          have hmem := lookup_mem _ _ _ hl
          by_cases hqf : r.spec = f
          · -- the request itself: nothing was recorded, and an old redirect of it contradicts nothing
            -- but then its own entry is still there
            rw [← hqf, checkSpecifier_eq] at hmem
            have hrw := hwr0.rw _ hmem
            have hne := hns0 _ hmem
            simp only at hrw hne
            have hresp := tryLoad_module_resp w hwo.reload o r f cls hout
            rw [← hqf] at hresp
            apply hne
            rw [hrw]
            simp [finalOf, hresp]
          · rcases mem_redirects_checkSpecifier s0 r.spec f _ hmem with h1 | h1
            · have hrw := hwr0.rw _ h1
              have hne := hns0 _ h1
              simp only at hrw hne
              have hresp := tryLoad_module_resp w hwo.reload o r f cls hout
              have := hwo.finals r.spec f hresp (fun e => hqf e.symm)
              apply hne
              rw [hrw, this]
            · simp only [Prod.mk.injEq] at h1
              exact hqf h1.1.symm
    have huv2 : UVals U (recordChecksum w cls f (if (tryLoad' w o r).2 then w.hashReload.lookup r.spec else w.hashUse.lookup r.spec)
        (markRoot (checkSpecifier s0 r.spec f) r.isRoot f)) := by
      intro p hp'
      rw [hg2.redirects] at hp'
      rcases mem_redirects_checkSpecifier s0 r.spec f p hp' with h1 | h1
      · exact huv0 p h1
      · subst h1
        by_cases hqf : r.spec = f
        · rw [hqf, checkSpecifier_eq] at hp'
          exact huv0 (f, f) hp'
        · rcases htf with h | h
          · exact absurd h.symm hqf
          · simp only; rw [h]; exact hwo.finalIn r.spec (by rw [← h]; exact fun e => hqf e.symm)
    simp only [mu, Prod.mk.injEq] at hm2
    have hT2 : T U (checkSpecifier s0 r.spec f) ≤ T U st := by have := T_checkSpecifier U s0 r.spec f; omega
    generalize recordChecksum w cls f _ (markRoot (checkSpecifier s0 r.spec f) r.isRoot f) = s3 at hm2 hwx hk2 huv2
    have hv := (step_visitModule w o U (some f) cls (w.contentOf r.spec) (hwo.parsed r.spec)).le s3 hwx huv2 hk2
    have hfin := (mu_setSlot_le w U (visitModule w o cls (w.contentOf r.spec) s3).2 f (visitModule w o cls (w.contentOf r.spec) s3).1
      (visitModule_slot_not_ext w o cls _ s3)).trans hv
    apply lexLt_of_lexLe_of_comp hfin
    · show T U s3 ≤ T U st; rw [hm2.1]; exact hT2
    · show A U s3 ≤ A U st; rw [hm2.2.1, A_checkSpecifier]; omega
    · show Q w s3 < Q w st; rw [hm2.2.2, Q_checkSpecifier]; omega
  · -- redirect
    simp only [applyOutcome]
    have hc := tryLoad_redirect_count w o r to hout
    obtain ⟨h1, h2, h3⟩ := load_moved w o U (r.count + 1)
      { spec := to, range := r.range, spRef := r.spRef, isAsset := r.isAsset, inDyn := r.inDyn,
        isRoot := r.isRoot, attr := r.attr } (checkSpecifier s0 r.spec to)
    apply lexLt_of_le_le_lt
    · show T U _ ≤ T U st
      have := T_checkSpecifier U s0 r.spec to; omega
    · show A U _ ≤ A U st
      rw [A_checkSpecifier] at h2
      simp only at h2
      omega
    · show Q w _ < Q w st
      rw [Q_checkSpecifier] at h3
      unfold budget at hQ
      omega
  · -- error
    simp only [applyOutcome]
    apply lexLt_of_le_le_lt
    · show T U _ ≤ T U st
      have h1 := T_le_of_acc U (checkSpecifier s0 r.spec e.spec) ((checkSpecifier s0 r.spec e.spec).setSlot e.spec (.err e))
        (fun x h => acc_setSlot _ _ _ x h)
      have h2 := T_checkSpecifier U s0 r.spec e.spec
      omega
    · show A U _ ≤ A U st
      have h1 := A_setSlot_le U (checkSpecifier s0 r.spec e.spec) e.spec (.err e) rfl
      rw [A_checkSpecifier] at h1
      omega
    · show Q w _ < Q w st
      rw [Q_setSlot, Q_checkSpecifier]; omega

end DG.Build

namespace DG.Build
open DG Tables

/-! ## the invariants along the loop -/

theorem redirects_applyOutcome (w : World) (o : Opts) (r : Req) (st : St) (out : Outcome) :
    (applyOutcome w o r st out).redirects = (checkSpecifier st r.spec out.target).redirects := by
  cases out with
  | err e => rfl
  | external spec isAsset =>
    simp only [applyOutcome, Outcome.target]
    have h := (grew_markRoot (checkSpecifier st r.spec spec) r.isRoot spec).redirects
    split
    · exact h
    · exact h
    · exact h
  | redirect to =>
    simp only [applyOutcome, Outcome.target]
    exact redirects_load w o _ _ _
  | module f cls =>
    simp only [applyOutcome, Outcome.target]
    show (visitModule w o cls (w.contentOf r.spec) _).2.redirects = _
    rw [((grows_visitModule w o cls (w.contentOf r.spec)).grew _).redirects, (grew_recordChecksum w cls f _ _).redirects,
      (grew_markRoot _ _ _).redirects]

theorem redirects_stepPending_mem (w : World) (o : Opts) (r : Req) (st : St) (p : Spec × Spec)
    (h : p ∈ (stepPending w o r st).redirects) :
    p ∈ st.redirects ∨ (p = (r.spec, (tryLoad w o r).target) ∧ r.spec ≠ (tryLoad w o r).target) := by
  unfold stepPending at h
  rw [redirects_applyOutcome] at h
  have hl : (logRequest w o r st).redirects = st.redirects := by unfold logRequest; simp only; split <;> rfl
  by_cases hq : r.spec = (tryLoad w o r).target
  · rw [← hq, checkSpecifier_eq, hl] at h
    exact Or.inl h
  · rcases mem_redirects_checkSpecifier _ _ _ p h with h1 | h1
    · rw [hl] at h1; exact Or.inl h1
    · exact Or.inr ⟨h1, hq⟩

theorem redirects_drain (w : World) (o : Opts) (st : St) : (drain w o st).redirects = st.redirects :=
  (grew_drain w o st).redirects

theorem keys_applyOutcome (w : World) (o : Opts) (U : List Spec) (hwo : WorldOk w U) (r : Req) (st : St)
    (hu : UVals U st) (hk : KeysIn U st)
    (hto : ∀ to, tryLoad w o r = .redirect to → to ∈ U) : KeysIn U (applyOutcome w o r st (tryLoad w o r)) := by
  have hcs : ∀ t, KeysIn U (checkSpecifier st r.spec t) := by
    intro t
    apply keysIn_of_same U st _ hk (dyn_checkSpecifier st r.spec t)
    unfold checkSpecifier; split
    · rfl
    · unfold recordRedirect dropPending; split <;> split <;> rfl
  rcases hout : tryLoad w o r with ⟨spec, isAsset⟩ | ⟨f, cls⟩ | ⟨to⟩ | ⟨e⟩
  · simp only [applyOutcome]
    have h2 : KeysIn U (markRoot (checkSpecifier st r.spec spec) r.isRoot spec) :=
      keysIn_of_same U _ _ (hcs spec)
        (by unfold markRoot St.addResolvedRoot; split <;> (try split) <;> rfl)
        (by unfold markRoot St.addResolvedRoot; split <;> (try split) <;> rfl)
    split
    · exact keysIn_of_same U _ _ h2 rfl rfl
    · exact h2
    · exact keysIn_of_same U _ _ h2 rfl rfl
  · simp only [applyOutcome]
    have h2 : KeysIn U (recordChecksum w cls f (if (tryLoad' w o r).2 then w.hashReload.lookup r.spec else w.hashUse.lookup r.spec)
        (markRoot (checkSpecifier st r.spec f) r.isRoot f)) :=
      keysIn_of_same U _ _ (hcs f)
        (by unfold recordChecksum markRoot St.addResolvedRoot; split <;> split <;> (try split) <;> rfl)
        (by unfold recordChecksum markRoot St.addResolvedRoot; split <;> split <;> (try split) <;> rfl)
    have hu2 : UVals U (recordChecksum w cls f (if (tryLoad' w o r).2 then w.hashReload.lookup r.spec else w.hashUse.lookup r.spec)
        (markRoot (checkSpecifier st r.spec f) r.isRoot f)) := by
      intro p hp
      rw [(grew_recordChecksum w cls f _ _).redirects, (grew_markRoot _ _ _).redirects] at hp
      by_cases hq : r.spec = f
      · rw [hq, checkSpecifier_eq] at hp; exact hu p hp
      · rcases mem_redirects_checkSpecifier st r.spec f p hp with h1 | h1
        · exact hu p h1
        · subst h1
          have ht := tryLoad_target w hwo.reload o r
          rw [hout] at ht
          simp only [Outcome.target] at ht
          rcases ht with h | h
          · exact absurd h.symm hq
          · simp only; rw [h]; exact hwo.finalIn r.spec (by rw [← h]; exact fun e => hq e.symm)
    exact keysIn_of_same U _ _ ((step_visitModule w o U none cls (w.contentOf r.spec) (hwo.parsed r.spec)).keys _ hu2 h2) rfl rfl
  · simp only [applyOutcome]
    have hu1 : UVals U (checkSpecifier st r.spec to) := by
      intro p hp
      by_cases hq : r.spec = to
      · rw [hq, checkSpecifier_eq] at hp; exact hu p hp
      · rcases mem_redirects_checkSpecifier st r.spec to p hp with h1 | h1
        · exact hu p h1
        · subst h1; exact hto to hout
    exact (step_load' w o U none (r.count + 1) (fun _ => _) (fun _ => hto to hout)).keys _ hu1 (hcs to)
  · simp only [applyOutcome]
    exact keysIn_of_same U _ _ (hcs e.spec) rfl rfl

/-- **the invariants hold along the loop** -/
theorem tinv_iter (w : World) (o : Opts) (U : List Spec) (hwo : WorldOk w U) (st : St) (inv : TInv w U st) :
    TInv w U (iter w o st) := by
  have hto : ∀ (r : Req) to, tryLoad w o r = .redirect to → to ∈ U := by
    intro r to h
    have ht := tryLoad_target w hwo.reload o r
    rw [h] at ht
    simp only [Outcome.target] at ht
    have hne := tryLoad_redirect_ne w o r to h
    rcases ht with h1 | h1
    · exact absurd h1 hne
    · rw [h1]; exact hwo.finalIn r.spec (by rw [← h1]; exact hne)
  refine ⟨pendInv_iter w o st inv.pend, dynInv_iter w o st inv.dynInv, wr_iter w hwo.reload o st inv.wr, ?_, ?_, ?_⟩
  · -- no redirect to itself
    intro p hp
    unfold iter at hp
    rw [redirects_drain] at hp
    rcases hpe : st.pending with _ | ⟨r, rest⟩
    · simp only [hpe] at hp; exact inv.noSelf p hp
    · simp only [hpe] at hp
      rcases redirects_stepPending_mem w o r _ p hp with h | ⟨h, hne⟩
      · exact inv.noSelf p h
      · rw [h]; exact hne
  · -- redirect targets in the universe
    intro p hp
    unfold iter at hp
    rw [redirects_drain] at hp
    rcases hpe : st.pending with _ | ⟨r, rest⟩
    · simp only [hpe] at hp; exact inv.uvals p hp
    · simp only [hpe] at hp
      rcases redirects_stepPending_mem w o r _ p hp with h | ⟨h, hne⟩
      · exact inv.uvals p h
      · rw [h]
        simp only
        rcases tryLoad_target w hwo.reload o r with h1 | h1
        · exact absurd h1.symm hne
        · rw [h1]; exact hwo.finalIn r.spec (by rw [← h1]; exact fun e => hne e.symm)
  · -- table keys in the universe
    have hstep : ∀ s : St, UVals U s → KeysIn U s → KeysIn U (drain w o s) := by
      intro s hu hk
      unfold drain
      split
      · exact hk
      · split
        · refine (step_foldl (w := w) (U := U) (fx := none) _ s.deferred (fun p hp => ?_)).keys _ hu (KeysIn.mk hk.dyn (fun _ h => (List.not_mem_nil h).elim))
          exact step_load' w o U none 0 _ (fun _ => hk.deferred p hp)
        · split
          · refine (step_foldl (w := w) (U := U) (fx := none) _ s.dyn (fun p hp => ?_)).keys _ hu (KeysIn.mk (fun _ h => (List.not_mem_nil h).elim) hk.deferred)
            exact step_load' w o U none 0 _ (fun _ => hk.dyn p hp)
          · exact hk
    unfold iter
    rcases hpe : st.pending with _ | ⟨r, rest⟩
    · simp only
      exact hstep st inv.uvals inv.keys
    · simp only
      have hk1 : KeysIn U (stepPending w o r { st with pending := rest }) := by
        unfold stepPending
        apply keys_applyOutcome w o U hwo r _ _ _ (hto r)
        · intro p hp
          have : (logRequest w o r { st with pending := rest }).redirects = st.redirects := by
            unfold logRequest; simp only; split <;> rfl
          rw [this] at hp; exact inv.uvals p hp
        · exact keysIn_of_same U st _ inv.keys (by unfold logRequest; simp only; split <;> rfl)
            (by unfold logRequest; simp only; split <;> rfl)
      apply hstep _ _ hk1
      intro p hp
      rcases redirects_stepPending_mem w o r _ p hp with h | ⟨h, hne⟩
      · exact inv.uvals p h
      · rw [h]
        simp only
        rcases tryLoad_target w hwo.reload o r with h1 | h1
        · exact absurd h1.symm hne
        · rw [h1]; exact hwo.finalIn r.spec (by rw [← h1]; exact fun e => hne e.symm)

end DG.Build

namespace DG.Build
open DG Tables

/-! ## the loop terminates -/

theorem drain_le (w : World) (o : Opts) (U : List Spec) (st : St) (hw : WalkInv st) (hu : UVals U st) (hk : KeysIn U st) :
    LexLe (mu w U (drain w o st)) (mu w U st) := by
  unfold drain
  split
  · exact LexLe.refl _
  · split
    · have hs := step_foldl (w := w) (U := U) (fx := none) (fun st (p : Spec × Deferred) =>
          load w o 0 { spec := p.1, range := p.2.range, spRef := p.2.spRef, isAsset := false,
                       inDyn := p.2.inDyn, isRoot := p.2.isRoot, attr := p.2.attr } st) st.deferred
        (fun p hp => step_load' w o U none 0 _ (fun _ => hk.deferred p hp))
      exact hs.le ({ st with deferred := [] }) (WalkInvX.grew (st := st) ⟨fun _ hx => hx, rfl⟩ hw) hu (KeysIn.mk hk.dyn (fun _ h => (List.not_mem_nil h).elim))
    · split
      · have hs := step_foldl (w := w) (U := U) (fx := none) (fun st (p : Spec × DynBranch) =>
            load w o 0 { spec := p.1, range := some p.2.range, spRef := p.2.spRef, isAsset := p.2.isAsset,
                         inDyn := true, isRoot := st.isResolvedRoot p.1, attr := p.2.attr } st) st.dyn
          (fun p hp => step_load' w o U none 0 _ (fun _ => hk.dyn p hp))
        exact hs.le ({ st with inDyn := true, dyn := [] }) (WalkInvX.grew (st := st) ⟨fun _ hx => hx, rfl⟩ hw) hu (KeysIn.mk (fun _ h => (List.not_mem_nil h).elim) hk.deferred)
      · exact LexLe.refl _

/-- what holds between taking a request and the drain that follows -/
theorem mid_inv (w : World) (o : Opts) (U : List Spec) (hwo : WorldOk w U) (st : St) (inv : TInv w U st) (r : Req) (rest : List Req) :
    WalkInv (stepPending w o r { st with pending := rest }) ∧ UVals U (stepPending w o r { st with pending := rest }) ∧
    KeysIn U (stepPending w o r { st with pending := rest }) := by
  have hto : ∀ to, tryLoad w o r = .redirect to → to ∈ U := by
    intro to h
    have ht := tryLoad_target w hwo.reload o r
    rw [h] at ht
    simp only [Outcome.target] at ht
    have hne := tryLoad_redirect_ne w o r to h
    rcases ht with h1 | h1
    · exact absurd h1 hne
    · rw [h1]; exact hwo.finalIn r.spec (by rw [← h1]; exact hne)
  refine ⟨(wr_stepPending w hwo.reload o r { st with pending := rest } (wr_grew (st := st) (st' := { st with pending := rest }) ⟨fun _ hx => hx, rfl⟩ inv.wr)).walk, ?_, ?_⟩
  · intro p hp
    rcases redirects_stepPending_mem w o r _ p hp with h | ⟨h, hne⟩
    · exact inv.uvals p h
    · rw [h]
      simp only
      rcases tryLoad_target w hwo.reload o r with h1 | h1
      · exact absurd h1.symm hne
      · rw [h1]; exact hwo.finalIn r.spec (by rw [← h1]; exact fun e => hne e.symm)
  · unfold stepPending
    apply keys_applyOutcome w o U hwo r _ _ _ hto
    · intro p hp
      have : (logRequest w o r { st with pending := rest }).redirects = st.redirects := by
        unfold logRequest; simp only; split <;> rfl
      rw [this] at hp; exact inv.uvals p hp
    · exact keysIn_of_same U st _ inv.keys (by unfold logRequest; simp only; split <;> rfl)
        (by unfold logRequest; simp only; split <;> rfl)

/-- an iteration never increases the measure … -/
theorem iter_le (w : World) (o : Opts) (U : List Spec) (hwo : WorldOk w U) (st : St) (inv : TInv w U st) :
    LexLe (mu w U (iter w o st)) (mu w U st) := by
  unfold iter
  rcases hp : st.pending with _ | ⟨r, rest⟩
  · simp only
    exact drain_le w o U st inv.wr.walk inv.uvals inv.keys
  · simp only
    obtain ⟨h1, h2, h3⟩ := mid_inv w o U hwo st inv r rest
    exact (drain_le w o U _ h1 h2 h3).trans (stepPending_decreases w o U hwo st r rest hp inv).le

/-- … and decreases it strictly when it takes a request off the queue -/
theorem iter_lt (w : World) (o : Opts) (U : List Spec) (hwo : WorldOk w U) (st : St) (inv : TInv w U st)
    (hp : st.pending ≠ []) : LexLt (mu w U (iter w o st)) (mu w U st) := by
  unfold iter
  rcases hpe : st.pending with _ | ⟨r, rest⟩
  · exact absurd hpe hp
  · simp only
    obtain ⟨h1, h2, h3⟩ := mid_inv w o U hwo st inv r rest
    exact LexLt.of_le_of_lt (drain_le w o U _ h1 h2 h3) (stepPending_decreases w o U hwo st r rest hpe inv)

theorem lexLt_wf : WellFounded LexLt := by
  have hwf : WellFounded (Prod.Lex (fun a b : Nat => a < b) (Prod.Lex (fun a b : Nat => a < b) (fun a b : Nat => a < b))) :=
    (Prod.lex Nat.lt_wfRel (Prod.lex Nat.lt_wfRel Nat.lt_wfRel)).wf
  apply Subrelation.wf (r := Prod.Lex (fun a b : Nat => a < b) (Prod.Lex (fun a b : Nat => a < b) (fun a b : Nat => a < b))) _ hwf
  intro a b h
  obtain ⟨a1, a2, a3⟩ := a
  obtain ⟨b1, b2, b3⟩ := b
  unfold LexLt at h
  simp only at h
  rcases h with h | ⟨h1, h | ⟨h2, h3⟩⟩
  · exact Prod.Lex.left _ _ h
  · subst h1; exact Prod.Lex.right _ (Prod.Lex.left _ _ h)
  · subst h1; subst h2; exact Prod.Lex.right _ (Prod.Lex.right _ h3)

theorem runLoop_succ (w : World) (o : Opts) (fuel : Nat) (st : St) :
    runLoop w o (fuel + 1) st = if quiescent st then some st else runLoop w o fuel (iter w o st) := rfl

theorem not_quiescent_of_pending (st : St) (h : st.pending ≠ []) : quiescent st = false := by
  unfold quiescent
  cases hp : st.pending with
  | nil => exact absurd hp h
  | cons a l => simp

/-- **the build loop terminates**: from every state the invariants hold in, some amount of fuel
finishes the loop -/
theorem runLoop_terminates (w : World) (o : Opts) (U : List Spec) (hwo : WorldOk w U) :
    ∀ st, TInv w U st → ∃ fuel out, runLoop w o fuel st = some out := by
  intro st
  refine WellFounded.induction lexLt_wf (C := fun m => ∀ st, mu w U st = m → TInv w U st → ∃ fuel out, runLoop w o fuel st = some out)
    (mu w U st) ?_ st rfl
  intro m ih st hm inv
  subst hm
  by_cases hq : quiescent st = true
  · exact ⟨1, st, by rw [runLoop_succ, hq]; rfl⟩
  · have hq' : quiescent st = false := by simpa using hq
    -- a helper: from a state reached by n further iterations whose measure is smaller
    have step : ∀ s, TInv w U s → LexLt (mu w U s) (mu w U st) → ∃ fuel out, runLoop w o fuel s = some out :=
      fun s hs hlt => ih (mu w U s) hlt s rfl hs
    by_cases hp : st.pending = []
    · -- nothing queued: at most two idle iterations
      have inv1 := tinv_iter w o U hwo st inv
      have inv2 := tinv_iter w o U hwo _ inv1
      have le1 := iter_le w o U hwo st inv
      have le2 := (iter_le w o U hwo _ inv1).trans le1
      rcases idle_at_most_twice w o st inv.pend inv.dynInv hp with h | h | h | h
      · -- a request after one iteration
        obtain ⟨fuel, out, hr⟩ := step _ inv2 (LexLt.of_lt_of_le (iter_lt w o U hwo _ inv1 h) le1)
        refine ⟨fuel + 2, out, ?_⟩
        rw [runLoop_succ, hq']
        simp only [Bool.false_eq_true, if_false]
        rw [runLoop_succ, not_quiescent_of_pending _ h]
        exact hr
      · exact ⟨2, _, by rw [runLoop_succ, hq']; simp only [Bool.false_eq_true, if_false]; rw [runLoop_succ, h]; rfl⟩
      · by_cases hq1 : quiescent (iter w o st) = true
        · exact ⟨2, _, by rw [runLoop_succ, hq']; simp only [Bool.false_eq_true, if_false]; rw [runLoop_succ, hq1]; rfl⟩
        · have hq1' : quiescent (iter w o st) = false := by simpa using hq1
          have inv3 := tinv_iter w o U hwo _ inv2
          obtain ⟨fuel, out, hr⟩ := step _ inv3 (LexLt.of_lt_of_le (iter_lt w o U hwo _ inv2 h) le2)
          refine ⟨fuel + 3, out, ?_⟩
          rw [runLoop_succ, hq']
          simp only [Bool.false_eq_true, if_false]
          rw [runLoop_succ, hq1']
          simp only [Bool.false_eq_true, if_false]
          rw [runLoop_succ, not_quiescent_of_pending _ h]
          exact hr
      · by_cases hq1 : quiescent (iter w o st) = true
        · exact ⟨2, _, by rw [runLoop_succ, hq']; simp only [Bool.false_eq_true, if_false]; rw [runLoop_succ, hq1]; rfl⟩
        · have hq1' : quiescent (iter w o st) = false := by simpa using hq1
          refine ⟨3, iter w o (iter w o st), ?_⟩
          rw [runLoop_succ, hq']
          simp only [Bool.false_eq_true, if_false]
          rw [runLoop_succ, hq1']
          simp only [Bool.false_eq_true, if_false]
          rw [runLoop_succ, h]
          rfl
    · obtain ⟨fuel, out, hr⟩ := step _ (tinv_iter w o U hwo st inv) (iter_lt w o U hwo st inv hp)
      exact ⟨fuel + 1, out, by rw [runLoop_succ, hq']; exact hr⟩

end DG.Build

namespace DG.Build
open DG Tables

/-! ## the whole build -/

theorem tinv_load' (w : World) (o : Opts) (U : List Spec) (count : Nat) (lof : St → LoadOpts) (hx : ∀ st, (lof st).spec ∈ U)
    (st : St) (inv : TInv w U st) : TInv w U (load w o count (lof st) st) := by
  have hg := (grows_load' w o count lof).grew st
  refine ⟨(good_load' w o count lof).inv none st inv.pend, (keepsDyn_load' w o count lof).inv st inv.dynInv,
    wr_grew hg inv.wr, ?_, inv.uvals.grew hg, (step_load' w o U none count lof hx).keys st inv.uvals inv.keys⟩
  intro p hp
  have : (load w o count (lof st) st).redirects = st.redirects := hg.redirects
  rw [this] at hp
  exact inv.noSelf p hp

theorem tinv_init (w : World) (o : Opts) (U : List Spec) : TInv w U ({ inDyn := o.isDynamic } : St) := by
  refine ⟨?_, fun _ => rfl, ⟨fun p hp => (List.not_mem_nil hp).elim, fun p hp => (List.not_mem_nil hp).elim⟩,
    fun p hp => (List.not_mem_nil hp).elim, fun p hp => (List.not_mem_nil hp).elim,
    ⟨fun p hp => (List.not_mem_nil hp).elim, fun p hp => (List.not_mem_nil hp).elim⟩⟩
  intro s a hs
  simp [St.slot, List.lookup] at hs

theorem tinv_foldl {α} (w : World) (U : List Spec) (f : St → α → St) (l : List α)
    (hf : ∀ a ∈ l, ∀ st, TInv w U st → TInv w U (f st a)) (st : St) (inv : TInv w U st) : TInv w U (l.foldl f st) := by
  induction l generalizing st with
  | nil => exact inv
  | cons a l ih =>
    simp only [List.foldl_cons]
    exact ih (fun b hb => hf b (by simp [hb])) _ (hf a (by simp) st inv)

/-- **builds terminate**: for every world whose cache-bypassing reloads answer like normal loads and
whose module answers name final specifiers that do not lead elsewhere, every option set, and all
roots and configured imports, the build finishes with some amount of fuel -/
theorem build_terminates (w : World) (o : Opts) (U : List Spec) (hwo : WorldOk w U) (roots : List Spec)
    (imports : List (Spec × List Dep)) (hr : ∀ r ∈ roots, r ∈ U)
    (hi : ∀ d ∈ imports.flatMap (·.2), ∀ s rng, d.type = .ok s rng → s ∈ U) :
    ∃ fuel out, build w o roots imports fuel = some out := by
  have h0 := tinv_init w o U
  have h1 : TInv w U (roots.foldl (rootStep w o) { inDyn := o.isDynamic }) :=
    tinv_foldl w U (rootStep w o) roots (fun r hr' st inv => tinv_load' w o U 0
      (fun st => { spec := r, range := none, spRef := none, isAsset := false, inDyn := st.inDyn, isRoot := true, attr := none })
      (fun _ => hr r hr') st inv) _ h0
  have himp : ∀ d ∈ imports.flatMap (·.2), ∀ st, TInv w U st → TInv w U (importStep w o st d) := by
    intro d hd st inv
    unfold importStep
    cases hty : d.type with
    | ok s rng =>
      exact tinv_load' w o U 0
        (fun st => { spec := s, range := some rng, spRef := none, isAsset := false, inDyn := st.inDyn,
                     isRoot := st.isResolvedRoot s, attr := none })
        (fun _ => hi d hd s rng hty) st inv
    | none => exact inv
    | err c => exact inv
  have h2 : TInv w U ((imports.flatMap (·.2)).foldl (importStep w o) (roots.foldl (rootStep w o) { inDyn := o.isDynamic })) :=
    tinv_foldl w U (importStep w o) _ himp _ h1
  obtain ⟨fuel, out, h⟩ := runLoop_terminates w o U hwo _ h2
  exact ⟨fuel, out, by rw [build_eq]; exact h⟩

end DG.Build

namespace DG.Build
open DG Tables

/-! ## a universe for every world -/

def resTargets : Res → List Spec
  | .ok s _ => [s]
  | _ => []

def parsedTargets (p : Parsed) : List Spec :=
  p.deps.flatMap (fun d => resTargets d.code ++ resTargets d.type) ++
  (match p.typesDep with | some r => resTargets r | none => []) ++
  (match p.sourceMapDep with | some r => resTargets r | none => [])

def respTargets : Resp → List Spec
  | .redirect to => [to]
  | .module f => [f]
  | .external f => [f]
  | _ => []

def dedup : List Spec → List Spec
  | [] => []
  | a :: l => if a ∈ dedup l then dedup l else a :: dedup l

theorem mem_dedup (l : List Spec) (a : Spec) : a ∈ dedup l ↔ a ∈ l := by
  induction l with
  | nil => simp [dedup]
  | cons b l ih =>
    unfold dedup
    split
    · rename_i hb
      constructor
      · intro h; exact List.mem_cons_of_mem _ (ih.mp h)
      · intro h
        rcases List.mem_cons.mp h with rfl | h
        · exact hb
        · exact ih.mpr h
    · simp only [List.mem_cons, ih]

theorem nodup_dedup (l : List Spec) : (dedup l).Nodup := by
  induction l with
  | nil => simp [dedup]
  | cons b l ih =>
    unfold dedup
    split
    · exact ih
    · rename_i hb
      exact List.nodup_cons.mpr ⟨hb, ih⟩

/-- everything a world, the roots and the configured imports mention -/
def universeOf (w : World) (roots : List Spec) (imports : List (Spec × List Dep)) : List Spec :=
  dedup (roots ++ (imports.flatMap (·.2)).flatMap (fun d => resTargets d.type) ++
    w.content.flatMap (fun c => parsedTargets c.2.parsed) ++ w.resp.flatMap (fun r => respTargets r.2))

theorem mem_eraseDups (l : List Spec) (a : Spec) : a ∈ dedup l ↔ a ∈ l := mem_dedup l a

theorem lookup_mem' {α} (l : List (Spec × α)) (k : Spec) (v : α) (h : l.lookup k = some v) : (k, v) ∈ l :=
  lookup_mem l k v h

theorem parsedIn_universe (w : World) (roots : List Spec) (imports : List (Spec × List Dep)) (s : Spec) :
    ParsedIn (universeOf w roots imports) (w.contentOf s).parsed := by
  unfold World.contentOf
  cases hl : w.content.lookup s with
  | none =>
    simp only [Option.getD_none]
    refine ⟨fun d hd => ?_, fun _ _ h => ?_, fun _ _ h => ?_⟩
    · cases hd
    · cases h
    · cases h
  | some c =>
    simp only [Option.getD_some]
    have hm := lookup_mem' _ _ _ hl
    have hin : ∀ x, x ∈ parsedTargets c.parsed → x ∈ universeOf w roots imports := by
      intro x hx
      unfold universeOf
      rw [mem_eraseDups]
      simp only [List.mem_append, List.mem_flatMap]
      exact Or.inl (Or.inr ⟨(s, c), hm, hx⟩)
    refine ⟨?_, ?_, ?_⟩
    · intro d hd
      constructor
      · intro t r hc
        apply hin
        simp only [parsedTargets, List.mem_append, List.mem_flatMap]
        exact Or.inl (Or.inl ⟨d, hd, Or.inl (by rw [hc]; simp [resTargets])⟩)
      · intro t r hc
        apply hin
        simp only [parsedTargets, List.mem_append, List.mem_flatMap]
        exact Or.inl (Or.inl ⟨d, hd, Or.inr (by rw [hc]; simp [resTargets])⟩)
    · intro t r hc
      apply hin
      simp only [parsedTargets, List.mem_append]
      exact Or.inl (Or.inr (by rw [hc]; simp [resTargets]))
    · intro t r hc
      apply hin
      simp only [parsedTargets, List.mem_append]
      exact Or.inr (by rw [hc]; simp [resTargets])

theorem finalIn_universe (w : World) (roots : List Spec) (imports : List (Spec × List Dep)) (s : Spec)
    (h : finalOf w s ≠ s) : finalOf w s ∈ universeOf w roots imports := by
  unfold finalOf World.respOf at h ⊢
  cases hl : w.resp.lookup s with
  | none => simp [hl] at h
  | some r =>
    have hm := lookup_mem' _ _ _ hl
    simp only [hl, Option.getD_some] at h ⊢
    have hin : ∀ x, x ∈ respTargets r → x ∈ universeOf w roots imports := by
      intro x hx
      unfold universeOf
      rw [mem_eraseDups]
      simp only [List.mem_append, List.mem_flatMap]
      exact Or.inr ⟨(s, r), hm, hx⟩
    cases r with
    | redirect to => exact hin _ (by simp [respTargets])
    | module f => exact hin _ (by simp [respTargets])
    | external f => exact hin _ (by simp [respTargets])
    | missing => exact absurd rfl h
    | error => exact absurd rfl h
    | checksumError => exact absurd rfl h

/-- **builds terminate** — stated without a universe: for every world whose cache-bypassing reloads
answer like normal loads and whose module answers name final specifiers that do not lead
elsewhere, every option set, all roots and configured imports -/
theorem build_terminates' (w : World) (o : Opts) (roots : List Spec) (imports : List (Spec × List Dep))
    (hre : w.reloadResp = []) (hfin : ∀ q f, w.respOf q = .module f → f ≠ q → finalOf w f = f) :
    ∃ fuel out, build w o roots imports fuel = some out := by
  apply build_terminates w o (universeOf w roots imports)
    ⟨hre, hfin, parsedIn_universe w roots imports, finalIn_universe w roots imports, nodup_dedup _⟩
  · intro r hr
    unfold universeOf
    rw [mem_eraseDups]
    simp only [List.mem_append]
    exact Or.inl (Or.inl (Or.inl hr))
  · intro d hd s rng hty
    unfold universeOf
    rw [mem_eraseDups]
    simp only [List.mem_append, List.mem_flatMap]
    exact Or.inl (Or.inl (Or.inr ⟨d, List.mem_flatMap.mp hd |> fun ⟨p, hp, hdp⟩ => ⟨p, hp, hdp⟩, by rw [hty]; simp [resTargets]⟩))

end DG.Build
