import DG.Build
/-! No pending slot survives a finished build: invariant of the builder model. -/
namespace DG.Build
open DG Tables

theorem lookup_upsert {α} (l : List (Spec × α)) (k s : Spec) (v : α) :
    (upsert l k v).lookup s = if s = k then some v else l.lookup s := by
  unfold upsert
  split
  · rename_i hany
    induction l with
    | nil => simp at hany
    | cons a l ih =>
      obtain ⟨k', v'⟩ := a
      simp only [List.map_cons]
      by_cases hk : (k' == k) = true
      · simp only [hk, if_true, List.lookup]
        have hk' : k' = k := by simpa using hk
        subst hk'
        by_cases hs : s = k'
        · subst hs; simp
        · have : (s == k') = false := by simpa using hs
          simp only [this, hs, if_false]
          -- the rest of the list: keys equal to k' are rewritten, others kept; lookup of s ≠ k' unchanged
          have : ∀ l : List (Spec × α), (l.map fun p => if (p.1 == k') = true then (k', v) else p).lookup s = l.lookup s := by
            intro l
            induction l with
            | nil => rfl
            | cons b l ihl =>
              obtain ⟨kb, vb⟩ := b
              simp only [List.map_cons]
              by_cases hb : (kb == k') = true
              · have hb' : kb = k' := by simpa using hb
                subst hb'
                simp only [hb, if_true, List.lookup, ‹(s == kb) = false›, ihl]
              · simp only [hb, Bool.false_eq_true, if_false, List.lookup, ihl]
          exact this l
      · have hk2 : (k' == k) = false := by simpa using hk
        simp only [hk2, Bool.false_eq_true, if_false, List.lookup]
        have hany' : l.any (·.1 == k) = true := by
          simp only [List.any_cons, hk2, Bool.false_or] at hany
          exact hany
        by_cases hs : (s == k') = true
        · have : s = k' := by simpa using hs
          subst this
          have : ¬ s = k := by
            intro h; subst h; simp at hk2
          simp [this]
        · have hs' : (s == k') = false := by simpa using hs
          simp only [hs']
          exact ih hany'
  · rename_i hany
    induction l with
    | nil =>
      simp only [List.nil_append, List.lookup]
      by_cases hs : s = k
      · subst hs; simp
      · have : (s == k) = false := by simpa using hs
        simp [this, hs]
    | cons a l ih =>
      obtain ⟨k', v'⟩ := a
      have hk2 : (k' == k) = false := by
        by_cases h : (k' == k) = true
        · exact absurd (by simp [List.any_cons, h]) hany
        · simpa using h
      have hany' : ¬ l.any (·.1 == k) = true := by
        intro h; apply hany; simp [List.any_cons, h]
      simp only [List.cons_append, List.lookup]
      by_cases hs : (s == k') = true
      · have : s = k' := by simpa using hs
        subst this
        have : ¬ s = k := by intro h; subst h; simp at hk2
        simp [this]
      · have hs' : (s == k') = false := by simpa using hs
        simp only [hs']
        exact ih hany'

theorem lookup_erase {α} (l : List (Spec × α)) (k s : Spec) :
    (erase l k).lookup s = if s = k then none else l.lookup s := by
  unfold erase
  induction l with
  | nil => simp [List.lookup]
  | cons a l ih =>
    obtain ⟨k', v'⟩ := a
    simp only [List.filter_cons]
    by_cases hk : (k' != k) = true
    · simp only [hk, if_true, List.lookup]
      by_cases hs : (s == k') = true
      · have : s = k' := by simpa using hs
        subst this
        have : ¬ s = k := by intro h; subst h; simp at hk
        simp [this]
      · have hs' : (s == k') = false := by simpa using hs
        simp only [hs', ih]
    · have hk' : k' = k := by simpa using hk
      subst hk'
      simp only [hk, Bool.false_eq_true, if_false, ih, List.lookup]
      by_cases hs : s = k'
      · subst hs; simp
      · have : (s == k') = false := by simpa using hs
        simp [this, hs]

/-- every pending slot has a queued request, except possibly the slot of the request `ex` that
has just been taken off the queue and is being processed -/
def PendInvEx (ex : Option Spec) (st : St) : Prop :=
  ∀ s a, st.slot s = some (.pending a) → (∃ r ∈ st.pending, r.spec = s) ∨ ex = some s

/-- every pending slot has a queued request -/
abbrev PendInv (st : St) : Prop := PendInvEx none st

theorem slot_setSlot (st : St) (k s : Spec) (sl : BSlot) :
    (st.setSlot k sl).slot s = if s = k then some sl else st.slot s := by
  simp [St.setSlot, St.slot, lookup_upsert]

@[simp] theorem pending_setSlot (st : St) (k : Spec) (sl : BSlot) :
    (st.setSlot k sl).pending = st.pending := rfl

theorem PendInvEx.setSlot {ex : Option Spec} {st : St} (h : PendInvEx ex st) (k : Spec) (sl : BSlot)
    (hsl : ∀ a, sl ≠ .pending a) : PendInvEx ex (st.setSlot k sl) := by
  intro s a hs
  rw [slot_setSlot] at hs
  split at hs
  · cases hs; exact absurd rfl (hsl a)
  · exact h s a hs

theorem PendInvEx.lpm {ex : Option Spec} {st : St} (h : PendInvEx ex st) (w : World) (lo : LoadOpts) (count : Nat)
    (spec : Spec) : PendInvEx ex (loadPendingModule w st lo count spec) := by
  intro s a hs
  have hq : ∀ r, r ∈ st.pending ∨ r.spec = spec ∧ r ∈ (loadPendingModule w st lo count spec).pending →
      r ∈ (loadPendingModule w st lo count spec).pending := by
    intro r hr
    rcases hr with hr | ⟨_, hr⟩
    · simp only [loadPendingModule, pending_setSlot, List.mem_append]; exact Or.inl hr
    · exact hr
  have hs' : (st.setSlot spec (.pending lo.isAsset)).slot s = some (.pending a) := hs
  rw [slot_setSlot] at hs'
  split at hs'
  · rename_i heq
    left
    refine ⟨{ spec := spec, count := count, range := lo.range, spRef := lo.spRef, isAsset := lo.isAsset,
              inDyn := lo.inDyn, isRoot := lo.isRoot, attr := lo.attr,
              checksum := knownChecksum w (st.setSlot spec (.pending lo.isAsset)) spec }, ?_, heq.symm⟩
    simp only [loadPendingModule, pending_setSlot, List.mem_append, List.mem_cons, List.not_mem_nil, or_false]
    exact Or.inr trivial
  · rcases h s a hs' with ⟨r, hr, hrs⟩ | hex
    · exact Or.inl ⟨r, hq r (Or.inl hr), hrs⟩
    · exact Or.inr hex

/-- a state transformer that only ever adds queue entries and keeps the invariant -/
structure Good (f : St → St) : Prop where
  inv : ∀ ex st, PendInvEx ex st → PendInvEx ex (f st)
  mono : ∀ st r, r ∈ st.pending → r ∈ (f st).pending

theorem Good.id : Good (fun st => st) := ⟨fun _ _ h => h, fun _ _ h => h⟩

theorem Good.comp {f g : St → St} (hf : Good f) (hg : Good g) : Good (fun st => g (f st)) :=
  ⟨fun ex st h => hg.inv ex _ (hf.inv ex st h), fun st r h => hg.mono _ r (hf.mono st r h)⟩

theorem good_addDeferred (spec : Spec) (lo : LoadOpts) : Good (fun st => addDeferred st spec lo) := by
  constructor
  · intro ex st h
    unfold addDeferred
    split
    · exact h
    · intro s a hs; exact h s a hs
  · intro st r hr
    unfold addDeferred
    split <;> exact hr

theorem good_load' (w : World) (o : Opts) (count : Nat) (lof : St → LoadOpts) :
    Good (fun st => load w o count (lof st) st) := by
  constructor
  · intro ex st h
    show PendInvEx ex (load w o count (lof st) st)
    unfold load
    simp only
    split
    · exact h.setSlot _ _ (by intro a hh; cases hh)
    · exact h
    · exact (good_addDeferred _ (lof st)).inv ex st h
    · split
      · exact h.setSlot _ _ (by intro a hh; cases hh)
      · exact h.lpm w (lof st) count _
  · intro st r hr
    show r ∈ (load w o count (lof st) st).pending
    unfold load
    simp only
    split
    · exact hr
    · exact hr
    · exact (good_addDeferred _ (lof st)).mono st r hr
    · split
      · exact hr
      · simp only [loadPendingModule, pending_setSlot, List.mem_append]
        exact Or.inl hr

theorem good_load (w : World) (o : Opts) (count : Nat) (lo : LoadOpts) : Good (load w o count lo) := by
  constructor
  · intro ex st h
    unfold load
    simp only
    split
    · exact h.setSlot _ _ (by intro a hh; cases hh)
    · exact h
    · exact (good_addDeferred _ lo).inv ex st h
    · split
      · exact h.setSlot _ _ (by intro a hh; cases hh)
      · exact h.lpm w lo count _
  · intro st r hr
    unfold load
    simp only
    split
    · exact hr
    · exact hr
    · exact (good_addDeferred _ lo).mono st r hr
    · split
      · exact hr
      · simp only [loadPendingModule, pending_setSlot, List.mem_append]
        exact Or.inl hr

/-- folding good steps is good -/
theorem good_foldl {α} (f : St → α → St) (hf : ∀ a, Good (fun st => f st a)) (l : List α) :
    Good (fun st => l.foldl f st) := by
  induction l with
  | nil => exact Good.id
  | cons a l ih =>
    simp only [List.foldl_cons]
    exact Good.comp (hf a) ih

/-- changing only the dynamic-branch table / flags keeps the invariant -/
theorem PendInvEx.of_same {ex : Option Spec} {st st' : St} (h : PendInvEx ex st) (hs : st'.slots = st.slots)
    (hp : st'.pending = st.pending) : PendInvEx ex st' := by
  intro s a hsl
  have : st.slot s = some (.pending a) := by simpa [St.slot, hs] using hsl
  rcases h s a this with ⟨r, hr, hrs⟩ | hex
  · exact Or.inl ⟨r, by rw [hp]; exact hr, hrs⟩
  · exact Or.inr hex

theorem good_visitDepCode (w : World) (o : Opts) (d : BDep) :
    Good (fun st => (visitDepCode w o d st).2) := by
  constructor
  · intro ex st h
    unfold visitDepCode
    split
    · split
      · split
        · split
          · exact h.of_same rfl rfl
          · exact h.of_same rfl rfl
        · exact (good_load w o 0 _).inv ex st h
      · exact h
    · exact h
  · intro st r hr
    unfold visitDepCode
    split
    · split
      · split
        · split <;> exact hr
        · exact (good_load w o 0 _).mono st r hr
      · exact hr
    · exact hr

theorem good_visitDepType (w : World) (o : Opts) (d : BDep) :
    Good (fun st => (visitDepType w o d st).2) := by
  constructor
  · intro ex st h
    unfold visitDepType
    split
    · split
      · split
        · exact h.of_same rfl rfl
        · exact (good_load w o 0 _).inv ex st h
      · exact h
    · exact h
  · intro st r hr
    unfold visitDepType
    split
    · split
      · split
        · exact hr
        · exact (good_load w o 0 _).mono st r hr
      · exact hr
    · exact hr

theorem good_visitDeps (w : World) (o : Opts) (deps : List BDep) :
    Good (fun st => (visitDeps w o deps st).2) := by
  induction deps with
  | nil => exact Good.id
  | cons d rest ih =>
    constructor
    · intro ex st h
      unfold visitDeps
      split
      · exact ih.inv ex st h
      · exact ih.inv ex _ ((good_visitDepType w o _).inv ex _ ((good_visitDepCode w o d).inv ex st h))
    · intro st r hr
      unfold visitDeps
      split
      · exact ih.mono st r hr
      · exact ih.mono _ r ((good_visitDepType w o _).mono _ r ((good_visitDepCode w o d).mono st r hr))

theorem good_loadSourceMap (w : World) (o : Opts) (p : Parsed) : Good (loadSourceMap w o p) := by
  constructor
  · intro ex st h; unfold loadSourceMap; split
    · exact (good_load w o 0 _).inv ex st h
    · exact h
  · intro st r hr; unfold loadSourceMap; split
    · exact (good_load w o 0 _).mono st r hr
    · exact hr

theorem good_loadTypesDep (w : World) (o : Opts) (p : Parsed) : Good (loadTypesDep w o p) := by
  constructor
  · intro ex st h; unfold loadTypesDep; split
    · exact (good_load w o 0 _).inv ex st h
    · exact h
  · intro st r hr; unfold loadTypesDep; split
    · exact (good_load w o 0 _).mono st r hr
    · exact hr

theorem good_visitJsDeps (w : World) (o : Opts) (p : Parsed) :
    Good (fun st => (visitJsDeps w o p st).2) := by
  constructor
  · intro ex st h; unfold visitJsDeps; split
    · exact (good_visitDeps w o _).inv ex _ ((good_loadSourceMap w o p).inv ex st h)
    · exact h
  · intro st r hr; unfold visitJsDeps; split
    · exact (good_visitDeps w o _).mono _ r ((good_loadSourceMap w o p).mono st r hr)
    · exact hr

theorem visitModule_slot_not_pending (w : World) (o : Opts) (cls : Class) (c : Content) (st : St)
    (hcls : ∀ k r, cls ≠ .err k r) : ∀ a, (visitModule w o cls c st).1 ≠ .pending a := by
  intro a
  unfold visitModule
  split
  · rename_i k r; exact absurd rfl (hcls k r)
  · intro h; cases h
  · intro h; cases h
  · simp only
    split <;> (intro h; cases h)

theorem good_visitModule (w : World) (o : Opts) (cls : Class) (c : Content) :
    Good (fun st => (visitModule w o cls c st).2) := by
  constructor
  · intro ex st h
    unfold visitModule
    split
    · exact h
    · exact h
    · exact (good_visitDeps w o _).inv ex st h
    · simp only
      split
      · exact (good_loadTypesDep w o _).inv ex _ ((good_visitJsDeps w o _).inv ex st h)
      · exact (good_visitJsDeps w o _).inv ex st h
  · intro st r hr
    unfold visitModule
    split
    · exact hr
    · exact hr
    · exact (good_visitDeps w o _).mono st r hr
    · simp only
      split
      · exact (good_loadTypesDep w o _).mono _ r ((good_visitJsDeps w o _).mono st r hr)
      · exact (good_visitJsDeps w o _).mono st r hr

end DG.Build
