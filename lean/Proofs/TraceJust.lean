import Proofs.Trace
/-! Why a task is there: the justification relation, and the two further invariants of the tracer
(retained declarations were processed; every task is justified). -/
namespace DG.Trace

/-- a task the statement calls for: the exports of an entrypoint, and whatever those lead to -/
inductive Just (w : World) (entries : List Nat) : Task → Prop
  | entry {m : Nat} : m ∈ entries → Just w entries (.reqAll m true)
  | allDecl {m : Nat} {wd : Bool} {d : Decl} : Just w entries (.reqAll m wd) → d ∈ (w.mod m).decls →
      exportedFor wd d = true → Just w entries (.decl m d.name)
  | allLocal {m : Nat} {wd : Bool} {p : Nat × Nat} : Just w entries (.reqAll m wd) → p ∈ (w.mod m).exportLocal →
      keepL wd p = true → Just w entries (.local m p.2)
  | allFrom {m : Nat} {wd : Bool} {p : Nat × Nat × Nat} : Just w entries (.reqAll m wd) → p ∈ (w.mod m).exportFrom →
      keepF wd p = true → Just w entries (.reqName p.2.1 p.2.2)
  | allStar {m x : Nat} {wd : Bool} : Just w entries (.reqAll m wd) → x ∈ (w.mod m).stars →
      Just w entries (.reqAll x false)
  | nameDecl {m n : Nat} {d : Decl} : Just w entries (.reqName m n) → ownExport (w.mod m) n = some d →
      Just w entries (.decl m d.name)
  | nameLocal {m n : Nat} {p : Nat × Nat} : Just w entries (.reqName m n) → ownExport (w.mod m) n = none →
      findLocalExport (w.mod m) n = some p → Just w entries (.local m p.2)
  | nameFrom {m n : Nat} {p : Nat × Nat × Nat} : Just w entries (.reqName m n) → ownExport (w.mod m) n = none →
      findLocalExport (w.mod m) n = none → findFrom (w.mod m) n = some p → Just w entries (.reqName p.2.1 p.2.2)
  | nameStar {m n d : Nat} {edges : List (Nat × Nat)} : Just w entries (.reqName m n) → ownExport (w.mod m) n = none →
      findLocalExport (w.mod m) n = none → findFrom (w.mod m) n = none →
      findPath w m n = some (edges, d) → Just w entries (.reqName d n)
  | localDecl {m l : Nat} {d : Decl} : Just w entries (.local m l) → findDecl (w.mod m) l = some d →
      Just w entries (.decl m d.name)
  | localImport {m l : Nat} {p : Nat × Nat × Nat} : Just w entries (.local m l) → findDecl (w.mod m) l = none →
      findImport (w.mod m) l = some p → Just w entries (.reqName p.2.1 p.2.2)
  | declRef {m name r : Nat} {d : Decl} : Just w entries (.decl m name) → findDecl (w.mod m) name = some d →
      r ∈ d.refs → Just w entries (.local m r)
  | declQRef {m name : Nat} {q : Nat × Nat} {d : Decl} : Just w entries (.decl m name) →
      findDecl (w.mod m) name = some d → q ∈ d.qrefs → Just w entries (.qual m q.1 q.2)
  | localNs {m l : Nat} {p : Nat × Nat} : Just w entries (.local m l) → findDecl (w.mod m) l = none →
      findImport (w.mod m) l = none → findNsImport (w.mod m) l = some p → Just w entries (.reqAll p.2 false)
  | qualNs {m l x : Nat} {p : Nat × Nat} : Just w entries (.qual m l x) → findNsImport (w.mod m) l = some p →
      Just w entries (.reqName p.2 x)
  | qualLocal {m l x : Nat} : Just w entries (.qual m l x) → findNsImport (w.mod m) l = none →
      Just w entries (.local m l)

/-- every task, processed or waiting, is justified; retained declarations were processed -/
structure Inv2 (w : World) (entries : List Nat) (s : State) : Prop where
  just : ∀ t, Sched s t → Just w entries t
  declsDone : ∀ x ∈ s.decls, Task.decl x.1 x.2 ∈ s.done ∧ (findDecl (w.mod x.1) x.2).isSome = true

theorem mem_ins_iff {α} [BEq α] [LawfulBEq α] (x y : α) (l : List α) : y ∈ ins x l ↔ y = x ∨ y ∈ l := by
  unfold ins
  split
  · rename_i h
    have : x ∈ l := by simpa using h
    constructor
    · exact fun hy => Or.inr hy
    · rintro (rfl | h') <;> assumption
  · simp [or_comm]

theorem inv2_step (w : World) (entries : List Nat) (s : State) (t : Task) (rest : List Task)
    (hw : s.work = t :: rest) (hi : Inv2 w entries s) : Inv2 w entries (step w { s with work := rest } t) := by
  have ht : Just w entries t := hi.just t (Or.inr (by simp [hw]))
  have hrest : ∀ u ∈ rest, Just w entries u := fun u hu => hi.just u (Or.inr (by simp [hw, hu]))
  have hdone : ∀ u ∈ s.done, Just w entries u := fun u hu => hi.just u (Or.inl hu)
  unfold step
  split
  · exact ⟨fun u hu => hu.elim (hdone u) (hrest u), hi.declsDone⟩
  · cases t with
    | reqAll m wd =>
      refine ⟨?_, ?_⟩
      · intro u hu
        simp only [Sched, stepReqAll, List.mem_append, List.mem_singleton, List.mem_map, List.mem_filter] at hu
        rcases hu with (hu | rfl) | ((((hu | ⟨d, ⟨hd, he⟩, rfl⟩) | ⟨p, ⟨hp, hk⟩, rfl⟩) | ⟨p, ⟨hp, hk⟩, rfl⟩) | ⟨x, hx, rfl⟩)
        · exact hdone u hu
        · exact ht
        · exact hrest u hu
        · exact Just.allDecl ht hd he
        · exact Just.allLocal ht hp hk
        · exact Just.allFrom ht hp hk
        · exact Just.allStar ht hx
      · intro x hx
        have := hi.declsDone x (by simpa [stepReqAll] using hx)
        exact ⟨by simp [stepReqAll, this.1], this.2⟩
    | reqName m n =>
      have key : ∀ (s' : State), s'.done = s.done ++ [Task.reqName m n] → s'.decls = s.decls →
          (∀ u ∈ s'.work, u ∈ rest ∨ Just w entries u) → Inv2 w entries s' := by
        intro s' hd hdc hwk
        refine ⟨?_, ?_⟩
        · intro u hu
          rcases hu with hu | hu
          · rw [hd] at hu
            simp only [List.mem_append, List.mem_singleton] at hu
            rcases hu with hu | rfl
            · exact hdone u hu
            · exact ht
          · exact (hwk u hu).elim (hrest u) id
        · intro x hx
          rw [hdc] at hx
          have := hi.declsDone x hx
          exact ⟨by rw [hd]; simp [this.1], this.2⟩
      unfold stepReqName
      simp only
      split
      · rename_i d hd
        exact key _ rfl rfl (fun u hu => by
          simp only [List.mem_append, List.mem_singleton] at hu
          rcases hu with hu | rfl
          · exact Or.inl hu
          · exact Or.inr (Just.nameDecl ht hd))
      · rename_i hd
        split
        · rename_i p hp
          exact key _ rfl rfl (fun u hu => by
            simp only [List.mem_append, List.mem_singleton] at hu
            rcases hu with hu | rfl
            · exact Or.inl hu
            · exact Or.inr (Just.nameLocal ht hd hp))
        · rename_i hp
          split
          · rename_i q hq
            exact key _ rfl rfl (fun u hu => by
              simp only [List.mem_append, List.mem_singleton] at hu
              rcases hu with hu | rfl
              · exact Or.inl hu
              · exact Or.inr (Just.nameFrom ht hd hp hq))
          · rename_i hq
            split
            · rename_i edges d hsp
              exact key _ rfl rfl (fun u hu => by
                simp only [List.mem_append, List.mem_singleton] at hu
                rcases hu with hu | rfl
                · exact Or.inl hu
                · exact Or.inr (Just.nameStar ht hd hp hq hsp))
            · exact key _ rfl rfl (fun u hu => Or.inl hu)
    | «local» m l =>
      have key : ∀ (s' : State), s'.done = s.done ++ [Task.local m l] → s'.decls = s.decls →
          (∀ u ∈ s'.work, u ∈ rest ∨ Just w entries u) → Inv2 w entries s' := by
        intro s' hd hdc hwk
        refine ⟨?_, ?_⟩
        · intro u hu
          rcases hu with hu | hu
          · rw [hd] at hu
            simp only [List.mem_append, List.mem_singleton] at hu
            rcases hu with hu | rfl
            · exact hdone u hu
            · exact ht
          · exact (hwk u hu).elim (hrest u) id
        · intro x hx
          rw [hdc] at hx
          have := hi.declsDone x hx
          exact ⟨by rw [hd]; simp [this.1], this.2⟩
      unfold stepLocal
      simp only
      split
      · rename_i d hd
        exact key _ rfl rfl (fun u hu => by
          simp only [List.mem_append, List.mem_singleton] at hu
          rcases hu with hu | rfl
          · exact Or.inl hu
          · exact Or.inr (Just.localDecl ht hd))
      · rename_i hd
        split
        · rename_i p hp
          exact key _ rfl rfl (fun u hu => by
            simp only [List.mem_append, List.mem_singleton] at hu
            rcases hu with hu | rfl
            · exact Or.inl hu
            · exact Or.inr (Just.localImport ht hd hp))
        · rename_i hp
          split
          · rename_i q hq
            exact key _ rfl rfl (fun u hu => by
              simp only [List.mem_append, List.mem_singleton] at hu
              rcases hu with hu | rfl
              · exact Or.inl hu
              · exact Or.inr (Just.localNs ht hd hp hq))
          · exact key _ rfl rfl (fun u hu => Or.inl hu)
    | qual m l x =>
      have key : ∀ (s' : State), s'.done = s.done ++ [Task.qual m l x] → s'.decls = s.decls →
          (∀ u ∈ s'.work, u ∈ rest ∨ Just w entries u) → Inv2 w entries s' := by
        intro s' hd hdc hwk
        refine ⟨?_, ?_⟩
        · intro u hu
          rcases hu with hu | hu
          · rw [hd] at hu
            simp only [List.mem_append, List.mem_singleton] at hu
            rcases hu with hu | rfl
            · exact hdone u hu
            · exact ht
          · exact (hwk u hu).elim (hrest u) id
        · intro x hx
          rw [hdc] at hx
          have := hi.declsDone x hx
          exact ⟨by rw [hd]; simp [this.1], this.2⟩
      unfold stepQual
      simp only
      split
      · rename_i p hp
        exact key _ rfl rfl (fun u hu => by
          simp only [List.mem_append, List.mem_singleton] at hu
          rcases hu with hu | rfl
          · exact Or.inl hu
          · exact Or.inr (Just.qualNs ht hp))
      · rename_i hp
        exact key _ rfl rfl (fun u hu => by
          simp only [List.mem_append, List.mem_singleton] at hu
          rcases hu with hu | rfl
          · exact Or.inl hu
          · exact Or.inr (Just.qualLocal ht hp))
    | decl m name =>
      unfold stepDecl
      simp only
      split
      · rename_i d hd
        refine ⟨?_, ?_⟩
        · intro u hu
          simp only [Sched, List.mem_append, List.mem_singleton, List.mem_map] at hu
          rcases hu with (hu | rfl) | ((hu | ⟨r, hr, rfl⟩) | ⟨q, hq, rfl⟩)
          · exact hdone u hu
          · exact ht
          · exact hrest u hu
          · exact Just.declRef ht hd hr
          · exact Just.declQRef ht hd hq
        · intro x hx
          simp only at hx
          rw [mem_ins_iff] at hx
          rcases hx with rfl | hx
          · exact ⟨by simp, by simp [hd]⟩
          · have := hi.declsDone x hx
            exact ⟨by simp [this.1], this.2⟩
      · refine ⟨?_, ?_⟩
        · intro u hu
          simp only [Sched, List.mem_append, List.mem_singleton] at hu
          rcases hu with (hu | rfl) | hu
          · exact hdone u hu
          · exact ht
          · exact hrest u hu
        · intro x hx
          have := hi.declsDone x hx
          exact ⟨by simp [this.1], this.2⟩

theorem run_inv2 (w : World) (entries : List Nat) : ∀ (f : Nat) (s s' : State), Inv2 w entries s →
    run w f s = some s' → Inv2 w entries s' := by
  intro f
  induction f with
  | zero =>
    intro s s' hi h
    simp only [run] at h
    split at h
    · simp only [Option.some.injEq] at h; subst h; exact hi
    · exact absurd h (by simp)
  | succ f ih =>
    intro s s' hi h
    simp only [run] at h
    split at h
    · simp only [Option.some.injEq] at h; subst h; exact hi
    · rename_i t rest hw
      exact ih _ s' (inv2_step w entries s t rest hw hi) h

/-- the start state satisfies both invariants -/
theorem init_inv (w : World) (entries : List Nat) :
    Inv w { work := entries.map fun m => Task.reqAll m true } ∧
    Inv2 w entries { work := entries.map fun m => Task.reqAll m true } := by
  refine ⟨fun t ht => by simp at ht, ?_, fun x hx => by simp at hx⟩
  intro t ht
  rcases ht with ht | ht
  · simp at ht
  · simp only [List.mem_map] at ht
    obtain ⟨m, hm, rfl⟩ := ht
    exact Just.entry hm

end DG.Trace
