import DG.Deps
/-! Invariants of the dependency table built from a module's analysis. -/
namespace DG.Deps
open DG.MI

theorem mem_upd {l : List Dep} {k : String} {f : Dep → Dep} {d' : Dep} (h : d' ∈ upd l k f) :
    (∃ d ∈ l, d.text = k ∧ d' = f d) ∨ (d' ∈ l ∧ d'.text ≠ k) ∨ (d' = f { text := k } ∧ ∀ d ∈ l, d.text ≠ k) := by
  unfold upd at h
  split at h
  · obtain ⟨d, hd, rfl⟩ := List.mem_map.mp h
    by_cases hk : (d.text == k) = true
    · left
      exact ⟨d, hd, by simpa using hk, by simp [hk]⟩
    · right; left
      simp only [hk, Bool.false_eq_true, if_false]
      exact ⟨hd, by simpa using hk⟩
  · rename_i hany
    rcases List.mem_append.mp h with h | h
    · right; left
      refine ⟨h, ?_⟩
      intro heq
      apply hany
      rw [List.any_eq_true]
      exact ⟨d', h, by simp [heq]⟩
    · right; right
      simp only [List.mem_singleton] at h
      refine ⟨h, ?_⟩
      intro d hd heq
      apply hany
      rw [List.any_eq_true]
      exact ⟨d, hd, by simp [heq]⟩

/-- a property of every entry survives an update that keeps it and establishes it on a new entry -/
theorem upd_forall (P : Dep → Prop) (l : List Dep) (k : String) (f : Dep → Dep)
    (hl : ∀ d ∈ l, P d) (hf : ∀ d, P d → d.text = k → P (f d)) (hnew : P (f { text := k })) :
    ∀ d ∈ upd l k f, P d := by
  intro d' h
  rcases mem_upd h with ⟨d, hd, hk, rfl⟩ | ⟨hd, _⟩ | ⟨rfl, _⟩
  · exact hf d (hl d hd) hk
  · exact hl d' hd
  · exact hnew

/-- modifications that keep the key -/
def KeepsText (f : Dep → Dep) : Prop := ∀ d, (f d).text = d.text

theorem keys_upd (l : List Dep) (k : String) (f : Dep → Dep) (hf : KeepsText f) :
    (upd l k f).map (·.text) = if l.any (·.text == k) then l.map (·.text) else l.map (·.text) ++ [k] := by
  unfold upd
  split
  · simp only [List.map_map]
    apply List.map_congr_left
    intro d _
    simp only [Function.comp]
    split
    · exact hf d
    · rfl
  · simp [hf { text := k }]

theorem nodup_upd (l : List Dep) (k : String) (f : Dep → Dep) (hf : KeepsText f)
    (h : (l.map (·.text)).Nodup) : ((upd l k f).map (·.text)).Nodup := by
  rw [keys_upd l k f hf]
  split
  · exact h
  · rename_i hany
    rw [List.nodup_append]
    refine ⟨h, by simp, ?_⟩
    intro a ha b hb
    simp only [List.mem_singleton] at hb
    subst hb
    intro heq
    subst heq
    apply hany
    obtain ⟨d, hd, hdk⟩ := List.mem_map.mp ha
    rw [List.any_eq_true]
    exact ⟨d, hd, by simp [hdk]⟩

/-! ## every step keeps the keys of its functions -/

theorem keepsText_applyImp (e : Env) (ts : Option SpecR) (i : RawImp) : KeepsText (applyImp e ts i) := by
  intro d
  unfold applyImp pushImp stageFallback stageSide stageDenoTypes stageAttr
  simp only
  repeat' split
  all_goals rfl

theorem nodup_foldl_upd (e : Env) (ts : Option SpecR) (imps : List RawImp) (deps : List Dep)
    (h : (deps.map (·.text)).Nodup) :
    ((imps.foldl (fun deps i => upd deps i.text (applyImp e ts i)) deps).map (·.text)).Nodup := by
  induction imps generalizing deps with
  | nil => exact h
  | cons i rest ih =>
    simp only [List.foldl_cons]
    exact ih _ (nodup_upd deps i.text _ (keepsText_applyImp e ts i) h)

theorem nodup_stepDesc (e : Env) (deps : List Dep) (desc : MI.Dep) (h : (deps.map (·.text)).Nodup) :
    ((stepDesc e deps desc).map (·.text)).Nodup := by
  unfold stepDesc
  split
  · exact h
  · exact nodup_foldl_upd e _ _ deps h

theorem nodup_foldl_stepDesc (e : Env) (descs : List MI.Dep) (deps : List Dep) (h : (deps.map (·.text)).Nodup) :
    ((descs.foldl (stepDesc e) deps).map (·.text)).Nodup := by
  induction descs generalizing deps with
  | nil => exact h
  | cons d rest ih =>
    simp only [List.foldl_cons]
    exact ih _ (nodup_stepDesc e deps d h)

theorem retainOne_text (d d' : Dep) (h : retainOne d = some d') : d'.text = d.text := by
  unfold retainOne at h
  split at h
  · cases h; rfl
  · split at h
    · cases h
    · cases h; rfl

theorem retainDeps_keys_sublist (e : Env) (deps : List Dep) :
    ((retainDeps e deps).map (·.text)).Sublist (deps.map (·.text)) := by
  unfold retainDeps
  split
  · exact List.Sublist.refl _
  · induction deps with
    | nil => exact List.Sublist.refl _
    | cons d rest ih =>
      simp only [List.filterMap_cons]
      split
      · simp only [List.map_cons]
        exact ih.cons _
      · rename_i d' heq
        simp only [List.map_cons, retainOne_text d d' heq]
        exact ih.cons_cons _

theorem nodup_fill (e : Env) (deps0 : List Dep) (descs : List MI.Dep) (h : (deps0.map (·.text)).Nodup) :
    ((fill e deps0 descs).map (·.text)).Nodup :=
  (nodup_foldl_stepDesc e descs deps0 h).sublist (retainDeps_keys_sublist e _)

theorem keepsText_addTypeImport (e : Env) (t : String) (k : IKind) : KeepsText (addTypeImport e t k) := fun _ => rfl

theorem keepsText_addJsx (e : Env) (mi : ModuleInfo) (t : String) : KeepsText (addJsx e mi t) := by
  intro d
  unfold addJsx jsxTypes
  simp only
  repeat' split
  all_goals rfl

theorem nodup_stepTsRef (e : Env) (o : Out) (r : TsRef) (h : (o.deps.map (·.text)).Nodup) :
    (((stepTsRef e o r).deps).map (·.text)).Nodup := by
  unfold stepTsRef
  split
  · exact nodup_upd _ _ _ (keepsText_addTypeImport e _ _) h
  · split
    · exact h
    · split
      · exact h
      · exact nodup_upd _ _ _ (keepsText_addTypeImport e _ _) h

theorem nodup_stepJsx (e : Env) (mi : ModuleInfo) (o : Out) (h : (o.deps.map (·.text)).Nodup) :
    (((stepJsx e mi o).deps).map (·.text)).Nodup := by
  unfold stepJsx
  split
  · exact h
  · split
    · exact h
    · exact nodup_upd _ _ _ (keepsText_addJsx e mi _) h

theorem nodup_stepJsDoc (e : Env) (o : Out) (j : JsDoc) (h : (o.deps.map (·.text)).Nodup) :
    (((stepJsDoc e o j).deps).map (·.text)).Nodup :=
  nodup_upd _ _ _ (keepsText_addTypeImport e _ _) h

theorem nodup_foldl {α} (f : Out → α → Out) (hf : ∀ o a, (o.deps.map (·.text)).Nodup → ((f o a).deps.map (·.text)).Nodup)
    (l : List α) (o : Out) (h : (o.deps.map (·.text)).Nodup) : ((l.foldl f o).deps.map (·.text)).Nodup := by
  induction l generalizing o with
  | nil => exact h
  | cons a rest ih => exact ih _ (hf o a h)

theorem nodup_preFill (e : Env) (mi : ModuleInfo) : (((preFill e mi).deps).map (·.text)).Nodup := by
  unfold preFill
  have h0 : ((({ sourceMap := mi.sourceMap.map fun s => (s.text, (e.resC s.text).res) } : Out)).deps.map (·.text)).Nodup := by
    simp
  generalize ({ sourceMap := mi.sourceMap.map fun s => (s.text, (e.resC s.text).res) } : Out) = o0 at h0
  have h1 : (((phaseSelfTypes e mi o0).deps).map (·.text)).Nodup := by
    unfold phaseSelfTypes
    split
    · apply nodup_foldl _ (fun o a h => nodup_stepTsRef e o a h)
      split <;> exact h0
    · exact h0
  have h2 := nodup_stepJsx e mi _ h1
  have h3 : (((phaseJsDoc e mi (stepJsx e mi (phaseSelfTypes e mi o0))).deps).map (·.text)).Nodup := by
    unfold phaseJsDoc
    split
    · exact nodup_foldl _ (fun o a h => nodup_stepJsDoc e o a h) _ _ h2
    · exact h2
  unfold phaseHeader
  split
  · split <;> exact h3
  · exact h3

/-- **each specifier has one entry** -/
theorem analyse_keys_nodup (e : Env) (mi : ModuleInfo) : ((analyse e mi).deps.map (·.text)).Nodup := by
  unfold analyse
  exact nodup_fill e _ _ (nodup_preFill e mi)

/-! ## static wins -/

/-- the flag says "dynamic" only if every import of the module as code is dynamic; while no code
resolution exists there is no such import (outside declaration files, whose entries never get one) -/
structure SW (e : Env) (d : Dep) : Prop where
  allDyn : d.dyn = true → ∀ i ∈ d.imports, i.kind.isCode = true → i.dyn = true
  noCode : d.code = .none → e.isDeclaration = false → ∀ i ∈ d.imports, i.kind.isCode = false
  decl : e.isDeclaration = true → d.dyn = false

theorem R.res_ne_none (r : R) : r.res ≠ .none := by cases r <;> simp [R.res]

theorem Res.isNone_iff (r : Res) : r.isNone = true ↔ r = .none := by cases r <;> simp [Res.isNone]

theorem sw_new (e : Env) (k : String) : SW e { text := k } :=
  ⟨fun h => by simp at h, fun _ _ i hi => by simp at hi, fun _ => rfl⟩

theorem sw_addTypeImport (e : Env) (t : String) (k : IKind) (hk : k.isCode = false) (d : Dep) (h : SW e d) :
    SW e (addTypeImport e t k d) := by
  refine ⟨?_, ?_, ?_⟩
  · intro hd i hi hc
    simp only [addTypeImport, List.mem_append, List.mem_singleton] at hi
    rcases hi with hi | rfl
    · exact h.allDyn hd i hi hc
    · simp [hk] at hc
  · intro hcode hdecl i hi
    simp only [addTypeImport, List.mem_append, List.mem_singleton] at hi
    rcases hi with hi | rfl
    · exact h.noCode hcode hdecl i hi
    · exact hk
  · intro hdecl; exact h.decl hdecl

/-- before the descriptors are visited nothing is dynamic -/
structure Pre (e : Env) (d : Dep) : Prop where
  static : d.dyn = false
  noCode : d.code = .none → ∀ i ∈ d.imports, i.kind.isCode = false

theorem Pre.sw {e : Env} {d : Dep} (h : Pre e d) : SW e d :=
  ⟨fun hd => by have := h.static; rw [this] at hd; exact absurd hd (by simp), fun hc _ => h.noCode hc, fun _ => h.static⟩

theorem pre_new (e : Env) (k : String) : Pre e { text := k } := ⟨rfl, fun _ i hi => by simp at hi⟩

theorem pre_addTypeImport (e : Env) (t : String) (k : IKind) (hk : k.isCode = false) (d : Dep) (h : Pre e d) :
    Pre e (addTypeImport e t k d) := by
  refine ⟨h.static, ?_⟩
  intro hcode i hi
  simp only [addTypeImport, List.mem_append, List.mem_singleton] at hi
  rcases hi with hi | rfl
  · exact h.noCode hcode i hi
  · exact hk

theorem jsxTypes_code (e : Env) (mi : ModuleInfo) (t : String) (d : Dep) : (jsxTypes e mi t d).code = d.code := by
  unfold jsxTypes; repeat' split
  all_goals rfl
theorem jsxTypes_dyn (e : Env) (mi : ModuleInfo) (t : String) (d : Dep) : (jsxTypes e mi t d).dyn = d.dyn := by
  unfold jsxTypes; repeat' split
  all_goals rfl
theorem jsxTypes_imports (e : Env) (mi : ModuleInfo) (t : String) (d : Dep) : (jsxTypes e mi t d).imports = d.imports := by
  unfold jsxTypes; repeat' split
  all_goals rfl

theorem pre_addJsx (e : Env) (mi : ModuleInfo) (t : String) (d : Dep) (h : Pre e d) : Pre e (addJsx e mi t d) := by
  refine ⟨?_, ?_⟩
  · simp only [addJsx, jsxTypes_dyn]; exact h.static
  · intro hcode
    simp only [addJsx, jsxTypes_code] at hcode
    exfalso
    split at hcode
    · exact R.res_ne_none _ hcode
    · rename_i hn
      exact hn ((Res.isNone_iff _).mpr hcode)

theorem pre_upd (e : Env) (l : List Dep) (k : String) (f : Dep → Dep) (hl : ∀ d ∈ l, Pre e d)
    (hf : ∀ d, Pre e d → Pre e (f d)) : ∀ d ∈ upd l k f, Pre e d :=
  upd_forall (Pre e) l k f hl (fun d hd _ => hf d hd) (hf _ (pre_new e k))

theorem pre_stepTsRef (e : Env) (o : Out) (r : TsRef) (h : ∀ d ∈ o.deps, Pre e d) : ∀ d ∈ (stepTsRef e o r).deps, Pre e d := by
  unfold stepTsRef
  split
  · exact pre_upd e _ _ _ h (pre_addTypeImport e _ _ rfl)
  · split
    · exact h
    · split
      · exact h
      · exact pre_upd e _ _ _ h (pre_addTypeImport e _ _ rfl)

theorem pre_foldl {α} (e : Env) (f : Out → α → Out) (hf : ∀ o a, (∀ d ∈ o.deps, Pre e d) → ∀ d ∈ (f o a).deps, Pre e d)
    (l : List α) (o : Out) (h : ∀ d ∈ o.deps, Pre e d) : ∀ d ∈ (l.foldl f o).deps, Pre e d := by
  induction l generalizing o with
  | nil => exact h
  | cons a rest ih => exact ih _ (hf o a h)

theorem pre_preFill (e : Env) (mi : ModuleInfo) : ∀ d ∈ (preFill e mi).deps, Pre e d := by
  unfold preFill
  have h0 : ∀ d ∈ (({ sourceMap := mi.sourceMap.map fun s => (s.text, (e.resC s.text).res) } : Out)).deps, Pre e d := by
    intro d hd; cases hd
  generalize ({ sourceMap := mi.sourceMap.map fun s => (s.text, (e.resC s.text).res) } : Out) = o0 at h0
  have h1 : ∀ d ∈ (phaseSelfTypes e mi o0).deps, Pre e d := by
    unfold phaseSelfTypes
    split
    · apply pre_foldl e _ (fun o a h => pre_stepTsRef e o a h)
      split <;> exact h0
    · exact h0
  have h2 : ∀ d ∈ (stepJsx e mi (phaseSelfTypes e mi o0)).deps, Pre e d := by
    unfold stepJsx
    split
    · exact h1
    · split
      · exact h1
      · exact pre_upd e _ _ _ h1 (pre_addJsx e mi _)
  have h3 : ∀ d ∈ (phaseJsDoc e mi (stepJsx e mi (phaseSelfTypes e mi o0))).deps, Pre e d := by
    unfold phaseJsDoc
    split
    · exact pre_foldl e _ (fun o a h => pre_upd e _ _ _ h (pre_addTypeImport e _ _ rfl)) _ _ h2
    · exact h2
  unfold phaseHeader
  split
  · split <;> exact h3
  · exact h3

/-- the part of an entry the invariant talks about -/
def Core (d d' : Dep) : Prop := d'.code = d.code ∧ d'.dyn = d.dyn ∧ d'.imports = d.imports

theorem sw_of_core (e : Env) {d d' : Dep} (h : SW e d) (hc : Core d d') : SW e d' := by
  obtain ⟨h1, h2, h3⟩ := hc
  exact ⟨fun hd => by rw [h3]; exact h.allDyn (by rw [← h2]; exact hd),
         fun hn hdecl => by rw [h3]; exact h.noCode (by rw [← h1]; exact hn) hdecl,
         fun hdecl => by rw [h2]; exact h.decl hdecl⟩

theorem core_stageAttr (i : RawImp) (d : Dep) : Core d (stageAttr i d) := by
  unfold stageAttr; split <;> exact ⟨rfl, rfl, rfl⟩

theorem core_stageDenoTypes (e : Env) (ts : Option SpecR) (d : Dep) : Core d (stageDenoTypes e ts d) := by
  unfold stageDenoTypes
  split
  · split <;> exact ⟨rfl, rfl, rfl⟩
  · exact ⟨rfl, rfl, rfl⟩

theorem core_stageFallback (e : Env) (i : RawImp) (d : Dep) : Core d (stageFallback e i d) := by
  unfold stageFallback
  split
  · split <;> exact ⟨rfl, rfl, rfl⟩
  · exact ⟨rfl, rfl, rfl⟩

/-- the stage that touches the code side and the flag, together with recording the import -/
theorem sw_side_push (e : Env) (i : RawImp) (d : Dep) (h : SW e d)
    (hcode : i.kind.isCode = false → (i.kind = .tsType ∨ i.kind = .tsAugment))
    (f : Dep → Dep) (hf : ∀ x, Core x (f x)) : SW e (pushImp i (f (stageSide e i d))) := by
  by_cases hk : (i.kind == .tsType || i.kind == .tsAugment) = true
  · have hnc : i.kind.isCode = false := by
      simp only [Bool.or_eq_true, beq_iff_eq] at hk
      rcases hk with hk | hk <;> rw [hk] <;> rfl
    have hs : Core d (stageSide e i d) := by
      unfold stageSide
      simp only [hk, if_true]
      split <;> exact ⟨rfl, rfl, rfl⟩
    have s := sw_of_core e (sw_of_core e h hs) (hf _)
    refine ⟨?_, ?_, s.decl⟩
    · intro hdyn j hj hc
      simp only [pushImp, List.mem_append, List.mem_singleton] at hj
      rcases hj with hj | rfl
      · exact s.allDyn hdyn j hj hc
      · simp [hnc] at hc
    · intro hcn hdecl j hj
      simp only [pushImp, List.mem_append, List.mem_singleton] at hj
      rcases hj with hj | rfl
      · exact s.noCode hcn hdecl j hj
      · exact hnc
  · have hkf : (i.kind == .tsType || i.kind == .tsAugment) = false := by simpa using hk
    by_cases hdecl : e.isDeclaration = true
    · have hs : Core d (stageSide e i d) := by
        unfold stageSide
        simp only [hkf, hdecl, Bool.not_true, Bool.false_eq_true, if_false]
        exact ⟨rfl, rfl, rfl⟩
      have s := sw_of_core e (sw_of_core e h hs) (hf _)
      refine ⟨?_, ?_, s.decl⟩
      · intro hdyn
        have := s.decl hdecl
        simp only [pushImp] at hdyn
        rw [this] at hdyn; cases hdyn
      · intro _ hnd; rw [hdecl] at hnd; cases hnd
    · have hdf : e.isDeclaration = false := by simpa using hdecl
      by_cases hcn : d.code.isNone = true
      · -- the first code import decides
        have hnone : d.code = .none := (Res.isNone_iff _).mp hcn
        have hprev := h.noCode hnone hdf
        have hs : (stageSide e i d).code = (e.resC i.text).res ∧ (stageSide e i d).dyn = i.dyn ∧
            (stageSide e i d).imports = d.imports := by
          unfold stageSide
          simp [hkf, hdf, hcn]
        obtain ⟨c1, c2, c3⟩ := hf (stageSide e i d)
        refine ⟨?_, ?_, ?_⟩
        · intro hdyn j hj hc
          simp only [pushImp, List.mem_append, List.mem_singleton] at hj
          rcases hj with hj | rfl
          · rw [c3, hs.2.2] at hj
            have := hprev j hj
            rw [this] at hc; cases hc
          · simp only [pushImp] at hdyn
            rw [c2, hs.2.1] at hdyn
            exact hdyn
        · intro hcn'
          simp only [pushImp] at hcn'
          rw [c1, hs.1] at hcn'
          exact absurd hcn' (R.res_ne_none _)
        · intro hd; rw [hdf] at hd; cases hd
      · -- a further code import: static wins
        have hs : (stageSide e i d).code = d.code ∧ (stageSide e i d).dyn = (d.dyn && i.dyn) ∧
            (stageSide e i d).imports = d.imports := by
          unfold stageSide
          simp [hkf, hdf, hcn]
        obtain ⟨c1, c2, c3⟩ := hf (stageSide e i d)
        refine ⟨?_, ?_, ?_⟩
        · intro hdyn j hj hc
          simp only [pushImp] at hdyn
          rw [c2, hs.2.1, Bool.and_eq_true] at hdyn
          simp only [pushImp, List.mem_append, List.mem_singleton] at hj
          rcases hj with hj | rfl
          · rw [c3, hs.2.2] at hj
            exact h.allDyn hdyn.1 j hj hc
          · exact hdyn.2
        · intro hcn'
          simp only [pushImp] at hcn'
          rw [c1, hs.1] at hcn'
          exact absurd ((Res.isNone_iff _).mpr hcn') hcn
        · intro hd; rw [hdf] at hd; cases hd

/-- one import of a descriptor keeps the invariant -/
theorem sw_applyImp (e : Env) (ts : Option SpecR) (i : RawImp) (d : Dep) (h : SW e d)
    (hcode : i.kind.isCode = false → (i.kind = .tsType ∨ i.kind = .tsAugment)) : SW e (applyImp e ts i d) := by
  unfold applyImp
  exact sw_side_push e i _ (sw_of_core e (sw_of_core e h (core_stageAttr i d)) (core_stageDenoTypes e ts _)) hcode
    (stageFallback e i) (core_stageFallback e i)

theorem descImports_kinds (e : Env) (desc : MI.Dep) (imps : List RawImp) (ts : Option SpecR)
    (h : descImports e desc = some (imps, ts)) :
    ∀ i ∈ imps, i.kind.isCode = false → (i.kind = .tsType ∨ i.kind = .tsAugment) := by
  intro i hi hc
  cases desc with
  | «static» d =>
    simp only [descImports] at h
    split at h
    · split at h
      · cases h
      · simp only [Option.some.injEq, Prod.mk.injEq] at h
        obtain ⟨rfl, _⟩ := h
        simp only [List.mem_singleton] at hi
        subst hi
        exact Or.inr rfl
    · split at h
      · cases h
      · simp only [Option.some.injEq, Prod.mk.injEq] at h
        obtain ⟨rfl, _⟩ := h
        simp only [List.mem_singleton] at hi
        subst hi
        exact Or.inl rfl
    · split at h
      · cases h
      · simp only [Option.some.injEq, Prod.mk.injEq] at h
        obtain ⟨rfl, _⟩ := h
        simp only [List.mem_singleton] at hi
        subst hi
        exact Or.inl rfl
    · simp only [Option.some.injEq, Prod.mk.injEq] at h
      obtain ⟨rfl, _⟩ := h
      simp only [List.mem_singleton] at hi
      subst hi
      simp [IKind.isCode] at hc
    · simp only [Option.some.injEq, Prod.mk.injEq] at h
      obtain ⟨rfl, _⟩ := h
      simp only [List.mem_singleton] at hi
      subst hi
      simp [IKind.isCode] at hc
  | dynamic d =>
    simp only [descImports] at h
    split at h
    · simp only [Option.some.injEq, Prod.mk.injEq] at h
      obtain ⟨rfl, _⟩ := h
      simp only [List.mem_singleton] at hi
      subst hi
      simp only at hc
      split at hc <;> simp [IKind.isCode] at hc
    · cases h

theorem sw_stepDesc (e : Env) (deps : List Dep) (desc : MI.Dep) (h : ∀ d ∈ deps, SW e d) :
    ∀ d ∈ stepDesc e deps desc, SW e d := by
  unfold stepDesc
  split
  · exact h
  · rename_i imps ts hdi
    have hk := descImports_kinds e desc imps ts hdi
    clear hdi
    induction imps generalizing deps with
    | nil => exact h
    | cons i rest ih =>
      simp only [List.foldl_cons]
      apply ih
      · exact upd_forall (SW e) deps i.text _ h
          (fun d hd _ => sw_applyImp e ts i d hd (hk i (by simp)))
          (sw_applyImp e ts i _ (sw_new e i.text) (hk i (by simp)))
      · intro j hj; exact hk j (by simp [hj])

theorem sw_foldl_stepDesc (e : Env) (descs : List MI.Dep) (deps : List Dep) (h : ∀ d ∈ deps, SW e d) :
    ∀ d ∈ descs.foldl (stepDesc e) deps, SW e d := by
  induction descs generalizing deps with
  | nil => exact h
  | cons d rest ih =>
    simp only [List.foldl_cons]
    exact ih _ (sw_stepDesc e deps d h)

theorem sw_retainDeps (e : Env) (deps : List Dep) (h : ∀ d ∈ deps, SW e d) : ∀ d ∈ retainDeps e deps, SW e d := by
  unfold retainDeps
  split
  · exact h
  · intro d' hd'
    obtain ⟨d, hd, hfm⟩ := List.mem_filterMap.mp hd'
    unfold retainOne at hfm
    split at hfm
    · cases hfm; exact h _ hd
    · split at hfm
      · cases hfm
      · cases hfm
        have s := h d hd
        refine ⟨?_, ?_, s.decl⟩
        · intro hdyn i hi hc
          exact s.allDyn hdyn i (List.mem_filter.mp hi).1 hc
        · intro hcn hdecl i hi
          exact s.noCode hcn hdecl i (List.mem_filter.mp hi).1

/-- **static wins**: an entry is flagged dynamic only if every import of it as code is dynamic -/
theorem analyse_static_wins (e : Env) (mi : ModuleInfo) (d : Dep) (hd : d ∈ (analyse e mi).deps) (hdyn : d.dyn = true) :
    ∀ i ∈ d.imports, i.kind.isCode = true → i.dyn = true := by
  unfold analyse fill at hd
  have h := sw_retainDeps e _ (sw_foldl_stepDesc e mi.deps _ (fun d hd => (pre_preFill e mi d hd).sw)) d hd
  exact h.allDyn hdyn

/-! ## a code-only analysis records no type side -/

structure CO (d : Dep) : Prop where
  noType : d.type = .none
  noDeno : d.denoTypes = none
  codeOnly : ∀ i ∈ d.imports, i.kind.isCode = true

theorem co_new (k : String) : CO { text := k } := ⟨rfl, rfl, fun i hi => by simp at hi⟩

theorem co_addJsx (e : Env) (he : e.includeTypes = false) (mi : ModuleInfo) (t : String) (d : Dep) (h : CO d) :
    CO (addJsx e mi t d) := by
  have hj : ∀ x, jsxTypes e mi t x = x := by
    intro x; unfold jsxTypes; simp [he]
  unfold addJsx
  simp only [hj]
  refine ⟨h.noType, h.noDeno, ?_⟩
  intro i hi
  simp only [List.mem_append, List.mem_singleton] at hi
  rcases hi with hi | rfl
  · exact h.codeOnly i hi
  · rfl

theorem co_preFill (e : Env) (he : e.includeTypes = false) (mi : ModuleInfo) :
    (∀ d ∈ (preFill e mi).deps, CO d) ∧ (preFill e mi).typesDep = none := by
  unfold preFill phaseHeader phaseJsDoc phaseSelfTypes
  simp only [he, Bool.false_eq_true, if_false, Bool.false_and]
  unfold stepJsx
  split
  · exact ⟨fun d hd => (List.not_mem_nil hd).elim, rfl⟩
  · split
    · exact ⟨fun d hd => (List.not_mem_nil hd).elim, rfl⟩
    · refine ⟨?_, rfl⟩
      exact upd_forall CO _ _ _ (fun d hd => (List.not_mem_nil hd).elim) (fun d hd _ => co_addJsx e he mi _ d hd)
        (co_addJsx e he mi _ _ (co_new _))

theorem descImports_code (e : Env) (he : e.includeTypes = false) (desc : MI.Dep) (imps : List RawImp) (ts : Option SpecR)
    (h : descImports e desc = some (imps, ts)) : ∀ i ∈ imps, i.kind.isCode = true := by
  intro i hi
  cases hc : i.kind.isCode with
  | true => rfl
  | false =>
    exfalso
    -- a type-only import is skipped in a code-only analysis
    cases desc with
    | «static» d =>
      simp only [descImports, he, Bool.not_false, if_true] at h
      split at h
      · cases h
      · cases h
      · cases h
      · simp only [Option.some.injEq, Prod.mk.injEq] at h
        obtain ⟨rfl, _⟩ := h
        simp only [List.mem_singleton] at hi
        subst hi
        simp [IKind.isCode] at hc
      · simp only [Option.some.injEq, Prod.mk.injEq] at h
        obtain ⟨rfl, _⟩ := h
        simp only [List.mem_singleton] at hi
        subst hi
        simp [IKind.isCode] at hc
    | dynamic d =>
      simp only [descImports] at h
      split at h
      · simp only [Option.some.injEq, Prod.mk.injEq] at h
        obtain ⟨rfl, _⟩ := h
        simp only [List.mem_singleton] at hi
        subst hi
        simp only at hc
        split at hc <;> simp [IKind.isCode] at hc
      · cases h

theorem co_applyImp (e : Env) (he : e.includeTypes = false) (ts : Option SpecR) (i : RawImp) (hi : i.kind.isCode = true)
    (d : Dep) (h : CO d) : CO (applyImp e ts i d) := by
  have hk : (i.kind == .tsType || i.kind == .tsAugment) = false := by
    cases hik : i.kind <;> simp_all [IKind.isCode]
  unfold applyImp pushImp stageFallback stageSide stageDenoTypes stageAttr
  simp only [he, hk, Bool.false_and, Bool.false_eq_true, if_false]
  refine ⟨?_, ?_, ?_⟩
  · repeat' split
    all_goals exact h.noType
  · repeat' split
    all_goals exact h.noDeno
  · intro j hj
    simp only [List.mem_append, List.mem_singleton] at hj
    rcases hj with hj | rfl
    · have : j ∈ d.imports := by
        revert hj
        repeat' split
        all_goals exact id
      exact h.codeOnly j this
    · exact hi

theorem co_stepDesc (e : Env) (he : e.includeTypes = false) (deps : List Dep) (desc : MI.Dep) (h : ∀ d ∈ deps, CO d) :
    ∀ d ∈ stepDesc e deps desc, CO d := by
  unfold stepDesc
  split
  · exact h
  · rename_i imps ts hdi
    have hk := descImports_code e he desc imps ts hdi
    clear hdi
    induction imps generalizing deps with
    | nil => exact h
    | cons i rest ih =>
      simp only [List.foldl_cons]
      apply ih
      · exact upd_forall CO deps i.text _ h
          (fun d hd _ => co_applyImp e he ts i (hk i (by simp)) d hd)
          (co_applyImp e he ts i (hk i (by simp)) _ (co_new _))
      · intro j hj; exact hk j (by simp [hj])

theorem co_foldl_stepDesc (e : Env) (he : e.includeTypes = false) (descs : List MI.Dep) (deps : List Dep)
    (h : ∀ d ∈ deps, CO d) : ∀ d ∈ descs.foldl (stepDesc e) deps, CO d := by
  induction descs generalizing deps with
  | nil => exact h
  | cons d rest ih =>
    simp only [List.foldl_cons]
    exact ih _ (co_stepDesc e he deps d h)

theorem co_retainDeps (e : Env) (deps : List Dep) (h : ∀ d ∈ deps, CO d) : ∀ d ∈ retainDeps e deps, CO d := by
  unfold retainDeps
  split
  · exact h
  · intro d' hd'
    obtain ⟨d, hd, hfm⟩ := List.mem_filterMap.mp hd'
    unfold retainOne at hfm
    split at hfm
    · cases hfm; exact h _ hd
    · split at hfm
      · cases hfm
      · cases hfm
        have s := h d hd
        exact ⟨s.noType, s.noDeno, fun i hi => s.codeOnly i (List.mem_filter.mp hi).1⟩

/-- **a code-only analysis has no type side**: no type resolution, no `@deno-types`, no type-only
import, no types dependency of the module -/
theorem analyse_code_only (e : Env) (he : e.includeTypes = false) (mi : ModuleInfo) :
    (∀ d ∈ (analyse e mi).deps, d.type = .none ∧ d.denoTypes = none ∧ ∀ i ∈ d.imports, i.kind.isCode = true) ∧
    (analyse e mi).typesDep = none := by
  obtain ⟨h1, h2⟩ := co_preFill e he mi
  refine ⟨?_, h2⟩
  intro d hd
  unfold analyse fill at hd
  have := co_retainDeps e _ (co_foldl_stepDesc e he mi.deps _ h1) d hd
  exact ⟨this.noType, this.noDeno, this.codeOnly⟩

end DG.Deps
