import Proofs.BuildWalk
import Proofs.BuildProgress
/-!
# Every recorded redirect keeps ending at an entry

`Grows`: builder steps that only add entries.  `RW`: every recorded redirect is the one the world
answers for its source (given that a cache-bypassing reload answers like a normal load).
`WalkInv` is kept by every step of the loop.
-/
namespace DG.Build
open DG Tables

structure Grows (f : St → St) : Prop where
  grew : ∀ st, Grew st (f st)

theorem Grows.id : Grows (fun st => st) := ⟨fun st => Grew.refl st⟩

theorem Grows.comp {f g : St → St} (hf : Grows f) (hg : Grows g) : Grows (fun st => g (f st)) :=
  ⟨fun st => (hf.grew st).trans (hg.grew (f st))⟩

theorem grows_foldl {α} (f : St → α → St) (hf : ∀ a, Grows (fun st => f st a)) (l : List α) :
    Grows (fun st => l.foldl f st) := by
  induction l with
  | nil => exact Grows.id
  | cons a l ih =>
    simp only [List.foldl_cons]
    exact Grows.comp (hf a) ih

theorem grows_of_same (f : St → St) (hs : ∀ st, (f st).slots = st.slots) (hr : ∀ st, (f st).redirects = st.redirects) :
    Grows f :=
  ⟨fun st => ⟨fun x h => by simpa [St.slot, hs] using h, hr st⟩⟩

theorem grew_setSlot (st : St) (k : Spec) (sl : BSlot) : Grew st (st.setSlot k sl) := by
  refine ⟨?_, rfl⟩
  intro x h
  rw [slot_setSlot]
  split
  · rfl
  · exact h

theorem grows_load' (w : World) (o : Opts) (count : Nat) (lof : St → LoadOpts) :
    Grows (fun st => load w o count (lof st) st) := by
  constructor
  intro st
  show Grew st (load w o count (lof st) st)
  unfold load
  simp only
  split
  · exact grew_setSlot _ _ _
  · exact Grew.refl _
  · exact (grows_of_same (fun s => addDeferred s _ (lof st))
      (by intro s; unfold addDeferred; split <;> rfl) (by intro s; unfold addDeferred; split <;> rfl)).grew st
  · split
    · exact grew_setSlot _ _ _
    · exact ⟨(grew_setSlot st _ (.pending (lof st).isAsset)).slots, rfl⟩

theorem grows_load (w : World) (o : Opts) (count : Nat) (lo : LoadOpts) : Grows (load w o count lo) :=
  grows_load' w o count (fun _ => lo)

theorem grows_visitDepCode (w : World) (o : Opts) (d : BDep) : Grows (fun st => (visitDepCode w o d st).2) := by
  constructor
  intro st
  unfold visitDepCode
  split
  · split
    · split
      · split <;> exact ⟨fun _ h => h, rfl⟩
      · exact (grows_load w o 0 _).grew st
    · exact Grew.refl _
  · exact Grew.refl _

theorem grows_visitDepType (w : World) (o : Opts) (d : BDep) : Grows (fun st => (visitDepType w o d st).2) := by
  constructor
  intro st
  unfold visitDepType
  split
  · split
    · split
      · exact ⟨fun _ h => h, rfl⟩
      · exact (grows_load w o 0 _).grew st
    · exact Grew.refl _
  · exact Grew.refl _

theorem grows_visitDeps (w : World) (o : Opts) (deps : List BDep) : Grows (fun st => (visitDeps w o deps st).2) := by
  induction deps with
  | nil => exact Grows.id
  | cons d rest ih =>
    constructor
    intro st
    rw [visitDeps]
    split
    · exact ih.grew st
    · exact ((grows_visitDepCode w o d).grew st).trans
        (((grows_visitDepType w o _).grew _).trans (ih.grew _))

theorem grows_visitModule (w : World) (o : Opts) (cls : Class) (c : Content) :
    Grows (fun st => (visitModule w o cls c st).2) := by
  have hsm : Grows (loadSourceMap w o c.parsed) := by
    constructor; intro st; unfold loadSourceMap; split
    · exact (grows_load w o 0 _).grew st
    · exact Grew.refl _
  have htd : Grows (loadTypesDep w o c.parsed) := by
    constructor; intro st; unfold loadTypesDep; split
    · exact (grows_load w o 0 _).grew st
    · exact Grew.refl _
  have hjs : Grows (fun st => (visitJsDeps w o c.parsed st).2) := by
    constructor; intro st; unfold visitJsDeps; split
    · exact (Grows.comp hsm (grows_visitDeps w o c.parsed.deps)).grew st
    · exact Grew.refl _
  constructor
  intro st
  unfold visitModule
  split
  · exact Grew.refl _
  · exact Grew.refl _
  · exact (grows_visitDeps w o _).grew st
  · simp only
    split
    · exact (Grows.comp hjs htd).grew st
    · exact hjs.grew st

/-! ## recorded redirects are the world's -/

/-- where the world sends a specifier -/
def finalOf (w : World) (s : Spec) : Spec :=
  match w.respOf s with
  | .redirect to => to
  | .module f => f
  | .external f => f
  | _ => s

def RW (w : World) (st : St) : Prop := ∀ p ∈ st.redirects, p.2 = finalOf w p.1

/-- the specifier an outcome settles -/
def Outcome.target : Outcome → Spec
  | .external spec _ => spec
  | .module f _ => f
  | .redirect to => to
  | .err e => e.spec

theorem answer_module (w : World) (s : Spec) (c : Option Nat) (b : Bool) (f : Spec)
    (h : w.answer s c b = .module f) : w.respFor s b = .module f := by
  unfold World.answer at h
  cases hr : w.respFor s b with
  | module f' =>
    simp only [hr] at h
    cases c with
    | none => simp only at h; exact h
    | some c =>
      simp only at h
      cases b <;> simp only [Bool.false_eq_true, if_false, if_true] at h <;> split at h
      · exact h
      · cases h
      · exact h
      · cases h
  | redirect to => simp only [hr] at h; cases h
  | external f' => simp only [hr] at h; cases h
  | missing => simp only [hr] at h; cases h
  | error => simp only [hr] at h; cases h
  | checksumError => simp only [hr] at h; cases h

theorem answer_other (w : World) (s : Spec) (c : Option Nat) (b : Bool) (r : Resp)
    (h : w.answer s c b = r) (hm : ∀ f, r ≠ .module f) (hc : r ≠ .checksumError) : w.respFor s b = r := by
  unfold World.answer at h
  cases hr : w.respFor s b with
  | module f' =>
    simp only [hr] at h
    cases c with
    | none => simp only at h; exact absurd h.symm (hm _)
    | some c =>
      simp only at h
      cases b <;> simp only [Bool.false_eq_true, if_false, if_true] at h <;> split at h
      · exact absurd h.symm (hm _)
      · exact absurd h.symm hc
      · exact absurd h.symm (hm _)
      · exact absurd h.symm hc
  | redirect to => simp only [hr] at h; exact h
  | external f' => simp only [hr] at h; exact h
  | missing => simp only [hr] at h; exact h
  | error => simp only [hr] at h; exact h
  | checksumError => simp only [hr] at h; exact h

theorem respFor_eq (w : World) (hre : w.reloadResp = []) (s : Spec) (b : Bool) : w.respFor s b = w.respOf s := by
  unfold World.respFor
  split
  · simp [hre]
  · rfl

theorem moduleOutcome_target (w : World) (o : Opts) (r : Req) (f : Spec) : (moduleOutcome w o r f).target = f := by
  unfold moduleOutcome
  simp only
  split <;> rfl

/-- **an outcome settles the requested specifier itself or where the world sends it** -/
theorem tryLoad_target (w : World) (hre : w.reloadResp = []) (o : Opts) (r : Req) :
    (tryLoad w o r).target = r.spec ∨ (tryLoad w o r).target = finalOf w r.spec := by
  unfold tryLoad tryLoad'
  simp only
  cases ha : w.answer r.spec r.checksum false with
  | redirect to =>
    simp only
    have hr := answer_other w r.spec r.checksum false _ ha (by intro f h; cases h) (by intro h; cases h)
    rw [respFor_eq w hre] at hr
    split
    · exact Or.inl rfl
    · split
      · exact Or.inl rfl
      · right; simp [Outcome.target, finalOf, hr]
  | missing => exact Or.inl rfl
  | error => exact Or.inl rfl
  | external f =>
    simp only
    have hr := answer_other w r.spec r.checksum false _ ha (by intro f h; cases h) (by intro h; cases h)
    rw [respFor_eq w hre] at hr
    split
    · exact Or.inl rfl
    · right; simp [Outcome.target, finalOf, hr]
  | module f =>
    simp only
    have hr := answer_module w r.spec r.checksum false f ha
    rw [respFor_eq w hre] at hr
    split
    · exact Or.inl rfl
    · right; rw [moduleOutcome_target]; simp [finalOf, hr]
  | checksumError =>
    simp only
    cases hb : w.answer r.spec r.checksum true with
    | module f =>
      simp only
      have hr := answer_module w r.spec r.checksum true f hb
      rw [respFor_eq w hre] at hr
      split
      · exact Or.inl rfl
      · right; rw [moduleOutcome_target]; simp [finalOf, hr]
    | external f =>
      simp only
      split <;> exact Or.inl rfl
    | redirect to => exact Or.inl rfl
    | missing => exact Or.inl rfl
    | error => exact Or.inl rfl
    | checksumError => exact Or.inl rfl

theorem rw_checkSpecifier (w : World) (st : St) (req tgt : Spec) (h : RW w st)
    (ht : tgt = req ∨ tgt = finalOf w req) : RW w (checkSpecifier st req tgt) := by
  intro p hp
  rcases mem_redirects_checkSpecifier st req tgt p hp with h1 | h1
  · exact h p h1
  · subst h1
    rcases ht with ht | ht
    · -- req = tgt: nothing was recorded
      subst ht
      rw [checkSpecifier_eq] at hp
      exact h _ hp
    · exact ht

/-- after `check_specifier` the requested specifier is the settled one, or redirects to it -/
theorem lookup_checkSpecifier (w : World) (st : St) (req tgt : Spec) (h : RW w st) (hne : req ≠ tgt)
    (ht : tgt = finalOf w req) : (checkSpecifier st req tgt).redirects.lookup req = some tgt := by
  have hrw := rw_checkSpecifier w st req tgt h (Or.inr ht)
  have hacc : Acc (checkSpecifier st req tgt) req := by
    unfold checkSpecifier
    have : (req == tgt) = false := by simpa using hne
    simp only [this, Bool.false_eq_true, if_false]
    exact acc_recordRedirect _ _ _ _ (Or.inr rfl)
  have hslot : (checkSpecifier st req tgt).slot req = none ∨ True := Or.inr trivial
  -- the requested specifier has a recorded redirect
  have hsome : ((checkSpecifier st req tgt).redirects.lookup req).isSome = true := by
    unfold checkSpecifier
    have : (req == tgt) = false := by simpa using hne
    simp only [this, Bool.false_eq_true, if_false]
    unfold recordRedirect
    split
    · rename_i hany
      have : (dropPending st req).redirects = st.redirects := by unfold dropPending; split <;> rfl
      exact lookup_isSome_of_any _ _ hany
    · exact lookup_append_isSome _ _ _ _ (Or.inr rfl)
  obtain ⟨y, hy⟩ := Option.isSome_iff_exists.mp hsome
  have := hrw (req, y) (lookup_mem _ _ _ hy)
  simp only at this
  rw [hy, this, ht]

end DG.Build

namespace DG.Build
open DG Tables

/-- the specifier a load's walk stops at has an entry afterwards -/
theorem load_endpoint_slot (w : World) (o : Opts) (count : Nat) (lo : LoadOpts) (st : St) :
    ((load w o count lo st).slot (st.resolveForLoad lo.spec)).isSome = true := by
  unfold load
  simp only
  rcases hd : loadDecision w o lo st (st.resolveForLoad lo.spec) with e | _ | _ | _
  · simp only; rw [slot_setSlot]; simp
  · exact loadDecision_skip_slot w o lo st _ (Or.inl hd)
  · have h := loadDecision_skip_slot w o lo st _ (Or.inr hd)
    have : (addDeferred st (st.resolveForLoad lo.spec) lo).slots = st.slots := by unfold addDeferred; split <;> rfl
    simpa [St.slot, this] using h
  · simp only
    split
    · rw [slot_setSlot]; simp
    · show ((st.setSlot _ (.pending lo.isAsset)).slot _).isSome = true
      rw [slot_setSlot]; simp

theorem lookup_append_of_some {α} (l : List (Spec × α)) (k x : Spec) (v y : α) (h : l.lookup x = some y) :
    (l ++ [(k, v)]).lookup x = some y := by
  induction l with
  | nil => simp [List.lookup] at h
  | cons a l ih =>
    obtain ⟨k', v'⟩ := a
    simp only [List.cons_append, List.lookup] at h ⊢
    by_cases hk : (x == k') = true
    · simp only [hk] at h ⊢; exact h
    · have hk' : (x == k') = false := by simpa using hk
      simp only [hk'] at h ⊢
      exact ih h

/-- lookups that exist survive `check_specifier` -/
theorem lookup_checkSpecifier_of_some (st : St) (req tgt x y : Spec) (h : st.redirects.lookup x = some y) :
    (checkSpecifier st req tgt).redirects.lookup x = some y := by
  unfold checkSpecifier
  split
  · exact h
  · have hd : (dropPending st req).redirects = st.redirects := by unfold dropPending; split <;> rfl
    unfold recordRedirect
    split
    · rw [hd]; exact h
    · show ((dropPending st req).redirects ++ [(req, tgt)]).lookup x = some y
      rw [hd]; exact lookup_append_of_some _ _ _ _ _ h

/-- entries other than the requested one survive `check_specifier` -/
theorem slot_checkSpecifier_of_ne (st : St) (req tgt x : Spec) (hne : x ≠ req) :
    (checkSpecifier st req tgt).slot x = st.slot x := by
  unfold checkSpecifier
  split
  · rfl
  · show (recordRedirect (dropPending st req) req tgt).slot x = st.slot x
    have : (recordRedirect (dropPending st req) req tgt).slot x = (dropPending st req).slot x := by
      simp [St.slot, slots_recordRedirect]
    rw [this]
    unfold dropPending
    split
    · show (erase st.slots req).lookup x = st.slots.lookup x
      rw [lookup_erase]; simp [hne]
    · rfl

/-- **settling the target of a request re-establishes the invariant** (`f'`: a specifier walks may
stop at in the new state) -/
theorem walkInvX_after_settle (f' : Option Spec) (w : World) (st st2 : St) (q t : Spec) (hw : WalkInv st) (hrw : RW w st)
    (ht : t = q ∨ t = finalOf w q) (hg : Grew (checkSpecifier st q t) st2) (hends : EndsX f' st2 t) :
    WalkInvX f' st2 := by
  have weaken : ∀ s x, Ends s x → EndsX f' s x := by
    intro s x hx
    induction hx with
    | here hs => exact EndsX.here hs
    | stop hf _ _ => cases hf
    | step hs hl _ ih => exact EndsX.step hs hl ih
  by_cases hqt : q = t
  · subst hqt
    rw [checkSpecifier_eq] at hg
    intro p hp
    rw [hg.redirects] at hp
    exact (weaken _ _ (hw p hp)).grew hg
  · have htf : t = finalOf w q := by
      rcases ht with h | h
      · exact absurd h.symm hqt
      · exact h
    have hlq := lookup_checkSpecifier w st q t hrw hqt htf
    -- the requested specifier itself ends: it has an entry again, or redirects to the settled target
    have hq : EndsX f' st2 q := by
      cases hs : st2.slot q with
      | some v => exact EndsX.here (by rw [hs]; rfl)
      | none => exact EndsX.step hs (by rw [hg.redirects]; exact hlq) hends
    have transfer : ∀ x, Ends st x → EndsX f' st2 x := by
      intro x hx
      induction hx with
      | @here x hs =>
        by_cases hxq : x = q
        · subst hxq; exact hq
        · apply EndsX.here
          apply hg.slots
          rw [slot_checkSpecifier_of_ne st q t x hxq]
          exact hs
      | stop hf _ _ => cases hf
      | @step x y hs hl _ ih =>
        cases hx : st2.slot x with
        | some v => exact EndsX.here (by rw [hx]; rfl)
        | none =>
          exact EndsX.step hx (by rw [hg.redirects]; exact lookup_checkSpecifier_of_some st q t x y hl) ih
    intro p hp
    rw [hg.redirects] at hp
    rcases mem_redirects_checkSpecifier st q t p hp with h1 | h1
    · exact transfer _ (hw p h1)
    · subst h1; exact hends

theorem walkInv_after_settle (w : World) (st st2 : St) (q t : Spec) (hw : WalkInv st) (hrw : RW w st)
    (ht : t = q ∨ t = finalOf w q) (hg : Grew (checkSpecifier st q t) st2) (hends : Ends st2 t) : WalkInv st2 :=
  walkInvX_after_settle none w st st2 q t hw hrw ht hg hends

theorem grew_markRoot (st : St) (b : Bool) (s : Spec) : Grew st (markRoot st b s) :=
  (grows_of_same (fun s' => markRoot s' b s)
    (by intro s'; unfold markRoot St.addResolvedRoot; split <;> (try split) <;> rfl)
    (by intro s'; unfold markRoot St.addResolvedRoot; split <;> (try split) <;> rfl)).grew st

theorem grew_recordChecksum (w : World) (cls : Class) (f : Spec) (h : Option Nat) (st : St) :
    Grew st (recordChecksum w cls f h st) :=
  (grows_of_same (recordChecksum w cls f h)
    (by intro s'; unfold recordChecksum; split <;> rfl)
    (by intro s'; unfold recordChecksum; split <;> rfl)).grew st

/-- the two invariants about recorded redirects -/
structure WR (w : World) (st : St) : Prop where
  walk : WalkInv st
  rw : RW w st

theorem wr_grew {w : World} {st st' : St} (hg : Grew st st') (h : WR w st) : WR w st' :=
  ⟨h.walk.grew hg, fun p hp => h.rw p (by rw [← hg.redirects]; exact hp)⟩

/-- **the outcome of a request keeps both invariants** -/
theorem wr_applyOutcome (w : World) (o : Opts) (r : Req) (st : St) (out : Outcome) (h : WR w st)
    (ht : out.target = r.spec ∨ out.target = finalOf w r.spec) : WR w (applyOutcome w o r st out) := by
  have hrw1 : RW w (checkSpecifier st r.spec out.target) := rw_checkSpecifier w st r.spec out.target h.rw ht
  cases out with
  | err e =>
    simp only [applyOutcome, Outcome.target] at *
    have hg := grew_setSlot (checkSpecifier st r.spec e.spec) e.spec (.err e)
    refine ⟨walkInv_after_settle w st _ r.spec e.spec h.walk h.rw ht hg (Ends.here (by rw [slot_setSlot]; simp)), ?_⟩
    intro p hp; exact hrw1 p hp
  | external spec isAsset =>
    simp only [applyOutcome, Outcome.target] at *
    have hg2 := grew_markRoot (checkSpecifier st r.spec spec) r.isRoot spec
    have hrw2 : RW w (markRoot (checkSpecifier st r.spec spec) r.isRoot spec) := fun p hp =>
      hrw1 p (by rw [← hg2.redirects]; exact hp)
    generalize markRoot (checkSpecifier st r.spec spec) r.isRoot spec = st2 at hg2 hrw2
    have hset : WR w (st2.setSlot spec (.module (.external isAsset))) :=
      ⟨walkInv_after_settle w st _ r.spec spec h.walk h.rw ht (hg2.trans (grew_setSlot _ _ _))
        (Ends.here (by rw [slot_setSlot]; simp)), fun p hp => hrw2 p hp⟩
    rcases hsl : st2.slot spec with _ | sl
    · simp only; exact hset
    · cases sl with
      | pending b => simp only; exact hset
      | module m =>
        simp only
        exact ⟨walkInv_after_settle w st _ r.spec spec h.walk h.rw ht hg2 (Ends.here (by rw [hsl]; rfl)), hrw2⟩
      | err e =>
        simp only
        exact ⟨walkInv_after_settle w st _ r.spec spec h.walk h.rw ht hg2 (Ends.here (by rw [hsl]; rfl)), hrw2⟩
  | redirect to =>
    simp only [applyOutcome, Outcome.target] at *
    have hg := (grows_load w o (r.count + 1)
      { spec := to, range := r.range, spRef := r.spRef, isAsset := r.isAsset, inDyn := r.inDyn,
        isRoot := r.isRoot, attr := r.attr }).grew (checkSpecifier st r.spec to)
    refine ⟨walkInv_after_settle w st _ r.spec to h.walk h.rw ht hg ?_, ?_⟩
    · exact ends_after_settle' _ _ hg to (load_endpoint_slot w o _ _ _)
    · intro p hp
      rw [hg.redirects] at hp
      exact hrw1 p hp
  | module f cls =>
    simp only [applyOutcome, Outcome.target] at *
    have hg1 := (grew_markRoot (checkSpecifier st r.spec f) r.isRoot f).trans
      (grew_recordChecksum w cls f (if (tryLoad' w o r).2 then w.hashReload.lookup r.spec else w.hashUse.lookup r.spec) _)
    generalize recordChecksum w cls f _ (markRoot (checkSpecifier st r.spec f) r.isRoot f) = st2 at hg1
    have hg2 := hg1.trans ((grows_visitModule w o cls (w.contentOf r.spec)).grew st2)
    have hg3 := hg2.trans (grew_setSlot (visitModule w o cls (w.contentOf r.spec) st2).2 f (visitModule w o cls (w.contentOf r.spec) st2).1)
    refine ⟨walkInv_after_settle w st _ r.spec f h.walk h.rw ht hg3 (Ends.here (by rw [slot_setSlot]; simp)), ?_⟩
    intro p hp
    rw [hg3.redirects] at hp
    exact hrw1 p hp

theorem wr_stepPending (w : World) (hre : w.reloadResp = []) (o : Opts) (r : Req) (st : St) (h : WR w st) :
    WR w (stepPending w o r st) := by
  unfold stepPending
  have hl : Grew st (logRequest w o r st) :=
    (grows_of_same (logRequest w o r)
      (by intro s; unfold logRequest; simp only; split <;> rfl)
      (by intro s; unfold logRequest; simp only; split <;> rfl)).grew st
  exact wr_applyOutcome w o r _ _ (wr_grew hl h) (tryLoad_target w hre o r)

theorem grew_drain (w : World) (o : Opts) (st : St) : Grew st (drain w o st) := by
  unfold drain
  split
  · exact Grew.refl _
  · split
    · exact Grew.trans (b := { st with deferred := [] }) ⟨fun _ h => h, rfl⟩
        ((grows_foldl _ (fun p => grows_load' w o 0 _) st.deferred).grew _)
    · split
      · exact Grew.trans (b := { st with inDyn := true, dyn := [] }) ⟨fun _ h => h, rfl⟩
          ((grows_foldl _ (fun p => grows_load' w o 0 _) st.dyn).grew _)
      · exact Grew.refl _

/-- **both invariants hold along the loop** -/
theorem wr_iter (w : World) (hre : w.reloadResp = []) (o : Opts) (st : St) (h : WR w st) : WR w (iter w o st) := by
  unfold iter
  apply wr_grew (grew_drain w o _)
  rcases hp : st.pending with _ | ⟨r, rest⟩
  · exact h
  · exact wr_stepPending w hre o r _ (wr_grew (st := st) (st' := { st with pending := rest }) ⟨fun _ hx => hx, rfl⟩ h)

end DG.Build
