import DG.Resolve
/-! Lemmas about `resolveLoop` against the chain relation `HopsTo`. -/
namespace DG

/-- `HopsTo redir k s e`: following redirect entries from `s` takes exactly `k` hops and
ends at `e`, which has no redirect entry. -/
inductive HopsTo (redir : Spec → Option Spec) : Nat → Spec → Spec → Prop where
  | done {s} : redir s = none → HopsTo redir 0 s s
  | hop {k s t e} : redir s = some t → HopsTo redir k t e → HopsTo redir (k + 1) s e

theorem HopsTo.det {redir : Spec → Option Spec} {k k' s e e'}
    (h : HopsTo redir k s e) (h' : HopsTo redir k' s e') : k = k' ∧ e = e' := by
  induction h generalizing k' e' with
  | done hn =>
    cases h' with
    | done _ => exact ⟨rfl, rfl⟩
    | hop hs _ => simp [hn] at hs
  | hop hs _ ih =>
    cases h' with
    | done hn => simp [hn] at hs
    | hop hs' ht' =>
      rw [hs] at hs'
      cases hs'
      obtain ⟨h1, h2⟩ := ih ht'
      exact ⟨by omega, h2⟩

theorem HopsTo.end_no_redirect {redir : Spec → Option Spec} {k s e}
    (h : HopsTo redir k s e) : redir e = none := by
  induction h with
  | done hn => exact hn
  | hop _ _ ih => exact ih

/-- The loop reaches the end of a terminating chain when the cap (if any) allows it.
Invariant: everything in `seen` is strictly farther from the end than `cur`. -/
theorem resolveLoop_chain (redir : Spec → Option Spec) (cap : Option Nat) :
    ∀ (k fuel : Nat) (seen : List Spec) (cur e : Spec),
      HopsTo redir k cur e →
      (∀ x ∈ seen, x = cur ∨ ∃ j, k < j ∧ HopsTo redir j x e) →
      k ≤ fuel →
      (∀ max, cap = some max → seen.length + k ≤ max) →
      resolveLoop redir cap fuel seen cur = e := by
  intro k
  induction k with
  | zero =>
    intro fuel seen cur e h _ _ _
    cases h with
    | done hn =>
      cases fuel with
      | zero => rfl
      | succ f => simp [resolveLoop, hn]
  | succ k ih =>
    intro fuel seen cur e h hseen hfuel hcap
    cases h with
    | hop hs ht =>
      rename_i t
      cases fuel with
      | zero => omega
      | succ f =>
        have hnot : t ∉ seen := by
          intro hmem
          rcases hseen t hmem with heq | ⟨j, hj, hjx⟩
          · -- t = cur : then cur has k hops and k+1 hops
            subst heq
            have := HopsTo.det ht (HopsTo.hop hs ht)
            omega
          · have := HopsTo.det ht hjx
            omega
        have hseen' : ∀ x ∈ t :: seen, x = t ∨ ∃ j, k < j ∧ HopsTo redir j x e := by
          intro x hx
          rcases List.mem_cons.mp hx with rfl | hx
          · exact Or.inl rfl
          · rcases hseen x hx with rfl | ⟨j, hj, hjx⟩
            · exact Or.inr ⟨k + 1, by omega, HopsTo.hop hs ht⟩
            · exact Or.inr ⟨j, by omega, hjx⟩
        cases cap with
        | none =>
          simp only [resolveLoop, hs, hnot, if_false]
          exact ih f (t :: seen) t e ht hseen' (by omega) (by intro _ h; cases h)
        | some max =>
          have hlen := hcap max rfl
          simp only [resolveLoop, hs, hnot, if_false]
          by_cases hge : (t :: seen).length ≥ max
          · -- the cap fires exactly when the end is reached
            simp only [hge, if_true]
            have hk : k = 0 := by simp only [List.length_cons] at hge; omega
            subst hk
            cases ht with
            | done _ => rfl
          · simp only [hge, if_false]
            exact ih f (t :: seen) t e ht hseen' (by omega)
              (by intro m hm; cases hm; simp only [List.length_cons]; omega)

/-- `resolve` returns the end of a terminating chain of `k` hops when the cap allows `k`. -/
theorem resolveWith_chain (redir : Spec → Option Spec) (cap : Option Nat) (fuel k : Nat)
    (s e : Spec) (h : HopsTo redir k s e) (hfuel : k ≤ fuel + 1)
    (hcap : ∀ max, cap = some max → k + 1 ≤ max) :
    resolveWith redir cap fuel s = e := by
  cases h with
  | done hn => simp [resolveWith, hn]
  | hop hs ht =>
    rename_i k t
    have hne : t ≠ s := by
      intro heq
      subst heq
      have := HopsTo.det ht (HopsTo.hop hs ht)
      omega
    have hins : setInsert [s] t = [t, s] := by
      simp [setInsert, hne]
    simp only [resolveWith, hs, hins]
    apply resolveLoop_chain redir cap k fuel [t, s] t e ht
    · intro x hx
      simp only [List.mem_cons, List.not_mem_nil, or_false] at hx
      rcases hx with rfl | rfl
      · exact Or.inl rfl
      · exact Or.inr ⟨k + 1, by omega, HopsTo.hop hs ht⟩
    · omega
    · intro m hm
      have := hcap m hm
      simp only [List.length_cons, List.length_nil]
      omega

end DG
