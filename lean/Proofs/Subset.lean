import DG.Subset
/-!
# Merging requests never loses one

`extend` / `add` return the merged request and the difference.  Three facts make the tracer
complete: the merged request covers both operands (`keeps`); whatever the new request covers was
covered before or is covered by the difference, the only part that is traced (`diff`); and the
merged request claims nothing beyond what was covered before and the difference (`sound`) — so a
later request is never answered "already handled" for something that was not traced.
-/
namespace DG.Subset

@[simp] theorem Sub.covers_nilPath (s : Sub) : s.covers [] = false := by
  cases s <;> simp [Sub.covers]

theorem Sub.covers_isEmpty (s : Sub) (p : List String) (h : s.covers p = true) : s.isEmpty = false := by
  cases s with
  | nil => simp [Sub.covers] at h
  | cons => rfl

/-- an entry found by the lookup covers through the map -/
theorem Sub.get_covers : ∀ (s : Sub) (k : String) (e : Ex) (xs : List String),
    s.get? k = some e → e.covers xs = true → s.covers (k :: xs) = true
  | .nil, _, _, _, hg, _ => by simp [Sub.get?] at hg
  | .cons k' v rest, k, e, xs, hg, hc => by
    simp only [Sub.get?] at hg
    simp only [Sub.covers]
    by_cases h : k = k'
    · subst h
      simp only [if_true, Option.some.injEq] at hg
      subst hg
      simp [hc]
    · simp only [h, if_false] at hg
      simp [Sub.get_covers rest k e xs hg hc]

/-- a name the lookup does not find is not covered -/
theorem Sub.covers_get_none : ∀ (s : Sub) (k : String) (xs : List String),
    s.get? k = none → s.covers (k :: xs) = false
  | .nil, _, _, _ => by simp [Sub.covers]
  | .cons k' v rest, k, xs, hg => by
    simp only [Sub.get?] at hg
    simp only [Sub.covers]
    by_cases h : k = k'
    · simp [h] at hg
    · simp only [h, if_false] at hg
      have : (k == k') = false := by simpa using h
      simp [this, Sub.covers_get_none rest k xs hg]

/-- the value just set covers through the map -/
theorem Sub.set_new : ∀ (s : Sub) (k : String) (e : Ex) (xs : List String), e.covers xs = true →
    (s.set k e).covers (k :: xs) = true
  | .nil, k, e, xs, hc => by simp [Sub.set, Sub.covers, hc]
  | .cons k' v rest, k, e, xs, hc => by
    simp only [Sub.set]
    by_cases h : k = k'
    · subst h; simp [Sub.covers, hc]
    · simp only [h, if_false, Sub.covers]
      simp [Sub.set_new rest k e xs hc]

/-- setting a value that covers at least what the value found before covered keeps everything -/
theorem Sub.set_mono : ∀ (s : Sub) (k : String) (e : Ex) (p : List String),
    (∀ old, s.get? k = some old → ∀ q, old.covers q = true → e.covers q = true) →
    s.covers p = true → (s.set k e).covers p = true
  | .nil, _, _, _, _, hc => by simp [Sub.covers] at hc
  | .cons k' v rest, k, e, p, hm, hc => by
    cases p with
    | nil => simp at hc
    | cons x xs =>
      simp only [Sub.set]
      by_cases h : k = k'
      · subst h
        simp only [if_true, Sub.covers] at hc ⊢
        rcases Bool.or_eq_true _ _ |>.mp hc with h1 | h1
        · have h1' := Bool.and_eq_true _ _ |>.mp h1
          have := hm v (by simp [Sub.get?]) xs h1'.2
          simp [h1'.1, this]
        · simp [h1]
      · simp only [h, if_false, Sub.covers] at hc ⊢
        rcases Bool.or_eq_true _ _ |>.mp hc with h1 | h1
        · simp [h1]
        · have := Sub.set_mono rest k e (x :: xs) (fun old ho => hm old (by simp [Sub.get?, h, ho])) h1
          simp [this]

/-- what a map covers after a value was set: what it covered before, or the new value -/
theorem Sub.set_inv : ∀ (s : Sub) (k : String) (e : Ex) (x : String) (xs : List String),
    (s.set k e).covers (x :: xs) = true →
    s.covers (x :: xs) = true ∨ (x = k ∧ e.covers xs = true)
  | .nil, k, e, x, xs, hc => by
    simp only [Sub.set, Sub.covers, Bool.or_false, Bool.and_eq_true, beq_iff_eq] at hc
    exact Or.inr hc
  | .cons k' v rest, k, e, x, xs, hc => by
    simp only [Sub.set] at hc
    by_cases h : k = k'
    · subst h
      simp only [if_true, Sub.covers] at hc ⊢
      rcases Bool.or_eq_true _ _ |>.mp hc with h1 | h1
      · have h1' := Bool.and_eq_true _ _ |>.mp h1
        exact Or.inr ⟨by simpa using h1'.1, h1'.2⟩
      · left; simp [h1]
    · simp only [h, if_false, Sub.covers] at hc ⊢
      rcases Bool.or_eq_true _ _ |>.mp hc with h1 | h1
      · left; simp [h1]
      · rcases Sub.set_inv rest k e x xs h1 with h2 | h2
        · left; simp [h2]
        · exact Or.inr h2

/-! ## `extend`: keeps, diff, sound -/

mutual
theorem Ex.extend_keeps : ∀ (a b : Ex) (p : List String),
    (a.covers p = true ∨ b.covers p = true) → (Ex.extend a b).1.covers p = true
  | .all, _, p, _ => by simp [Ex.extend, Ex.covers]
  | .sub _, .all, p, _ => by simp [Ex.extend, Ex.covers]
  | .sub cur, .sub new, p, h => by
    simp only [Ex.extend, Ex.covers] at h ⊢
    exact Sub.extend_keeps cur new p h
theorem Sub.extend_keeps : ∀ (a b : Sub) (p : List String),
    (a.covers p = true ∨ b.covers p = true) → (Sub.extend a b).1.covers p = true
  | a, .nil, p, h => by
    simp only [Sub.extend]
    rcases h with h | h
    · exact h
    · simp [Sub.covers] at h
  | a, .cons k v rest, p, h => by
    cases p with
    | nil => rcases h with h | h <;> simp at h
    | cons x xs =>
      simp only [Sub.extend]
      cases hg : a.get? k with
      | some entry =>
        simp only []
        apply Sub.extend_keeps (a.set k (Ex.extend entry v).1) rest (x :: xs)
        rcases h with h | h
        · left
          apply Sub.set_mono _ _ _ _ _ h
          intro old ho q hq
          rw [hg] at ho; cases ho
          exact Ex.extend_keeps entry v q (Or.inl hq)
        · simp only [Sub.covers] at h
          rcases Bool.or_eq_true _ _ |>.mp h with h1 | h1
          · have h1' := Bool.and_eq_true _ _ |>.mp h1
            have hx : x = k := by simpa using h1'.1
            subst hx
            left
            exact Sub.set_new _ _ _ _ (Ex.extend_keeps entry v xs (Or.inr h1'.2))
          · right; exact h1
      | none =>
        simp only []
        apply Sub.extend_keeps (a.set k v) rest (x :: xs)
        rcases h with h | h
        · left
          apply Sub.set_mono _ _ _ _ _ h
          intro old ho
          rw [hg] at ho; cases ho
        · simp only [Sub.covers] at h
          rcases Bool.or_eq_true _ _ |>.mp h with h1 | h1
          · have h1' := Bool.and_eq_true _ _ |>.mp h1
            have hx : x = k := by simpa using h1'.1
            subst hx
            left
            exact Sub.set_new _ _ _ _ h1'.2
          · right; exact h1
end

mutual
theorem Ex.extend_sound : ∀ (a b : Ex) (p : List String), (Ex.extend a b).1.covers p = true →
    a.covers p = true ∨ ∃ d, (Ex.extend a b).2 = some d ∧ d.covers p = true
  | .all, _, p, _ => by left; simp [Ex.covers]
  | .sub _, .all, p, _ => by right; exact ⟨.all, by simp [Ex.extend], by simp [Ex.covers]⟩
  | .sub cur, .sub new, p, h => by
    simp only [Ex.extend, Ex.covers] at h
    rcases Sub.extend_sound cur new p h with h1 | h1
    · left; simpa [Ex.covers] using h1
    · right
      refine ⟨.sub (Sub.extend cur new).2, ?_, by simpa [Ex.covers] using h1⟩
      simp [Ex.extend, Sub.covers_isEmpty _ _ h1]
theorem Sub.extend_sound : ∀ (a b : Sub) (p : List String), (Sub.extend a b).1.covers p = true →
    a.covers p = true ∨ (Sub.extend a b).2.covers p = true
  | a, .nil, p, h => by left; simpa [Sub.extend] using h
  | a, .cons k v rest, p, h => by
    cases p with
    | nil => simp at h
    | cons x xs =>
      simp only [Sub.extend] at h ⊢
      cases hg : a.get? k with
      | some entry =>
        simp only [hg] at h ⊢
        rcases Sub.extend_sound (a.set k (Ex.extend entry v).1) rest (x :: xs) h with h1 | h1
        · rcases Sub.set_inv _ _ _ _ _ h1 with h2 | ⟨hx, h2⟩
          · left; exact h2
          · subst hx
            rcases Ex.extend_sound entry v xs h2 with h3 | ⟨d, hd, hc⟩
            · left; exact Sub.get_covers _ _ _ _ hg h3
            · right; simp [hd, Sub.covers, hc]
        · right
          cases he : (Ex.extend entry v).2 with
          | some d => simp [Sub.covers, h1]
          | none => simpa using h1
      | none =>
        simp only [hg] at h ⊢
        rcases Sub.extend_sound (a.set k v) rest (x :: xs) h with h1 | h1
        · rcases Sub.set_inv _ _ _ _ _ h1 with h2 | ⟨hx, h2⟩
          · left; exact h2
          · subst hx; right; simp [Sub.covers, h2]
        · right; simp [Sub.covers, h1]
end

/-- what the new request covers was covered before or is in the difference -/
theorem Sub.extend_diff (a b : Sub) (p : List String) (h : b.covers p = true) :
    a.covers p = true ∨ (Sub.extend a b).2.covers p = true :=
  Sub.extend_sound a b p (Sub.extend_keeps a b p (Or.inr h))

theorem Ex.extend_diff (a b : Ex) (p : List String) (h : b.covers p = true) :
    a.covers p = true ∨ ∃ d, (Ex.extend a b).2 = some d ∧ d.covers p = true :=
  Ex.extend_sound a b p (Ex.extend_keeps a b p (Or.inr h))

/-! ## `ImportedExports::add` -/

theorem onlyDefault_covers (xs : List String) : onlyDefault.covers ("default" :: xs) = true := by
  simp [onlyDefault, Sub.add, Sub.set, Sub.covers, Ex.covers]

theorem Sub.covers_contains (s : Sub) (x : String) (xs : List String) (h : s.covers (x :: xs) = true) :
    s.contains x = true := by
  unfold Sub.contains
  cases hg : s.get? x with
  | none => rw [Sub.covers_get_none s x xs hg] at h; cases h
  | some e => rfl

theorem Sub.covers_default_get (s : Sub) (xs : List String) (h : s.covers ("default" :: xs) = true) :
    ∃ e, s.get? "default" = some e := by
  have := Sub.covers_contains s "default" xs h
  unfold Sub.contains at this
  cases hg : s.get? "default" with
  | none => rw [hg] at this; cases this
  | some e => exact ⟨e, rfl⟩

@[simp] theorem Imp.covers_nilPath (i : Imp) : i.covers [] = false := by
  cases i <;> simp [Imp.covers]

/-- the merged request covers both operands -/
theorem Imp.add_keeps (a b : Imp) (p : List String)
    (h : a.covers p = true ∨ b.covers p = true) : (Imp.add a b).1.covers p = true := by
  cases p with
  | nil =>
    rcases h with h | h
    · cases a <;> simp [Imp.covers] at h
    · cases b <;> simp [Imp.covers] at h
  | cons x xs =>
    cases a with
    | starDefault => simp [Imp.add, Imp.covers]
    | star =>
      cases b with
      | star => simpa [Imp.add, Imp.covers] using h
      | starDefault => simp [Imp.add, Imp.covers]
      | subset n =>
        simp only [Imp.add]
        by_cases hc : n.contains "default" = true
        · simp [hc, Imp.covers]
        · simp only [hc, Bool.false_eq_true, if_false]
          rcases h with h | h
          · exact h
          · simp only [Imp.covers] at h ⊢
            have := Sub.covers_contains n x xs h
            by_cases hx : x = "default"
            · subst hx; exact absurd this hc
            · simpa using hx
    | subset cur =>
      cases b with
      | starDefault => simp [Imp.add, Imp.covers]
      | star =>
        simp only [Imp.add]
        cases hg : cur.get? "default" with
        | some e => cases e <;> simp [Imp.covers]
        | none =>
          simp only []
          rcases h with h | h
          · simp only [Imp.covers] at h ⊢
            by_cases hx : x = "default"
            · subst hx
              rw [Sub.covers_get_none cur "default" xs hg] at h; cases h
            · simpa using hx
          · exact h
      | subset n =>
        simp only [Imp.add, Imp.covers] at h ⊢
        exact Sub.extend_keeps cur n (x :: xs) h

/-- the merged request claims nothing beyond what was covered before and the difference -/
theorem Imp.add_sound (a b : Imp) (p : List String) (h : (Imp.add a b).1.covers p = true) :
    a.covers p = true ∨ ∃ d, (Imp.add a b).2 = some d ∧ d.covers p = true := by
  cases p with
  | nil => rw [Imp.covers_nilPath] at h; cases h
  | cons x xs =>
    cases a with
    | starDefault => left; simp [Imp.covers]
    | star =>
      by_cases hx : x = "default"
      · subst hx
        cases b with
        | star => simp [Imp.add, Imp.covers] at h
        | starDefault =>
          right; exact ⟨.subset onlyDefault, by simp [Imp.add], by simpa [Imp.covers] using onlyDefault_covers xs⟩
        | subset n =>
          simp only [Imp.add] at h ⊢
          by_cases hc : n.contains "default" = true
          · right
            exact ⟨.subset onlyDefault, by simp [hc], by simpa [Imp.covers] using onlyDefault_covers xs⟩
          · simp [hc, Imp.covers] at h
      · left; simpa [Imp.covers] using hx
    | subset cur =>
      cases b with
      | starDefault => right; exact ⟨.starDefault, by simp [Imp.add], by simp [Imp.covers]⟩
      | star =>
        simp only [Imp.add] at h ⊢
        cases hg : cur.get? "default" with
        | none =>
          simp only [hg] at h
          right; exact ⟨.star, rfl, h⟩
        | some e =>
          cases e with
          | sub m => right; exact ⟨.starDefault, rfl, by simp [Imp.covers]⟩
          | all =>
            by_cases hx : x = "default"
            · subst hx
              left
              simpa [Imp.covers] using Sub.get_covers cur "default" .all xs hg (by simp [Ex.covers])
            · right; exact ⟨.star, rfl, by simpa [Imp.covers] using hx⟩
      | subset n =>
        simp only [Imp.add, Imp.covers] at h
        rcases Sub.extend_sound cur n (x :: xs) h with h1 | h1
        · left; simpa [Imp.covers] using h1
        · right; exact ⟨.subset (Sub.extend cur n).2, by simp [Imp.add], by simpa [Imp.covers] using h1⟩

/-- what the new request covers was covered before or is in the difference -/
theorem Imp.add_diff (a b : Imp) (p : List String) (h : b.covers p = true) :
    a.covers p = true ∨ ∃ d, (Imp.add a b).2 = some d ∧ d.covers p = true :=
  Imp.add_sound a b p (Imp.add_keeps a b p (Or.inr h))

/-! ## over a whole history of requests for one module -/

/-- `HandledExports`: the requests seen so far and the differences handed on for tracing -/
def handledRun : Option Imp → List Imp → Option Imp × List Imp
  | h, [] => (h, [])
  | h, t :: ts =>
    let r := handledAdd h t
    let rest := handledRun r.1 ts
    (rest.1, (match r.2 with | some d => [d] | none => []) ++ rest.2)

def optCovers : Option Imp → List String → Bool
  | none, _ => false
  | some i, p => i.covers p

theorem handledAdd_keeps (h : Option Imp) (t : Imp) (p : List String)
    (hc : optCovers h p = true ∨ t.covers p = true) : optCovers (handledAdd h t).1 p = true := by
  cases h with
  | none =>
    rcases hc with hc | hc
    · simp [optCovers] at hc
    · simpa [handledAdd, optCovers] using hc
  | some cur => simpa [handledAdd, optCovers] using Imp.add_keeps cur t p (by simpa [optCovers] using hc)

theorem handledAdd_sound (h : Option Imp) (t : Imp) (p : List String)
    (hc : optCovers (handledAdd h t).1 p = true) :
    optCovers h p = true ∨ ∃ d, (handledAdd h t).2 = some d ∧ d.covers p = true := by
  cases h with
  | none => right; exact ⟨t, by simp [handledAdd], by simpa [handledAdd, optCovers] using hc⟩
  | some cur => simpa [handledAdd, optCovers] using Imp.add_sound cur t p (by simpa [handledAdd, optCovers] using hc)

/-- what the record claims after a history of requests was claimed at the start or handed on -/
theorem handledRun_sound : ∀ (ts : List Imp) (h : Option Imp) (p : List String),
    optCovers (handledRun h ts).1 p = true →
    optCovers h p = true ∨ ∃ d ∈ (handledRun h ts).2, d.covers p = true
  | [], h, p, hc => by left; simpa [handledRun] using hc
  | t0 :: ts, h, p, hc => by
    simp only [handledRun] at hc ⊢
    rcases handledRun_sound ts (handledAdd h t0).1 p hc with h1 | ⟨d, hd, hdc⟩
    · rcases handledAdd_sound h t0 p h1 with h2 | ⟨d, hd, hdc⟩
      · left; exact h2
      · right; exact ⟨d, by simp [hd], hdc⟩
    · right; exact ⟨d, by simp only [List.mem_append]; exact Or.inr hd, hdc⟩

theorem handledRun_keeps : ∀ (ts : List Imp) (h : Option Imp) (p : List String),
    (optCovers h p = true ∨ ∃ t ∈ ts, t.covers p = true) → optCovers (handledRun h ts).1 p = true
  | [], h, p, hc => by
    rcases hc with hc | ⟨t, ht, _⟩
    · simpa [handledRun] using hc
    · cases ht
  | t0 :: ts, h, p, hc => by
    simp only [handledRun]
    apply handledRun_keeps ts
    rcases hc with hc | ⟨t, ht, htc⟩
    · left; exact handledAdd_keeps h t0 p (Or.inl hc)
    · rcases List.mem_cons.mp ht with rfl | ht
      · left; exact handledAdd_keeps h t p (Or.inr htc)
      · right; exact ⟨t, ht, htc⟩

/-- **every request is traced**: along any sequence of requests for a module, each path some
request covers is covered by one of the differences handed on for tracing, or was covered by what
had been handled before the sequence began -/
theorem handledRun_complete (ts : List Imp) (h : Option Imp) (t : Imp) (p : List String)
    (hm : t ∈ ts) (hc : t.covers p = true) :
    optCovers h p = true ∨ ∃ d ∈ (handledRun h ts).2, d.covers p = true :=
  handledRun_sound ts h p (handledRun_keeps ts h p (Or.inr ⟨t, hm, hc⟩))

end DG.Subset
