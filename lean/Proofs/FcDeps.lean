import DG.FcDeps
/-! The queue of packages: what is analysed is the closure of the top-level packages under the
recorded dependencies; if every package a trace enters is recorded, a cache changes nothing. -/
namespace DG.FcDeps

/-- reachable from the top-level packages through recorded dependencies -/
inductive Reach (w : World) (top : List Nat) : Nat → Prop
  | top {p} : p ∈ top → Reach w top p
  | dep {p q} : Reach w top p → q ∈ (w.pkg p).recorded → Reach w top q

theorem enqueue_analysed (p : Nat) (s : St) (q : Nat) : (enqueue p s q).analysed = s.analysed := by
  unfold enqueue; split <;> rfl

theorem fold_analysed (p : Nat) : ∀ (l : List Nat) (s : St), (l.foldl (enqueue p) s).analysed = s.analysed
  | [], _ => rfl
  | q :: l, s => by simp only [List.foldl]; rw [fold_analysed p l, enqueue_analysed]

theorem enqueue_seen_mono (p : Nat) (s : St) (q x : Nat) (h : x ∈ s.seen) : x ∈ (enqueue p s q).seen := by
  unfold enqueue; split
  · exact h
  · simp [h]

theorem enqueue_queue_mono (p : Nat) (s : St) (q x : Nat) (h : x ∈ s.queue) : x ∈ (enqueue p s q).queue := by
  unfold enqueue; split
  · exact h
  · simp [h]

theorem fold_seen_mono (p : Nat) : ∀ (l : List Nat) (s : St) (x : Nat), x ∈ s.seen → x ∈ (l.foldl (enqueue p) s).seen
  | [], _, _, h => h
  | q :: l, s, x, h => by simp only [List.foldl]; exact fold_seen_mono p l _ x (enqueue_seen_mono p s q x h)

theorem fold_queue_mono (p : Nat) : ∀ (l : List Nat) (s : St) (x : Nat), x ∈ s.queue → x ∈ (l.foldl (enqueue p) s).queue
  | [], _, _, h => h
  | q :: l, s, x, h => by simp only [List.foldl]; exact fold_queue_mono p l _ x (enqueue_queue_mono p s q x h)

/-- every listed dependency other than the package itself has been seen afterwards -/
theorem fold_covers (p : Nat) : ∀ (l : List Nat) (s : St) (q : Nat), q ∈ l → q ≠ p → q ∈ (l.foldl (enqueue p) s).seen
  | [], _, _, h, _ => by cases h
  | a :: l, s, q, h, hne => by
    simp only [List.foldl]
    rcases List.mem_cons.mp h with rfl | h
    · apply fold_seen_mono
      unfold enqueue
      split
      · rename_i hc
        rcases hc with hc | hc
        · exact absurd hc hne
        · simpa using hc
      · simp
    · exact fold_covers p l _ q h hne

/-- what is seen afterwards was seen before or has been queued; it is a listed dependency then -/
theorem fold_new (p : Nat) : ∀ (l : List Nat) (s : St) (x : Nat), x ∈ (l.foldl (enqueue p) s).seen →
    x ∈ s.seen ∨ (x ∈ (l.foldl (enqueue p) s).queue ∧ x ∈ l)
  | [], _, _, h => Or.inl h
  | a :: l, s, x, h => by
    simp only [List.foldl] at h ⊢
    rcases fold_new p l _ x h with h1 | ⟨h1, h2⟩
    · unfold enqueue at h1
      split at h1
      · exact Or.inl h1
      · simp only [List.mem_append, List.mem_singleton] at h1
        rcases h1 with h1 | rfl
        · exact Or.inl h1
        · right
          refine ⟨fold_queue_mono p l _ x ?_, by simp⟩
          unfold enqueue
          rename_i hc
          simp only [hc, if_false]
          simp
    · exact Or.inr ⟨h1, List.mem_cons_of_mem _ h2⟩

structure Inv (w : World) (top : List Nat) (s : St) : Prop where
  closed : ∀ p ∈ s.analysed, ∀ q ∈ (w.pkg p).recorded, q ≠ p → q ∈ s.seen
  placed : ∀ q ∈ s.seen, q ∈ s.analysed ∨ q ∈ s.queue
  reach : ∀ q ∈ s.seen, Reach w top q
  seenA : ∀ q ∈ s.analysed, q ∈ s.seen
  seenQ : ∀ q ∈ s.queue, q ∈ s.seen
  topSeen : ∀ q ∈ top, q ∈ s.seen

theorem inv_init (w : World) (top : List Nat) : Inv w top (init top) :=
  Inv.mk (fun p hp => absurd hp (List.not_mem_nil)) (fun q hq => Or.inr hq) (fun q hq => Reach.top hq)
    (fun q hq => absurd hq (List.not_mem_nil)) (fun q hq => hq) (fun q hq => hq)

theorem inv_step (w : World) (top : List Nat) (s : St) (h : Inv w top s) : Inv w top (step w s) := by
  unfold step
  cases hq : s.queue with
  | nil => simpa [hq] using h
  | cons p rest =>
    simp only []
    let s0 : St := { s with queue := rest, analysed := s.analysed ++ [p] }
    have hs0 : s0.seen = s.seen := rfl
    have hp_seen : p ∈ s.seen := h.seenQ p (by simp [hq])
    refine ⟨?_, ?_, ?_, ?_, ?_, ?_⟩
    · intro a ha q hqr hne
      rw [fold_analysed] at ha
      simp only [List.mem_append, List.mem_singleton] at ha
      rcases ha with ha | rfl
      · exact fold_seen_mono _ _ _ _ (h.closed a ha q hqr hne)
      · exact fold_covers _ _ _ q hqr hne
    · intro q hqs
      rw [fold_analysed]
      rcases fold_new _ _ _ q hqs with h1 | ⟨h1, _⟩
      · rcases h.placed q h1 with h2 | h2
        · left; simp [h2]
        · rw [hq] at h2
          rcases List.mem_cons.mp h2 with rfl | h2
          · left; simp
          · right; exact fold_queue_mono _ _ _ _ h2
      · exact Or.inr h1
    · intro q hqs
      rcases fold_new _ _ _ q hqs with h1 | ⟨_, h2⟩
      · exact h.reach q h1
      · exact Reach.dep (h.reach p hp_seen) h2
    · intro q hqa
      rw [fold_analysed] at hqa
      simp only [List.mem_append, List.mem_singleton] at hqa
      apply fold_seen_mono
      rcases hqa with hqa | rfl
      · exact h.seenA q hqa
      · exact hp_seen
    · intro q hqq
      -- an element of the new queue is seen: it was in the old queue, or has just been added
      have : ∀ (l : List Nat) (t : St), (∀ x ∈ t.queue, x ∈ t.seen) → ∀ x ∈ (l.foldl (enqueue p) t).queue, x ∈ (l.foldl (enqueue p) t).seen := by
        intro l
        induction l with
        | nil => intro t ht x hx; exact ht x hx
        | cons a l ih =>
          intro t ht x hx
          simp only [List.foldl] at hx ⊢
          apply ih _ _ x hx
          intro y hy
          unfold enqueue at hy ⊢
          split
          · rename_i hc; simp only [hc, if_true] at hy; exact ht y hy
          · rename_i hc
            simp only [hc, if_false, List.mem_append, List.mem_singleton] at hy ⊢
            rcases hy with hy | rfl
            · exact Or.inl (ht y hy)
            · exact Or.inr rfl
      exact this _ s0 (fun x hx => h.seenQ x (by rw [hq]; exact List.mem_cons_of_mem _ hx)) q hqq
    · intro q hqt
      exact fold_seen_mono _ _ _ _ (h.topSeen q hqt)

theorem inv_run (w : World) (top : List Nat) : ∀ (fuel : Nat) (s s' : St), Inv w top s → run w fuel s = some s' →
    Inv w top s' ∧ s'.queue = []
  | 0, s, s', h, hr => by
    unfold run at hr
    split at hr
    · cases hr
      rename_i he
      exact ⟨h, by simpa using he⟩
    · cases hr
  | f + 1, s, s', h, hr => by
    unfold run at hr
    split at hr
    · cases hr
      rename_i he
      exact ⟨h, by simpa using he⟩
    · exact inv_run w top f _ s' (inv_step w top s h) hr

/-- **what is analysed**: exactly the packages reachable from the top-level ones through recorded
dependencies -/
theorem analysed_iff_reach (w : World) (top : List Nat) (fuel : Nat) (s : St)
    (h : run w fuel (init top) = some s) (q : Nat) : q ∈ s.analysed ↔ Reach w top q := by
  obtain ⟨inv, hq⟩ := inv_run w top fuel _ s (inv_init w top) h
  have done : ∀ x ∈ s.seen, x ∈ s.analysed := fun x hx => (inv.placed x hx).elim id (fun h' => by rw [hq] at h'; cases h')
  constructor
  · intro hqa; exact inv.reach q (inv.seenA q hqa)
  · intro hr
    induction hr with
    | top ht => exact done _ (inv.topSeen _ ht)
    | @dep p q _ hqr ih =>
      by_cases hne : q = p
      · subst hne; exact ih
      · exact done _ (inv.closed p ih q hqr hne)

/-- **a cache changes nothing at the level of packages**: if every package a trace enters is
recorded as a dependency, then whichever packages have valid cache entries, the packages that
end up with fast check data are exactly the analysed ones — the same set for every cache state -/
theorem cache_transparent (w : World) (top : List Nat) (fuel : Nat) (s : St)
    (hrec : ∀ p q, q ∈ (w.pkg p).touched → q = p ∨ q ∈ (w.pkg p).recorded)
    (h : run w fuel (init top) = some s) (stale : Nat → Bool) (q : Nat) :
    q ∈ outputs w stale s ↔ q ∈ s.analysed := by
  unfold outputs
  constructor
  · intro hq
    rcases List.mem_append.mp hq with hq | hq
    · exact hq
    · obtain ⟨p, hp, hqt⟩ := List.mem_flatMap.mp hq
      have hpa : p ∈ s.analysed := (List.mem_filter.mp hp).1
      rcases hrec p q hqt with rfl | hqr
      · exact hpa
      · exact (analysed_iff_reach w top fuel s h q).mpr
          (Reach.dep ((analysed_iff_reach w top fuel s h p).mp hpa) hqr)
  · intro hq; exact List.mem_append.mpr (Or.inl hq)

/-- the packages analysed do not depend on the cache at all (the dependency list read from a valid
entry is the recorded one) -/
theorem outputs_same_for_all_cache_states (w : World) (top : List Nat) (fuel : Nat) (s : St)
    (hrec : ∀ p q, q ∈ (w.pkg p).touched → q = p ∨ q ∈ (w.pkg p).recorded)
    (h : run w fuel (init top) = some s) (stale stale' : Nat → Bool) (q : Nat) :
    q ∈ outputs w stale s ↔ q ∈ outputs w stale' s := by
  rw [cache_transparent w top fuel s hrec h stale, cache_transparent w top fuel s hrec h stale']

end DG.FcDeps

namespace DG.FcDeps

/-! ## the queue is emptied: every package is taken from it at most once -/

/-- packages of a finite universe that have not been seen yet -/
def unseen (u : List Nat) (seen : List Nat) : Nat := (u.filter fun x => !seen.contains x).length

theorem unseen_append_new (u : List Nat) (hu : u.Nodup) (seen : List Nat) (q : Nat) (hq : q ∈ u)
    (hn : seen.contains q = false) : unseen u (seen ++ [q]) + 1 = unseen u seen := by
  unfold unseen
  induction u with
  | nil => cases hq
  | cons a u ih =>
    have hnd := List.nodup_cons.mp hu
    simp only [List.filter]
    by_cases ha : a = q
    · subst ha
      have h1 : (seen ++ [a]).contains a = true := by simp
      have h2 : ∀ x ∈ u, (seen ++ [a]).contains x = seen.contains x := by
        intro x hx
        have : x ≠ a := fun h => hnd.1 (h ▸ hx)
        simp [this]
      simp only [h1, hn, Bool.not_true, Bool.not_false]
      rw [List.filter_congr (fun x hx => by rw [h2 x hx])]
      simp
    · have hq' : q ∈ u := by
        rcases List.mem_cons.mp hq with h | h
        · exact absurd h.symm ha
        · exact h
      have h1 : (seen ++ [q]).contains a = seen.contains a := by simp [ha]
      rw [h1]
      cases hs : seen.contains a
      · simp only [Bool.not_false, List.length_cons]
        have := ih hnd.2 hq'
        omega
      · simp only [Bool.not_true]
        exact ih hnd.2 hq'

/-- queueing the dependencies of a package keeps `queue length + unseen` -/
theorem fold_measure (u : List Nat) (hu : u.Nodup) (p : Nat) : ∀ (l : List Nat) (s : St), (∀ q ∈ l, q ∈ u) →
    (l.foldl (enqueue p) s).queue.length + unseen u (l.foldl (enqueue p) s).seen = s.queue.length + unseen u s.seen
  | [], _, _ => rfl
  | q :: l, s, hl => by
    simp only [List.foldl]
    rw [fold_measure u hu p l _ (fun x hx => hl x (List.mem_cons_of_mem _ hx))]
    unfold enqueue
    split
    · rfl
    · rename_i hc
      have hn : s.seen.contains q = false := by
        cases h : s.seen.contains q
        · rfl
        · exact absurd (Or.inr h) hc
      have := unseen_append_new u hu s.seen q (hl q (by simp)) hn
      simp only [List.length_append, List.length_singleton]
      omega

def dedupN : List Nat → List Nat
  | [] => []
  | a :: l => if a ∈ dedupN l then dedupN l else a :: dedupN l

theorem mem_dedupN (l : List Nat) (a : Nat) : a ∈ dedupN l ↔ a ∈ l := by
  induction l with
  | nil => simp [dedupN]
  | cons b l ih =>
    unfold dedupN
    split
    · rename_i hb
      constructor
      · intro h; exact List.mem_cons_of_mem _ (ih.mp h)
      · intro h
        rcases List.mem_cons.mp h with rfl | h
        · exact hb
        · exact ih.mpr h
    · simp only [List.mem_cons, ih]

theorem nodup_dedupN (l : List Nat) : (dedupN l).Nodup := by
  induction l with
  | nil => simp [dedupN]
  | cons b l ih =>
    unfold dedupN
    split
    · exact ih
    · rename_i hb
      exact List.nodup_cons.mpr ⟨hb, ih⟩

/-- everything a package of the world records lies in the universe of recorded names -/
def allRecorded (w : World) : List Nat := dedupN (w.flatMap (·.recorded))

theorem recorded_in_all (w : World) (p q : Nat) (h : q ∈ (w.pkg p).recorded) : q ∈ allRecorded w := by
  unfold allRecorded
  rw [mem_dedupN]
  unfold World.pkg at h
  by_cases hp : p < w.length
  · refine List.mem_flatMap.mpr ⟨w[p], List.getElem_mem hp, ?_⟩
    simpa [List.getD, List.getElem?_eq_getElem hp] using h
  · simp [List.getD, List.getElem?_eq_none (by omega : w.length ≤ p)] at h

/-- **the queue is emptied**: with `queue length + unseen` steps of fuel the run finishes -/
theorem run_terminates (w : World) : ∀ (fuel : Nat) (s : St),
    s.queue.length + unseen (allRecorded w) s.seen ≤ fuel → ∃ s', run w fuel s = some s'
  | 0, s, h => by
    have : s.queue = [] := by
      cases hq : s.queue with
      | nil => rfl
      | cons a l => rw [hq] at h; simp at h
    exact ⟨s, by simp [run, this]⟩
  | f + 1, s, h => by
    unfold run
    cases hq : s.queue with
    | nil => exact ⟨s, by simp⟩
    | cons p rest =>
      simp only [List.isEmpty_cons, Bool.false_eq_true, if_false]
      apply run_terminates w f
      unfold step
      simp only [hq]
      have hu : (allRecorded w).Nodup := by unfold allRecorded; exact nodup_dedupN _
      rw [fold_measure (allRecorded w) hu p _ _ (fun q hq' => recorded_in_all w p q hq')]
      simp only
      rw [hq] at h
      simp only [List.length_cons] at h
      omega

/-- for every world and every set of top-level packages the run finishes -/
theorem find_terminates (w : World) (top : List Nat) : ∃ fuel s, run w fuel (init top) = some s := by
  obtain ⟨s, hs⟩ := run_terminates w ((init top).queue.length + unseen (allRecorded w) (init top).seen) (init top) (Nat.le_refl _)
  exact ⟨_, s, hs⟩

end DG.FcDeps
