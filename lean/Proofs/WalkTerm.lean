import Proofs.WalkInv
/-! Initial invariant and termination of `walkLoop` within `walkFuel`. -/
namespace DG

theorem lookup_mem {α} (l : List (Spec × α)) (k : Spec) (v : α) (h : l.lookup k = some v) :
    (k, v) ∈ l := by
  induction l with
  | nil => simp [List.lookup] at h
  | cons a l ih =>
    obtain ⟨k', v'⟩ := a
    simp only [List.lookup] at h
    split at h
    · rename_i heq
      simp only [beq_iff_eq] at heq
      cases h
      subst heq
      exact List.mem_cons_self
    · exact List.mem_cons_of_mem _ (ih h)

section
variable {g : Graph} {o : WalkOpts} {skip : Spec → Bool} {roots : List Spec}

theorem inv_init (hnd : roots.Nodup) :
    Inv g o skip roots (walkInit g o.kind roots) [] := by
  let st0 : WalkState := { seen := roots.foldl setInsert [], visiting := roots, prev := none }
  have hseen0 : ∀ x, x ∈ st0.seen ↔ x ∈ roots := by
    intro x
    simp [st0, mem_foldl_setInsert]
  have hsub0 : ∀ x ∈ st0.visiting, x ∈ st0.seen := fun x hx => (hseen0 x).mpr hx
  have hd0 : ∀ x, ¬ Done st0 x := by
    intro x ⟨h1, h2⟩
    exact h2 ((hseen0 x).mp h1)
  have hd : ∀ x, ¬ Done (walkInit g o.kind roots) x := by
    intro x hx
    exact hd0 x ((done_pushAll _ st0 x hsub0).mp hx)
  obtain ⟨hnd', hsub'⟩ := pushAll_visiting_nodup (importTargets g o.kind) st0 hnd hsub0
  refine
    { vis_sub := hsub', vis_nodup := hnd', sound := ?_, roots_in := ?_, imps_in := ?_,
      done_push := fun x hx => absurd hx (hd x), done_succ := fun x hx => absurd hx (hd x),
      prev_ok := ?_, acc_iff := ?_, acc_nodup := by simp }
  · intro x hx
    rcases (pushAll_seen _ st0 x).mp hx with h | h
    · exact Enq.root ((hseen0 x).mp h)
    · exact Enq.imp h
  · intro x hx
    exact (pushAll_seen _ st0 x).mpr (Or.inl ((hseen0 x).mpr hx))
  · intro x hx
    exact (pushAll_seen _ st0 x).mpr (Or.inr hx)
  · intro k e hp
    simp [walkInit] at hp
  · intro x e
    simp only [List.not_mem_nil, false_iff, not_and]
    intro hx
    exact absurd hx (hd x)

/-! ### everything ever pushed is one of the graph's targets -/

theorem depTargets_sub (kind : Tables.GraphKind) (d : Dep) (t : Spec) (h : t ∈ depTargets kind d) :
    t ∈ d.allTargets := by
  unfold depTargets at h
  unfold Dep.allTargets
  simp only [List.mem_append] at h ⊢
  rcases h with h | h
  · exact Or.inl h
  · split at h
    · exact Or.inr h
    · cases h

theorem depEdgeTargets_sub (deps : List Dep) (t : Spec) (h : t ∈ depEdgeTargets o deps) :
    ∃ d ∈ deps, t ∈ d.allTargets := by
  unfold depEdgeTargets at h
  simp only [List.mem_flatMap, List.mem_reverse] at h
  obtain ⟨d, hd, ht⟩ := h
  split at ht
  · exact ⟨d, hd, depTargets_sub _ d t ht⟩
  · cases ht

theorem mod_targets_in (s : Spec) (m : Mod) (hs : g.slot s = some (.module m)) (t : Spec)
    (ht : (∃ d ∈ m.deps, t ∈ d.allTargets) ∨
          (∃ d ∈ m.depsPreferFastCheck, t ∈ d.allTargets) ∨
          (∃ td r, m.typesDep = some td ∧ td.res = .ok t r)) :
    t ∈ g.targets := by
  have hmem := lookup_mem g.slots s _ hs
  unfold Graph.targets
  simp only [List.mem_append, List.mem_flatMap]
  left; left
  refine ⟨(s, .module m), hmem, ?_⟩
  simp only [Mod.allTargets, List.mem_append, List.mem_flatMap]
  rcases ht with ⟨d, hd, h⟩ | ⟨d, hd, h⟩ | ⟨td, r, h1, h2⟩
  · left; left; exact ⟨d, hd, h⟩
  · left; right; exact ⟨d, hd, h⟩
  · right; simp [h1, h2]

theorem push1_sub (s t : Spec) (h : t ∈ push1 g o s) : t ∈ g.targets := by
  unfold push1 visitInfo at h
  split at h
  · cases h
  · rename_i m hs
    split at h
    · rename_i mt deps td fc
      split at h
      · split at h
        · rename_i t' r htd
          have ht : t = t' := by split at h <;> simpa using h
          subst ht
          apply mod_targets_in s _ hs t
          right; right
          cases td with
          | none => simp at htd
          | some tdv =>
            refine ⟨tdv, r, rfl, ?_⟩
            simpa using htd
        · split at h <;> cases h
      · cases h
    · cases h
  · cases h
  · split at h <;> cases h

theorem succs_sub (s : Spec) (e : Entry) (hy : yieldOf g o s = some e) (t : Spec)
    (h : t ∈ succs o s e) : t ∈ g.targets := by
  unfold yieldOf visitInfo at hy
  split at hy
  · cases hy
  · rename_i m hs
    have hem : e = .module m := by
      split at hy
      · split at hy
        · split at hy
          · split at hy <;> simp at hy <;> exact hy.symm
          · split at hy <;> simp at hy <;> exact hy.symm
        · simp at hy; exact hy.symm
      · simp at hy; exact hy.symm
    subst hem
    simp only [succs] at h
    obtain ⟨d, hd, hdt⟩ := depEdgeTargets_sub _ t h
    apply mod_targets_in s m hs t
    simp only [walkDeps] at hd
    split at hd
    · right; left; exact ⟨d, hd, hdt⟩
    · left; exact ⟨d, hd, hdt⟩
  · simp at hy
    subst hy
    cases h
  · split at hy
    · rename_i to hr
      simp at hy
      subst hy
      simp only [succs, List.mem_cons, List.not_mem_nil, or_false] at h
      subst h
      have := lookup_mem g.redirects s _ hr
      unfold Graph.targets
      simp only [List.mem_append, List.mem_map]
      left; right
      exact ⟨(s, t), this, rfl⟩
    · cases hy

theorem importTargets_sub (kind : Tables.GraphKind) (t : Spec) (h : t ∈ importTargets g kind) :
    t ∈ g.targets := by
  unfold importTargets at h
  simp only [List.mem_flatMap] at h
  obtain ⟨d, hd, ht⟩ := h
  unfold Graph.targets
  simp only [List.mem_append, List.mem_flatMap]
  right
  exact ⟨d, by simpa using hd, depTargets_sub kind d t ht⟩

/-- termination: the measure `|queue| + (|universe| − |seen|)` drops by one per iteration -/
theorem walkLoop_terminates (U : List Spec)
    (hpush : ∀ s t, t ∈ push1 g o s → t ∈ U)
    (hsucc : ∀ s e t, yieldOf g o s = some e → t ∈ succs o s e → t ∈ U) :
    ∀ (fuel : Nat) (st : WalkState) (acc : List (Spec × Entry)),
      st.seen.Nodup → (∀ x ∈ st.seen, x ∈ U) →
      (∀ k e, st.prev = some (k, e) → yieldOf g o k = some e) →
      st.visiting.length + (U.length - st.seen.length) < fuel →
      (walkLoop g o skip fuel st acc).isSome := by
  intro fuel
  induction fuel with
  | zero => intro st acc _ _ _ h; omega
  | succ fuel ih =>
    intro st acc hnd hsub hprev hm
    -- the prologue
    have h1nd : (expandPrev o st).seen.Nodup := by
      unfold expandPrev; split
      · exact pushAll_seen_nodup _ _ hnd
      · exact hnd
    have h1sub : ∀ x ∈ (expandPrev o st).seen, x ∈ U := by
      intro x hx
      unfold expandPrev at hx; split at hx
      · rename_i k e hp
        rcases (pushAll_seen _ _ x).mp hx with h | h
        · exact hsub x h
        · exact hsucc k e x (hprev k e hp) h
      · exact hsub x hx
    have h1len : (expandPrev o st).seen.length + st.visiting.length =
        st.seen.length + (expandPrev o st).visiting.length := by
      unfold expandPrev; split
      · exact pushAll_lengths _ { st with prev := none }
      · rfl
    have h1prev : (expandPrev o st).prev = none := by
      unfold expandPrev; split
      · simp
      · rename_i h; exact h
    have hle0 := List.Nodup.length_le_of_subset hnd (fun x hx => hsub x hx)
    have hle1 := List.Nodup.length_le_of_subset h1nd (fun x hx => h1sub x hx)
    unfold walkLoop
    simp only
    rcases hv : (expandPrev o st).visiting with _ | ⟨s, rest⟩
    · simp
    · simp only [visit]
      let st2 : WalkState := { expandPrev o st with visiting := rest }
      have h3nd : (pushAll (visitInfo g o s).1 st2).seen.Nodup := pushAll_seen_nodup _ st2 h1nd
      have h3sub : ∀ x ∈ (pushAll (visitInfo g o s).1 st2).seen, x ∈ U := by
        intro x hx
        rcases (pushAll_seen _ st2 x).mp hx with h | h
        · exact h1sub x h
        · exact hpush s x h
      have h3len := pushAll_lengths (visitInfo g o s).1 st2
      have hle3 := List.Nodup.length_le_of_subset h3nd (fun x hx => h3sub x hx)
      have hvl : (expandPrev o st).visiting.length = rest.length + 1 := by rw [hv]; simp
      have hst2v : st2.visiting.length = rest.length := rfl
      have hst2s : st2.seen.length = (expandPrev o st).seen.length := rfl
      rcases hy : (visitInfo g o s).2 with _ | e
      · apply ih _ _ h3nd h3sub
        · intro k e hp
          simp [st2, h1prev] at hp
        · omega
      · simp only
        apply ih _ _ (by exact h3nd) (by exact h3sub)
        · intro k e' hp
          simp only at hp
          split at hp
          · cases hp
          · simp only [Option.some.injEq, Prod.mk.injEq] at hp
            obtain ⟨rfl, rfl⟩ := hp
            exact hy
        · show (pushAll (visitInfo g o s).1 st2).visiting.length +
              (U.length - (pushAll (visitInfo g o s).1 st2).seen.length) < fuel
          omega

theorem walk_terminates (hnd : roots.Nodup) : (g.walk? o roots skip).isSome := by
  unfold Graph.walk?
  apply walkLoop_terminates (roots ++ g.targets)
  · intro s t h; exact List.mem_append_right _ (push1_sub s t h)
  · intro s e t hy h; exact List.mem_append_right _ (succs_sub s e hy t h)
  · exact (inv_init (g := g) (o := o) (skip := skip) hnd).vis_nodup |> fun _ => by
      unfold walkInit
      apply pushAll_seen_nodup
      exact nodup_foldl_setInsert roots [] (by simp)
  · intro x hx
    unfold walkInit at hx
    rcases (pushAll_seen _ _ x).mp hx with h | h
    · simp only [mem_foldl_setInsert, List.not_mem_nil, false_or] at h
      exact List.mem_append_left _ h
    · exact List.mem_append_right _ (importTargets_sub _ x h)
  · intro k e hp
    simp [walkInit] at hp
  · -- measure of the initial state
    let st0 : WalkState := { seen := roots.foldl setInsert [], visiting := roots, prev := none }
    have hlen := pushAll_lengths (importTargets g o.kind) st0
    have hseen0 : st0.seen.length = roots.length := by
      have h1 : (roots.foldl setInsert []).Nodup := nodup_foldl_setInsert roots [] (by simp)
      have h2 := List.Nodup.length_le_of_subset h1
        (l₂ := roots) (fun x hx => by simpa [mem_foldl_setInsert] using hx)
      have h3 := List.Nodup.length_le_of_subset hnd
        (l₂ := roots.foldl setInsert []) (fun x hx => by simpa [mem_foldl_setInsert] using hx)
      show (roots.foldl setInsert []).length = roots.length
      omega
    have hv0 : st0.visiting.length = roots.length := rfl
    have hle : (pushAll (importTargets g o.kind) st0).seen.length ≤ (roots ++ g.targets).length := by
      apply List.Nodup.length_le_of_subset
      · exact pushAll_seen_nodup _ st0 (nodup_foldl_setInsert roots [] (by simp))
      · intro x hx
        rcases (pushAll_seen _ st0 x).mp hx with h | h
        · have : x ∈ roots := by simpa [st0, mem_foldl_setInsert] using h
          exact List.mem_append_left _ this
        · exact List.mem_append_right _ (importTargets_sub _ x h)
    have hU : (roots ++ g.targets).length = roots.length + g.targets.length := List.length_append
    show (pushAll (importTargets g o.kind) st0).visiting.length +
        ((roots ++ g.targets).length - (pushAll (importTargets g o.kind) st0).seen.length) <
        roots.length + g.targets.length + 2
    omega

end
end DG
