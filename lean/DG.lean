import DG.Tables
import DG.Graph
import DG.Resolve
import DG.Walk
import DG.Sexp
import DG.Proto
import DG.JsrVersion
import DG.Decode
