/-!
# Resolved exports of a module (src/symbols/cross_module.rs 813-877)

`exports_and_re_exports_inner`: own exports, then for every star re-export (`export * from`) the
non-default exports of the target that are not present yet, with one visited set shared by the
whole traversal.  Names are naturals (`0` = `default`), modules are indices into the world.
-/
namespace DG.Sym

structure Mod where
  /-- own export names, in declaration order (keys of an `IndexMap`) -/
  own : List Nat
  /-- star re-exports: the module they resolve to, if any -/
  stars : List (Option Nat)
  deriving Repr, Inhabited

abbrev World := List Mod

def World.mod (w : World) (m : Nat) : Mod := w.getD m { own := [], stars := [] }

/-- resolved exports: (name, module holding the export) -/
abbrev Resolved := List (Nat × Nat)

def names (r : Resolved) : List Nat := r.map (·.1)

/-- merge the exports of a star target: not `default`, not a name already present -/
def addInner (acc inner : Resolved) : Resolved :=
  inner.foldl (fun acc p => if p.1 = 0 ∨ (names acc).contains p.1 then acc else acc ++ [p]) acc

def step (rec : List Nat → Nat → List Nat × Resolved) (st : List Nat × Resolved) (s : Option Nat) :
    List Nat × Resolved :=
  match s with
  | none => st
  | some t => ((rec st.1 t).1, addInner st.2 (rec st.1 t).2)

/-- `exports_and_re_exports_inner` with the visited set threaded through -/
def go (w : World) : Nat → List Nat → Nat → List Nat × Resolved
  | 0, v, _ => (v, [])
  | f + 1, v, m =>
    if v.contains m then (v, [])
    else (w.mod m).stars.foldl (step (go w f)) (m :: v, (w.mod m).own.map fun n => (n, m))

/-- `exports_and_re_exports` -/
def exportsOf (w : World) (m : Nat) : Resolved := (go w (w.length + 1) [] m).2

/-- what the statement says: a star edge to a resolvable module -/
def StarEdge (w : World) (a b : Nat) : Prop := some b ∈ (w.mod a).stars

inductive Reach (w : World) : Nat → Nat → Prop
  | refl (a : Nat) : Reach w a a
  | step {a b c : Nat} : StarEdge w a b → Reach w b c → Reach w a c

/-- the resolved export names of `m`: its own names, plus the non-default own names of everything
reachable through star re-exports -/
def Exported (w : World) (m n : Nat) : Prop :=
  ∃ p, Reach w m p ∧ n ∈ (w.mod p).own ∧ (p = m ∨ n ≠ 0)

end DG.Sym
