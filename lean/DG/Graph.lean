import DG.Tables
/-!
# A finished module graph (model of `deno_graph::ModuleGraph`, src/graph.rs)

Specifiers are interned to naturals by the harness.  Maps are association
lists (`BTreeMap`/`IndexMap` in the code); theorems talk about the lookup
functions `Graph.slot` / `Graph.redirect`.
-/
namespace DG
open Tables

abbrev Spec := Nat

/-- URL scheme classes that `check_resolution` distinguishes. -/
inductive Scheme where
  | https | http | file | other
  deriving DecidableEq, Repr, Inhabited

/-- `Resolution`: `None`, `Ok(specifier, range)`, `Err`.  `rng` and `code` are
opaque ids interned by the harness (range text / error text). -/
inductive Res where
  | none
  | ok (s : Spec) (rng : Nat)
  | err (code : Nat)
  deriving DecidableEq, Repr, Inhabited

def Res.okSpec? : Res → Option Spec
  | .ok s _ => some s
  | _ => Option.none

/-- `Dependency` restricted to what walks, error listing and lookups read. -/
structure Dep where
  text : Nat
  /-- `specifier_text.to_lowercase().starts_with("file://")` -/
  fileText : Bool
  code : Res
  type : Res
  dyn : Bool
  deriving DecidableEq, Repr, Inhabited

/-- `TypesDependency` -/
structure TypesDep where
  text : Nat
  fileText : Bool
  res : Res
  deriving DecidableEq, Repr, Inhabited

inductive Mod where
  | js (mt : MediaType) (deps : List Dep) (typesDep : Option TypesDep) (fc : Option (List Dep))
  | wasm (deps : List Dep)
  | json
  | npm
  | node
  | external
  deriving DecidableEq, Repr, Inhabited

def Mod.mediaType : Mod → MediaType
  | .js mt _ _ _ => mt
  | .json => .Json
  | .wasm _ => .Wasm
  | .node => .JavaScript
  | .npm => .Unknown
  | .external => .Unknown

def Mod.deps : Mod → List Dep
  | .js _ d _ _ => d
  | .wasm d => d
  | _ => []

def Mod.depsPreferFastCheck : Mod → List Dep
  | .js _ d _ fc => match fc with | some f => f | Option.none => d
  | .wasm d => d
  | _ => []

def Mod.typesDep : Mod → Option TypesDep
  | .js _ _ t _ => t
  | _ => Option.none

/-- A module slot. `err missing code errSpec`: `missing` = `ModuleErrorKind::Missing`,
`code` = interned `to_string_with_range()`, `errSpec` = the error's own specifier. -/
inductive Slot where
  | module (m : Mod)
  | err (missing : Bool) (code : Nat) (errSpec : Spec)
  | pending
  deriving DecidableEq, Repr, Inhabited

structure Graph where
  kind : GraphKind
  roots : List Spec
  slots : List (Spec × Slot)
  redirects : List (Spec × Spec)
  /-- `graph.imports`: referrer ↦ dependencies, insertion order -/
  imports : List (Spec × List Dep)
  schemes : List (Spec × Scheme)
  deriving Repr, Inhabited

def Graph.slot (g : Graph) (s : Spec) : Option Slot := g.slots.lookup s
def Graph.redirect (g : Graph) (s : Spec) : Option Spec := g.redirects.lookup s
def Graph.scheme (g : Graph) (s : Spec) : Scheme := (g.schemes.lookup s).getD .other

def Graph.isModule (g : Graph) (s : Spec) : Bool :=
  match g.slot s with
  | some (.module _) => true
  | _ => false

end DG
