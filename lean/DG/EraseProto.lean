import DG.Sexp
import DG.Erase
/-! Line protocol for the fast-check declaration model. Strings travel as `(s cp…)` code-point lists. -/
namespace DG.FC.Proto
open DG DG.Sexp DG.FC

def str? : Sexp → Option String
  | .list (.atom "s" :: cps) => (nats? cps).map fun l => String.ofList (l.map Char.ofNat)
  | _ => none

def optStr? : Sexp → Option (Option String)
  | .atom "-" => some none
  | x => (str? x).map some

def expr? : Sexp → Option Expr
  | .list [.atom "num", t] => (str? t).map fun t => .lit (.num t)
  | .list [.atom "str", t] => (str? t).map fun t => .lit (.str t)
  | .list [.atom "bool", b] => (bool? b).map fun b => .lit (.bool b)
  | .atom "null" => some (.lit .null)
  | .atom "regex" => some (.lit .regex)
  | .list [.atom "tpl", l] => (bool? l).map .tpl
  | .list [.atom "as", t, s] => do pure (.asT (← str? t) (← bool? s))
  | .atom "opaque" => some .opaque
  | .list [.atom "leave", t] => (str? t).map .leave
  | _ => none

def optExpr? : Sexp → Option (Option Expr)
  | .atom "-" => some none
  | x => (expr? x).map some

def param? : Sexp → Option Param
  | .list [.atom "p", n, o, r, t, d] => do
    pure { name := ← str? n, opt := ← bool? o, rest := ← bool? r, ty := ← optStr? t, dflt := ← optExpr? d }
  | _ => none

def analysis? : Sexp → Option RetAnalysis
  | .atom "none" => some .none | .atom "void" => some .void
  | .atom "single" => some .single | .atom "multiple" => some .multiple
  | _ => none

def fn? : Sexp → Option Fn
  | .list [.atom "fn", .list ps, r, a, g, b, an] => do
    pure { params := ← ps.mapM param?, ret := ← optStr? r, isAsync := ← bool? a, isGen := ← bool? g,
           hasBody := ← bool? b, analysis := ← analysis? an }
  | _ => none

def init? : Sexp → Option Init
  | .list [.atom "e", e] => (expr? e).map .expr
  | .list [.atom "arrow", f, e] => do pure (.arrow { fn := ← fn? f, exprBody := ← optExpr? e })
  | .list [.atom "fnexpr", f] => (fn? f).map .fnExpr
  | _ => none

def optInit? : Sexp → Option (Option Init)
  | .atom "-" => some none
  | x => (init? x).map some

def access? : Sexp → Option Access
  | .atom "pub" => some .pub | .atom "priv" => some .priv | .atom "prot" => some .prot
  | _ => none

def kind? : Sexp → Option FnKind
  | .atom "decl" => some .declLike | .atom "getter" => some .getter | .atom "setter" => some .setter
  | _ => none

def member? : Sexp → Option Member
  | .list [.atom "prop", n, a, s, r, t, i] => do
    pure (.prop (← str? n) (← access? a) (← bool? s) (← bool? r) (← optStr? t) (← optInit? i))
  | .list [.atom "method", n, a, s, k, f] => do
    pure (.method (← str? n) (← access? a) (← bool? s) (← kind? k) (← fn? f))
  | .list [.atom "ctor", a, .list ps, b, sup, ov] => do
    let ps ← ps.mapM fun
      | .list [p, .atom "-"] => do pure ({ p := ← param? p, prop := none } : CtorParam)
      | .list [p, .list [a, ro]] => do pure ({ p := ← param? p, prop := some (← access? a, ← bool? ro) } : CtorParam)
      | _ => none
    pure (.ctor (← access? a) ps (← bool? b) (← bool? sup) (← bool? ov))
  | .list [.atom "accessor", n, a, st, t, i] => do
    let init ← match i with
      | .atom "-" => some none
      | x => (expr? x).map some
    pure (.accessor (← str? n) (← access? a) (← bool? st) (← optStr? t) init)
  | .atom "esprivate" => some .esPrivate
  | .atom "staticblock" => some .staticBlock
  | _ => none

/-! canonical printing (the harness extracts the same text from the emitted module) -/

def showParam (p : OParam) : String :=
  (if p.rest then "..." else "") ++ p.name ++ (if p.opt then "?" else "") ++
  (match p.ty with | some t => ":" ++ t | none => "") ++
  (match p.dflt with | some d => "=" ++ d | none => "")

def showBody : OBody → String
  | .empty => "{}"
  | .placeholder => "{R}"
  | .kept t => "=>" ++ t
  | .none => ";"

def showFn (f : OFn) : String :=
  (if f.isAsync then "async" else "") ++ "(" ++ ",".intercalate (f.params.map showParam) ++ ")" ++
  (match f.ret with | some t => ":" ++ t | none => "") ++ showBody f.body

def showDiag : Diag → String
  | .missingReturnType => "DIAG:missing-explicit-return-type"
  | .missingType => "DIAG:missing-explicit-type"
  | .unsupported => "DIAG:unsupported"

def showInit : OInit → String
  | .never => "N"
  | .dropped => ""
  | .kept t => t
  | .fn f true => "arrow" ++ showFn f
  | .fn f false => "fn" ++ showFn f

def showAccess : Access → String
  | .pub => "" | .priv => "priv " | .prot => "prot "

def showKind : FnKind → String
  | .getter => "get " | .setter => "set " | _ => ""

def showMember : OMember → String
  | .brand => "brand"
  | .prop name access isStatic ro declare optional ty init =>
    "prop " ++ (if isStatic then "static " else "") ++ showAccess access ++ (if ro then "readonly " else "") ++
    (if declare then "declare " else "") ++ name ++ (if optional then "?" else "") ++
    (match ty with | some t => ":" ++ t | none => "") ++
    (match init with | .dropped => "" | i => "=" ++ showInit i)
  | .method name access isStatic kind f =>
    "method " ++ (if isStatic then "static " else "") ++ showAccess access ++ showKind kind ++ name ++ showFn f
  | .ctor access ps sup =>
    "ctor " ++ showAccess access ++ "(" ++ ",".intercalate (ps.map showParam) ++ ")" ++ (if sup then "super" else "")

def showExcept {α} (f : α → String) : Except Diag α → String
  | .ok a => f a
  | .error d => showDiag d

def handle : Sexp → Option String
  | .list [.atom "fc-fn", n, f, ov] => do
    let n ← str? n
    let f ← fn? f
    let ov ← bool? ov
    pure (showExcept (fun o => "fn " ++ n ++ showFn o) (transformFn f .declLike ov))
  | .list [.atom "fc-var", n, c, t, i] => do
    let n ← str? n
    let r := transformVar n (← bool? c) (← optStr? t) (← optInit? i)
    pure (showExcept (fun (o : OVar) => "var " ++ o.name ++ (match o.ty with | some t => ":" ++ t | none => "") ++ "=" ++ showInit o.init) r)
  | .list [.atom "fc-class", n, .list ms] => do
    let n ← str? n
    let ms ← ms.mapM member?
    pure (showExcept (fun (l : List OMember) => " | ".intercalate (("class " ++ n) :: l.map showMember)) (transformClass ms))
  | _ => none

end DG.FC.Proto
