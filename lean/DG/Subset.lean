/-!
# Fast check: what has been asked of a module so far (src/fast_check/range_finder.rs)

`NamedSubset` / `Exports` (a tree of export names: a name is wanted whole, or only some of its
members are) and `ImportedExports` (everything but `default`, everything, or such a tree).  The
range finder keeps one per module for what was already handled and one for what is still
pending; `extend` / `add` merge a new request in and hand back *what is new*, which is all that
gets traced.  A request that is merged but missing from the difference is never traced.

The maps are `IndexMap`s: insertion order is kept, a key occurs once.  They are lists here; `set`
replaces the first entry with the key or appends.
-/
namespace DG.Subset

mutual
inductive Ex where
  /-- the whole export -/
  | all
  /-- only these members -/
  | sub (m : Sub)
inductive Sub where
  | nil
  | cons (k : String) (v : Ex) (rest : Sub)
end

instance : Inhabited Ex := ⟨.all⟩
instance : Inhabited Sub := ⟨.nil⟩

def Sub.get? : Sub → String → Option Ex
  | .nil, _ => none
  | .cons k v rest, x => if x = k then some v else rest.get? x

/-- `IndexMap::insert`: replace the value in place, or append -/
def Sub.set : Sub → String → Ex → Sub
  | .nil, x, e => .cons x e .nil
  | .cons k v rest, x, e => if x = k then .cons k e rest else .cons k v (rest.set x e)

def Sub.isEmpty : Sub → Bool
  | .nil => true
  | .cons .. => false

def Sub.contains (s : Sub) (x : String) : Bool := (s.get? x).isSome

/-- `NamedSubset::add` -/
def Sub.add (s : Sub) (k : String) : Sub := s.set k .all

/-- `NamedSubset::add_qualified` / `Exports::add_qualified` -/
def Sub.addQualified (s : Sub) (k : String) : List String → Sub
  | [] => s.add k
  | p :: ps =>
    match s.get? k with
    | some .all => s
    | some (.sub inner) => s.set k (.sub (inner.addQualified p ps))
    | none => s.set k (.sub (Sub.nil.addQualified p ps))

/-- `NamedSubset::from_parts` -/
def Sub.fromParts : List String → Sub
  | [] => .nil
  | p :: ps => Sub.nil.addQualified p ps

mutual
/-- `Exports::extend`: the merged value and what is new in it -/
def Ex.extend : Ex → Ex → Ex × Option Ex
  | .all, _ => (.all, none)
  | .sub _, .all => (.all, some .all)
  | .sub cur, .sub new =>
    let r := Sub.extend cur new
    (.sub r.1, if r.2.isEmpty then none else some (.sub r.2))
/-- `NamedSubset::extend`: the merged map and the difference.  (The difference is accumulated with
`add_named`; its keys are those of `new`, which are distinct, so every one is a plain insertion.) -/
def Sub.extend : Sub → Sub → Sub × Sub
  | self, .nil => (self, .nil)
  | self, .cons k v rest =>
    match self.get? k with
    | some entry =>
      let e := Ex.extend entry v
      let r := Sub.extend (self.set k e.1) rest
      (r.1, match e.2 with
            | some d => .cons k d r.2
            | none => r.2)
    | none =>
      let r := Sub.extend (self.set k v) rest
      (r.1, .cons k v r.2)
end

/-- `NamedSubset::add_named` -/
def Sub.addNamed (s : Sub) (k : String) (e : Ex) : Sub :=
  match s.get? k with
  | some entry => s.set k (Ex.extend entry e).1
  | none => s.set k e

/-- `ImportedExports` -/
inductive Imp where
  /-- every export but `default` -/
  | star
  | starDefault
  | subset (s : Sub)

instance : Inhabited Imp := ⟨.star⟩

def onlyDefault : Sub := Sub.nil.add "default"

/-- `ImportedExports::add`: the merged value and what is new (what has to be traced).
`starDefault` stands for *all* of `default`; when only some members of `default` had been asked
for and `star` comes in, the rest of `default` is handed on for tracing as well (finding F32) -/
def Imp.add : Imp → Imp → Imp × Option Imp
  | .star, .star => (.star, none)
  | .star, .starDefault => (.starDefault, some (.subset onlyDefault))
  | .star, .subset n =>
    if n.contains "default" then (.starDefault, some (.subset onlyDefault)) else (.star, none)
  | .starDefault, _ => (.starDefault, none)
  | .subset cur, .star =>
    match cur.get? "default" with
    | some .all => (.starDefault, some .star)
    | some (.sub _) => (.starDefault, some .starDefault)
    | none => (.star, some .star)
  | .subset _, .starDefault => (.starDefault, some .starDefault)
  | .subset cur, .subset n =>
    let r := Sub.extend cur n
    (.subset r.1, some (.subset r.2))

/-- the merge as it was before the repair of F32: a partially requested `default` is taken for
the whole of it -/
def Imp.addOld : Imp → Imp → Imp × Option Imp
  | .subset cur, .star => (if cur.contains "default" then .starDefault else .star, some .star)
  | a, b => Imp.add a b

/-- `HandledExports::add` for one module: `none` = nothing recorded yet -/
def handledAdd (h : Option Imp) (t : Imp) : Option Imp × Option Imp :=
  match h with
  | some cur => let r := cur.add t; (some r.1, r.2)
  | none => (some t, some t)

/-- `PendingTraces::add` for one module: the difference is not used -/
def pendingAdd (h : Option Imp) (t : Imp) : Option Imp :=
  match h with
  | some cur => some (cur.add t).1
  | none => some t

/-! ## what a request asks for: the paths it covers -/

mutual
def Ex.covers : Ex → List String → Bool
  | .all, _ => true
  | .sub m, p => Sub.covers m p
/-- some entry with the first name covers the rest (keys are distinct in an `IndexMap`) -/
def Sub.covers : Sub → List String → Bool
  | .nil, _ => false
  | .cons _ _ _, [] => false
  | .cons k v rest, x :: xs => (x == k && Ex.covers v xs) || Sub.covers rest (x :: xs)
end

def Imp.covers : Imp → List String → Bool
  | .star, [] => false
  | .star, x :: _ => x != "default"
  | .starDefault, [] => false
  | .starDefault, _ :: _ => true
  | .subset s, p => s.covers p

/-! ## printing (insertion order) -/

mutual
def Ex.show : Ex → String
  | .all => "*"
  | .sub m => "{" ++ Sub.show m ++ "}"
def Sub.show : Sub → String
  | .nil => ""
  | .cons k v .nil => k ++ ":" ++ Ex.show v
  | .cons k v rest => k ++ ":" ++ Ex.show v ++ "," ++ Sub.show rest
end

def Imp.show : Imp → String
  | .star => "star"
  | .starDefault => "star+default"
  | .subset s => "{" ++ s.show ++ "}"

end DG.Subset
