import DG.ModInfo
/-!
# Positions in source text (src/graph.rs 85-172, 1087-1098; src/ast/mod.rs 922-942)

`Position::from_source_pos` (line and column of an offset), `PositionRange::includes`,
`Dependency::includes`, and the arithmetic that turns a match inside a comment into a range.
Text is a list of characters; offsets and columns count characters (the harness converts the
implementation's byte offsets).
-/
namespace DG.TP
open DG.MI

/-- line and column of the character offset `off`, scanning from `(line, col)` -/
def posFrom : List Char → Nat → Nat → Nat → Pos
  | _, 0, line, col => { line := line, char := col }
  | [], _ + 1, line, col => { line := line, char := col }
  | c :: cs, off + 1, line, col =>
    if c = '\n' then posFrom cs off (line + 1) 0 else posFrom cs off line (col + 1)

/-- `Position::from_source_pos` -/
def posOf (text : List Char) (off : Nat) : Pos := posFrom text off 0 0

/-- offset of a position: start of its line plus the column (no bounds check, like `loc_to_source_pos`
on positions that came from this text) -/
def offFrom : List Char → Nat → Nat → Nat
  | _, 0, col => col
  | [], _ + 1, col => col
  | c :: cs, line + 1, col => 1 + (if c = '\n' then offFrom cs line col else offFrom cs (line + 1) col)

def offOf (text : List Char) (p : Pos) : Nat := offFrom text p.line p.char

def posLe (a b : Pos) : Bool := a.line < b.line || (a.line == b.line && a.char ≤ b.char)

/-- `PositionRange::includes` -/
def includes (r : Range) (p : Pos) : Bool := posLe r.s p && posLe p r.e

/-- `Dependency::includes`: the first import whose specifier range holds the position, else the
type resolution's range (a `@deno-types` pragma is not tied to an import) -/
def depIncludes (imports : List Range) (typeRange : Option Range) (p : Pos) : Option Range :=
  match imports.find? fun r => includes r p with
  | some r => some r
  | none =>
    match typeRange with
    | some r => if includes r p then some r else none
    | none => none

/-- `comment_source_to_position_range`: `start` is the offset of the comment (its `//` or `/*`),
`lo`/`hi` the match inside the comment text -/
def commentSpan (text : List Char) (start lo hi : Nat) (quoteless : Bool) : Range :=
  let pad := if quoteless then 0 else 1
  { s := posOf text (start + 2 + lo - pad), e := posOf text (start + 2 + hi + pad) }

/-- the characters of `text` between two positions -/
def slice (text : List Char) (r : Range) : List Char :=
  (text.drop (offOf text r.s)).take (offOf text r.e - offOf text r.s)

end DG.TP
