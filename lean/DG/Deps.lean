import DG.ModInfo
/-!
# From module information to recorded dependencies
(`parse_js_module_from_module_info` + `fill_module_dependencies`, src/graph.rs 3546-4219)

What a module's analysis (`ModuleInfo`) becomes in the graph: one `Dependency` per specifier
text with its code and type resolutions, the static-versus-dynamic flag, the `type` attribute,
the `@deno-types` text and the list of imports behind it; the module's own types dependency
(self types, `/// <reference types>` of an untyped module, `X-TypeScript-Types`); the source-map
dependency.  Resolution is a parameter: `resC` / `resT` answer for execution / types resolution
(no custom resolver: both are `resolve_import`, types resolution additionally rejects https
imports into another jsr package).  Template arguments of dynamic imports are expanded through
the file system, which is empty here (`NullFileSystem`).
-/
namespace DG.Deps
open DG.MI

/-- the answer of a resolver -/
inductive R where
  | ok (id : Nat)
  | err
  deriving DecidableEq, Repr, Inhabited

/-- `Resolution` -/
inductive Res where
  | none
  | ok (id : Nat)
  | err
  deriving DecidableEq, Repr, Inhabited

def R.res : R → Res
  | .ok i => .ok i
  | .err => .err

def Res.spec? : Res → Option Nat
  | .ok i => some i
  | _ => Option.none

def Res.isNone : Res → Bool
  | .none => true
  | _ => false

inductive IKind where
  | es | esSource | require | tsType | tsAugment | tsRefPath | tsRefTypes | jsxSrc | jsDoc
  deriving DecidableEq, Repr, Inhabited

/-- an import that imports the module as code -/
def IKind.isCode : IKind → Bool
  | .es | .esSource | .require | .jsxSrc => true
  | _ => false

structure Imp where
  kind : IKind
  dyn : Bool
  deriving DecidableEq, Repr, Inhabited

structure Dep where
  text : String
  code : Res := .none
  type : Res := .none
  dyn : Bool := false
  attr : Option String := none
  denoTypes : Option String := none
  imports : List Imp := []
  deriving DecidableEq, Repr, Inhabited

structure Env where
  includeTypes : Bool
  isDeclaration : Bool
  isTyped : Bool
  isJsx : Bool
  /-- `X-TypeScript-Types` -/
  header : Option String
  resC : String → R
  resT : String → R

structure Out where
  deps : List Dep := []
  typesDep : Option (String × Res) := none
  sourceMap : Option (String × Res) := none
  deriving Repr, Inhabited

/-- `dependencies.entry(key).or_default()` followed by a modification -/
def upd (l : List Dep) (key : String) (f : Dep → Dep) : List Dep :=
  if l.any (·.text == key) then l.map fun d => if d.text == key then f d else d
  else l ++ [f { text := key }]

/-- `ImportAttributes::get("type")` -/
def typeAttr : Attrs → Option String
  | .known m => match m.lookup "type" with
    | some (.known v) => some v
    | _ => none
  | _ => none

def jsxModule : String := "jsx-runtime"

/-- a type-only import recorded on an entry (`/// <reference path>`, `/// <reference types>` in a
typed module, JSDoc import): the type side is resolved once -/
def addTypeImport (e : Env) (text : String) (kind : IKind) (d : Dep) : Dep :=
  { d with type := if d.type.isNone then (e.resT text).res else d.type,
           imports := d.imports ++ [{ kind := kind, dyn := false }] }

/-- one `/// <reference …/>` -/
def stepTsRef (e : Env) (o : Out) : TsRef → Out
  | .path s => { o with deps := upd o.deps s.text (addTypeImport e s.text .tsRefPath) }
  | .types s _ =>
    if !e.isTyped && o.typesDep.isSome then o
    else if !e.isTyped then { o with typesDep := some (s.text, (e.resT s.text).res) }
    else { o with deps := upd o.deps s.text (addTypeImport e s.text .tsRefTypes) }

/-- the type side of the JSX import source entry -/
def jsxTypes (e : Env) (mi : ModuleInfo) (text : String) (d : Dep) : Dep :=
  if e.includeTypes && d.type.isNone then
    match mi.jsxSrcTypes with
    | some t => { d with type := (e.resT (t.text ++ "/" ++ jsxModule)).res, denoTypes := some (t.text ++ "/" ++ jsxModule) }
    | none => if (e.resT text).res.spec? != d.code.spec? then { d with type := (e.resT text).res } else d
  else d

def addJsx (e : Env) (mi : ModuleInfo) (text : String) (d : Dep) : Dep :=
  let d1 := jsxTypes e mi text { d with code := if d.code.isNone then (e.resC text).res else d.code }
  { d1 with imports := d1.imports ++ [{ kind := .jsxSrc, dyn := false }] }

/-- the JSX import source dependency -/
def stepJsx (e : Env) (mi : ModuleInfo) (o : Out) : Out :=
  if !e.isJsx then o
  else
    match mi.jsxSrc with
    | none => o
    | some src => { o with deps := upd o.deps (src.text ++ "/" ++ jsxModule) (addJsx e mi (src.text ++ "/" ++ jsxModule)) }

def stepJsDoc (e : Env) (o : Out) (j : JsDoc) : Out :=
  { o with deps := upd o.deps j.spec.text (addTypeImport e j.spec.text .jsDoc) }

/-- an import behind a descriptor -/
structure RawImp where
  text : String
  kind : IKind
  dyn : Bool
  attrs : Attrs
  sideEffect : Bool

/-- the imports a descriptor stands for and its `@deno-types` specifier; `none` = skipped -/
def descImports (e : Env) : MI.Dep → Option (List RawImp × Option SpecR)
  | .static d =>
    match d.kind with
    | .maybeTsModuleAugmentation =>
      if !e.includeTypes then none
      else some ([{ text := d.specifier, kind := .tsAugment, dyn := false, attrs := d.attrs, sideEffect := d.sideEffect }],
                 d.typesSpecifier)
    | .importType | .exportType =>
      if !e.includeTypes then none
      else some ([{ text := d.specifier, kind := .tsType, dyn := false, attrs := d.attrs, sideEffect := d.sideEffect }],
                 d.typesSpecifier)
    | .importSource =>
      some ([{ text := d.specifier, kind := .esSource, dyn := false, attrs := d.attrs, sideEffect := d.sideEffect }],
            d.typesSpecifier)
    | _ =>
      some ([{ text := d.specifier, kind := .es, dyn := false, attrs := d.attrs, sideEffect := d.sideEffect }],
            d.typesSpecifier)
  | .dynamic d =>
    match d.argument with
    | .str t =>
      let kind := match d.kind with
        | .import | .importDefer => IKind.es
        | .importSource => IKind.esSource
        | .require => IKind.require
      some ([{ text := t, kind := kind, dyn := true, attrs := d.attrs, sideEffect := false }], d.typesSpecifier)
    | _ => none

/-- the `type` attribute of an entry is the first one seen -/
def stageAttr (i : RawImp) (d : Dep) : Dep :=
  if d.attr.isNone then { d with attr := typeAttr i.attrs } else d

/-- `@deno-types` gives the type side when there is none yet -/
def stageDenoTypes (e : Env) (ts : Option SpecR) (d : Dep) : Dep :=
  match ts with
  | some t => if e.includeTypes && d.type.isNone then { d with denoTypes := some t.text, type := (e.resT t.text).res } else d
  | none => d

/-- a type-only import resolves the type side; any other import (outside declaration files) the code
side: the first one also decides static-versus-dynamic, later ones can only turn the flag to static -/
def stageSide (e : Env) (i : RawImp) (d : Dep) : Dep :=
  if i.kind == .tsType || i.kind == .tsAugment then
    (if d.type.isNone then { d with type := (e.resT i.text).res } else d)
  else if !e.isDeclaration then
    (if d.code.isNone then { d with code := (e.resC i.text).res, dyn := i.dyn }
     else { d with dyn := d.dyn && i.dyn })
  else d

/-- without a type side so far the specifier itself is resolved for types, unless that fails for a
side-effect import or gives the code module again -/
def stageFallback (e : Env) (i : RawImp) (d : Dep) : Dep :=
  if e.includeTypes && d.type.isNone then
    (if !(i.sideEffect && (e.resT i.text).res == .err) && (e.resT i.text).res.spec? != d.code.spec? then
       { d with type := (e.resT i.text).res }
     else d)
  else d

def pushImp (i : RawImp) (d : Dep) : Dep :=
  { d with imports := d.imports ++ [{ kind := i.kind, dyn := i.dyn }] }

/-- the body of the loop over a descriptor's imports in `fill_module_dependencies` -/
def applyImp (e : Env) (ts : Option SpecR) (i : RawImp) (d : Dep) : Dep :=
  pushImp i (stageFallback e i (stageSide e i (stageDenoTypes e ts (stageAttr i d))))

def stepDesc (e : Env) (deps : List Dep) (desc : MI.Dep) : List Dep :=
  match descImports e desc with
  | none => deps
  | some (imps, ts) => imps.foldl (fun deps i => upd deps i.text (applyImp e ts i)) deps

def retainOne (d : Dep) : Option Dep :=
  if d.type.spec?.isSome then some d
  else if (d.imports.filter fun i => i.kind != .tsAugment).isEmpty then none
  else some { d with imports := d.imports.filter fun i => i.kind != .tsAugment }

/-- the final clean-up in typed modules: a module augmentation that resolves to nothing is no dependency -/
def retainDeps (e : Env) (deps : List Dep) : List Dep :=
  if !e.isTyped then deps else deps.filterMap retainOne

def fill (e : Env) (deps0 : List Dep) (descs : List MI.Dep) : List Dep :=
  retainDeps e (descs.foldl (stepDesc e) deps0)

def phaseSelfTypes (e : Env) (mi : ModuleInfo) (o : Out) : Out :=
  if e.includeTypes then
    mi.tsRefs.foldl (stepTsRef e)
      (match mi.selfTypes with
       | some s => { o with typesDep := some (s.text, (e.resT s.text).res) }
       | none => o)
  else o

def phaseJsDoc (e : Env) (mi : ModuleInfo) (o : Out) : Out :=
  if e.includeTypes then mi.jsdoc.foldl (stepJsDoc e) o else o

def phaseHeader (e : Env) (o : Out) : Out :=
  if e.includeTypes && o.typesDep.isNone then
    match e.header with
    | some h => { o with typesDep := some (h, (e.resT h).res) }
    | none => o
  else o

/-- everything before the import / export descriptors are visited -/
def preFill (e : Env) (mi : ModuleInfo) : Out :=
  phaseHeader e (phaseJsDoc e mi (stepJsx e mi (phaseSelfTypes e mi
    { sourceMap := mi.sourceMap.map fun s => (s.text, (e.resC s.text).res) })))

/-- `parse_js_module_from_module_info` -/
def analyse (e : Env) (mi : ModuleInfo) : Out :=
  { preFill e mi with deps := fill e (preFill e mi).deps mi.deps }

/-! canonical printing -/
def Res.render : Res → String
  | .none => "-"
  | .ok i => s!"ok{i}"
  | .err => "err"

def IKind.render : IKind → String
  | .es => "es" | .esSource => "src" | .require => "req" | .tsType => "type" | .tsAugment => "aug"
  | .tsRefPath => "refpath" | .tsRefTypes => "reftypes" | .jsxSrc => "jsx" | .jsDoc => "jsdoc"

def Dep.render (d : Dep) : String :=
  s!"{d.text}|{d.code.render}|{d.type.render}|{if d.dyn then "dyn" else "static"}|{d.attr.getD "-"}|{d.denoTypes.getD "-"}|" ++
    ",".intercalate (d.imports.map fun i => i.kind.render ++ (if i.dyn then "!" else ""))

def Out.render (o : Out) : String :=
  " ; ".intercalate (o.deps.map Dep.render) ++
  " ;; types=" ++ (match o.typesDep with | some (t, r) => s!"{t}|{r.render}" | none => "-") ++
  " ;; map=" ++ (match o.sourceMap with | some (t, r) => s!"{t}|{r.render}" | none => "-")

end DG.Deps
