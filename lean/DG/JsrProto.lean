import DG.Sexp
import DG.JsrSpec
/-! Line-protocol decoders / printers for the `jsr:` model. Strings travel as atoms `s:<text>`. -/
namespace DG.Jsr.Proto
open DG DG.Sexp DG.Jsr

def str? : Sexp → Option Str
  | .atom a => if a.startsWith "s:" then some (a.toList.drop 2) else none
  | _ => none

def showStr (s : Str) : String := String.ofList s

def optNat? : Sexp → Option (Option Nat)
  | .atom "-" => some none
  | x => (nat? x).map some

def exports? : Sexp → Option Exports
  | .list [.atom "str", v] => (str? v).map .str
  | .list (.atom "obj" :: kvs) =>
    (kvs.mapM fun (x : Sexp) => match x with
      | Sexp.list [k, Sexp.atom "-"] => (str? k).map fun k => (k, (none : Option Str))
      | Sexp.list [k, v] => do pure ((← str? k), some (← str? v))
      | _ => none).map Exports.obj
  | .atom "other" => some .other
  | _ => none

def metaRes? {α} (f : List Sexp → Option α) : List Sexp → Option (MetaRes α)
  | [.atom "nf"] => some .notFound
  | [.atom "le"] => some .loadErr
  | [.atom "rd"] => some .redirect
  | .atom "ok" :: rest => (f rest).map .ok
  | _ => none

def vinfo? : Sexp → Option (Nat × VInfo)
  | .list [v, y, c] => do pure ((← nat? v), { yanked := ← bool? y, createdAt := ← optNat? c })
  | _ => none

structure Pass where
  reg : Registry
  names : Names
  table : Table
  items : List Item
  mode : Mode

def lookupD {β} (l : List (Nat × β)) (d : β) (k : Nat) : β := (l.lookup k).getD d

def pass? : List Sexp → Option Pass
  | [modex, .list (.atom "pkgs" :: pkgs), .list (.atom "fresh" :: fresh), .list (.atom "vers" :: vers), .list (.atom "sats" :: sats),
     .list (.atom "cutoffs" :: cuts), .list (.atom "cached" :: cached), pc, it,
     .list (.atom "names" :: regx :: names), .list (.atom "vernames" :: vnames),
     .list (.atom "seed" :: seed), .list (.atom "items" :: items)] => do
    let pkgs ← pkgs.mapM fun
      | .list (n :: rest) => do pure ((← nat? n), (← metaRes? (fun l => l.mapM vinfo?) rest))
      | _ => none
    let fresh ← fresh.mapM fun
      | .list (n :: rest) => do pure ((← nat? n), (← metaRes? (fun l => l.mapM vinfo?) rest))
      | _ => none
    let mode ← match modex with
      | .atom "allow" => some Mode.allowRestart
      | .atom "norestart" => some Mode.noRestart
      | .atom "bust" => some Mode.cacheBusting
      | _ => none
    let vers ← vers.mapM fun
      | .list (n :: v :: rest) => do
        let r ← metaRes? (fun l => match l with | [e] => exports? e | _ => none) rest
        pure (({ name := ← nat? n, version := ← nat? v } : Nv), r)
      | _ => none
    let sats ← sats.mapM fun
      | .list (r :: vs) => do pure ((← nat? r), (← nats? vs))
      | _ => none
    let cuts ← cuts.mapM fun
      | .list [n, d] => do pure ((← nat? n), (← nat? d))
      | _ => none
    let cached ← cached.mapM fun
      | .list (n :: vs) => do pure ((← nat? n), (← nats? vs))
      | _ => none
    let names ← names.mapM fun
      | .list [n, s] => do pure ((← nat? n), (← str? s))
      | _ => none
    let vnames ← vnames.mapM fun
      | .list [n, s] => do pure ((← nat? n), (← str? s))
      | _ => none
    let seed ← seed.mapM fun
      | .list [n, r, v] => do
        pure (({ name := ← nat? n, req := ← nat? r } : Req), ({ name := ← nat? n, version := ← nat? v } : Nv))
      | _ => none
    let items ← items.mapM fun
      | .list [s, n, r, e] => do
        pure ({ spec := ← nat? s, name := ← nat? n, req := ← nat? r, exportName := ← str? e } : Item)
      | _ => none
    let reg : Registry :=
      { pkg := fun n => (pkgs.lookup n).getD .notFound,
        pkgFresh := fun n => (fresh.lookup n).getD .notFound,
        ver := fun nv => (vers.lookup nv).getD .notFound,
        sat := fun r v => (lookupD sats [] r).contains v,
        cutoff := fun n => cuts.lookup n,
        cachedManifests := lookupD cached [],
        preferCached := ← bool? pc,
        includeTypes := ← bool? it }
    let table := seed.foldl (fun t (p : Req × Nv) => t.addNv p.1 p.2) ({} : Table)
    pure { reg, names := { reg := ← str? regx, name := lookupD names [], ver := lookupD vnames [] },
           table, items, mode }
  | _ => none

def showNv (nv : Nv) : String := s!"{nv.name}@{nv.version}"

def showErrK : ErrK → String
  | .pkgNotFound => "pkg-not-found"
  | .pkgLoad => "pkg-load"
  | .pkgRedirect => "redirect"
  | .reqNotFound d => s!"req-not-found:{match d with | some d => toString d | none => "-"}"
  | .verNotFound => "ver-not-found"
  | .verLoad => "ver-load"
  | .verRedirect => "redirect"
  | .unknownExport l =>
    -- the listing order is the JSON map's: printed sorted (the harness sorts its side too)
    s!"unknown-export:[{",".intercalate ((l.map showStr).mergeSort fun a b => decide (a ≤ b))}]"
  | .badExportPath => "bad-export-path"

def showOut : Out → String
  | .redirect s u _ => s!"O{s}=>{showStr u}"
  | .err s k => s!"O{s}=!{showErrK k}"

def showPass (p : P1 × P2) : String :=
  if p.1.restart then "RESTART" else
  let t := p.2.table
  let outs := (p.2.outs.map showOut).eraseDups
  let maps := t.reqs.map fun (r, nv) => s!"M{r.name}.{r.req}={showNv nv}"
  let byName := t.byName.map fun (n, vs) => s!"N{n}=[{",".intercalate (vs.map toString)}]"
  let pk := t.packages.map fun (nv, _) => s!"P{showNv nv}"
  let ex := t.packages.flatMap fun (nv, i) =>
    i.exports.map fun (k, v) => s!"X{showNv nv}:{showStr k}>{showStr v}"
  let y := t.yanked.map fun nv => s!"Y{showNv nv}"
  let tl := t.topLevel.map fun nv => s!"T{showNv nv}"
  let pr := p.1.probes.map fun nv => s!"C{showNv nv}"
  let rs := (p.1.resolved.zipIdx).map fun ((r, nv), i) => s!"E{i}:{r.name}.{r.req}={showNv nv}"
  let _ := tl
  " ".intercalate (outs ++ maps ++ byName ++ pk ++ ex ++ y ++ pr ++ rs)

end DG.Jsr.Proto
