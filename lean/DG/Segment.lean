import DG.Walk
/-!
# `ModuleGraph::segment` (src/graph.rs 2381-2425)
-/
namespace DG
open Tables

/-- `roots.iter().collect::<IndexSet<_>>()` -/
def dedup (l : List Spec) : List Spec := l.foldl (fun acc x => if acc.contains x then acc else acc ++ [x]) []

def segmentOpts (g : Graph) : WalkOpts :=
  { kind := g.kind, followDynamic := true, checkJs := fun _ => true, preferFastCheck := false }

/-- entries of the walk as slots / redirects of the new graph -/
def entrySlot : Spec × Entry → Option (Spec × Slot)
  | (k, .module m) => some (k, .module m)
  | (k, .err mi c es) => some (k, .err mi c es)
  | (_, .redirect _) => none

def entryRedirect : Spec × Entry → Option (Spec × Spec)
  | (k, .redirect to) => some (k, to)
  | _ => none

/-- `segment`: a clone when every requested root is a root of the graph, otherwise what a walk
(same kind, following dynamic imports, check_js) from the requested roots yields -/
def Graph.segment (g : Graph) (roots : List Spec) : Graph :=
  let rs := dedup roots
  if rs.all (fun r => g.roots.contains r) then g
  else
    let entries := g.walk (segmentOpts g) rs
    { kind := g.kind, roots := rs, slots := entries.filterMap entrySlot,
      redirects := entries.filterMap entryRedirect, imports := g.imports, schemes := g.schemes }

end DG
