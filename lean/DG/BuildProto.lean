import DG.Proto
import DG.Build
/-! Decoders / printers for the builder model's line protocol. -/
namespace DG.Build
open DG DG.Sexp Tables

def attr? : Sexp → Option (Option Attr)
  | .atom "n" => some none
  | .atom "json" => some (some .json)
  | .atom "text" => some (some .text)
  | .atom "bytes" => some (some .bytes)
  | .atom "css" => some (some .css)
  | .atom "config" => some (some .config)
  | .atom "other" => some (some .other)
  | _ => none

def optNat? : Sexp → Option (Option Nat)
  | .atom "n" => some none
  | x => (nat? x).map some

def optRes? : Sexp → Option (Option Res)
  | .atom "-" => some none
  | x => (res? x).map some

def bdep? : Sexp → Option BDep
  | .list [.atom "b", t, c, ty, dy, a, ia, sp] => do
    pure { text := ← nat? t, code := ← res? c, type := ← res? ty, dyn := ← bool? dy, attr := ← attr? a,
           isAsset := ← bool? ia, sourcePhase := ← optNat? sp }
  | _ => none

def content? : Sexp → Option Content
  | .list [.atom "c", .atom mt, sf, dec, par, wok, .list (.atom "deps" :: ds), td, sm] => do
    pure { mt := ← mediaType? mt, schemeFile := ← bool? sf, decodable := ← bool? dec, parsable := ← bool? par,
           wasmOk := ← bool? wok,
           parsed := { deps := ← ds.mapM bdep?, typesDep := ← optRes? td, sourceMapDep := ← optRes? sm } }
  | _ => none

def resp? : Sexp → Option Resp
  | .list [.atom "m", f] => do pure (.module (← nat? f))
  | .list [.atom "r", t] => do pure (.redirect (← nat? t))
  | .list [.atom "x", f] => do pure (.external (← nat? f))
  | .atom "miss" => some .missing
  | .atom "err" => some .error
  | .atom "cks" => some .checksumError
  | _ => none

def world? : Sexp → Option World
  | .list [.atom "world", .list (.atom "resp" :: rs), .list (.atom "content" :: cs),
           .list (.atom "wasm" :: ws), .list (.atom "node" :: ns), mr, .list (.atom "lock" :: ls),
           .list (.atom "hashes" :: hs), hl, .list (.atom "remote" :: rem), .list (.atom "reload" :: rl)] => do
    let base ← world? (.list [.atom "world", .list (.atom "resp" :: rs), .list (.atom "content" :: cs),
           .list (.atom "wasm" :: ws), .list (.atom "node" :: ns), mr, .list (.atom "lock" :: ls),
           .list (.atom "hashes" :: hs), hl, .list (.atom "remote" :: rem)])
    let rr ← rl.mapM fun
      | .list [k, r] => do pure ((← nat? k), (← resp? r))
      | _ => none
    pure { base with reloadResp := rr }
  | .list [.atom "world", .list (.atom "resp" :: rs), .list (.atom "content" :: cs),
           .list (.atom "wasm" :: ws), .list (.atom "node" :: ns), mr, .list (.atom "lock" :: ls),
           .list (.atom "hashes" :: hs), hl, .list (.atom "remote" :: rem)] => do
    let base ← world? (.list [.atom "world", .list (.atom "resp" :: rs), .list (.atom "content" :: cs),
           .list (.atom "wasm" :: ws), .list (.atom "node" :: ns), mr, .list (.atom "lock" :: ls)])
    let hh ← hs.mapM fun
      | .list [k, a, b] => do pure ((← nat? k), (← nat? a), (← nat? b))
      | _ => none
    pure { base with hashUse := hh.map fun (k, a, _) => (k, a), hashReload := hh.map fun (k, _, b) => (k, b),
                     hasLocker := ← bool? hl, remote := ← nats? rem }
  | .list [.atom "world", .list (.atom "resp" :: rs), .list (.atom "content" :: cs),
           .list (.atom "wasm" :: ws), .list (.atom "node" :: ns), mr, .list (.atom "lock" :: ls)] => do
    let resp ← rs.mapM fun
      | .list [k, r] => do pure ((← nat? k), (← resp? r))
      | _ => none
    let content ← cs.mapM fun
      | .list [k, c] => do pure ((← nat? k), (← content? c))
      | _ => none
    let lock ← ls.mapM fun
      | .list [k, c] => do pure ((← nat? k), (← nat? c))
      | _ => none
    pure { resp, content, wasmExt := ← nats? ws, nodeSpecs := ← nats? ns, maxRedirects := ← nat? mr,
           lockRemote := lock }
  | _ => none

def opts? : Sexp → Option Opts
  | .list [.atom "o", k, d, sk, b, t, c, cf] => do
    pure { kind := ← kind? k, isDynamic := ← bool? d, skipDynamicDeps := ← bool? sk, unstableBytes := ← bool? b,
           unstableText := ← bool? t, unstableCss := ← bool? c, unstableConfig := ← bool? cf }
  | _ => none

def imports? (l : List Sexp) : Option (List (Spec × List Dep)) :=
  l.mapM fun
    | .list (r :: ds) => do pure ((← nat? r), (← deps? ds))
    | _ => none

/-! canonical printing -/

def showRes : Res → String
  | .none => "n"
  | .ok s r => s!"o{s}@{r}"
  | .err c => s!"e{c}"

def showBDep (d : BDep) : String :=
  s!"{d.text},{showRes d.code},{showRes d.type},{if d.dyn then 1 else 0}"

def showDeps (l : List BDep) : String := ";".intercalate (l.map showBDep)

def showErrKind : ErrKind → String
  | .missing => "missing" | .loader => "loader" | .decode => "decode" | .parse => "parse"
  | .wasmParse => "wasmParse" | .unsupportedMedia => "unsupportedMedia"
  | .invalidTypeAssertion => "invalidTypeAssertion" | .unsupportedAttr => "unsupportedAttr"
  | .sourcePhase => "sourcePhase" | .tooManyRedirects => "tooManyRedirects"
  | .checksum => "checksum" | .checksumRedirect => "checksumRedirect"

def showSlot : BSlot → String
  | .module (.js mt deps td sm) =>
    s!"js:{((reprStr mt).splitOn ".").getLast!}:[{showDeps deps}]:{match td with | some r => showRes r | none => "-"}:{match sm with | some r => showRes r | none => "-"}"
  | .module (.wasm deps) => s!"wasm:[{showDeps deps}]"
  | .module .json => "json"
  | .module .node => "node"
  | .module (.external a) => s!"ext:{if a then 1 else 0}"
  | .err e => s!"err:{showErrKind e.kind}:{e.spec}:{match e.referrer with | some r => toString r | none => "n"}"
  | .pending a => s!"pending:{if a then 1 else 0}"

def insertSorted {α} (p : Spec × α) : List (Spec × α) → List (Spec × α)
  | [] => [p]
  | q :: rest => if p.1 ≤ q.1 then p :: q :: rest else q :: insertSorted p rest

def sortByKey {α} (l : List (Spec × α)) : List (Spec × α) := l.foldr insertSorted []

def showSt (st : St) : String :=
  let slots := (sortByKey st.slots).map fun (k, sl) => s!"S{k}={showSlot sl}"
  let reds := (sortByKey st.redirects).map fun (a, b) => s!"R{a}>{b}"
  let log := st.log.map fun c =>
    s!"L{c.spec}:{if c.ensureCached then "c" else "l"}{if c.reload then "!" else ""}:{if c.inDyn then 1 else 0}:{match c.checksum with | some x => toString x | none => "n"}"
  let writes := st.lockWrites.map fun (s, h) => s!"W{s}={h}"
  " ".intercalate (slots ++ reds ++ log ++ writes)

end DG.Build
