import DG.Graph
/-!
# `ModuleGraph::resolve` and the lookups built on it (src/graph.rs 2668-2928)

The model follows the code as written, including the `MAX_REDIRECTS` cap that
counts *specifiers seen* (a `HashSet`, modelled as a duplicate-free list), and — since the repair
of findings F12/F35 — the guard `!self.module_slots.contains_key(..)` on every redirect lookup:
a specifier that has an entry of its own is where `resolve` stops, as the walk does.
-/
namespace DG
open Tables

/-- `seen.insert(s)` on a set represented as a duplicate-free list. -/
def setInsert (seen : List Spec) (s : Spec) : List Spec :=
  if s ∈ seen then seen else s :: seen

/-- The `while let Some(specifier) = self.redirects.get(redirected_specifier)` loop.
`cap = some max` is the `MAX_REDIRECTS` check (`seen.len() >= MAX_REDIRECTS`), `none` when the
source has no such check.  `fuel` bounds the iterations. -/
def resolveLoop (redir : Spec → Option Spec) (cap : Option Nat) :
    Nat → List Spec → Spec → Spec
  | 0, _, cur => cur
  | fuel + 1, seen, cur =>
    match redir cur with
    | none => cur
    | some s =>
      if s ∈ seen then cur            -- `!seen.insert(specifier)` ⇒ break (cycle)
      else
        match cap with
        | some max =>
          if (s :: seen).length ≥ max then s   -- cap reached ⇒ break after the move
          else resolveLoop redir cap fuel (s :: seen) s
        | none => resolveLoop redir cap fuel (s :: seen) s

/-- `ModuleGraph::resolve` for an arbitrary redirect function, cap and fuel. -/
def resolveWith (redir : Spec → Option Spec) (cap : Option Nat) (fuel : Nat) (s : Spec) : Spec :=
  match redir s with
  | none => s
  | some s1 => resolveLoop redir cap fuel (setInsert [s] s1) s1

/-- the redirect entry `resolve` consults for `s`: none when `s` has an entry of its own (every
`self.redirects.get(s)` in the source is guarded by `!self.module_slots.contains_key(s)`;
regenerated table `resolveStopsAtEntry`) -/
def effRedirect (hasEntry : Spec → Bool) (redir : Spec → Option Spec) (s : Spec) : Option Spec :=
  if resolveStopsAtEntry && hasEntry s then none else redir s

/-- the cap as found in the source (regenerated table) -/
def resolveCap : Option Nat := if resolveHasCap then some resolveMaxRedirects else none

/-- iterations that are always enough: the cap, or (without a cap) one per redirect entry -/
def Graph.resolveFuel (g : Graph) : Nat :=
  match resolveCap with
  | some max => max
  | none => g.redirects.length + 1

def Graph.redirectEff (g : Graph) (s : Spec) : Option Spec :=
  effRedirect (fun x => (g.slot x).isSome) g.redirect s

def Graph.resolve (g : Graph) (s : Spec) : Spec :=
  resolveWith g.redirectEff resolveCap g.resolveFuel s

/-- `ModuleGraph::get` (as "is there a module, and under which key") -/
def Graph.get (g : Graph) (s : Spec) : Option Spec :=
  let r := g.resolve s
  match g.slot r with
  | some (.module _) => some r
  | _ => none

def Graph.contains (g : Graph) (s : Spec) : Bool := (g.get s).isSome

/-- Result of `try_get`: `Ok(Some(module at key))`, `Err(error code)`, `Ok(None)`. -/
inductive TryGet where
  | module (key : Spec)
  | error (code : Nat)
  | none
  deriving DecidableEq, Repr

def Graph.tryGet (g : Graph) (s : Spec) : TryGet :=
  let r := g.resolve s
  match g.slot r with
  | some (.module _) => .module r
  | some (.err _ code _) => .error code
  | _ => .none

def Graph.tryGetPreferTypes (g : Graph) (s : Spec) : TryGet :=
  match g.tryGet s with
  | .module key =>
    match g.slot key with
    | some (.module m) =>
      match m.typesDep with
      | some td =>
        match td.res with
        | .ok t _ => g.tryGet t
        | _ => .module key
      | none => .module key
    | _ => .module key   -- unreachable: `tryGet` returned a module at `key`
  | r => r

/-- `ModuleGraph::resolve_dependency_from_dep` -/
def Graph.resolveDependencyFromDep (g : Graph) (d : Dep) (preferTypes : Bool) : Option Spec :=
  let first := if preferTypes then d.type else d.code
  let second := if preferTypes then d.code else d.type
  match first.okSpec?.or second.okSpec? with
  | none => none
  | some u =>
    let r := g.resolve u
    match g.slot r with
    | some (.module m) =>
      if preferTypes then
        match m with
        | .js _ _ (some td) _ =>
          match td.res with
          | .ok t _ =>
            let rt := g.resolve t
            if g.isModule rt then some rt else some r
          | _ => some r
        | _ => some r
      else some r
    | _ => none

/-- One entry of `ModuleGraph::specifiers()`: key and result. -/
inductive SpecEntry where
  | module (key : Spec) (at_ : Spec)
  | error (key : Spec) (code : Nat)
  deriving DecidableEq, Repr

def toResult (key : Spec) (at_ : Spec) : Slot → Option SpecEntry
  | .module _ => some (.module key at_)
  | .err _ code _ => some (.error key code)
  | .pending => none

/-- `ModuleGraph::specifiers()`: slots first, then redirect sources looked up where their
target resolves to (since the repair of finding F1b; before, at their *immediate* target). -/
def Graph.specifiers (g : Graph) : List SpecEntry :=
  g.slots.filterMap (fun (k, sl) => toResult k k sl) ++
  g.redirects.filterMap (fun (k, t) =>
    match g.slot (g.resolve t) with
    | some sl => toResult k (g.resolve t) sl
    | none => none)

end DG
