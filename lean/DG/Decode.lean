/-!
# Text decoding of module sources (src/graph.rs `new_source_with_text`,
`ModuleTextSource::try_get_original_bytes`, `size`; deno_media_type `encoding.rs`)

Bytes are `List UInt8`; decoded text is a list of Unicode scalar values (`List Nat`) and the
stored text is its UTF-8 encoding.  UTF-8 and UTF-16LE/BE are modelled outright (WHATWG
decoders with U+FFFD replacement); any other supported label is a parameter.
-/
namespace DG.Decode

abbrev Bytes := List UInt8

def REPL : Nat := 0xFFFD
def BOM : Nat := 0xFEFF

/-! ## UTF-8 encoder -/

def encodeScalar (c : Nat) : Bytes :=
  if c < 0x80 then [UInt8.ofNat c]
  else if c < 0x800 then [UInt8.ofNat (0xC0 + c / 64), UInt8.ofNat (0x80 + c % 64)]
  else if c < 0x10000 then
    [UInt8.ofNat (0xE0 + c / 4096), UInt8.ofNat (0x80 + (c / 64) % 64), UInt8.ofNat (0x80 + c % 64)]
  else
    [UInt8.ofNat (0xF0 + c / 262144), UInt8.ofNat (0x80 + (c / 4096) % 64),
     UInt8.ofNat (0x80 + (c / 64) % 64), UInt8.ofNat (0x80 + c % 64)]

def encodeUtf8 (cs : List Nat) : Bytes := cs.flatMap encodeScalar

/-! ## WHATWG UTF-8 decoder (with replacement) -/

structure U8State where
  needed : Nat := 0
  seen : Nat := 0
  cp : Nat := 0
  lower : Nat := 0x80
  upper : Nat := 0xBF
  deriving Repr, DecidableEq, Inhabited

/-- a byte seen in the initial state -/
def u8Lead (b : Nat) : U8State × List Nat :=
  if b ≤ 0x7F then ({}, [b])
  else if 0xC2 ≤ b ∧ b ≤ 0xDF then ({ needed := 1, cp := b % 32 }, [])
  else if 0xE0 ≤ b ∧ b ≤ 0xEF then
    ({ needed := 2, cp := b % 16,
       lower := if b = 0xE0 then 0xA0 else 0x80, upper := if b = 0xED then 0x9F else 0xBF }, [])
  else if 0xF0 ≤ b ∧ b ≤ 0xF4 then
    ({ needed := 3, cp := b % 8,
       lower := if b = 0xF0 then 0x90 else 0x80, upper := if b = 0xF4 then 0x8F else 0xBF }, [])
  else ({}, [REPL])

def u8Step (st : U8State) (b : Nat) : U8State × List Nat :=
  if st.needed = 0 then u8Lead b
  else if b < st.lower ∨ st.upper < b then
    -- invalid continuation: emit U+FFFD and reprocess the byte in the initial state
    let (st', out) := u8Lead b
    (st', REPL :: out)
  else
    let cp := st.cp * 64 + b % 64
    if st.seen + 1 = st.needed then ({}, [cp])
    else ({ needed := st.needed, seen := st.seen + 1, cp := cp }, [])

def decodeUtf8Go : U8State → Bytes → List Nat
  | st, [] => if st.needed = 0 then [] else [REPL]
  | st, b :: rest =>
    let (st', out) := u8Step st b.toNat
    out ++ decodeUtf8Go st' rest

def decodeUtf8 (bs : Bytes) : List Nat := decodeUtf8Go {} bs

/-- strict validity: the decoder never has to substitute -/
def utf8ValidGo : U8State → Bytes → Bool
  | st, [] => st.needed = 0
  | st, b :: rest =>
    let n := b.toNat
    if st.needed = 0 then
      if n ≤ 0x7F ∨ (0xC2 ≤ n ∧ n ≤ 0xF4) then utf8ValidGo (u8Lead n).1 rest else false
    else if n < st.lower ∨ st.upper < n then false
    else utf8ValidGo (u8Step st n).1 rest

def utf8Valid (bs : Bytes) : Bool := utf8ValidGo {} bs

/-! ## WHATWG UTF-16 decoder -/

/-- code units to scalars with surrogate handling; `lead` is a pending lead surrogate -/
def utf16Units : Option Nat → List Nat → List Nat
  | none, [] => []
  | some _, [] => [REPL]
  | none, u :: rest =>
    if 0xD800 ≤ u ∧ u ≤ 0xDBFF then utf16Units (some u) rest
    else if 0xDC00 ≤ u ∧ u ≤ 0xDFFF then REPL :: utf16Units none rest
    else u :: utf16Units none rest
  | some l, u :: rest =>
    if 0xDC00 ≤ u ∧ u ≤ 0xDFFF then
      (0x10000 + (l - 0xD800) * 1024 + (u - 0xDC00)) :: utf16Units none rest
    else
      -- unpaired lead: U+FFFD, and the unit is processed again without a pending lead
      REPL :: (if 0xD800 ≤ u ∧ u ≤ 0xDBFF then utf16Units (some u) rest
               else u :: utf16Units none rest)

/-- bytes to code units; a trailing odd byte is reported separately -/
def pairUp (be : Bool) : Bytes → List Nat × Bool
  | [] => ([], false)
  | [_] => ([], true)
  | a :: b :: rest =>
    let u := if be then a.toNat * 256 + b.toNat else b.toNat * 256 + a.toNat
    let (us, odd) := pairUp be rest
    (u :: us, odd)

def decodeUtf16 (be : Bool) (bs : Bytes) : List Nat :=
  let (us, odd) := pairUp be bs
  -- a pending lead surrogate and/or a trailing odd byte yield a single U+FFFD at the end
  let body := utf16Units none us
  if odd then
    (if body.getLast? = some REPL ∧ endsWithPendingLead us then body else body ++ [REPL])
  else body
where
  endsWithPendingLead (us : List Nat) : Bool :=
    match us.getLast? with
    | some u => decide (0xD800 ≤ u ∧ u ≤ 0xDBFF)
    | none => false

/-! ## charset handling -/

inductive Charset where
  | utf8 | utf16le | utf16be
  /-- another label known to encoding_rs (e.g. windows-1252): decoder is a parameter -/
  | other (id : Nat)
  /-- a label encoding_rs does not know -/
  | unsupported
  deriving DecidableEq, Repr, Inhabited

/-- `detect_charset`: BOM sniffing only for `file:` specifiers -/
def detectCharset (isFile : Bool) (bs : Bytes) : Charset :=
  if isFile then
    match bs with
    | 0xFF :: 0xFE :: _ => .utf16le
    | 0xFE :: 0xFF :: _ => .utf16be
    | _ => .utf8
  else .utf8

/-- `maybe_charset.unwrap_or_else(|| detect_charset(..))` -/
def chooseCharset (header : Option Charset) (isFile : Bool) (bs : Bytes) : Charset :=
  match header with
  | some c => c
  | none => detectCharset isFile bs

/-- `Cow` returned by `convert_to_utf8`: borrowed = the input is returned as is -/
inductive Conv where
  | borrowed
  | owned (text : List Nat)
  | err
  deriving DecidableEq, Repr, Inhabited

/-- `convert_to_utf8` (`decode_without_bom_handling`).  `otherDec id bs` is the decoder of any other
label together with whether it can return the input unchanged. -/
def convert (otherDec : Nat → Bytes → Conv) (cs : Charset) (bs : Bytes) : Conv :=
  match cs with
  | .utf8 => if utf8Valid bs then .borrowed else .owned (decodeUtf8 bs)
  | .utf16le => .owned (decodeUtf16 false bs)
  | .utf16be => .owned (decodeUtf16 true bs)
  | .other id => otherDec id bs
  | .unsupported => .err

inductive Kind where
  | unchanged | changed | onlyUtf8Bom
  deriving DecidableEq, Repr, Inhabited

def stripBomScalars : List Nat → List Nat
  | 0xFEFF :: rest => rest
  | l => l

/-- `decode_arc_source_detail`: stored text (as UTF-8 bytes) and how it relates to the input -/
def decodeDetail (otherDec : Nat → Bytes → Conv) (cs : Charset) (bs : Bytes) : Option (Bytes × Kind) :=
  match convert otherDec cs bs with
  | .err => none
  | .borrowed =>
    match bs with
    | 0xEF :: 0xBB :: 0xBF :: rest => some (rest, .onlyUtf8Bom)
    | _ => some (bs, .unchanged)
  | .owned text => some (encodeUtf8 (stripBomScalars text), .changed)

/-- `ModuleTextSource::try_get_original_bytes` -/
def tryGetOriginalBytes (text : Bytes) (k : Kind) : Option Bytes :=
  match k with
  | .unchanged => some text
  | .changed => none
  | .onlyUtf8Bom => some (0xEF :: 0xBB :: 0xBF :: text)

/-- `JsModule::size` / `JsonModule::size` / serialised `size` -/
def size (text : Bytes) : Nat := text.length

/-- `new_source_with_text` end to end -/
def newSource (otherDec : Nat → Bytes → Conv) (header : Option Charset) (isFile : Bool) (bs : Bytes) :
    Option (Bytes × Kind) :=
  decodeDetail otherDec (chooseCharset header isFile bs) bs

end DG.Decode
