/-!
# Module information and its JSON form (src/analysis.rs 18-290, src/graph.rs 154-222)

`ModuleInfo` as the analyser produces it, the JSON value `serde` writes for it (field renames,
`skip_serializing_if`, internally/externally tagged and untagged enums, `flatten`, the tuple form
of ranges) and the reader (`default`s, `Option` fields, both the tuple and the object form of
ranges and positions, unknown fields ignored).
-/
namespace DG.MI

/-- JSON values (numbers are naturals: line/character indices) -/
inductive J where
  | null
  | bool (b : Bool)
  | num (n : Nat)
  | str (s : String)
  | arr (l : List J)
  | obj (kvs : List (String × J))
  deriving Repr, Inhabited

structure Pos where
  line : Nat
  char : Nat
  deriving DecidableEq, Repr, Inhabited

structure Range where
  s : Pos
  e : Pos
  deriving DecidableEq, Repr, Inhabited

structure SpecR where
  text : String
  range : Range
  deriving DecidableEq, Repr, Inhabited

/-- `ImportAttribute` -/
inductive Attr where
  | unknown
  | known (v : String)
  deriving DecidableEq, Repr, Inhabited

/-- `ImportAttributes` (the map as an association list in JSON order) -/
inductive Attrs where
  | none
  | unknown
  | known (m : List (String × Attr))
  deriving DecidableEq, Repr, Inhabited

inductive StaticKind where
  | import | importDefer | importSource | importType | importEquals
  | export | exportType | exportEquals | maybeTsModuleAugmentation
  deriving DecidableEq, Repr, Inhabited

inductive DynKind where
  | import | importDefer | importSource | require
  deriving DecidableEq, Repr, Inhabited

inductive TPart where
  | str (v : String)
  | expr
  deriving DecidableEq, Repr, Inhabited

inductive DynArg where
  | str (s : String)
  | template (l : List TPart)
  | expr
  deriving DecidableEq, Repr, Inhabited

structure StaticDep where
  kind : StaticKind
  typesSpecifier : Option SpecR
  specifier : String
  specifierRange : Range
  sideEffect : Bool
  attrs : Attrs
  deriving DecidableEq, Repr, Inhabited

structure DynDep where
  kind : DynKind
  typesSpecifier : Option SpecR
  argument : DynArg
  argumentRange : Range
  attrs : Attrs
  deriving DecidableEq, Repr, Inhabited

inductive Dep where
  | static (d : StaticDep)
  | dynamic (d : DynDep)
  deriving DecidableEq, Repr, Inhabited

inductive ResMode where
  | require | import
  deriving DecidableEq, Repr, Inhabited

inductive TsRef where
  | path (s : SpecR)
  | types (s : SpecR) (mode : Option ResMode)
  deriving DecidableEq, Repr, Inhabited

structure JsDoc where
  spec : SpecR
  mode : Option ResMode
  deriving DecidableEq, Repr, Inhabited

structure ModuleInfo where
  script : Bool
  deps : List Dep
  tsRefs : List TsRef
  selfTypes : Option SpecR
  jsxSrc : Option SpecR
  jsxSrcTypes : Option SpecR
  jsdoc : List JsDoc
  sourceMap : Option SpecR
  deriving DecidableEq, Repr, Inhabited

/-! ## writing -/

/-- an object from fields some of which are skipped -/
def mkFields (fs : List (String × Option J)) : List (String × J) :=
  fs.filterMap fun p => p.2.map fun v => (p.1, v)
def mkObj (fs : List (String × Option J)) : J := .obj (mkFields fs)

def encPos (p : Pos) : J := .arr [.num p.line, .num p.char]
def encRange (r : Range) : J := .arr [encPos r.s, encPos r.e]
def specFields (s : SpecR) : List (String × Option J) :=
  [("text", some (.str s.text)), ("range", some (encRange s.range))]
def encSpecR (s : SpecR) : J := mkObj (specFields s)

def encAttr : Attr → J
  | .unknown => .null
  | .known v => .str v

def encAttrs : Attrs → Option J
  | .none => none   -- skip_serializing_if = "ImportAttributes::is_none"
  | .unknown => some (.str "unknown")
  | .known m => some (.obj [("known", .obj (m.map fun p => (p.1, encAttr p.2)))])

def StaticKind.name : StaticKind → String
  | .import => "import" | .importDefer => "importDefer" | .importSource => "importSource"
  | .importType => "importType" | .importEquals => "importEquals" | .export => "export"
  | .exportType => "exportType" | .exportEquals => "exportEquals"
  | .maybeTsModuleAugmentation => "maybeTsModuleAugmentation"

def DynKind.name : DynKind → String
  | .import => "import" | .importDefer => "importDefer" | .importSource => "importSource"
  | .require => "require"

def encTPart : TPart → J
  | .str v => .obj [("type", .str "string"), ("value", .str v)]
  | .expr => .obj [("type", .str "expr")]

def encDynArg : DynArg → Option J
  | .str s => some (.str s)
  | .template l => some (.arr (l.map encTPart))
  | .expr => none   -- skip_serializing_if = "DynamicArgument::is_expr"

def optBool (b : Bool) : Option J := if b then some (.bool true) else none

def staticFields (d : StaticDep) : List (String × J) :=
  mkFields [("type", some (.str "static")), ("kind", some (.str d.kind.name)),
    ("typesSpecifier", d.typesSpecifier.map encSpecR), ("specifier", some (.str d.specifier)),
    ("specifierRange", some (encRange d.specifierRange)), ("sideEffect", optBool d.sideEffect),
    ("importAttributes", encAttrs d.attrs)]
def encStatic (d : StaticDep) : J := .obj (staticFields d)

def encDynKind (k : DynKind) : Option J :=
  if k = .import then none else some (.str k.name)   -- skip_serializing_if = "is_dynamic_esm"

def dynFields (d : DynDep) : List (String × J) :=
  mkFields [("type", some (.str "dynamic")), ("kind", encDynKind d.kind),
    ("typesSpecifier", d.typesSpecifier.map encSpecR), ("argument", encDynArg d.argument),
    ("argumentRange", some (encRange d.argumentRange)), ("importAttributes", encAttrs d.attrs)]
def encDyn (d : DynDep) : J := .obj (dynFields d)

def encDep : Dep → J
  | .static d => encStatic d
  | .dynamic d => encDyn d

def ResMode.name : ResMode → String
  | .require => "require" | .import => "import"

def encMode (m : Option ResMode) : Option J := m.map fun m => .str m.name

def tsRefFields : TsRef → List (String × J)
  | .path s => mkFields [("type", some (.str "path")), ("text", some (.str s.text)), ("range", some (encRange s.range))]
  | .types s m => mkFields [("type", some (.str "types")), ("text", some (.str s.text)),
      ("range", some (encRange s.range)), ("resolutionMode", encMode m)]
def encTsRef (r : TsRef) : J := .obj (tsRefFields r)

def jsDocFields (d : JsDoc) : List (String × J) :=
  mkFields [("text", some (.str d.spec.text)), ("range", some (encRange d.spec.range)),
    ("resolutionMode", encMode d.mode)]
def encJsDoc (d : JsDoc) : J := .obj (jsDocFields d)

def optList (l : List J) : Option J := if l.isEmpty then none else some (.arr l)

/-- `serde_json::to_value(&module_info)` -/
def infoFields (m : ModuleInfo) : List (String × J) :=
  mkFields [("script", optBool m.script), ("dependencies", optList (m.deps.map encDep)),
    ("tsReferences", optList (m.tsRefs.map encTsRef)), ("selfTypesSpecifier", m.selfTypes.map encSpecR),
    ("jsxImportSource", m.jsxSrc.map encSpecR), ("jsxImportSourceTypes", m.jsxSrcTypes.map encSpecR),
    ("jsdocImports", optList (m.jsdoc.map encJsDoc)), ("sourceMapUrl", m.sourceMap.map encSpecR)]
def encode (m : ModuleInfo) : J := .obj (infoFields m)

/-! ## reading -/

def fields : J → Option (List (String × J))
  | .obj kvs => some kvs
  | _ => none

def getNat (kvs : List (String × J)) (k : String) : Option Nat :=
  match kvs.lookup k with
  | some (.num n) => some n
  | _ => none

def getStr (kvs : List (String × J)) (k : String) : Option String :=
  match kvs.lookup k with
  | some (.str s) => some s
  | _ => none

/-- a derived struct reader takes a map or a sequence -/
def decPos : J → Option Pos
  | .obj kvs => do pure { line := ← getNat kvs "line", char := ← getNat kvs "character" }
  | .arr [.num l, .num c] => some { line := l, char := c }
  | _ => none

def zeroPos : Pos := { line := 0, char := 0 }

def decRange : J → Option Range
  | .arr [] => some { s := zeroPos, e := zeroPos }
  | .arr [a] => do pure { s := ← decPos a, e := zeroPos }
  | .arr [a, b] => do pure { s := ← decPos a, e := ← decPos b }
  | .obj kvs => do
    let s ← match kvs.lookup "start" with
      | none => some zeroPos
      | some j => decPos j
    let e ← match kvs.lookup "end" with
      | none => some zeroPos
      | some j => decPos j
    pure { s := s, e := e }
  | _ => none

def specOf (kvs : List (String × J)) : Option SpecR := do
  let t ← getStr kvs "text"
  let r ← (kvs.lookup "range").bind decRange
  pure { text := t, range := r }

def decSpecR : J → Option SpecR
  | .obj kvs => specOf kvs
  | _ => none

/-- an `Option` field with `default`: missing or null is `None` -/
def optField {α} (dec : J → Option α) (kvs : List (String × J)) (k : String) : Option (Option α) :=
  match kvs.lookup k with
  | none => some none
  | some .null => some none
  | some j => (dec j).map some

def decAttr : J → Option Attr
  | .null => some .unknown
  | .str v => some (.known v)
  | _ => none

def decAttrEntries : List (String × J) → Option (List (String × Attr))
  | [] => some []
  | (k, j) :: r => do
    let a ← decAttr j
    let rest ← decAttrEntries r
    pure ((k, a) :: rest)

def decAttrs (kvs : List (String × J)) : Option Attrs :=
  match kvs.lookup "importAttributes" with
  | none => some .none
  | some (.str "none") => some .none
  | some (.str "unknown") => some .unknown
  | some (.obj [("known", .obj m)]) => (decAttrEntries m).map .known
  | _ => none

def StaticKind.parse : String → Option StaticKind
  | "import" => some .import | "importDefer" => some .importDefer | "importSource" => some .importSource
  | "importType" => some .importType | "importEquals" => some .importEquals | "export" => some .export
  | "exportType" => some .exportType | "exportEquals" => some .exportEquals
  | "maybeTsModuleAugmentation" => some .maybeTsModuleAugmentation
  | _ => none

def DynKind.parse : String → Option DynKind
  | "import" => some .import | "importDefer" => some .importDefer | "importSource" => some .importSource
  | "require" => some .require
  | _ => none

def decTPart : J → Option TPart
  | .obj kvs =>
    match getStr kvs "type" with
    | some "string" => (getStr kvs "value").map .str
    | some "expr" => some .expr
    | _ => none
  | _ => none

def decList {α} (dec : J → Option α) : List J → Option (List α)
  | [] => some []
  | j :: r => do
    let a ← dec j
    let rest ← decList dec r
    pure (a :: rest)

/-- untagged: a string, else an array of template parts, else (null) the unanalysable expression -/
def decDynArg (kvs : List (String × J)) : Option DynArg :=
  match kvs.lookup "argument" with
  | none => some .expr
  | some (.str s) => some (.str s)
  | some (.arr l) => (decList decTPart l).map .template
  | some .null => some .expr
  | _ => none

def boolField (kvs : List (String × J)) (k : String) : Option Bool :=
  match kvs.lookup k with
  | none => some false
  | some (.bool b) => some b
  | _ => none

def decStatic (kvs : List (String × J)) : Option StaticDep := do
  let kind ← (getStr kvs "kind").bind StaticKind.parse
  let ts ← optField decSpecR kvs "typesSpecifier"
  let sp ← getStr kvs "specifier"
  let r ← (kvs.lookup "specifierRange").bind decRange
  let se ← boolField kvs "sideEffect"
  let ats ← decAttrs kvs
  pure { kind := kind, typesSpecifier := ts, specifier := sp, specifierRange := r, sideEffect := se, attrs := ats }

def decDynKind (kvs : List (String × J)) : Option DynKind :=
  match kvs.lookup "kind" with
  | none => some .import
  | some (.str s) => DynKind.parse s
  | _ => none

def decDyn (kvs : List (String × J)) : Option DynDep := do
  let kind ← decDynKind kvs
  let ts ← optField decSpecR kvs "typesSpecifier"
  let arg ← decDynArg kvs
  let r ← (kvs.lookup "argumentRange").bind decRange
  let ats ← decAttrs kvs
  pure { kind := kind, typesSpecifier := ts, argument := arg, argumentRange := r, attrs := ats }

def decDep : J → Option Dep
  | .obj kvs =>
    match getStr kvs "type" with
    | some "static" => (decStatic kvs).map .static
    | some "dynamic" => (decDyn kvs).map .dynamic
    | _ => none
  | _ => none

def ResMode.parse : String → Option ResMode
  | "require" => some .require | "import" => some .import
  | _ => none

def decMode (kvs : List (String × J)) : Option (Option ResMode) :=
  match kvs.lookup "resolutionMode" with
  | none => some none
  | some .null => some none
  | some (.str s) => (ResMode.parse s).map some
  | _ => none

def decTsRef : J → Option TsRef
  | .obj kvs =>
    match getStr kvs "type" with
    | some "path" => (specOf kvs).map .path
    | some "types" => do pure (.types (← specOf kvs) (← decMode kvs))
    | _ => none
  | _ => none

def decJsDoc : J → Option JsDoc
  | .obj kvs => do pure { spec := ← specOf kvs, mode := ← decMode kvs }
  | _ => none

def listField {α} (dec : J → Option α) (kvs : List (String × J)) (k : String) : Option (List α) :=
  match kvs.lookup k with
  | none => some []
  | some (.arr l) => decList dec l
  | _ => none

/-- `serde_json::from_value::<ModuleInfo>` -/
def decode : J → Option ModuleInfo
  | .obj kvs => do
    let script ← boolField kvs "script"
    let deps ← listField decDep kvs "dependencies"
    let refs ← listField decTsRef kvs "tsReferences"
    let st ← optField decSpecR kvs "selfTypesSpecifier"
    let js ← optField decSpecR kvs "jsxImportSource"
    let jst ← optField decSpecR kvs "jsxImportSourceTypes"
    let jd ← listField decJsDoc kvs "jsdocImports"
    let sm ← optField decSpecR kvs "sourceMapUrl"
    pure { script := script, deps := deps, tsRefs := refs, selfTypes := st, jsxSrc := js,
           jsxSrcTypes := jst, jsdoc := jd, sourceMap := sm }
  | _ => none

/-! ## `module_graph_1_to_2` (the part the model covers: the leading comment of a dependency is
replaced by the types specifier found in it; `find` stands for `find_deno_types` on the text of the
last leading comment, giving the specifier text, its character range in the comment text and whether it is unquoted) -/

structure Comment where
  text : String
  range : Range
  deriving DecidableEq, Repr, Inhabited

/-- `comment_position_to_position_range`: the comment text starts after `//` or `/*` (+2); `lo`/`hi`
are the character offsets of the specifier in the comment text; the range covers the quotes (-1, +1)
unless the pragma is written without quotes; always on the comment's first line -/
def commentRange (start : Pos) (lo hi : Nat) (quoteless : Bool) : Range :=
  let pad := if quoteless then 0 else 1
  { s := { line := start.line, char := start.char + 2 + lo - pad },
    e := { line := start.line, char := start.char + 2 + hi + pad } }

def upgradeTypes (find : String → Option (String × Nat × Nat × Bool)) (comments : List Comment) : Option SpecR :=
  match comments.getLast? with
  | none => none
  | some c =>
    match find c.text with
    | none => none
    | some (t, lo, hi, q) => some { text := t, range := commentRange c.range.s lo hi q }

end DG.MI
