import DG.Build
/-!
# Incremental builds and reloads (`ModuleGraph::build` on a non-empty graph, `ModuleGraph::reload`)

A `Builder` is created afresh for every call: the queue, the dynamic-branch table, the deferred
table and `resolved_roots` start empty; slots, redirects, roots and configured imports persist in
the graph.
-/
namespace DG.Reload
open DG DG.Build Tables

/-- what persists between calls -/
structure GSt where
  slots : List (Spec × BSlot) := []
  redirects : List (Spec × Spec) := []
  roots : List Spec := []
  /-- referrers of the configured imports already in the graph -/
  importReferrers : List Spec := []
  deriving Repr, Inhabited

def freshBuilder (o : Opts) (g : GSt) : St :=
  { slots := g.slots, redirects := g.redirects, inDyn := o.isDynamic }

/-- `Builder::build`: roots and configured imports the graph already has are skipped -/
def buildMore (w : World) (o : Opts) (g : GSt) (roots : List Spec) (imports : List (Spec × List Dep))
    (fuel : Nat) : Option (GSt × St) :=
  let newRoots := roots.filter fun r => !g.roots.contains r
  let newImports := (effImports o imports).filter fun p => !g.importReferrers.contains p.1
  let st := newRoots.foldl (fun st r =>
    load w o 0 { spec := r, range := none, spRef := none, isAsset := false, inDyn := st.inDyn,
                 isRoot := true, attr := none } st) (freshBuilder o g)
  let st := (newImports.flatMap (·.2)).foldl (fun st (d : Dep) =>
    match d.type with
    | .ok s rng =>
      load w o 0 { spec := s, range := some rng, spRef := none, isAsset := false, inDyn := st.inDyn,
                   isRoot := st.isResolvedRoot s, attr := none } st
    | _ => st) st
  match runLoop w o fuel st with
  | some out =>
    some ({ slots := out.slots, redirects := out.redirects,
            roots := newRoots.foldl (fun acc r => if acc.contains r then acc else acc ++ [r]) g.roots,
            importReferrers := g.importReferrers ++ newImports.map (·.1) }, out)
  | none => none

/-- `ModuleGraph::resolve` on the persisted redirects -/
def GSt.resolve (g : GSt) (s : Spec) : Spec :=
  resolveWith (effRedirect (fun x => (g.slots.lookup x).isSome) (fun x => g.redirects.lookup x)) resolveCap
    (match resolveCap with | some m => m | none => g.redirects.length + 1) s

/-- `Builder::reload`: each specifier is resolved through the redirects, its entry removed, and
loaded again as a root -/
def reload (w : World) (o : Opts) (g : GSt) (specs : List Spec) (fuel : Nat) : Option (GSt × St) :=
  let resolved := specs.map g.resolve
  let st := resolved.foldl (fun st s =>
    load w o 0 { spec := s, range := none, spRef := none, isAsset := false, inDyn := st.inDyn,
                 isRoot := true, attr := none } { st with slots := erase st.slots s }) (freshBuilder o g)
  match runLoop w o fuel st with
  | some out => some ({ g with slots := out.slots, redirects := out.redirects }, out)
  | none => none

end DG.Reload
