import DG.Resolve
/-!
# The graph builder (`Builder`, src/graph.rs 4633-6771) as a state machine

Scope of this model: URL / `node:` / `npm:`-without-resolver specifiers (the jsr registry
paths are modelled separately).  The outside world is a parameter (`World`): what the loader
answers for each specifier and, per module content, the result of the per-module analysis
(`parse_module`, i.e. `fill_module_dependencies` under the world's graph kind and resolver).

The model follows the code statement by statement: `load_with_redirect_count`,
`load_pending_module`/`try_load`, `check_specifier`/`add_redirect`, `visit`, `visit_module`,
`visit_module_dependencies`, the drain order of `resolve_pending` (deferred → dynamic
branches) and `handle_provided_imports`.
-/
namespace DG.Build
open DG Tables

/-- the `type` import attribute kinds the builder distinguishes -/
inductive Attr where
  | json | text | bytes | css
  /-- yaml / toml / json5 / jsonc -/
  | config
  | other
  deriving DecidableEq, Repr, Inhabited

inductive ErrKind where
  | missing | loader | decode | parse | wasmParse | unsupportedMedia | invalidTypeAssertion
  | unsupportedAttr | sourcePhase | tooManyRedirects | checksum | checksumRedirect
  deriving DecidableEq, Repr, Inhabited

/-- an error entry: kind, the error's own specifier, the referring range (interned) -/
structure BErr where
  kind : ErrKind
  spec : Spec
  referrer : Option Nat
  deriving DecidableEq, Repr, Inhabited

/-- a dependency as recorded by `fill_module_dependencies`, plus what
`visit_module_dependencies` derives from its import list -/
structure BDep where
  text : Nat
  code : Res
  type : Res
  dyn : Bool
  attr : Option Attr
  /-- every import of this specifier is an asset import (text/bytes/css) or source phase -/
  isAsset : Bool
  /-- range of the first source-phase import, if any -/
  sourcePhase : Option Nat
  deriving DecidableEq, Repr, Inhabited

inductive BMod where
  | js (mt : MediaType) (deps : List BDep) (typesDep : Option Res) (sourceMap : Option Res)
  | wasm (deps : List BDep)
  | json
  | node
  | external (wasAssetLoad : Bool)
  deriving DecidableEq, Repr, Inhabited

inductive BSlot where
  | module (m : BMod)
  | err (e : BErr)
  | pending (isAsset : Bool)
  deriving DecidableEq, Repr, Inhabited

/-- per-module analysis result (an input: swc + `fill_module_dependencies`) -/
structure Parsed where
  deps : List BDep
  typesDep : Option Res
  sourceMapDep : Option Res
  deriving Repr, Inhabited

/-- what is known about a module response's content -/
structure Content where
  /-- media type from the final specifier and the headers -/
  mt : MediaType
  schemeFile : Bool
  decodable : Bool
  parsable : Bool
  wasmOk : Bool
  parsed : Parsed
  deriving Repr, Inhabited

inductive Resp where
  | module (final : Spec)
  | redirect (to : Spec)
  | external (final : Spec)
  | missing
  | error
  /-- the loader rejects the content for the checksum it was given -/
  | checksumError
  deriving DecidableEq, Repr, Inhabited

inductive SpecKind where
  | url | node
  deriving DecidableEq, Repr, Inhabited

structure World where
  resp : List (Spec × Resp)
  content : List (Spec × Content)
  /-- `MediaType::from_specifier` (only Wasm matters: source-phase eligibility of assets) -/
  wasmExt : List Spec
  nodeSpecs : List Spec
  maxRedirects : Nat
  /-- lockfile: known checksums of remote specifiers (interned) -/
  lockRemote : List (Spec × Nat)
  /-- hash (interned) of the bytes the loader serves for an entry from its cache … -/
  hashUse : List (Spec × Nat) := []
  /-- … and when bypassing the cache (`CacheSetting::Reload`) -/
  hashReload : List (Spec × Nat) := []
  /-- a `Locker` is configured -/
  hasLocker : Bool := false
  /-- specifiers with scheme http / https -/
  remote : List Spec := []
  /-- what the loader answers when it bypasses its cache, where that differs (the remote server
  changed since the cached copy was made) -/
  reloadResp : List (Spec × Resp) := []
  deriving Repr, Inhabited

def World.respOf (w : World) (s : Spec) : Resp := (w.resp.lookup s).getD .missing
/-- the loader verifies the checksum it is given: module content whose hash differs is rejected -/
def World.respFor (w : World) (s : Spec) (reload : Bool) : Resp :=
  if reload then (w.reloadResp.lookup s).getD (w.respOf s) else w.respOf s
def World.answer (w : World) (s : Spec) (checksum : Option Nat) (reload : Bool) : Resp :=
  match w.respFor s reload with
  | .module f =>
    match checksum with
    | some c =>
      if (if reload then w.hashReload.lookup s else w.hashUse.lookup s) == some c then .module f
      else .checksumError
    | none => .module f
  | r => r
def World.contentOf (w : World) (s : Spec) : Content := (w.content.lookup s).getD default
def World.kindOf (w : World) (s : Spec) : SpecKind := if w.nodeSpecs.contains s then .node else .url

structure Opts where
  kind : GraphKind
  isDynamic : Bool
  skipDynamicDeps : Bool
  unstableBytes : Bool
  unstableText : Bool
  unstableCss : Bool
  unstableConfig : Bool
  deriving Repr, Inhabited

/-- `LoadOptionsRef` -/
structure LoadOpts where
  spec : Spec
  range : Option Nat
  spRef : Option Nat
  isAsset : Bool
  inDyn : Bool
  isRoot : Bool
  attr : Option (Attr × Nat)
  deriving Repr, Inhabited

/-- `PendingModuleLoadItem` -/
structure Req where
  spec : Spec
  count : Nat
  range : Option Nat
  spRef : Option Nat
  isAsset : Bool
  inDyn : Bool
  isRoot : Bool
  attr : Option (Attr × Nat)
  checksum : Option Nat
  deriving Repr, Inhabited

structure DynBranch where
  range : Nat
  spRef : Option Nat
  isAsset : Bool
  attr : Option (Attr × Nat)
  deriving Repr, Inhabited

structure Deferred where
  range : Option Nat
  spRef : Option Nat
  inDyn : Bool
  isRoot : Bool
  attr : Option (Attr × Nat)
  deriving Repr, Inhabited

/-- one call on the `Loader` trait -/
structure LoadCall where
  spec : Spec
  ensureCached : Bool
  reload : Bool
  checksum : Option Nat
  inDyn : Bool
  deriving DecidableEq, Repr, Inhabited

structure St where
  slots : List (Spec × BSlot) := []
  redirects : List (Spec × Spec) := []
  pending : List Req := []
  dyn : List (Spec × DynBranch) := []
  deferred : List (Spec × Deferred) := []
  inDyn : Bool := false
  resolvedRoots : List Spec := []
  log : List LoadCall := []
  /-- lockfile writes `set_remote_checksum(specifier, checksum)` in order (checksums are interned
  hashes of the bytes used) -/
  lockWrites : List (Spec × Nat) := []
  deriving Repr, Inhabited

/-- map insert: replace in place or append (`BTreeMap::insert` / `IndexMap::insert`) -/
def upsert {α} (l : List (Spec × α)) (k : Spec) (v : α) : List (Spec × α) :=
  if l.any (·.1 == k) then l.map (fun p => if p.1 == k then (k, v) else p) else l ++ [(k, v)]

def erase {α} (l : List (Spec × α)) (k : Spec) : List (Spec × α) := l.filter (·.1 != k)

def St.slot (st : St) (s : Spec) : Option BSlot := st.slots.lookup s
def St.setSlot (st : St) (s : Spec) (sl : BSlot) : St := { st with slots := upsert st.slots s sl }

def St.resolve (st : St) (s : Spec) : Spec :=
  resolveWith (effRedirect (fun x => (st.slots.lookup x).isSome) (fun x => st.redirects.lookup x)) resolveCap
    (match resolveCap with | some m => m | none => st.redirects.length + 1) s

/-- the redirect walk at the head of `load_with_redirect_count`: follow known redirects hop by
hop, stop at the first specifier that already has an entry; the seen set (which contains the
start) guards against cycles -/
def St.resolveForLoadGo (st : St) : Nat → List Spec → Spec → Spec
  | 0, _, cur => cur
  | n + 1, seen, cur =>
    if (st.slot cur).isSome then cur
    else
      match st.redirects.lookup cur with
      | some nx => if nx ∈ seen then cur else st.resolveForLoadGo n (nx :: seen) nx
      | none => cur

def St.resolveForLoad (st : St) (s : Spec) : Spec :=
  st.resolveForLoadGo (st.redirects.length + 1) [s] s

/-- `parse_module_source_and_info`: the media-type / attribute / root / dynamic-branch dispatch -/
inductive Class where
  | err (k : ErrKind) (referrer : Option Nat)
  | json
  | js (mt : MediaType)
  | wasm
  deriving DecidableEq, Repr, Inhabited

def isJsLike : MediaType → Bool
  | .JavaScript | .Mjs | .Jsx | .TypeScript | .Mts | .Tsx | .Cjs | .Cts | .Dts | .Dmts | .Dcts => true
  | _ => false

def classify (o : Opts) (c : Content) (attr : Option (Attr × Nat)) (range : Option Nat)
    (spRef : Option Nat) (isRoot : Bool) (inDyn : Bool) : Class :=
  let mt := if isRoot && c.mt == .Unknown then MediaType.JavaScript else c.mt
  match spRef with
  | some r =>
    if !(mt == .Wasm && attr.isNone) then .err .sourcePhase (some r)
    else classifyRest mt
  | none => classifyRest mt
where
  classifyRest (mt : MediaType) : Class :=
    let attrKind := attr.map (·.1)
    let attrRange := attr.map (·.2)
    let attrOk := match attrKind with
      | none => true
      | some .json | some .text | some .bytes => true
      | some .config => o.unstableConfig
      | some _ => false
    if !attrOk then .err .unsupportedAttr attrRange
    else if mt == .Json && (isRoot || inDyn || attrKind == some .json) then
      (if c.decodable then .json else .err .decode none)
    else if attrKind == some .json then .err .invalidTypeAssertion attrRange
    else if (mt == .Cjs || mt == .Cts) && !c.schemeFile then .err .unsupportedMedia range
    else if isJsLike mt then
      (if !c.decodable then .err .decode none
       else if !c.parsable then .err .parse none
       else .js mt)
    else if mt == .Wasm then
      (if !c.wasmOk then .err .wasmParse none
       else if !c.parsable then .err .parse none
       else .wasm)
    else .err .unsupportedMedia range

/-- `locker.get_remote_checksum`: the lockfile entry, or a checksum recorded earlier in this build -/
def knownChecksum (w : World) (st : St) (spec : Spec) : Option Nat :=
  if w.hasLocker then (w.lockRemote.lookup spec).or (st.lockWrites.lookup spec) else none

/-- `load_pending_module`: mark pending and queue the request -/
def loadPendingModule (w : World) (st : St) (lo : LoadOpts) (count : Nat) (spec : Spec) : St :=
  let st := st.setSlot spec (.pending lo.isAsset)
  { st with pending := st.pending ++ [{
      spec := spec, count := count, range := lo.range, spRef := lo.spRef, isAsset := lo.isAsset,
      inDyn := lo.inDyn, isRoot := lo.isRoot, attr := lo.attr,
      checksum := knownChecksum w st spec }] }

/-- what `load_with_redirect_count` decides before anything is queued -/
inductive LoadDecision where
  /-- the asset pre-checks reject the request: an error entry is stored -/
  | reject (e : BErr)
  /-- an entry exists already: nothing to do -/
  | skip
  /-- an asset load of the same specifier is pending and the content is needed: defer -/
  | defer
  | proceed
  deriving Repr, Inhabited

def assetAttrReject (o : Opts) (lo : LoadOpts) (spec : Spec) : Option BErr :=
  match lo.attr with
  | some (a, r) =>
    let allowed := match a with
      | .bytes => o.unstableBytes
      | .text => o.unstableText
      | .css => o.unstableCss
      | _ => false
    if !allowed then some { kind := .unsupportedAttr, spec := spec, referrer := some r } else none
  | none => none

def assetReject (w : World) (o : Opts) (lo : LoadOpts) (spec : Spec) : Option BErr :=
  if lo.isAsset then
    match lo.spRef with
    | some r =>
      if !(w.wasmExt.contains spec && lo.attr.isNone) then
        some { kind := .sourcePhase, spec := spec, referrer := some r }
      else assetAttrReject o lo spec
    | none => assetAttrReject o lo spec
  else none

def loadDecision (w : World) (o : Opts) (lo : LoadOpts) (st : St) (spec : Spec) : LoadDecision :=
  match assetReject w o lo spec with
  | some e => .reject e
  | none =>
    match st.slot spec with
    | some sl =>
      let wasExternalAsset := match sl with | .module (.external true) => true | _ => false
      if wasExternalAsset && !lo.isAsset then .proceed
      else
        let isPendingAsset := match sl with | .pending true => true | _ => false
        if isPendingAsset && !lo.isAsset then .defer else .skip
    | none => .proceed

def addDeferred (st : St) (spec : Spec) (lo : LoadOpts) : St :=
  if st.deferred.any (·.1 == spec) then st
  else { st with deferred := st.deferred ++ [(spec,
    { range := lo.range, spRef := lo.spRef, inDyn := lo.inDyn, isRoot := lo.isRoot, attr := lo.attr })] }

/-- `load_with_redirect_count` -/
def load (w : World) (o : Opts) (count : Nat) (lo : LoadOpts) (st : St) : St :=
  let spec := st.resolveForLoad lo.spec
  match loadDecision w o lo st spec with
  | .reject e => st.setSlot spec (.err e)
  | .skip => st
  | .defer => addDeferred st spec lo
  | .proceed =>
    match w.kindOf spec with
    | .node => st.setSlot spec (.module .node)
    | .url => loadPendingModule w st lo count spec

def St.isResolvedRoot (st : St) (s : Spec) : Bool := st.resolvedRoots.contains s
def St.addResolvedRoot (st : St) (s : Spec) : St :=
  if st.resolvedRoots.contains s then st else { st with resolvedRoots := st.resolvedRoots ++ [s] }

/-- the code side of one dependency in `visit_module_dependencies` -/
def visitDepCode (w : World) (o : Opts) (d : BDep) (st : St) : BDep × St :=
  if o.kind.includeCode || d.type == .none then
    match d.code with
    | .ok s rng =>
      let attr := d.attr.map fun a => (a, rng)
      if d.dyn && !st.inDyn then
        let st :=
          if st.dyn.any (·.1 == s) then
            { st with dyn := st.dyn.map fun p =>
                if p.1 == s && !d.isAsset then
                  let b := p.2
                  (p.1, { b with isAsset := false })
                else p }
          else { st with dyn := st.dyn ++ [(s,
            { range := rng, spRef := d.sourcePhase, isAsset := d.isAsset, attr := attr })] }
        (d, st)
      else
        (d, load w o 0 { spec := s, range := some rng, spRef := d.sourcePhase, isAsset := d.isAsset,
                         inDyn := st.inDyn, isRoot := st.isResolvedRoot s, attr := attr } st)
    | _ => (d, st)
  else ({ d with code := .none }, st)

/-- the type side of one dependency in `visit_module_dependencies` -/
def visitDepType (w : World) (o : Opts) (d : BDep) (st : St) : BDep × St :=
  if o.kind.includeTypes then
    match d.type with
    | .ok s rng =>
      let attr := d.attr.map fun a => (a, rng)
      if d.dyn && !st.inDyn then
        let b : DynBranch := { range := rng, spRef := d.sourcePhase, isAsset := d.isAsset, attr := attr }
        (d, { st with dyn := upsert st.dyn s b })
      else
        (d, load w o 0 { spec := s, range := some rng, spRef := d.sourcePhase, isAsset := d.isAsset,
                         inDyn := st.inDyn, isRoot := st.isResolvedRoot s, attr := attr } st)
    | _ => (d, st)
  else ({ d with type := .none }, st)

/-- `visit_module_dependencies`: loads / dynamic-branch bookkeeping per dependency, and the
pruning of the side the graph kind does not keep -/
def visitDeps (w : World) (o : Opts) : List BDep → St → List BDep × St
  | [], st => ([], st)
  | d :: rest, st =>
    if d.dyn && o.skipDynamicDeps then
      let r := visitDeps w o rest st
      (d :: r.1, r.2)
    else
      let c := visitDepCode w o d st
      let t := visitDepType w o c.1 c.2
      let r := visitDeps w o rest t.2
      (t.1 :: r.1, r.2)

/-- the source-map asset load of `visit_module` -/
def loadSourceMap (w : World) (o : Opts) (p : Parsed) (st : St) : St :=
  match p.sourceMapDep with
  | some (.ok s rng) =>
    load w o 0 { spec := s, range := some rng, spRef := none, isAsset := true, inDyn := st.inDyn,
                 isRoot := st.isResolvedRoot s, attr := none } st
  | _ => st

/-- dependencies of a JS module are visited unless the graph is types-only and the module has a
types dependency (then they are cleared) -/
def visitJsDeps (w : World) (o : Opts) (p : Parsed) (st : St) : List BDep × St :=
  if o.kind == .All || o.kind == .CodeOnly || p.typesDep.isNone then
    visitDeps w o p.deps (loadSourceMap w o p st)
  else ([], st)

/-- the types-dependency load of `visit_module` (never an asset, never in a dynamic branch) -/
def loadTypesDep (w : World) (o : Opts) (p : Parsed) (st : St) : St :=
  match p.typesDep with
  | some (.ok s rng) =>
    load w o 0 { spec := s, range := some rng, spRef := none, isAsset := false, inDyn := false,
                 isRoot := st.isResolvedRoot s, attr := none } st
  | _ => st

/-- `visit_module` for a classified, analysed module -/
def visitModule (w : World) (o : Opts) (cls : Class) (c : Content) (st : St) : BSlot × St :=
  match cls with
  | .err .. => (.pending false, st)   -- not reachable: callers only pass module classes
  | .json => (.module .json, st)
  | .wasm =>
    let r := visitDeps w o c.parsed.deps st
    (.module (.wasm r.1), r.2)
  | .js mt =>
    let r := visitJsDeps w o c.parsed st
    if o.kind.includeTypes then
      (.module (.js mt r.1 c.parsed.typesDep c.parsed.sourceMapDep), loadTypesDep w o c.parsed r.2)
    else (.module (.js mt r.1 none c.parsed.sourceMapDep), r.2)

/-- "remove a potentially pending redirect that will never resolve" -/
def dropPending (st : St) (req : Spec) : St :=
  match st.slot req with
  | some (.pending _) => { st with slots := erase st.slots req }
  | _ => st

/-- `redirects.entry(requested).or_insert(target)` -/
def recordRedirect (st : St) (req tgt : Spec) : St :=
  if st.redirects.any (·.1 == req) then st
  else { st with redirects := st.redirects ++ [(req, tgt)] }

/-- `check_specifier` + `add_redirect` -/
def checkSpecifier (st : St) (requested target : Spec) : St :=
  if requested == target then st
  else recordRedirect (dropPending st requested) requested target

/-- the outcome of `try_load` for one request -/
inductive Outcome where
  | external (spec : Spec) (isAsset : Bool)
  | module (final : Spec) (cls : Class)
  | redirect (to : Spec)
  | err (e : BErr)
  deriving Repr, Inhabited

def logCall (st : St) (r : Req) (reload : Bool) : St :=
  { st with log := st.log ++ [{ spec := r.spec, ensureCached := r.isAsset, reload := reload,
                                checksum := r.checksum, inDyn := r.inDyn }] }

/-- the answer to a successful (non-asset) module load -/
def moduleOutcome (w : World) (o : Opts) (r : Req) (f : Spec) : Outcome :=
  let c := w.contentOf r.spec
  match classify o c r.attr r.range r.spRef r.isRoot r.inDyn with
  | .err k ref => .err { kind := k, spec := f, referrer := ref }
  | cls => .module f cls

/-- `try_load`; the boolean says whether the cache-bypassing retry was made -/
def tryLoad' (w : World) (o : Opts) (r : Req) : Outcome × Bool :=
  let handleRedirect (to : Spec) : Outcome :=
    if r.checksum.isSome then .err { kind := .checksumRedirect, spec := r.spec, referrer := r.range }
    else if r.count ≥ w.maxRedirects || to == r.spec then
      .err { kind := .tooManyRedirects, spec := r.spec, referrer := r.range }
    else .redirect to
  match w.answer r.spec r.checksum false with
  | .redirect to => (handleRedirect to, false)
  | .missing => (.err { kind := .missing, spec := r.spec, referrer := r.range }, false)
  | .error => (.err { kind := .loader, spec := r.spec, referrer := r.range }, false)
  | .external f => (if r.isAsset then .external r.spec true else .external f false, false)
  | .module f => (if r.isAsset then .external r.spec true else moduleOutcome w o r f, false)
  | .checksumError =>
    -- "attempt to cache bust because the remote server might have changed": one retry
    let integrity : Outcome := .err { kind := .checksum, spec := r.spec, referrer := r.range }
    match w.answer r.spec r.checksum true with
    | .module f => (if r.isAsset then .external r.spec true else moduleOutcome w o r f, true)
    | .external _ => (if r.isAsset then .external r.spec true else integrity, true)
    | _ => (integrity, true)

def tryLoad (w : World) (o : Opts) (r : Req) : Outcome := (tryLoad' w o r).1

/-- `if is_root { self.resolved_roots.insert(specifier) }` -/
def markRoot (st : St) (isRoot : Bool) (s : Spec) : St :=
  if isRoot then st.addResolvedRoot s else st

def isDeclaration : MediaType → Bool
  | .Dts | .Dmts | .Dcts => true
  | _ => false

def Class.mediaType : Class → MediaType
  | .js mt => mt
  | .json => .Json
  | .wasm => .Wasm
  | .err .. => .Unknown

/-- the lockfile write of `visit`: a newly seen remote non-declaration module gets the checksum
of the bytes used recorded, unless the lockfile already has an entry for it -/
def recordChecksum (w : World) (cls : Class) (f : Spec) (hash : Option Nat) (st : St) : St :=
  if w.hasLocker && !isDeclaration cls.mediaType && w.remote.contains f
      && (w.lockRemote.lookup f).isNone && (st.lockWrites.lookup f).isNone then
    { st with lockWrites := st.lockWrites ++ [(f, hash.getD 0)] }
  else st

/-- the loader calls of one request: the load itself and, after a checksum failure, one retry -/
def logRequest (w : World) (o : Opts) (r : Req) (st : St) : St :=
  let st := logCall st r false
  if (tryLoad' w o r).2 then logCall st r true else st

/-- what `resolve_pending` does with the outcome of a request -/
def applyOutcome (w : World) (o : Opts) (r : Req) (st : St) : Outcome → St
  | .err e =>
    let st := checkSpecifier st r.spec e.spec
    st.setSlot e.spec (.err e)
  | .external spec isAsset =>
    let st := markRoot (checkSpecifier st r.spec spec) r.isRoot spec
    match st.slot spec with
    | some (.pending _) => st.setSlot spec (.module (.external isAsset))
    | some _ => st
    | none => st.setSlot spec (.module (.external isAsset))
  | .redirect to =>
    let st := checkSpecifier st r.spec to
    load w o (r.count + 1)
      { spec := to, range := r.range, spRef := r.spRef, isAsset := r.isAsset, inDyn := r.inDyn,
        isRoot := r.isRoot, attr := r.attr } st
  | .module f cls =>
    let hash := if (tryLoad' w o r).2 then w.hashReload.lookup r.spec else w.hashUse.lookup r.spec
    let st := recordChecksum w cls f hash (markRoot (checkSpecifier st r.spec f) r.isRoot f)
    let v := visitModule w o cls (w.contentOf r.spec) st
    v.2.setSlot f v.1

/-- consume the head of `pending` (one iteration of the `resolve_pending` loop body) -/
def stepPending (w : World) (o : Opts) (r : Req) (st : St) : St :=
  applyOutcome w o r (logRequest w o r st) (tryLoad w o r)

/-- the drain phases run whenever `pending` is empty -/
def drain (w : World) (o : Opts) (st : St) : St :=
  if !st.pending.isEmpty then st
  else if !st.deferred.isEmpty then
    let items := st.deferred
    items.foldl (fun st (p : Spec × Deferred) =>
      load w o 0 { spec := p.1, range := p.2.range, spRef := p.2.spRef, isAsset := false,
                   inDyn := p.2.inDyn, isRoot := p.2.isRoot, attr := p.2.attr } st)
      { st with deferred := [] }
  else if !st.inDyn then
    let items := st.dyn
    items.foldl (fun st (p : Spec × DynBranch) =>
      load w o 0 { spec := p.1, range := some p.2.range, spRef := p.2.spRef, isAsset := p.2.isAsset,
                   inDyn := true, isRoot := st.isResolvedRoot p.1, attr := p.2.attr } st)
      { st with inDyn := true, dyn := [] }
  else st

def quiescent (st : St) : Bool := st.pending.isEmpty && st.dyn.isEmpty && st.deferred.isEmpty

/-- one iteration of the `resolve_pending` loop body: consume the head of the queue (if any),
then run the drain phases -/
def iter (w : World) (o : Opts) (st : St) : St :=
  -- with `in_dynamic_branch` already set, `resolve_dynamic_branches` does nothing and the loop
  -- condition can only be left through an empty `dynamic_branches`
  drain w o (match st.pending with
    | r :: rest => stepPending w o r { st with pending := rest }
    | [] => st)

/-- `resolve_pending`; `none` = out of fuel (the build did not finish within `fuel` iterations) -/
def runLoop (w : World) (o : Opts) : Nat → St → Option St
  | 0, _ => none
  | fuel + 1, st => if quiescent st then some st else runLoop w o fuel (iter w o st)

/-- `Builder::build` on a fresh graph: roots, configured imports, then the loop -/
def build (w : World) (o : Opts) (roots : List Spec) (imports : List (Spec × List Dep)) (fuel : Nat) :
    Option St :=
  let st0 : St := { inDyn := o.isDynamic }
  let st := roots.foldl (fun st r =>
    load w o 0 { spec := r, range := none, spRef := none, isAsset := false, inDyn := st.inDyn,
                 isRoot := true, attr := none } st) st0
  let st := (imports.flatMap (·.2)).foldl (fun st (d : Dep) =>
    match d.type with
    | .ok s rng =>
      load w o 0 { spec := s, range := some rng, spRef := none, isAsset := false, inDyn := st.inDyn,
                   isRoot := st.isResolvedRoot s, attr := none } st
    | _ => st) st
  runLoop w o fuel st

/-- `handle_provided_imports`: configured imports are type imports — a graph that does not include
types ignores them (repair of F15: it neither loads their targets nor records them) -/
def effImports (o : Opts) (imports : List (Spec × List Dep)) : List (Spec × List Dep) :=
  if o.kind.includeTypes then imports else []

/-- `ModuleGraph::build` as callers see it -/
def buildGraph (w : World) (o : Opts) (roots : List Spec) (imports : List (Spec × List Dep)) (fuel : Nat) :
    Option St :=
  build w o roots (effImports o imports) fuel

end DG.Build
