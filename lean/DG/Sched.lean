import DG.Build
/-!
# Load completion order (C04)

`Builder::resolve_pending` awaits `FuturesOrdered`: the loader's futures may complete in any
order and after any number of suspensions, but their results are consumed strictly in the order
the requests were queued.  The scheduled model adds to the builder state the set of requests whose
future has completed; a request can only be consumed once it is in that set.
-/
namespace DG.Sched
open DG DG.Build

/-- scheduled state: requests are numbered in queue order; `popped` = how many were consumed,
`ready` = numbers of the requests whose load future has completed -/
structure SSt where
  st : St
  popped : Nat
  ready : List Nat

inductive Event where
  /-- the load future of request number `id` completes -/
  | complete (id : Nat)
  /-- the builder is polled -/
  | poll

def step (w : World) (o : Opts) (s : SSt) : Event → SSt
  | .complete id => { s with ready := id :: s.ready }
  | .poll =>
    if quiescent s.st then s
    else
      match s.st.pending with
      | _ :: _ =>
        if s.ready.contains s.popped then { s with st := iter w o s.st, popped := s.popped + 1 }
        else s   -- the head's future is still outstanding: `Poll::Pending`
      | [] => { s with st := iter w o s.st }

def run (w : World) (o : Opts) (evs : List Event) (s : SSt) : SSt := evs.foldl (step w o) s

end DG.Sched
