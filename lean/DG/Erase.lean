/-!
# Fast check: what is left of a declaration (src/fast_check/transform.rs)

`transform_fn`, `transform_arrow`, `transform_function_body_block_stmt`, `handle_param_pat`,
`transform_var_declarator`, `transform_class` / `transform_class_member`,
`maybe_infer_type_from_expr`, `maybe_transform_expr_if_leavable`, over an abstract syntax in which
types are opaque texts (whitespace-free source) and expressions are classified by what the two
expression analyses can say about them.
-/
namespace DG.FC

abbrev Ty := String

inductive LitK where
  | num (text : String) | str (text : String) | bool (b : Bool) | null | bigint (text : String) | regex
  deriving DecidableEq, Repr, Inhabited

/-- an initialiser / default value, as far as the transform looks into it -/
inductive Expr where
  /-- a literal -/
  | lit (k : LitK)
  /-- an untagged template literal (always a string); `leavable` = its substitutions are leavable -/
  | tpl (leavable : Bool)
  /-- `e as T` / `<T>e`; `simple` = `infer_simple_type_from_type` accepts `T` -/
  | asT (ty : Ty) (simple : Bool)
  /-- calls, `new`, sequences, classes, …: no type can be inferred and it cannot be left -/
  | opaque
  /-- identifiers, member accesses, unary/binary/conditional/await/non-null/`as const`/`satisfies`
  over leavable operands, arrays and objects of leavable elements: left in place verbatim -/
  | leave (text : String)
  deriving DecidableEq, Repr, Inhabited

inductive Mut where
  | const | mutable
  deriving DecidableEq, Repr, Inhabited

/-- `maybe_lit_to_ts_type` -/
def litType (k : LitK) (m : Mut) : Ty :=
  match m, k with
  | .const, .num t => t
  | .const, .str t => t
  | .const, .bool b => if b then "true" else "false"
  | .const, .bigint t => t
  | .mutable, .num _ => "number"
  | .mutable, .str _ => "string"
  | .mutable, .bool _ => "boolean"
  | .mutable, .bigint _ => "bigint"
  | _, .null => "null"
  | _, .regex => "RegExp"

/-- `maybe_infer_type_from_expr` -/
def inferType (e : Expr) (m : Mut) : Option Ty :=
  match e with
  | .lit k => some (litType k m)
  | .tpl _ => some "string"
  | .asT ty simple => if simple then some ty else none
  | .opaque => none
  | .leave _ => none

/-- `maybe_transform_expr_if_leavable` (for expressions that are not functions): the text that stays -/
def leavable (e : Expr) : Option String :=
  match e with
  | .lit (.num t) => some t
  | .lit (.str t) => some t
  | .lit (.bool b) => some (if b then "true" else "false")
  | .lit .null => some "null"
  | .lit (.bigint t) => some t
  | .lit .regex => some "/re/"
  | .tpl l => if l then some "`tpl`" else none
  | .asT ty _ => some ("({}asnever)as" ++ ty)
  | .opaque => none
  | .leave t => some t

structure Param where
  name : String
  /-- `name?` -/
  opt : Bool
  rest : Bool
  ty : Option Ty
  dflt : Option Expr
  deriving DecidableEq, Repr, Inhabited

/-- `analyze_return_stmts_in_function_body` -/
inductive RetAnalysis where
  | none | void | single | multiple
  deriving DecidableEq, Repr, Inhabited

structure Fn where
  params : List Param
  ret : Option Ty
  isAsync : Bool
  isGen : Bool
  hasBody : Bool
  analysis : RetAnalysis
  deriving DecidableEq, Repr, Inhabited

inductive FnKind where
  | declLike | exprLike | getter | setter
  deriving DecidableEq, Repr, Inhabited

inductive Diag where
  | missingReturnType | missingType | unsupported
  deriving DecidableEq, Repr, Inhabited

/-- an emitted parameter -/
structure OParam where
  name : String
  opt : Bool
  rest : Bool
  ty : Option Ty
  /-- a default value left in place (only without a type) -/
  dflt : Option String
  deriving DecidableEq, Repr, Inhabited

inductive OBody where
  /-- `{}` -/
  | empty
  /-- `{ return {} as never; }` resp. `=> ({} as never)` -/
  | placeholder
  /-- an arrow's leavable expression body, left in place -/
  | kept (text : String)
  /-- no body at all (overload signature, ambient) -/
  | none
  deriving DecidableEq, Repr, Inhabited

structure OFn where
  params : List OParam
  ret : Option Ty
  body : OBody
  /-- only an arrow function whose expression body was left in place stays `async` -/
  isAsync : Bool := false
  deriving DecidableEq, Repr, Inhabited

def isVoid (t : Ty) : Bool := t == "void"

/-- `ParamsOptionalStartIndex::build`: the start of the trailing run of optional parameters -/
def optionalStart (ps : List Param) : Option Nat :=
  (ps.zipIdx).foldl (fun acc (p, i) =>
    if p.opt || p.dflt.isSome || p.rest then (match acc with | some s => some s | none => some i) else none) none

def isOptionalAt (start : Option Nat) (i : Nat) : Bool :=
  match start with
  | some s => decide (s ≤ i)
  | none => false

/-- a defaulted parameter with a known type: optional in the trailing optional run, otherwise
`convert_optional_ident_to_nullable_type` (`name: T | undefined`) -/
def typedParam (p : Param) (isOptional : Bool) (t : Ty) : OParam :=
  if isOptional then { name := p.name, opt := true, rest := false, ty := some t, dflt := none }
  else { name := p.name, opt := false, rest := false, ty := some (t ++ "|undefined"), dflt := none }

/-- a parameter with a default value -/
def handleDefault (p : Param) (isOptional : Bool) (d : Expr) : Except Diag OParam :=
  match p.ty with
  | some t => .ok (typedParam p isOptional t)
  | none =>
    match inferType d .mutable with
    | some t => .ok (typedParam p isOptional t)
    | none =>
      match leavable d with
      | some text => .ok { name := p.name, opt := false, rest := false, ty := none, dflt := some text }
      | none => .error .missingType

/-- `handle_param_pat` for identifier patterns -/
def handleParam (p : Param) (isOptional : Bool) : Except Diag OParam :=
  if p.rest then
    match p.ty with
    | none => .error .missingType
    | some t => .ok { name := p.name, opt := false, rest := true, ty := some t, dflt := none }
  else
    match p.dflt with
    | none =>
      match p.ty with
      | none => .error .missingType
      | some t => .ok { name := p.name, opt := p.opt, rest := false, ty := some t, dflt := none }
    | some d => handleDefault p isOptional d

def handleParams (ps : List Param) : Except Diag (List OParam) :=
  let start := optionalStart ps
  (ps.zipIdx).mapM fun (p, i) => handleParam p (isOptionalAt start i)

/-- overload implementation signature: `param{i}?: any`, `...param{i}: any`, `: any` -/
def overloadParams (ps : List Param) : List Param :=
  (ps.zipIdx).map fun (p, i) =>
    if p.rest then { name := s!"param{i}", opt := false, rest := true, ty := some "any", dflt := none }
    else { name := s!"param{i}", opt := true, rest := false, ty := some "any", dflt := none }

def voidOrPromiseVoid (isAsync : Bool) : Ty := if isAsync then "Promise<void>" else "void"

/-- `transform_function_body_block_stmt` -/
def inferReturn (a : RetAnalysis) (k : FnKind) (isAsync : Bool) : Except Diag Ty :=
  match a, k with
  | .none, .declLike => .ok (voidOrPromiseVoid isAsync)
  | .void, .declLike => .ok (voidOrPromiseVoid isAsync)
  | .void, .exprLike => .ok (voidOrPromiseVoid isAsync)
  | _, _ => .error .missingReturnType

/-- the return type after the transform: given, inferred as `void` / `Promise<void>`, or a diagnostic -/
def returnOf (f : Fn) (k : FnKind) : Except Diag (Option Ty) :=
  if k != .setter && f.ret.isNone then
    (if f.isGen then .error .missingReturnType
     else if f.hasBody then (inferReturn f.analysis k f.isAsync).map some
     else .ok none)
  else .ok f.ret

/-- the body after the transform: cleared; a placeholder return unless the return type is `void` -/
def bodyOf (hasBody : Bool) (ret : Option Ty) : OBody :=
  if hasBody then
    (match ret with
     | some t => if isVoid t then .empty else .placeholder
     | none => .empty)
  else .none

def transformFnCore (f : Fn) (k : FnKind) : Except Diag OFn :=
  match returnOf f k with
  | .error d => .error d
  | .ok ret =>
    match handleParams f.params with
    | .error d => .error d
    | .ok ps => .ok { params := ps, ret := ret, body := bodyOf f.hasBody ret }

/-- the implementation signature of an overloaded function -/
def overloadOf (f : Fn) : Fn := { f with params := overloadParams f.params, ret := some "any" }

/-- `transform_fn` -/
def transformFn (f : Fn) (k : FnKind) (isOverloadImpl : Bool) : Except Diag OFn :=
  transformFnCore (if isOverloadImpl then overloadOf f else f) k

/-- an arrow function: block body or expression body -/
structure Arrow where
  fn : Fn
  exprBody : Option Expr
  deriving DecidableEq, Repr, Inhabited

/-- return type and kept expression body of an arrow function -/
def arrowReturn (a : Arrow) : Except Diag (Option Ty × Option String) :=
  match a.fn.ret with
  | some t => .ok (some t, none)
  | none =>
    match a.exprBody with
    | none => (inferReturn a.fn.analysis .exprLike a.fn.isAsync).map fun t => (some t, none)
    | some e =>
      match inferType e .mutable with
      | some t => .ok (some (if a.fn.isAsync then "Promise<" ++ t ++ ">" else t), none)
      | none =>
        match leavable e with
        | some text => .ok (none, some text)
        | none => .error .missingReturnType

def arrowBody (ret : Option Ty) (kept : Option String) : OBody :=
  match ret with
  | some t => if isVoid t then .empty else .placeholder
  | none => (match kept with | some t => .kept t | none => .empty)

/-- `transform_arrow` -/
def transformArrow (a : Arrow) : Except Diag OFn :=
  match arrowReturn a with
  | .error d => .error d
  | .ok (ret, kept) =>
    match handleParams a.fn.params with
    | .error d => .error d
    | .ok ps => .ok { params := ps, ret := ret, body := arrowBody ret kept, isAsync := a.fn.isAsync && ret.isNone }

/-- what an initialiser may be -/
inductive Init where
  | expr (e : Expr)
  | arrow (a : Arrow)
  | fnExpr (f : Fn)
  deriving DecidableEq, Repr, Inhabited

inductive OInit where
  /-- `{} as never` -/
  | never
  /-- dropped (`declare` property) -/
  | dropped
  | kept (text : String)
  | fn (f : OFn) (isArrow : Bool)
  deriving DecidableEq, Repr, Inhabited

/-- leavable check for any initialiser: functions are transformed in place -/
def leaveInit (i : Init) : Except Diag (Option OInit) :=
  match i with
  | .expr e => .ok ((leavable e).map .kept)
  | .arrow a => (transformArrow a).map fun f => some (.fn f true)
  | .fnExpr f => (transformFn f .exprLike false).map fun f => some (.fn f false)

def inferInit (i : Init) (m : Mut) : Option Ty :=
  match i with
  | .expr e => inferType e m
  | _ => none

structure OVar where
  name : String
  ty : Option Ty
  init : OInit
  deriving DecidableEq, Repr, Inhabited

/-- `transform_var_declarator` (identifier pattern) -/
def transformVar (name : String) (isConst : Bool) (ty : Option Ty) (init : Option Init) : Except Diag OVar :=
  match ty with
  | some t => .ok { name := name, ty := some t, init := .never }
  | none =>
    match init.bind fun i => inferInit i (if isConst then .const else .mutable) with
    | some t => .ok { name := name, ty := some t, init := .never }
    | none =>
      match init with
      | none => .error .missingType
      | some i =>
        match leaveInit i with
        | .error d => .error d
        | .ok (some o) => .ok { name := name, ty := none, init := o }
        | .ok none => .error .missingType

/-! ## classes -/

inductive Access where
  | pub | priv | prot
  deriving DecidableEq, Repr, Inhabited

structure CtorParam where
  p : Param
  /-- a parameter property (`constructor(public x: T)`): its accessibility and `readonly` -/
  prop : Option (Access × Bool)
  deriving DecidableEq, Repr, Inhabited

inductive Member where
  | prop (name : String) (access : Access) (isStatic readonly : Bool) (ty : Option Ty) (init : Option Init)
  | method (name : String) (access : Access) (isStatic : Bool) (kind : FnKind) (f : Fn)
  /-- `isOverloadImpl`: the implementation that follows overload signatures -/
  | ctor (access : Access) (params : List CtorParam) (hasBody : Bool) (callsSuper : Bool) (isOverloadImpl : Bool)
  /-- `#name` property or method -/
  | esPrivate
  | staticBlock
  /-- auto-accessor `accessor name: T = init` with a public key -/
  | accessor (name : String) (access : Access) (isStatic : Bool) (ty : Option Ty) (init : Option Expr)
  deriving DecidableEq, Repr, Inhabited

inductive OMember where
  /-- `#private!: unknown` -/
  | brand
  | prop (name : String) (access : Access) (isStatic readonly declare optional : Bool) (ty : Option Ty) (init : OInit)
  | method (name : String) (access : Access) (isStatic : Bool) (kind : FnKind) (f : OFn)
  | ctor (access : Access) (params : List OParam) (callsSuper : Bool)
  deriving DecidableEq, Repr, Inhabited

/-- the property a constructor's parameter property turns into -/
def paramProp (cp : CtorParam) : Option OMember :=
  match cp.prop with
  | none => none
  | some (acc, ro) =>
    let ty : Option Ty :=
      if acc = .priv then some "any"
      else match cp.p.ty with
        | some t => some t
        | none => cp.p.dflt.bind fun d => inferType d (if ro then .const else .mutable)
    some (.prop cp.p.name acc false ro true (cp.p.opt && cp.p.dflt.isNone) ty .dropped)

/-- a non-private parameter property without annotation whose default value (if any) gives no type: reported (since the fix of F28) instead of emitting an untyped property -/
def untypedParamProp (cp : CtorParam) : Bool :=
  match cp.prop with
  | none => false
  | some (acc, ro) =>
    acc != .priv && cp.p.ty.isNone &&
    (match cp.p.dflt with
     | some d => (inferType d (if ro then .const else .mutable)).isNone
     | none => true)

/-- one member: (members inserted at the top, the member itself if it stays) -/
def transformMember (m : Member) (seenPrivateMethods : List String) :
    Except Diag (List OMember × Option OMember) :=
  match m with
  | .esPrivate => .ok ([], none)
  | .staticBlock => .ok ([], none)
  | .prop name access isStatic ro ty init =>
    if access = .priv then .ok ([], some (.prop name .priv isStatic ro true false (some "any") .dropped))
    else
      match ty with
      | some t => .ok ([], some (.prop name access isStatic ro true false (some t) .dropped))
      | none =>
        match init.bind fun i => inferInit i (if ro then .const else .mutable) with
        | some t => .ok ([], some (.prop name access isStatic ro true false (some t) .dropped))
        | none =>
          match init with
          | none => .error .missingType
          | some i =>
            match leaveInit i with
            | .error d => .error d
            | .ok (some o) => .ok ([], some (.prop name access isStatic ro false false none o))
            | .ok none => .error .missingType
  | .method name access isStatic kind f =>
    if access = .priv then
      (if seenPrivateMethods.contains name then .ok ([], none)
       else .ok ([], some (.prop name .priv isStatic false true false (some "any") .dropped)))
    else (transformFn f kind false).map fun o => ([], some (.method name access isStatic kind o))
  | .accessor name access isStatic ty init =>
    -- an auto-accessor becomes a declared property of the same name, staticness and accessibility
    if access = .priv then .ok ([], some (.prop name .priv isStatic false true false (some "any") .dropped))
    else
      match ty with
      | some t => .ok ([], some (.prop name access isStatic false true false (some t) .dropped))
      | none =>
        match init.bind fun e => inferType e .mutable with
        | some t => .ok ([], some (.prop name access isStatic false true false (some t) .dropped))
        | none => .error .missingType
  | .ctor access params _ callsSuper ov =>
    -- a parameter property needs a type of its own (annotation, or inferable default) unless private
    if params.any untypedParamProp then .error .missingType
    else
      -- the properties are made first; only then does an overload implementation lose its signature
      let inserted := params.filterMap paramProp
      if access = .priv then .ok (inserted, some (.ctor .priv [] callsSuper))
      else
        let ps := params.map (·.p)
        (handleParams (if ov then overloadParams ps else ps)).map fun ps => (inserted, some (.ctor access ps callsSuper))

structure ClassAcc where
  inserted : List OMember := []
  members : List OMember := []
  hadPrivate : Bool := false
  seen : List String := []
  hadPrivateCtor : Bool := false

def classStep (acc : ClassAcc) (m : Member) : Except Diag ClassAcc :=
  let hadPrivate := acc.hadPrivate || (match m with | .esPrivate => true | _ => false)
  -- a second private constructor, or a private one without a body, is dropped
  let skip := match m with
    | .ctor .priv _ hasBody _ _ => acc.hadPrivateCtor || !hasBody
    | _ => false
  if skip then .ok { acc with hadPrivate := hadPrivate }
  else
    match transformMember m acc.seen with
    | .error d => .error d
    | .ok (ins, om) =>
      .ok { inserted := acc.inserted ++ ins,
            members := acc.members ++ om.toList,
            hadPrivate := hadPrivate,
            seen := (match m with | .method name .priv _ _ _ => name :: acc.seen | _ => acc.seen),
            hadPrivateCtor := acc.hadPrivateCtor || (match m with | .ctor .priv _ _ _ _ => true | _ => false) }

/-- `transform_class`: the brand first (when there were `#` members), then the properties made from
parameter properties, then the members in order -/
def transformClass (members : List Member) : Except Diag (List OMember) :=
  match members.foldlM classStep {} with
  | .error d => .error d
  | .ok acc => .ok ((if acc.hadPrivate then [OMember.brand] else []) ++ acc.inserted ++ acc.members)

end DG.FC
