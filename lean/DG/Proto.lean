import DG.Sexp
import DG.Walk
/-! Decoders from S-expressions to model values, and canonical printers. -/
namespace DG
open Tables Sexp

def mediaType? : String → Option MediaType
  | "TypeScript" => some .TypeScript | "Mts" => some .Mts | "Cts" => some .Cts
  | "Dts" => some .Dts | "Dmts" => some .Dmts | "Dcts" => some .Dcts | "Tsx" => some .Tsx
  | "Json" => some .Json | "Wasm" => some .Wasm | "Css" => some .Css
  | "SourceMap" => some .SourceMap | "Html" => some .Html | "Markdown" => some .Markdown
  | "Sql" => some .Sql | "Jsonc" => some .Jsonc | "Json5" => some .Json5
  | "Unknown" => some .Unknown | "JavaScript" => some .JavaScript | "Jsx" => some .Jsx
  | "Mjs" => some .Mjs | "Cjs" => some .Cjs
  | _ => none

def kind? : Sexp → Option GraphKind
  | .atom "All" => some .All
  | .atom "CodeOnly" => some .CodeOnly
  | .atom "TypesOnly" => some .TypesOnly
  | _ => none

def scheme? : Sexp → Option Scheme
  | .atom "https" => some .https | .atom "http" => some .http
  | .atom "file" => some .file | .atom _ => some .other
  | _ => none

def res? : Sexp → Option Res
  | .atom "n" => some .none
  | .list [.atom "ok", s, r] => do pure (.ok (← nat? s) (← nat? r))
  | .list [.atom "err", c] => do pure (.err (← nat? c))
  | _ => none

def dep? : Sexp → Option Dep
  | .list [.atom "d", t, ft, c, ty, dy] => do
    pure { text := ← nat? t, fileText := ← bool? ft, code := ← res? c, type := ← res? ty, dyn := ← bool? dy }
  | _ => none

def deps? (l : List Sexp) : Option (List Dep) := l.mapM dep?

def typesDep? : Sexp → Option (Option TypesDep)
  | .atom "n" => some none
  | .list [.atom "td", t, ft, r] => do
    pure (some { text := ← nat? t, fileText := ← bool? ft, res := ← res? r })
  | _ => none

def fc? : Sexp → Option (Option (List Dep))
  | .atom "n" => some none
  | .list (.atom "fc" :: ds) => do pure (some (← deps? ds))
  | _ => none

def slot? : Sexp → Option Slot
  | .list [.atom "js", .atom mt, .list (.atom "deps" :: ds), td, fc] => do
    pure (.module (.js (← mediaType? mt) (← deps? ds) (← typesDep? td) (← fc? fc)))
  | .list [.atom "wasm", .list (.atom "deps" :: ds)] => do pure (.module (.wasm (← deps? ds)))
  | .atom "json" => some (.module .json)
  | .atom "npm" => some (.module .npm)
  | .atom "node" => some (.module .node)
  | .atom "external" => some (.module .external)
  | .list [.atom "err", m, c, es] => do pure (.err (← bool? m) (← nat? c) (← nat? es))
  | .atom "pending" => some .pending
  | _ => none

def graph? : Sexp → Option Graph
  | .list [.atom "graph", k, .list (.atom "roots" :: rs), .list (.atom "slots" :: ss),
           .list (.atom "redirects" :: rds), .list (.atom "imports" :: is),
           .list (.atom "schemes" :: scs)] => do
    let slots ← ss.mapM fun
      | .list [k, sl] => do pure ((← nat? k), (← slot? sl))
      | _ => none
    let redirects ← rds.mapM fun
      | .list [a, b] => do pure ((← nat? a), (← nat? b))
      | _ => none
    let imports ← is.mapM fun
      | .list (r :: ds) => do pure ((← nat? r), (← deps? ds))
      | _ => none
    let schemes ← scs.mapM fun
      | .list [a, b] => do pure ((← nat? a), (← scheme? b))
      | _ => none
    pure { kind := ← kind? k, roots := ← nats? rs, slots, redirects, imports, schemes }
  | _ => none

def checkJs? : Sexp → Option (Spec → Bool)
  | .atom "t" => some fun _ => true
  | .atom "f" => some fun _ => false
  | .list (.atom "c" :: l) => do
    let l ← nats? l
    pure fun s => l.contains s
  | _ => none

def walkOpts? (k fd cj pfc : Sexp) : Option WalkOpts := do
  pure { kind := ← kind? k, followDynamic := ← bool? fd, checkJs := ← checkJs? cj,
         preferFastCheck := ← bool? pfc }

/-! printers -/

def showOptNat : Option Nat → String
  | some n => toString n
  | none => "-"

def TryGet.show : TryGet → String
  | .module k => s!"m{k}"
  | .error c => s!"e{c}"
  | .none => "-"

def SpecEntry.show : SpecEntry → String
  | .module k a => s!"{k}=m{a}"
  | .error k c => s!"{k}=e{c}"

def Entry.show : Entry → String
  | .module _ => "m"
  | .err _ c _ => s!"e{c}"
  | .redirect t => s!"r{t}"

def ResErrOut.show : ResErrOut → String
  | .code c => s!"c{c}"
  | .downgrade s r => s!"dg{s}@{r}"
  | .localImport s r => s!"li{s}@{r}"

def ErrOut.show : ErrOut → String
  | .moduleErr c => s!"M{c}"
  | .missingDynamic s r => s!"MD{s}@{r}"
  | .resolution t e => (if t then "T:" else "R:") ++ e.show

end DG
