import DG.Build
/-!
# `ModuleGraph::prune_types` (src/graph.rs 2428-2509) on the builder model's graph

`SeenPendingCollection` is an insertion-ordered set with a cursor: `seen` is the list in
insertion order, `idx` the cursor.
-/
namespace DG.Prune
open DG DG.Build Tables

/-- `handle_dependencies` for one dependency: the type side is dropped -/
def pruneDep (d : BDep) : BDep := { d with type := .none }

/-- code targets added to the worklist by `handle_dependencies` (after clearing the type side,
`get_type()` is always `None`) -/
def depCodeTargets (deps : List BDep) : List Spec :=
  deps.filterMap fun d => d.code.okSpec?

/-- the source map is a code-side dependency: a code-only build loads it too (repair of F16;
whether `prune_types` follows it is the regenerated table `pruneFollowsSourceMap`) -/
def smTarget : Option Res → List Spec
  | some (.ok s _) => [s]
  | _ => []

/-- what visiting a module slot does to it -/
def pruneSlot : BSlot → BSlot
  | .module (.js mt deps _ sm) => .module (.js mt (deps.map pruneDep) none sm)
  | .module (.wasm deps) => .module (.wasm (deps.map pruneDep))
  | sl => sl

def slotTargets : BSlot → List Spec
  | .module (.js _ deps _ sm) => (if pruneFollowsSourceMap then smTarget sm else []) ++ depCodeTargets deps
  | .module (.wasm deps) => depCodeTargets deps
  | _ => []

def addSeen (seen : List Spec) (s : Spec) : List Spec := if seen.contains s then seen else seen ++ [s]

structure PState where
  slots : List (Spec × BSlot)
  seen : List Spec
  idx : Nat
  deriving Repr, Inhabited

/-- visiting the entry stored under `s`, if there is one -/
def visitEntry (p : PState) (s : Spec) : PState :=
  match p.slots.lookup s with
  | some sl =>
    { slots := upsert p.slots s (pruneSlot sl),
      seen := (slotTargets sl).foldl addSeen p.seen,
      idx := p.idx + 1 }
  | none => { p with idx := p.idx + 1 }

/-- one `while let Some(specifier) = seen_pending.next_pending()` iteration.  A redirect entry of
`s` puts its target on the worklist; the entry stored under `s` is visited as well (since the
repair of finding F36 — regenerated table `pruneVisitsEntryOnSource`; before, the loop went on to
the next specifier right after following the redirect). -/
def pruneIter (redirects : List (Spec × Spec)) (p : PState) (s : Spec) : PState :=
  match redirects.lookup s with
  | some t =>
    if pruneVisitsEntryOnSource then visitEntry { p with seen := addSeen p.seen t } s
    else { p with seen := addSeen p.seen t, idx := p.idx + 1 }
  | none => visitEntry p s

def pruneLoop (redirects : List (Spec × Spec)) : Nat → PState → PState
  | 0, p => p
  | fuel + 1, p =>
    match p.seen[p.idx]? with
    | none => p
    | some s => pruneLoop redirects fuel (pruneIter redirects p s)

structure Pruned where
  slots : List (Spec × BSlot)
  redirects : List (Spec × Spec)
  deriving Repr, Inhabited

/-- `prune_types` on a graph that includes types (otherwise it returns immediately) -/
def pruneTypes (roots : List Spec) (slots : List (Spec × BSlot)) (redirects : List (Spec × Spec))
    (fuel : Nat) : Pruned :=
  let p := pruneLoop redirects fuel { slots := slots, seen := roots.foldl addSeen [], idx := 0 }
  { slots := p.slots.filter fun (k, _) => p.seen.contains k,
    redirects := redirects.filter fun (k, _) => p.seen.contains k }

/-- enough fuel: every specifier is visited at most once -/
def pruneFuel (roots : List Spec) (slots : List (Spec × BSlot)) (redirects : List (Spec × Spec)) : Nat :=
  roots.length + redirects.length + (slots.flatMap fun (_, sl) => slotTargets sl).length + 1

end DG.Prune
