/-!
# Fast check per package: all or nothing, and the cache (src/fast_check/mod.rs 542-718,
src/fast_check/range_finder.rs 494-553)

A package is the list of modules of its public API in processing order, each with the hash of its
source and whether range finding / transforming it produced a diagnostic.
-/
namespace DG.FcPkg

structure MRes where
  spec : Nat
  hash : Nat
  diag : Bool
  deriving DecidableEq, Repr, Inhabited

structure Pkg where
  entrypoints : List Nat
  mods : List MRes
  /-- stop at the first diagnostic (registry packages) or collect all (workspace members) -/
  stopAtFirst : Bool
  deriving Repr, Inhabited

/-- what a module ends up with -/
inductive Res where
  | output
  /-- diagnostics, naming the modules they came from -/
  | diags (specs : List Nat)
  deriving DecidableEq, Repr, Inhabited

/-- `transform_package`: (modules transformed before any diagnostic, modules with diagnostics) -/
def transformPackage (stop : Bool) : List MRes → List Nat × List Nat
  | [] => ([], [])
  | m :: rest =>
    if m.diag then
      if stop then ([], [m.spec])
      else ([], m.spec :: (rest.filter (·.diag)).map (·.spec))
    else
      let r := transformPackage stop rest
      (m.spec :: r.1, r.2)

/-- the result without a cache: all modules, or the diagnostics on every entrypoint -/
def uncachedOf (entrypoints : List Nat) (r : List Nat × List Nat) : List (Nat × Res) :=
  match r.2 with
  | [] => r.1.map fun s => (s, Res.output)
  | e :: es => entrypoints.map fun x => (x, Res.diags (e :: es))

def uncached (p : Pkg) : List (Nat × Res) := uncachedOf p.entrypoints (transformPackage p.stopAtFirst p.mods)

inductive CItem where
  | info (hash : Nat)
  | diagnostic (hash : Nat)
  deriving DecidableEq, Repr, Inhabited

def CItem.hash : CItem → Nat
  | .info h => h
  | .diagnostic h => h

def hashOf (p : Pkg) (s : Nat) : Nat := ((p.mods.find? fun m => m.spec == s).map (·.hash)).getD 0

/-- what is stored after an uncached run -/
def cacheItemsOf (hash : Nat → Nat) (r : List Nat × List Nat) : List (Nat × CItem) :=
  match r.2 with
  | [] => r.1.map fun s => (s, CItem.info (hash s))
  | e :: es => (r.1 ++ (e :: es)).map fun s => (s, CItem.diagnostic (hash s))

def cacheItems (p : Pkg) : List (Nat × CItem) := cacheItemsOf (hashOf p) (transformPackage p.stopAtFirst p.mods)

def CItem.isDiag : CItem → Bool
  | .info _ => false
  | .diagnostic _ => true

/-- the result read from a cache entry: the stored modules, and — when the entry records
diagnostics — one `Cached` diagnostic per listed module on every entrypoint -/
def cachedResult (entrypoints : List Nat) (items : List (Nat × CItem)) : List (Nat × Res) :=
  ((items.filter fun x => !x.2.isDiag).map fun x => (x.1, Res.output)) ++
  match (items.filter fun x => x.2.isDiag).map (·.1) with
  | [] => []
  | e :: es => entrypoints.map fun x => (x, Res.diags (e :: es))

/-- `is_cache_item_valid`: every listed module still has the hash it was stored with -/
def valid (items : List (Nat × CItem)) (hashNow : Nat → Nat) : Bool :=
  items.all fun (s, i) => hashNow s == i.hash

/-- one fast-check run of a package with an optional cache entry: (result, cache entry afterwards) -/
def runWith (cache : Option (List (Nat × CItem))) (p : Pkg) : List (Nat × Res) × Option (List (Nat × CItem)) :=
  match cache with
  | some items => if valid items (hashOf p) then (cachedResult p.entrypoints items, some items) else (uncached p, some (cacheItems p))
  | none => (uncached p, some (cacheItems p))

def outputs (r : List (Nat × Res)) : List Nat := (r.filter fun x => x.2 == Res.output).map (·.1)

/-- the cache threaded through successive states of the package (edits between runs) -/
def history : Option (List (Nat × CItem)) → List Pkg → List (List (Nat × Res))
  | _, [] => []
  | c, p :: ps => (runWith c p).1 :: history (runWith c p).2 ps

end DG.FcPkg
