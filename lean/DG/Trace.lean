/-!
# Fast check: which declarations are part of the public API (src/fast_check/range_finder.rs)

The tracer over an abstract package: modules with declarations (each with the names its public
signature refers to), named imports, named / star re-exports and local export lists.  Names and
modules are naturals; name `0` is `default`.  A worklist of requests is processed until empty.
-/
namespace DG.Trace

structure Decl where
  name : Nat
  /-- carries `export` -/
  exported : Bool
  /-- `export default` -/
  isDefault : Bool
  /-- local names (declarations or import bindings) the public signature refers to -/
  refs : List Nat
  /-- qualified references `l.x` of the public signature: (local name, member) -/
  qrefs : List (Nat × Nat) := []
  deriving DecidableEq, Repr, Inhabited

structure Mod where
  decls : List Decl
  /-- named imports: local binding ← (module, exported name there) -/
  imports : List (Nat × Nat × Nat)
  /-- `export { orig as exported } from module` -/
  exportFrom : List (Nat × Nat × Nat)
  /-- `export * from module` -/
  stars : List Nat
  /-- `export { local as exported }` -/
  exportLocal : List (Nat × Nat)
  /-- `import * as local from module` -/
  nsImports : List (Nat × Nat) := []
  deriving Repr, Inhabited

abbrev World := List Mod

def World.mod (w : World) (m : Nat) : Mod :=
  w.getD m { decls := [], imports := [], exportFrom := [], stars := [], exportLocal := [], nsImports := [] }

inductive Task where
  /-- everything the module exports (`star` / `star with default`) -/
  | reqAll (m : Nat) (withDefault : Bool)
  /-- one exported name -/
  | reqName (m : Nat) (n : Nat)
  /-- a name used inside the module: a declaration or an import binding -/
  | local (m : Nat) (l : Nat)
  | decl (m : Nat) (name : Nat)
  /-- a qualified name `l.x` used inside the module -/
  | qual (m : Nat) (l : Nat) (x : Nat)
  deriving DecidableEq, Repr, Inhabited

structure State where
  /-- retained declarations -/
  decls : List (Nat × Nat) := []
  /-- retained import bindings (module, local name) -/
  imports : List (Nat × Nat) := []
  /-- retained named re-exports (module, exported name) -/
  exportFrom : List (Nat × Nat) := []
  /-- retained star re-exports (module, target) -/
  stars : List (Nat × Nat) := []
  /-- retained local export specifiers (module, exported name) -/
  exportLocal : List (Nat × Nat) := []
  /-- modules that were looked at -/
  modules : List Nat := []
  done : List Task := []
  work : List Task := []
  deriving Repr, Inhabited

def ins {α} [BEq α] (x : α) (l : List α) : List α := if l.contains x then l else l ++ [x]

/-- the declaration exported under `n` (`default` = 0 finds the default-exported declaration) -/
def ownExport (md : Mod) (n : Nat) : Option Decl :=
  md.decls.find? fun d => d.exported && (if n = 0 then d.isDefault else (d.name == n && !d.isDefault))

def keepL (wd : Bool) (p : Nat × Nat) : Bool := wd || p.1 != 0
def keepF (wd : Bool) (p : Nat × Nat × Nat) : Bool := wd || p.1 != 0

def findDecl (md : Mod) (l : Nat) : Option Decl := md.decls.find? fun d => d.name == l
def findImport (md : Mod) (l : Nat) : Option (Nat × Nat × Nat) := md.imports.find? fun p => p.1 == l
def findNsImport (md : Mod) (l : Nat) : Option (Nat × Nat) := md.nsImports.find? fun p => p.1 == l
def findLocalExport (md : Mod) (n : Nat) : Option (Nat × Nat) := md.exportLocal.find? fun p => p.1 == n
def findFrom (md : Mod) (n : Nat) : Option (Nat × Nat × Nat) := md.exportFrom.find? fun p => p.1 == n
def exportedFor (wd : Bool) (d : Decl) : Bool := d.exported && (wd || !d.isDefault)

def insAll {α} [BEq α] (xs : List α) (l : List α) : List α := xs.foldl (fun acc x => ins x acc) l

def stepReqAll (w : World) (s : State) (m : Nat) (wd : Bool) : State :=
  let md := w.mod m
  { s with
    modules := ins m s.modules,
    exportLocal := insAll ((md.exportLocal.filter (keepL wd)).map fun p => (m, p.1)) s.exportLocal,
    exportFrom := insAll ((md.exportFrom.filter (keepF wd)).map fun p => (m, p.1)) s.exportFrom,
    stars := insAll (md.stars.map fun x => (m, x)) s.stars,
    work := s.work ++
      ((md.decls.filter (exportedFor wd)).map fun d => Task.decl m d.name) ++
      ((md.exportLocal.filter (keepL wd)).map fun p => Task.local m p.2) ++
      ((md.exportFrom.filter (keepF wd)).map fun p => Task.reqName p.2.1 p.2.2) ++
      md.stars.map (fun x => Task.reqAll x false) }

/-- the declaration, local export specifier or named re-export a module has under a name -/
def ownsName (md : Mod) (n : Nat) : Bool :=
  (ownExport md n).isSome || (findLocalExport md n).isSome || (findFrom md n).isSome

/-- the modules reachable through `export *` within `k` steps -/
def starClosure (w : World) : Nat → List Nat → List Nat
  | 0, seen => seen
  | k + 1, seen => starClosure w k (insAll (seen.flatMap fun x => (w.mod x).stars) seen)

/-- a module exports a name (other than `default`) if it or a module it star-re-exports, directly
or not, has it (`ModuleInfoRef::exports`, as a set: C16) -/
def resolves (w : World) (x n : Nat) : Bool :=
  (starClosure w w.length [x]).any fun y => ownsName (w.mod y) n

/-- the first `export *` of a module through which a name is found; `default` never is
(the choice before the repair of F34: each target's export table computed on its own) -/
def starProvider (w : World) (md : Mod) (n : Nat) : Option Nat :=
  if n = 0 then none else md.stars.find? fun x => resolves w x n

/-- `exports_and_re_exports_inner` for one name: depth first from `x`, the modules visited so far
are never entered again, a module's own names come before those of its `export *` targets, the
targets are tried in order.  The result is the visited set and, when the name is found, the
`export *` edges leading to the module that has it as its own. -/
def findName (w : World) : Nat → List Nat → Nat → Nat → List Nat × Option (List (Nat × Nat) × Nat)
  | 0, vis, _, _ => (vis, none)
  | f + 1, vis, x, n =>
    if vis.contains x then (vis, none)
    else if ownsName (w.mod x) n then (x :: vis, some ([], x))
    else
      (w.mod x).stars.foldl (fun (acc : List Nat × Option (List (Nat × Nat) × Nat)) s =>
        match acc.2 with
        | some _ => acc
        | none =>
          let r := findName w f acc.1 s n
          (r.1, r.2.map fun pd => ((x, s) :: pd.1, pd.2))) (x :: vis, none)

/-- the path along which module `m` has a name that is not its own: resolved from `m` itself, so a
cycle of `export *` declarations is never followed back to `m`; `default` has none -/
def findPath (w : World) (m n : Nat) : Option (List (Nat × Nat) × Nat) :=
  if n = 0 then none else (findName w (w.length + 1) [] m n).2

def stepReqName (w : World) (s : State) (m n : Nat) : State :=
  let md := w.mod m
  let s := { s with modules := ins m s.modules }
  match ownExport md n with
  | some d => { s with work := s.work ++ [.decl m d.name] }
  | none =>
    match findLocalExport md n with
    | some p => { s with exportLocal := ins (m, n) s.exportLocal, work := s.work ++ [.local m p.2] }
    | none =>
      match findFrom md n with
      | some p => { s with exportFrom := ins (m, n) s.exportFrom, work := s.work ++ [.reqName p.2.1 p.2.2] }
      | none =>
        -- not a name of the module itself: it is resolved from this module along its `export *`
        -- declarations; when that fails (or for `default`) every `export *` is kept, nothing is asked
        match findPath w m n with
        | some (edges, d) =>
          -- the `export *` of every module on the way is kept, those modules are looked at, and
          -- the module at the end of the path is asked for the name
          { s with stars := insAll edges s.stars, modules := insAll (edges.map (·.2)) s.modules,
                   work := s.work ++ [.reqName d n] }
        | none => { s with stars := insAll (md.stars.map fun x => (m, x)) s.stars }

def stepLocal (w : World) (s : State) (m l : Nat) : State :=
  let md := w.mod m
  match findDecl md l with
  | some d => { s with work := s.work ++ [.decl m d.name] }
  | none =>
    match findImport md l with
    | some p => { s with imports := ins (m, l) s.imports, work := s.work ++ [.reqName p.2.1 p.2.2] }
    | none =>
      -- a namespace import used as a whole (`typeof ns`): everything but `default`
      match findNsImport md l with
      | some p => { s with imports := ins (m, l) s.imports, work := s.work ++ [.reqAll p.2 false] }
      | none => s

/-- `l.x`: through a namespace import it is the name `x` of the imported module; otherwise the
local name `l` as a whole -/
def stepQual (w : World) (s : State) (m l x : Nat) : State :=
  let md := w.mod m
  match findNsImport md l with
  | some p => { s with imports := ins (m, l) s.imports, work := s.work ++ [.reqName p.2 x] }
  | none => { s with work := s.work ++ [.local m l] }

def stepDecl (w : World) (s : State) (m name : Nat) : State :=
  let md := w.mod m
  match findDecl md name with
  | some d => { s with decls := ins (m, name) s.decls,
                       work := s.work ++ (d.refs.map fun r => Task.local m r) ++ d.qrefs.map fun q => Task.qual m q.1 q.2 }
  | none => s

def step (w : World) (s : State) (t : Task) : State :=
  if s.done.contains t then s
  else
    let s := { s with done := s.done ++ [t] }
    match t with
    | .reqAll m wd => stepReqAll w s m wd
    | .reqName m n => stepReqName w s m n
    | .local m l => stepLocal w s m l
    | .decl m name => stepDecl w s m name
    | .qual m l x => stepQual w s m l x

/-- process the worklist (first in, first out) -/
def run (w : World) : Nat → State → Option State
  | 0, s => if s.work.isEmpty then some s else none
  | f + 1, s =>
    match s.work with
    | [] => some s
    | t :: rest => run w f (step w { s with work := rest } t)

/-- trace a package from its entry points -/
def trace (w : World) (entries : List Nat) (fuel : Nat) : Option State :=
  run w fuel { work := entries.map fun m => Task.reqAll m true }

end DG.Trace

namespace DG.Trace
/-- canonical listing of what is retained -/
def State.tokens (s : State) : List String :=
  s.modules.map (fun m => s!"M{m}") ++
  s.decls.map (fun (m, n) => s!"D{m}.{n}") ++
  s.imports.map (fun (m, n) => s!"I{m}.{n}") ++
  s.exportFrom.map (fun (m, n) => s!"F{m}.{n}") ++
  s.stars.map (fun (m, n) => s!"S{m}.{n}") ++
  s.exportLocal.map (fun (m, n) => s!"L{m}.{n}")
end DG.Trace
