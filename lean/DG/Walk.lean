import DG.Resolve
/-!
# `ModuleEntryIterator` (src/graph.rs 1807-2016) as a state machine,
and `ModuleGraphErrorIterator` (2018-2186).
-/
namespace DG
open Tables

structure WalkOpts where
  kind : GraphKind
  followDynamic : Bool
  /-- `CheckJsOption::resolve` (True / False / Custom) -/
  checkJs : Spec → Bool
  preferFastCheck : Bool

/-- `ModuleEntryRef` -/
inductive Entry where
  | module (m : Mod)
  | err (missing : Bool) (code : Nat) (errSpec : Spec)
  | redirect (to : Spec)
  deriving DecidableEq, Repr, Inhabited

structure WalkState where
  seen : List Spec
  visiting : List Spec
  prev : Option (Spec × Entry)
  deriving Repr, Inhabited

/-- `is_checkable` -/
def isCheckable (o : WalkOpts) (s : Spec) (mt : MediaType) : Bool :=
  match checkable mt with
  | .always => true
  | .never => false
  | .checkJs => o.checkJs s

/-- `if self.seen.insert(specifier) { self.visiting.push_front(specifier) }` -/
def WalkState.pushFront (st : WalkState) (s : Spec) : WalkState :=
  if s ∈ st.seen then st
  else { st with seen := s :: st.seen, visiting := s :: st.visiting }

/-- the `resolutions` vector of a dependency: code, then type when types are included -/
def depTargets (kind : GraphKind) (d : Dep) : List Spec :=
  (match d.code with | .ok s _ => [s] | _ => []) ++
  (if kind.includeTypes then (match d.type with | .ok s _ => [s] | _ => []) else [])

/-- pushing a list of specifiers, first to last (`seen.insert` guards each push) -/
def pushAll (l : List Spec) (st : WalkState) : WalkState := l.foldl WalkState.pushFront st

/-- `analyze_module_deps`: the targets pushed for a dependency list, in push order
(`for dep in module_deps.values().rev()`, skipping unfollowed dynamic ones) -/
def depEdgeTargets (o : WalkOpts) (deps : List Dep) : List Spec :=
  deps.reverse.flatMap fun d =>
    if !d.dyn || o.followDynamic then depTargets o.kind d else []

/-- the dependency list a visited module contributes (both iterators use this rule) -/
def walkDeps (o : WalkOpts) (key : Spec) (m : Mod) : List Dep :=
  let checkTypes := o.kind.includeTypes && isCheckable o key m.mediaType
  if checkTypes && o.preferFastCheck then m.depsPreferFastCheck else m.deps

/-- what the prologue of `next` pushes for the previously yielded entry -/
def succs (o : WalkOpts) (key : Spec) : Entry → List Spec
  | .module m => depEdgeTargets o (walkDeps o key m)
  | .redirect to => [to]
  | .err .. => []

/-- targets of the configured imports, in push order -/
def importTargets (g : Graph) (kind : GraphKind) : List Spec :=
  (g.imports.flatMap (·.2)).flatMap (depTargets kind)

/-- `ModuleEntryIterator::new` -/
def walkInit (g : Graph) (kind : GraphKind) (roots : List Spec) : WalkState :=
  pushAll (importTargets g kind)
    { seen := roots.foldl setInsert [], visiting := roots, prev := none }

/-- the `match self.previous_module.take()` prologue of `next` -/
def expandPrev (o : WalkOpts) (st : WalkState) : WalkState :=
  match st.prev with
  | some (key, e) => pushAll (succs o key e) { st with prev := none }
  | none => st

/-- What popping specifier `s` does, independent of the iterator state: the types dependency
it pushes (if any) and the entry it yields (if any). -/
def visitInfo (g : Graph) (o : WalkOpts) (s : Spec) : List Spec × Option Entry :=
  match g.slot s with
  | some .pending => ([], none)
  | some (.module m) =>
    match m with
    | .js mt _ td _ =>
      if o.kind.includeTypes then
        match (td.map (·.res) : Option Res) with
        | some (Res.ok t _) =>
          if o.kind = .TypesOnly then ([t], none) else ([t], some (.module m))
        | _ =>
          if o.kind = .TypesOnly && !isCheckable o s mt then ([], none)
          else ([], some (.module m))
      else ([], some (.module m))
    | _ => ([], some (.module m))
  | some (.err mi c es) => ([], some (.err mi c es))
  | none =>
    match g.redirect s with
    | some to => ([], some (.redirect to))
    | none => ([], none)

def visit (g : Graph) (o : WalkOpts) (s : Spec) (st : WalkState) : WalkState × Option Entry :=
  (pushAll (visitInfo g o s).1 st, (visitInfo g o s).2)

/-- Run the iterator to exhaustion; one unit of fuel per popped specifier; `none` = out of
fuel (never happens with `walkFuel`, see `Theorems/C15.lean`).
`skip key` = the client called `skip_previous_dependencies` after receiving `key`. -/
def walkLoop (g : Graph) (o : WalkOpts) (skip : Spec → Bool) :
    Nat → WalkState → List (Spec × Entry) → Option (List (Spec × Entry))
  | 0, _, _ => none
  | fuel + 1, st, acc =>
    let st := expandPrev o st
    match st.visiting with
    | [] => some acc.reverse
    | s :: rest =>
      let (st, y) := visit g o s { st with visiting := rest }
      match y with
      | none => walkLoop g o skip fuel st acc
      | some e =>
        let st := { st with prev := if skip s then none else some (s, e) }
        walkLoop g o skip fuel st ((s, e) :: acc)

/-- both resolved targets of a dependency -/
def Dep.allTargets (d : Dep) : List Spec :=
  (match d.code with | .ok s _ => [s] | _ => []) ++ (match d.type with | .ok s _ => [s] | _ => [])

/-- every target a module mentions: dependencies, fast-check dependencies, types dependency -/
def Mod.allTargets (m : Mod) : List Spec :=
  (m.deps.flatMap Dep.allTargets) ++ (m.depsPreferFastCheck.flatMap Dep.allTargets) ++
  (match m.typesDep with
   | some td => (match td.res with | .ok s _ => [s] | _ => [])
   | none => [])

/-- every specifier the graph mentions as a target (bounds what can ever be pushed) -/
def Graph.targets (g : Graph) : List Spec :=
  (g.slots.flatMap fun (_, sl) => match sl with | .module m => m.allTargets | _ => []) ++
  (g.redirects.map (·.2)) ++ ((g.imports.flatMap (·.2)).flatMap Dep.allTargets)

def walkFuel (g : Graph) (roots : List Spec) : Nat :=
  roots.length + g.targets.length + 2

def Graph.walk? (g : Graph) (o : WalkOpts) (roots : List Spec) (skip : Spec → Bool) :
    Option (List (Spec × Entry)) :=
  walkLoop g o skip (walkFuel g roots) (walkInit g o.kind roots) []

/-- `graph.walk(roots, options)` collected -/
def Graph.walk (g : Graph) (o : WalkOpts) (roots : List Spec) (skip : Spec → Bool := fun _ => false) :
    List (Spec × Entry) :=
  (g.walk? o roots skip).getD []

/-! ## errors -/

inductive ResErrOut where
  | code (c : Nat)
  | downgrade (s : Spec) (rng : Nat)
  | localImport (s : Spec) (rng : Nat)
  deriving DecidableEq, Repr

/-- `ModuleGraphError` as far as the properties observe it -/
inductive ErrOut where
  | moduleErr (code : Nat)
  | missingDynamic (s : Spec) (rng : Nat)
  | resolution (types : Bool) (e : ResErrOut)
  deriving DecidableEq, Repr

/-- `check_resolution` -/
def checkResolution (g : Graph) (o : WalkOpts) (referrer : Spec) (types : Bool)
    (fileText : Bool) (r : Res) (isDynamic : Bool) : Option ErrOut :=
  match r with
  | .ok s rng =>
    let rs := g.scheme referrer
    let ss := g.scheme s
    if rs = .https && ss = .http then some (.resolution types (.downgrade s rng))
    else if (rs = .https || rs = .http) && ss = .file && fileText then
      some (.resolution types (.localImport s rng))
    else if o.followDynamic then
      match g.slot (g.resolve s) with
      | some (.err true code es) =>
        if isDynamic then some (.missingDynamic es rng) else some (.moduleErr code)
      | _ => none
    else none
  | .err c => some (.resolution types (.code c))
  | .none => none

/-- the errors pushed into `next_errors` for one yielded entry, in push order -/
def entryErrors (g : Graph) (o : WalkOpts) (key : Spec) : Entry → List ErrOut
  | .module m =>
    let tdErr : List ErrOut :=
      if o.kind.includeTypes then
        match m.typesDep with
        | some td => (checkResolution g o key true td.fileText td.res false).toList
        | none => []
      else []
    let checkTypes := o.kind.includeTypes && isCheckable o key m.mediaType
    tdErr ++ (walkDeps o key m).flatMap fun d =>
      if o.followDynamic || !d.dyn then
        (checkResolution g o key false d.fileText d.code d.dyn).toList ++
        (if checkTypes then (checkResolution g o key true d.fileText d.type d.dyn).toList else [])
      else []
  | .err missing code _ =>
    if o.followDynamic && missing then [] else [.moduleErr code]
  | .redirect _ => []

/-- the key of the missing entry `check_resolution` surfaces at the import (it is remembered in
`surfaced_missing`): the third branch of `checkResolution`, reached under the same conditions -/
def surfacedKey (g : Graph) (o : WalkOpts) (referrer : Spec) (fileText : Bool) (r : Res) : Option Spec :=
  match r with
  | .ok s _ =>
    let rs := g.scheme referrer
    let ss := g.scheme s
    if rs = .https && ss = .http then none
    else if (rs = .https || rs = .http) && ss = .file && fileText then none
    else if o.followDynamic then
      match g.slot (g.resolve s) with
      | some (.err true _ _) => some (g.resolve s)
      | _ => none
    else none
  | _ => none

/-- the missing entries one yielded entry surfaces in place (same traversal as `entryErrors`) -/
def entrySurfaced (g : Graph) (o : WalkOpts) (key : Spec) : Entry → List Spec
  | .module m =>
    let td : List Spec :=
      if o.kind.includeTypes then
        match m.typesDep with
        | some td => (surfacedKey g o key td.fileText td.res).toList
        | none => []
      else []
    let checkTypes := o.kind.includeTypes && isCheckable o key m.mediaType
    td ++ (walkDeps o key m).flatMap fun d =>
      if o.followDynamic || !d.dyn then
        (surfacedKey g o key d.fileText d.code).toList ++
        (if checkTypes then (surfacedKey g o key d.fileText d.type).toList else [])
      else []
  | _ => []

/-- everything the walk surfaces in place -/
def surfacedIn (g : Graph) (o : WalkOpts) (w : List (Spec × Entry)) : List Spec :=
  w.flatMap fun (key, e) => entrySurfaced g o key e

/-- the visited `Missing` entry that was skipped while dynamic imports are followed and that no
import surfaced: it is reported when the walk is exhausted (`skipped_missing`) -/
def deferredError (o : WalkOpts) (surfaced : List Spec) : Spec × Entry → Option ErrOut
  | (key, .err true code _) =>
    if o.followDynamic && !surfaced.contains key then some (.moduleErr code) else none
  | _ => none

/-- `walk(..).errors()` collected: per entry the pushed errors are popped from the back; at the
end of the walk the skipped missing entries nothing surfaced, in visiting order (repair of F5;
that the iterator does so is the regenerated table `errorsReportSkippedMissing`) -/
def Graph.errors (g : Graph) (o : WalkOpts) (roots : List Spec) : List ErrOut :=
  let w := g.walk o roots
  (w.flatMap fun (key, e) => (entryErrors g o key e).reverse) ++
    (if errorsReportSkippedMissing then w.filterMap (deferredError o (surfacedIn g o w)) else [])

/-- `walk(..).validate()`: the first error, if any -/
def Graph.validate (g : Graph) (o : WalkOpts) (roots : List Spec) : Option ErrOut :=
  (g.errors o roots).head?

/-- `ModuleGraph::valid()` -/
def Graph.valid (g : Graph) : Option ErrOut :=
  g.validate { kind := .CodeOnly, followDynamic := false, checkJs := fun _ => true,
               preferFastCheck := false } g.roots

end DG
