/-!
# Fast check across packages: which packages are analysed, with and without a cache
(src/fast_check/range_finder.rs `PublicRangeFinder::find`, `add_pending_nv`, `try_get_cache_item`)

Packages are taken from a queue that starts with the top-level ones.  Analysing a package traces
its public API; the trace may enter modules of other packages (*touched*), and some of those
packages are recorded as its dependencies (*recorded*) and queued, once each.  A package whose
cache entry is valid is not analysed: its modules come from the entry and its dependencies are read
from the entry — the list recorded when the entry was written.
-/
namespace DG.FcDeps

structure Pkg where
  /-- other packages whose modules the trace of this package's public API enters -/
  touched : List Nat
  /-- packages recorded as its dependencies (`add_pending_nv`) -/
  recorded : List Nat
  deriving Repr, Inhabited

abbrev World := List Pkg

def World.pkg (w : World) (p : Nat) : Pkg := w.getD p { touched := [], recorded := [] }

structure St where
  queue : List Nat
  seen : List Nat
  /-- packages taken from the queue so far, in order -/
  analysed : List Nat
  deriving Repr, Inhabited, DecidableEq

/-- `add_pending_nv` for every recorded dependency of `p`: queued unless it is `p` or was seen -/
def enqueue (p : Nat) (s : St) (q : Nat) : St :=
  if q = p ∨ s.seen.contains q then s
  else { s with seen := s.seen ++ [q], queue := s.queue ++ [q] }

def step (w : World) (s : St) : St :=
  match s.queue with
  | [] => s
  | p :: rest => (w.pkg p).recorded.foldl (enqueue p) { s with queue := rest, analysed := s.analysed ++ [p] }

def run (w : World) : Nat → St → Option St
  | 0, s => if s.queue.isEmpty then some s else none
  | f + 1, s => if s.queue.isEmpty then some s else run w f (step w s)

def init (top : List Nat) : St := { queue := top, seen := top, analysed := [] }

/-- the packages that end up with fast check data: every package taken from the queue, and — for
those that were really analysed (`stale`: no valid cache entry) — the packages their trace entered -/
def outputs (w : World) (stale : Nat → Bool) (s : St) : List Nat :=
  s.analysed ++ (s.analysed.filter stale).flatMap fun p => (w.pkg p).touched

end DG.FcDeps
