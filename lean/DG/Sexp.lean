/-! S-expressions for the line protocol between harness and model driver. -/
namespace DG

inductive Sexp where
  | atom (s : String)
  | list (l : List Sexp)
  deriving Repr, Inhabited

namespace Sexp

partial def tokenize (s : String) : List String :=
  let rec go (cs : List Char) (cur : List Char) (acc : List String) : List String :=
    let flush (acc : List String) := if cur.isEmpty then acc else String.ofList cur.reverse :: acc
    match cs with
    | [] => (flush acc).reverse
    | c :: rest =>
      if c = '(' then go rest [] ("(" :: flush acc)
      else if c = ')' then go rest [] (")" :: flush acc)
      else if c = ' ' || c = '\n' || c = '\r' || c = '\t' then go rest [] (flush acc)
      else go rest (c :: cur) acc
  go s.toList [] []

mutual
partial def parseOne : List String → Option (Sexp × List String)
  | [] => none
  | "(" :: rest => do
    let (items, rest) ← parseMany rest []
    pure (.list items, rest)
  | ")" :: _ => none
  | t :: rest => some (.atom t, rest)
partial def parseMany : List String → List Sexp → Option (List Sexp × List String)
  | [], _ => none
  | ")" :: rest, acc => some (acc.reverse, rest)
  | toks, acc => do
    let (x, rest) ← parseOne toks
    parseMany rest (x :: acc)
end

def parse (s : String) : Option Sexp :=
  match parseOne (tokenize s) with
  | some (x, []) => some x
  | _ => none

def nat? : Sexp → Option Nat
  | .atom s => s.toNat?
  | _ => none

def bool? : Sexp → Option Bool
  | .atom "1" => some true
  | .atom "0" => some false
  | _ => none

def nats? : List Sexp → Option (List Nat) := fun l => l.mapM nat?

end Sexp
end DG
