/-!
# JSR version selection (src/packages.rs 319-543)

Versions are naturals ordered like the registry's versions (the harness interns the version
universe in `deno_semver` order); `sat` is the version requirement as a predicate
(tabulated from the real `VersionReq::matches`).  Dates are naturals.
-/
namespace DG.Jsr

structure VInfo where
  yanked : Bool
  createdAt : Option Nat
  deriving DecidableEq, Repr, Inhabited

/-- `matches_newest_dependency_date` (the free function): no info or no cutoff ⇒ true;
`created_at` absent ⇒ true ("assume versions not existing are really old"); else `created < cutoff`. -/
def dateOk (info : Option VInfo) (cutoff : Option Nat) : Bool :=
  match info, cutoff with
  | some i, some d =>
    match i.createdAt with
    | some c => decide (c < d)
    | none => true
  | _, _ => true

structure Acc where
  best : Option Nat
  hadHigher : Bool
  deriving DecidableEq, Repr, Inhabited

/-- one iteration of the `for (version, version_info) in versions` loop of `resolve_version` -/
def stepVersion (sat : Nat → Bool) (cutoff : Option Nat) (a : Acc) (v : Nat × Option VInfo) : Acc :=
  if sat v.1 then
    if dateOk v.2 cutoff then
      let isBest := match a.best with
        | some b => decide (b < v.1)
        | none => true
      { best := if isBest then some v.1 else a.best, hadHigher := true }
    else { a with hadHigher := true }
  else a

/-- `resolve_version` -/
def resolveVersion (sat : Nat → Bool) (cutoff : Option Nat)
    (versions : List (Nat × Option VInfo)) : Acc :=
  versions.foldl (stepVersion sat cutoff) { best := none, hadHigher := false }

inductive Resolved where
  | ok (version : Nat) (isYanked : Bool)
  /-- `JsrPackageReqNotFoundError`; `date` = the cutoff reported in the message, if any -/
  | notFound (date : Option Nat)
  deriving DecidableEq, Repr, Inhabited

/-- tier 1 candidates: the versions already selected for this package (no infos, so no date check) -/
def tier1List (existing : List Nat) : List (Nat × Option VInfo) := existing.map fun v => (v, none)
/-- tier 1.5 candidates: unyanked registry versions whose manifest is cached -/
def cachedList (infos : List (Nat × VInfo)) (cached : List Nat) : List (Nat × Option VInfo) :=
  (infos.filter fun p => !p.2.yanked && cached.contains p.1).map fun p => (p.1, some p.2)
/-- tier 2 candidates -/
def unyankedList (infos : List (Nat × VInfo)) : List (Nat × Option VInfo) :=
  (infos.filter fun p => !p.2.yanked).map fun p => (p.1, some p.2)
/-- tier 3 candidates -/
def yankedList (infos : List (Nat × VInfo)) : List (Nat × Option VInfo) :=
  (infos.filter fun p => p.2.yanked).map fun p => (p.1, some p.2)

/-- `self.package_info.versions.get(version).map(|i| i.yanked).unwrap_or(false)` -/
def yankedFlag (infos : List (Nat × VInfo)) (v : Nat) : Bool :=
  match infos.lookup v with
  | some i => i.yanked
  | none => false

/-- `JsrPackageVersionResolver::resolve_version`: tiers 1, 1.5, 2, 3.
`infos` is the registry's version map in iteration order, `existing` the versions already
selected for this package in the graph, `cached` the versions whose manifest is cached. -/
def resolveTiers (sat : Nat → Bool) (cutoff : Option Nat) (infos : List (Nat × VInfo))
    (existing : List Nat) (cached : List Nat) : Resolved :=
  match (resolveVersion sat none (tier1List existing)).best with
  | some v => .ok v (yankedFlag infos v)
  | none =>
    match (if cached.isEmpty then none
           else (resolveVersion sat cutoff (cachedList infos cached)).best) with
    | some v => .ok v false
    | none =>
      match (resolveVersion sat cutoff (unyankedList infos)).best with
      | some v => .ok v false
      | none =>
        match (resolveVersion sat cutoff (yankedList infos)).best with
        | some v => .ok v true
        | none =>
          .notFound (if (resolveVersion sat cutoff (unyankedList infos)).hadHigher ||
                        (resolveVersion sat cutoff (yankedList infos)).hadHigher
                     then cutoff else none)

/-- `NewestDependencyDateOptions::get_for_package` over character lists -/
def cutoffFor (date : Option Nat) (excluded : List (List Char)) (prefixes : List (List Char))
    (name : List Char) : Option Nat :=
  match date with
  | none => none
  | some d =>
    if excluded.contains name || prefixes.any (fun p => p.isPrefixOf name) then none else some d

/-- `jsr_unification_decides` (graph.rs): some already-selected version satisfies the requirement -/
def unificationDecides (sat : Nat → Bool) (existing : List Nat) : Bool :=
  existing.any sat

end DG.Jsr
