import DG.Sexp
import DG.Subset
/-! Line protocol for the request bookkeeping: trees are given by the operations that build them. -/
namespace DG.Subset.Proto
open DG DG.Sexp DG.Subset

def atoms? (l : List Sexp) : Option (List String) :=
  l.mapM fun | .atom a => some a | _ => none

mutual
partial def ops? (l : List Sexp) (acc : Sub) : Option Sub :=
  match l with
  | [] => some acc
  | .list [.atom "a", .atom x] :: rest => ops? rest (acc.add x)
  | .list (.atom "q" :: .atom x :: ps) :: rest => do
    let ps ← atoms? ps
    ops? rest (acc.addQualified x ps)
  | .list [.atom "n", .atom x, e] :: rest => do
    let e ← ex? e
    ops? rest (acc.addNamed x e)
  | _ => none
partial def ex? : Sexp → Option Ex
  | .atom "*" => some .all
  | .list (.atom "sub" :: l) => (ops? l .nil).map .sub
  | _ => none
end

def tree? : Sexp → Option Sub
  | .list l => ops? l .nil
  | _ => none

def rec? : Sexp → Option Imp
  | .atom "star" => some .star
  | .atom "star+default" => some .starDefault
  | .list (.atom "tree" :: l) => (ops? l .nil).map .subset
  | _ => none

def handledRun (ts : List Imp) : Option Imp × List (Option Imp) :=
  ts.foldl (fun (acc : Option Imp × List (Option Imp)) t =>
    let r := handledAdd acc.1 t
    (r.1, acc.2 ++ [r.2])) (none, [])

def showOpt : Option Imp → String
  | some i => i.show
  | none => "-"

def handle : Sexp → Option String
  | .list [.atom "req-tree", t] => (tree? t).map (·.show)
  | .list (.atom "req-parts" :: ps) => (atoms? ps).map fun ps => (Sub.fromParts ps).show
  | .list [.atom "req-extend", a, b] => do
    let a ← tree? a
    let b ← tree? b
    let r := Sub.extend a b
    pure (r.1.show ++ " ; " ++ r.2.show)
  | .list (.atom "req-handled" :: ts) => do
    let ts ← ts.mapM rec?
    let r := handledRun ts
    pure ((match r.1 with | some i => i.show | none => "") ++ " ; " ++ " | ".intercalate (r.2.map showOpt))
  | .list (.atom "req-pending" :: ts) => do
    let ts ← ts.mapM rec?
    pure (match ts.foldl pendingAdd none with | some i => i.show | none => "")
  | _ => none

end DG.Subset.Proto
