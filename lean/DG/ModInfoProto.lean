import DG.Sexp
import DG.ModInfo
/-! JSON over the line protocol: `null`, `t`, `f`, `n:<nat>`, `s:<text>`, `(a v…)`, `(o (s:key v)…)`.
Canonical printing sorts object keys (both sides print the same way). -/
namespace DG.MI.Proto
open DG DG.Sexp DG.MI

partial def json? : Sexp → Option J
  | .atom "null" => some .null
  | .atom "t" => some (.bool true)
  | .atom "f" => some (.bool false)
  | .atom a =>
    if a.startsWith "n:" then (String.ofList (a.toList.drop 2)).toNat?.map .num
    else if a.startsWith "s:" then some (.str (String.ofList (a.toList.drop 2)))
    else none
  | .list (.atom "a" :: vs) => (vs.mapM json?).map .arr
  | .list (.atom "o" :: kvs) =>
    (kvs.mapM fun (x : Sexp) => match x with
      | Sexp.list [Sexp.atom k, v] =>
        if k.startsWith "s:" then (json? v).map fun j => (String.ofList (k.toList.drop 2), j) else none
      | _ => none).map J.obj
  | _ => none

partial def render : J → String
  | .null => "null"
  | .bool true => "true"
  | .bool false => "false"
  | .num n => toString n
  | .str s => "\"" ++ s ++ "\""
  | .arr l => "[" ++ ",".intercalate (l.map render) ++ "]"
  | .obj kvs =>
    let sorted := kvs.mergeSort fun a b => decide (a.1 ≤ b.1)
    "{" ++ ",".intercalate (sorted.map fun (k, v) => "\"" ++ k ++ "\":" ++ render v) ++ "}"

/-- read as `ModuleInfo`, write back -/
def roundtrip (j : J) : String :=
  match decode j with
  | some m => render (encode m)
  | none => "none"

end DG.MI.Proto
