import DG.JsrVersion
/-!
# `jsr:` specifiers → registry URLs, with package bookkeeping

Anchors: `Builder::resolve_pending_jsr_specifiers`, `probe_cached_jsr_version_manifests`,
`resolve_jsr_nv`, `mark_jsr_dep`/`mark_npm_dep` (src/graph.rs); `JsrPackageVersionInfo::export(s)`,
`PackageSpecifiers` (src/packages.rs); `recommended_registry_package_url(_to_nv)`
(src/source/mod.rs); `JsrPackageVersionInfoExt::get_subpath` (src/graph.rs).

Strings are character lists.  Package names and versions are naturals (versions ordered like the
registry's, as in `JsrVersion.lean`); `Names` renders them for URL formation.
-/
namespace DG.Jsr

abbrev Str := List Char

/-! ## the `exports` field of a version manifest -/

/-- `serde_json::Value` of `exports`: a string, an object (a value that is not a string is `none`),
or anything else -/
inductive Exports where
  | str (v : Str)
  | obj (m : List (Str × Option Str))
  | other
  deriving DecidableEq, Repr, Inhabited

/-- `JsrPackageVersionInfo::export` -/
def Exports.export (e : Exports) (name : Str) : Option Str :=
  match e with
  | .str v => if name = ['.'] then some v else none
  | .obj m =>
    match m.lookup name with
    | some (some v) => some v
    | _ => none
  | .other => none

def objEntry (p : Str × Option Str) : Option (Str × Str) :=
  match p.2 with
  | some v => some (p.1, v)
  | none => none

/-- `JsrPackageVersionInfo::exports` -/
def Exports.list (e : Exports) : List (Str × Str) :=
  match e with
  | .str v => [(['.'], v)]
  | .obj m => m.filterMap objEntry
  | .other => []

/-! ## registry URLs -/

/-- split on `/` like Rust's `str::split('/')` -/
def splitSlash : Str → List Str
  | [] => [[]]
  | c :: cs =>
    if c = '/' then [] :: splitSlash cs
    else
      match splitSlash cs with
      | [] => [[c]]          -- unreachable: the result is never empty
      | s :: ss => (c :: s) :: ss

def stripPrefix? : Str → Str → Option Str
  | [], s => some s
  | _ :: _, [] => none
  | p :: ps, c :: cs => if p = c then stripPrefix? ps cs else none

/-- `recommended_registry_package_url`: registry URL (ends with `/`) ++ name ++ `/` ++ version ++ `/` -/
def packageUrl (reg name ver : Str) : Str := reg ++ name ++ '/' :: ver ++ ['/']

def dropLeadingSlash : Str → Str
  | '/' :: r => r
  | s => s

/-- `recommended_registry_package_url_to_nv`; `validVer` stands for `Version::parse_standard(..).is_ok()` -/
def urlToNv (validVer : Str → Bool) (reg url : Str) : Option (Str × Str) :=
  match stripPrefix? reg url with
  | none => none
  | some path =>
    match splitSlash (dropLeadingSlash path) with
    | scope :: name :: ver :: _ => if validVer ver then some (scope ++ '/' :: name, ver) else none
    | _ => none

def dropTrailingSlash (s : Str) : Str :=
  match s.reverse with
  | '/' :: r => r.reverse
  | _ => s

/-- `JsrPackageVersionInfoExt::get_subpath`: the rest of the URL after the package URL (without its
trailing slash), provided it starts a new path segment -/
def getSubpath (base url : Str) : Option Str :=
  match stripPrefix? (dropTrailingSlash base) url with
  | some ('/' :: p) => some ('/' :: p)
  | _ => none

/-- `base_url.join(export_value)` for the export values a manifest normally holds: `./p` and `p`
resolve against the package directory (other forms are outside the model and reported as such) -/
def joinExport (base path : Str) : Option Str :=
  match path with
  | '.' :: '/' :: p => if p.head? = some '.' || p.head? = some '/' then none else some (base ++ p)
  | '.' :: _ => none
  | '/' :: _ => none
  | p => if p.contains ':' || p.isEmpty then none else some (base ++ p)

/-! ## the package table (`PackageSpecifiers`) -/

structure Nv where
  name : Nat
  version : Nat
  deriving DecidableEq, Repr, Inhabited

/-- a package requirement: package name and an identifier of the version requirement -/
structure Req where
  name : Nat
  req : Nat
  deriving DecidableEq, Repr, Inhabited

/-- a dependency requirement recorded for a package (`JsrDepPackageReq`) -/
structure DepReq where
  npm : Bool
  name : Nat
  req : Nat
  deriving DecidableEq, Repr, Inhabited

structure PkgInfo where
  exports : List (Str × Str) := []
  deps : List DepReq := []
  deriving DecidableEq, Repr, Inhabited

structure Table where
  reqs : List (Req × Nv) := []
  byName : List (Nat × List Nat) := []
  packages : List (Nv × PkgInfo) := []
  topLevel : List Nv := []
  yanked : List Nv := []
  deriving DecidableEq, Repr, Inhabited

def setKey {α β} [BEq α] (k : α) (v : β) : List (α × β) → List (α × β)
  | [] => [(k, v)]
  | (k', v') :: r => if k' == k then (k, v) :: r else (k', v') :: setKey k v r

def insertNew {α} [BEq α] (x : α) (l : List α) : List α := if l.contains x then l else l ++ [x]

def Table.versionsByName (t : Table) (name : Nat) : List Nat := (t.byName.lookup name).getD []

/-- `PackageSpecifiers::add_nv` -/
def Table.addNv (t : Table) (r : Req) (nv : Nv) : Table :=
  { t with byName := setKey r.name (insertNew nv.version (t.versionsByName r.name)) t.byName,
           reqs := setKey r nv t.reqs }

def Table.info (t : Table) (nv : Nv) : Option PkgInfo := t.packages.lookup nv

/-- `PackageSpecifiers::ensure_package` -/
def Table.ensurePackage (t : Table) (nv : Nv) : Table :=
  match t.info nv with
  | some _ => t
  | none => { t with packages := t.packages ++ [(nv, {})] }

/-- `PackageSpecifiers::add_export` (the package exists: `ensure_package` ran before) -/
def Table.addExport (t : Table) (nv : Nv) (name path : Str) : Table :=
  match t.info nv with
  | some i => { t with packages := setKey nv { i with exports := setKey name path i.exports } t.packages }
  | none => t

/-- `PackageSpecifiers::add_dependency` -/
def Table.addDependency (t : Table) (nv : Nv) (d : DepReq) : Table :=
  match t.info nv with
  | some i => { t with packages := setKey nv { i with deps := insertNew d i.deps } t.packages }
  | none => t

/-! ## one pass of `resolve_pending_jsr_specifiers` -/

inductive MetaRes (α : Type) where
  | ok (a : α)
  | notFound
  | loadErr
  | redirect
  deriving Repr, Inhabited

structure Registry where
  /-- `meta.json` per package name, as a `Use` load sees it -/
  pkg : Nat → MetaRes (List (Nat × VInfo))
  /-- `meta.json` as a cache-bypassing load sees it -/
  pkgFresh : Nat → MetaRes (List (Nat × VInfo))
  /-- `<version>_meta.json` -/
  ver : Nv → MetaRes Exports
  /-- the version requirements, tabulated -/
  sat : Nat → Nat → Bool
  /-- newest-dependency-date cutoff applying to a package (after exclusions) -/
  cutoff : Nat → Option Nat
  /-- versions whose manifest a cache-only load finds -/
  cachedManifests : Nat → List Nat
  preferCached : Bool
  /-- the graph kind includes types (top-level packages are collected) -/
  includeTypes : Bool

/-- renderings used to form URLs -/
structure Names where
  reg : Str
  name : Nat → Str
  ver : Nat → Str

/-- a pending `jsr:` specifier -/
structure Item where
  spec : Nat
  name : Nat
  req : Nat
  /-- normalized export name (`.` or `./sub`) -/
  exportName : Str
  deriving DecidableEq, Repr, Inhabited

inductive ErrK where
  | pkgNotFound | pkgLoad | pkgRedirect
  | reqNotFound (date : Option Nat)
  | verNotFound | verLoad | verRedirect
  | unknownExport (exports : List Str)
  | badExportPath
  deriving DecidableEq, Repr, Inhabited

inductive Out where
  | redirect (spec : Nat) (url : Str) (nv : Nv)
  | err (spec : Nat) (kind : ErrK)
  deriving DecidableEq, Repr, Inhabited

/-- memo of cache-only manifest probes: per package, (probed versions, versions found cached) -/
abbrev Memo := List (Nat × (List Nat × List Nat))

def Memo.get (m : Memo) (name : Nat) : List Nat × List Nat := (m.lookup name).getD ([], [])

/-- candidates of `probe_cached_jsr_version_manifests`, in registry iteration order -/
def probeCandidates (sat : Nat → Bool) (infos : List (Nat × VInfo)) (probed : List Nat) : List Nat :=
  (infos.filter fun p => !p.2.yanked && sat p.1 && !probed.contains p.1).map (·.1)

/-- `probe_cached_jsr_version_manifests`: returns the new memo and the probes issued -/
def probe (reg : Registry) (m : Memo) (name req : Nat) (infos : List (Nat × VInfo)) : Memo × List Nv :=
  let (probed, cached) := m.get name
  let cands := probeCandidates (reg.sat req) infos probed
  if cands.isEmpty then (setKey name (probed, cached) m, [])
  else
    let found := cands.filter fun v => (reg.cachedManifests name).contains v
    (setKey name (probed ++ cands, cached ++ found) m, cands.map fun v => { name := name, version := v })

/-- `FillPassMode` -/
inductive Mode where
  | allowRestart | noRestart | cacheBusting
  deriving DecidableEq, Repr, Inhabited

structure P1 where
  table : Table := {}
  memo : Memo := []
  /-- items whose version was selected, with the selection -/
  selected : List (Item × Nv) := []
  outs : List Out := []
  /-- cache-only probes of version manifests, in order -/
  probes : List Nv := []
  /-- `Reporter::on_resolve` events -/
  resolved : List (Req × Nv) := []
  /-- packages whose `meta.json` was reloaded in this pass (`restarted_pkgs`) -/
  reloaded : List Nat := []
  /-- the whole build is to be restarted with cache busting -/
  restart : Bool := false
  deriving Repr, Inhabited

def metaErr : MetaRes α → ErrK × ErrK × ErrK → ErrK
  | .notFound, k => k.1
  | .loadErr, k => k.2.1
  | .redirect, k => k.2.2
  | .ok _, k => k.1

/-- the `meta.json` in effect for a package: the reloaded one once it was reloaded in this pass -/
def P1.pkgOf (reg : Registry) (s : P1) (name : Nat) : MetaRes (List (Nat × VInfo)) :=
  if s.reloaded.contains name then reg.pkgFresh name else reg.pkg name

/-- the cached-version set handed to `resolve_version`, the memo and the probes issued -/
def probeStep (reg : Registry) (s : P1) (it : Item) (infos : List (Nat × VInfo)) :
    Memo × List Nv × List Nat :=
  if !reg.preferCached || unificationDecides (reg.sat it.req) (s.table.versionsByName it.name) then
    (s.memo, [], [])
  else
    let r := probe reg s.memo it.name it.req infos
    (r.1, r.2, (r.1.get it.name).2)

/-- one attempt at an item: package metadata, cached-manifest probe, version selection
(`resolve_jsr_nv`).  The second component is the requirement-not-found error, if that happened. -/
def pass1Try (reg : Registry) (s : P1) (it : Item) : P1 × Option (Option Nat) :=
  match s.pkgOf reg it.name with
  | .ok infos =>
    let pr := probeStep reg s it infos
    let s := { s with memo := pr.1, probes := s.probes ++ pr.2.1 }
    match resolveTiers (reg.sat it.req) (reg.cutoff it.name) infos (s.table.versionsByName it.name) pr.2.2 with
    | .ok v y =>
      let nv : Nv := { name := it.name, version := v }
      let r : Req := { name := it.name, req := it.req }
      let t := s.table.addNv r nv
      let t := if y then { t with yanked := insertNew nv t.yanked } else t
      ({ s with table := t, selected := s.selected ++ [(it, nv)], resolved := s.resolved ++ [(r, nv)] }, none)
    | .notFound d => (s, some d)
  | r => ({ s with outs := s.outs ++ [.err it.spec (metaErr r (.pkgNotFound, .pkgLoad, .pkgRedirect))] }, none)

def P1.notFound (s : P1) (it : Item) (d : Option Nat) : P1 :=
  { s with outs := s.outs ++ [.err it.spec (.reqNotFound d)] }

/-- first loop of `resolve_pending_jsr_specifiers`, one pending item -/
def pass1Step (reg : Registry) (mode : Mode) (s : P1) (it : Item) : P1 :=
  if s.restart then s
  else
    match pass1Try reg s it with
    | (s', none) => s'
    | (s', some d) =>
      match mode with
      | .allowRestart => { s' with restart := true }
      | .cacheBusting => s'.notFound it d
      | .noRestart =>
        if s'.reloaded.contains it.name then s'.notFound it d
        else
          match pass1Try reg { s' with reloaded := it.name :: s'.reloaded } it with
          | (s'', none) => s''
          | (s'', some d') => s''.notFound it d'

structure P2 where
  table : Table
  outs : List Out
  deriving Repr, Inhabited

/-- second loop: version manifests, export lookup, redirect, bookkeeping -/
def pass2Step (reg : Registry) (nm : Names) (collectTopLevel : Bool) (s : P2) (p : Item × Nv) : P2 :=
  match reg.ver p.2 with
  | .ok exports =>
    let t := s.table.ensurePackage p.2
    match exports.export p.1.exportName with
    | some path =>
      let t := t.addExport p.2 p.1.exportName path
      let t := if collectTopLevel then { t with topLevel := insertNew p.2 t.topLevel } else t
      match joinExport (packageUrl nm.reg (nm.name p.2.name) (nm.ver p.2.version)) path with
      | some url => { table := t, outs := s.outs ++ [.redirect p.1.spec url p.2] }
      | none => { table := t, outs := s.outs ++ [.err p.1.spec .badExportPath] }
    | none =>
      { table := t, outs := s.outs ++ [.err p.1.spec (.unknownExport (exports.list.map (·.1)))] }
  | r => { s with outs := s.outs ++ [.err p.1.spec (metaErr r (.verNotFound, .verLoad, .verRedirect))] }

/-- one whole pass over the pending `jsr:` specifiers, from table `t` -/
def resolvePass (reg : Registry) (nm : Names) (mode : Mode) (t : Table) (items : List Item) : P1 × P2 :=
  let s1 := items.foldl (pass1Step reg mode) { table := t }
  let collect := t.topLevel.isEmpty && reg.includeTypes
  (s1, s1.selected.foldl (pass2Step reg nm collect) { table := s1.table, outs := s1.outs })

/-- `mark_jsr_dep` / `mark_npm_dep`: the requirement is attributed to the package the referrer's URL
belongs to, if any (`nvOf` decodes the rendered name/version back to ids) -/
def markDep (validVer : Str → Bool) (nm : Names) (nvOf : Str × Str → Option Nv) (t : Table)
    (referrer : Str) (d : DepReq) : Table :=
  match urlToNv validVer nm.reg referrer with
  | some p =>
    match nvOf p with
    | some nv => t.addDependency nv d
    | none => t
  | none => t

end DG.Jsr
