import DG.Sexp
/-!
# Which initialisers fast check leaves in place (`maybe_transform_expr_if_leavable`, transform.rs)

An initialiser whose type cannot be inferred is *left verbatim* in the emitted module when the
analysis below says so, and is a diagnostic otherwise.  The analysis is a recursion over the
expression: every operand, element, property value, computed key and template substitution has to
be leavable (each loop in the code stops at the first one that is not); calls, `new`, sequences,
assignments, tagged templates, classes, optional chains, … never are.  `e as T` / `<T>e` are
leavable whatever `e` is, because `e` is replaced by the placeholder `({} as never)`.

Lists are spelled as mutual inductives so that every function is structurally recursive.
-/
namespace DG.Leave

mutual
inductive LExpr where
  /-- `this`, an identifier, a literal (string, boolean, null, number, bigint, regex) -/
  | atom
  /-- `Call`, `New`, `Seq`, `Assign`, `SuperProp`, tagged template, class, `yield`, meta property,
  JSX, instantiation expression, private name, optional chain, JSX text literal -/
  | logic
  | arr (elems : LElems)
  | obj (props : LProps)
  | unary (arg : LExpr)
  | update (arg : LExpr)
  | bin (l r : LExpr)
  | cond (t c a : LExpr)
  /-- `o.name` -/
  | member (o : LExpr)
  /-- `o.#name` -/
  | memberPrivate (o : LExpr)
  /-- `o[k]` -/
  | memberComputed (o k : LExpr)
  | await (arg : LExpr)
  | paren (e : LExpr)
  /-- `e as T`, `<T>e`: the operand is replaced by a placeholder -/
  | asT (e : LExpr)
  | constAssertion (e : LExpr)
  | nonNull (e : LExpr)
  | satisfies (e : LExpr)
  /-- an untagged template literal with these substitutions -/
  | tpl (subs : LElems)
  /-- a function or arrow expression: handed to the function transform (C10's `transformFn` /
  `transformArrow`: typed parameters, explicit return type, empty body — or a diagnostic) -/
  | fn
inductive LElems where
  | nil
  /-- an array hole -/
  | hole (rest : LElems)
  | cons (e : LExpr) (rest : LElems)
inductive LProp where
  | shorthand
  /-- `key: v` with an identifier, string, number or bigint key -/
  | kv (v : LExpr)
  /-- `[k]: v` -/
  | kvComputed (k v : LExpr)
  /-- `a = v` (shorthand with initialiser) -/
  | assign (v : LExpr)
  /-- getter, setter, method -/
  | method
  | spread (e : LExpr)
inductive LProps where
  | nil
  | cons (p : LProp) (rest : LProps)
end

mutual
/-- `maybe_transform_expr_if_leavable` (the `Ok` value; the function transform's diagnostics for
`fn` are C10's `transformFn`, outside this analysis) -/
def leavable : LExpr → Bool
  | .atom => true
  | .logic => false
  | .arr es => leavableElems es
  | .obj ps => leavableProps ps
  | .unary a => leavable a
  | .update a => leavable a
  | .bin l r => leavable l && leavable r
  | .cond t c a => leavable t && leavable c && leavable a
  | .member o => leavable o
  | .memberPrivate _ => false
  | .memberComputed o k => leavable o && leavable k
  | .await a => leavable a
  | .paren e => leavable e
  | .asT _ => true
  | .constAssertion e => leavable e
  | .nonNull e => leavable e
  | .satisfies e => leavable e
  | .tpl subs => leavableElems subs
  | .fn => true
def leavableElems : LElems → Bool
  | .nil => true
  | .hole rest => leavableElems rest
  | .cons e rest => leavable e && leavableElems rest
def leavableProp : LProp → Bool
  | .shorthand => true
  | .kv v => leavable v
  | .kvComputed k v => leavable k && leavable v
  | .assign v => leavable v
  | .method => false
  | .spread e => leavable e
def leavableProps : LProps → Bool
  | .nil => true
  | .cons p rest => leavableProp p && leavableProps rest
end

mutual
/-- what is left in the output contains no logic: no call, `new`, sequence, assignment, … anywhere
in it — below an `as T` nothing of the operand is left at all -/
def NoLogic : LExpr → Prop
  | .atom => True
  | .logic => False
  | .arr es => NoLogicElems es
  | .obj ps => NoLogicProps ps
  | .unary a => NoLogic a
  | .update a => NoLogic a
  | .bin l r => NoLogic l ∧ NoLogic r
  | .cond t c a => NoLogic t ∧ NoLogic c ∧ NoLogic a
  | .member o => NoLogic o
  | .memberPrivate _ => False
  | .memberComputed o k => NoLogic o ∧ NoLogic k
  | .await a => NoLogic a
  | .paren e => NoLogic e
  | .asT _ => True
  | .constAssertion e => NoLogic e
  | .nonNull e => NoLogic e
  | .satisfies e => NoLogic e
  | .tpl subs => NoLogicElems subs
  | .fn => True
def NoLogicElems : LElems → Prop
  | .nil => True
  | .hole rest => NoLogicElems rest
  | .cons e rest => NoLogic e ∧ NoLogicElems rest
def NoLogicProp : LProp → Prop
  | .shorthand => True
  | .kv v => NoLogic v
  | .kvComputed k v => NoLogic k ∧ NoLogic v
  | .assign v => NoLogic v
  | .method => False
  | .spread e => NoLogic e
def NoLogicProps : LProps → Prop
  | .nil => True
  | .cons p rest => NoLogicProp p ∧ NoLogicProps rest
end

/-! ## line protocol: `(leavable <expr>)` -/
namespace Proto
open DG.Sexp

mutual
partial def expr? : Sexp → Option LExpr
  | .atom "atom" => some .atom
  | .atom "logic" => some .logic
  | .atom "fn" => some .fn
  | .list (.atom "arr" :: es) => (elems? es).map .arr
  | .list (.atom "tpl" :: es) => (elems? es).map .tpl
  | .list (.atom "obj" :: ps) => (props? ps).map .obj
  | .list [.atom "unary", a] => (expr? a).map .unary
  | .list [.atom "update", a] => (expr? a).map .update
  | .list [.atom "bin", l, r] => do pure (.bin (← expr? l) (← expr? r))
  | .list [.atom "cond", t, c, a] => do pure (.cond (← expr? t) (← expr? c) (← expr? a))
  | .list [.atom "member", o] => (expr? o).map .member
  | .list [.atom "member-private", o] => (expr? o).map .memberPrivate
  | .list [.atom "member-computed", o, k] => do pure (.memberComputed (← expr? o) (← expr? k))
  | .list [.atom "await", a] => (expr? a).map .await
  | .list [.atom "paren", a] => (expr? a).map .paren
  | .list [.atom "as", a] => (expr? a).map .asT
  | .list [.atom "const", a] => (expr? a).map .constAssertion
  | .list [.atom "nonnull", a] => (expr? a).map .nonNull
  | .list [.atom "satisfies", a] => (expr? a).map .satisfies
  | _ => none
partial def elems? : List Sexp → Option LElems
  | [] => some .nil
  | .atom "hole" :: rest => (elems? rest).map .hole
  | e :: rest => do pure (.cons (← expr? e) (← elems? rest))
partial def prop? : Sexp → Option LProp
  | .atom "shorthand" => some .shorthand
  | .atom "method" => some .method
  | .list [.atom "kv", v] => (expr? v).map .kv
  | .list [.atom "kvc", k, v] => do pure (.kvComputed (← expr? k) (← expr? v))
  | .list [.atom "assign", v] => (expr? v).map .assign
  | .list [.atom "spread", e] => (expr? e).map .spread
  | _ => none
partial def props? : List Sexp → Option LProps
  | [] => some .nil
  | p :: rest => do pure (.cons (← prop? p) (← props? rest))
end

def handle : Sexp → Option String
  | .list [.atom "leavable", e] =>
    match expr? e with
    | some x => some (if leavable x then "leave" else "diagnostic")
    | none => some "bad-op"
  | _ => none

end Proto
end DG.Leave
