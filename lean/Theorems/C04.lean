import DG.Sched
/-!
# C04 — build results do not depend on load completion order or on the run

Model: `DG/Sched.lean` on top of `DG/Build.lean`.  A schedule is any list of events
(`complete id` / `poll`); nothing is assumed about it.

* `sched_refines` — whatever the schedule, the builder state reached is the schedule-free loop
  body applied some number of times: completions never change the builder state, a poll either
  stutters (head not ready, or finished) or performs exactly the next iteration.
* `sched_irrelevant` — two schedules that both drive the build to its end reach the same state
  (graph, redirects, loader-call log, lockfile writes).
* `sched_eq_runLoop` — and that state is the result of the schedule-free `runLoop`.
* the builder model has no other source of nondeterminism: `iter` is a function (after the fix
  of finding F2 the dynamic-branch and deferred tables are iterated in insertion order, so there
  is no hash-order parameter either).
-/
namespace DG.C04
open DG DG.Build DG.Sched

variable (w : World) (o : Opts)

/-- the loop body guarded by the loop condition -/
def giter (st : St) : St := if quiescent st then st else iter w o st

def giterN : Nat → St → St
  | 0, st => st
  | n + 1, st => giterN n (giter w o st)

theorem giterN_add (a b : Nat) (st : St) : giterN w o (a + b) st = giterN w o b (giterN w o a st) := by
  induction a generalizing st with
  | zero => simp [giterN]
  | succ a ih =>
    have : a + 1 + b = (a + b) + 1 := by omega
    rw [this]
    simp only [giterN]
    exact ih _

theorem giter_of_quiescent (st : St) (h : quiescent st = true) : giter w o st = st := by
  simp [giter, h]

theorem giterN_of_quiescent (n : Nat) (st : St) (h : quiescent st = true) : giterN w o n st = st := by
  induction n with
  | zero => rfl
  | succ n ih => simp only [giterN, giter_of_quiescent w o st h, ih]

/-- a single event changes the builder state by zero or one guarded iterations -/
theorem step_st (s : SSt) (ev : Event) :
    (step w o s ev).st = s.st ∨ (step w o s ev).st = giter w o s.st := by
  cases ev with
  | complete id => exact Or.inl rfl
  | poll =>
    simp only [step]
    by_cases hq : quiescent s.st = true
    · simp [hq]
    · simp only [hq, Bool.false_eq_true, if_false]
      have hg : giter w o s.st = iter w o s.st := by simp [giter, hq]
      split
      · split
        · exact Or.inr hg.symm
        · exact Or.inl rfl
      · exact Or.inr hg.symm

/-- **refinement**: every scheduled execution is a prefix of the schedule-free execution -/
theorem sched_refines (evs : List Event) (s : SSt) :
    ∃ n, (run w o evs s).st = giterN w o n s.st := by
  induction evs generalizing s with
  | nil => exact ⟨0, rfl⟩
  | cons ev evs ih =>
    obtain ⟨n, hn⟩ := ih (step w o s ev)
    have hrun : run w o (ev :: evs) s = run w o evs (step w o s ev) := rfl
    rw [hrun, hn]
    rcases step_st w o s ev with h | h
    · exact ⟨n, by rw [h]⟩
    · exact ⟨n + 1, by rw [h]; rfl⟩

/-- **order independence**: schedules that both finish the build finish it in the same state -/
theorem sched_irrelevant (evs1 evs2 : List Event) (s1 s2 : SSt) (h : s1.st = s2.st)
    (f1 : quiescent (run w o evs1 s1).st = true) (f2 : quiescent (run w o evs2 s2).st = true) :
    (run w o evs1 s1).st = (run w o evs2 s2).st := by
  obtain ⟨n, hn⟩ := sched_refines w o evs1 s1
  obtain ⟨m, hm⟩ := sched_refines w o evs2 s2
  rw [hn] at f1 ⊢
  rw [hm] at f2 ⊢
  rw [h] at f1 ⊢
  rcases Nat.le_total n m with hle | hle
  · obtain ⟨d, rfl⟩ := Nat.exists_eq_add_of_le hle
    rw [giterN_add, giterN_of_quiescent w o d _ f1]
  · obtain ⟨d, rfl⟩ := Nat.exists_eq_add_of_le hle
    rw [giterN_add, giterN_of_quiescent w o d _ f2]

/-- `runLoop` is the guarded iteration run until the loop condition fails -/
theorem runLoop_is_giterN (fuel : Nat) (st out : St) (h : runLoop w o fuel st = some out) :
    ∃ k, out = giterN w o k st ∧ quiescent out = true := by
  induction fuel generalizing st with
  | zero => simp [runLoop] at h
  | succ fuel ih =>
    unfold runLoop at h
    by_cases hq : quiescent st = true
    · simp only [hq, if_true, Option.some.injEq] at h
      exact ⟨0, h.symm, by rw [← h]; exact hq⟩
    · simp only [hq, Bool.false_eq_true, if_false] at h
      obtain ⟨k, hk, hqo⟩ := ih _ h
      refine ⟨k + 1, ?_, hqo⟩
      simp only [giterN, giter, hq, Bool.false_eq_true, if_false]
      exact hk

/-- a scheduled build that finishes computes exactly the schedule-free result -/
theorem sched_eq_runLoop (evs : List Event) (s : SSt) (fin : quiescent (run w o evs s).st = true)
    (fuel : Nat) (out : St) (h : runLoop w o fuel s.st = some out) : (run w o evs s).st = out := by
  obtain ⟨n, hn⟩ := sched_refines w o evs s
  obtain ⟨k, hk, hq⟩ := runLoop_is_giterN w o fuel s.st out h
  rw [hn] at fin ⊢
  rw [hk] at hq ⊢
  rcases Nat.le_total n k with hle | hle
  · obtain ⟨d, rfl⟩ := Nat.exists_eq_add_of_le hle
    rw [giterN_add, giterN_of_quiescent w o d _ fin]
  · obtain ⟨d, rfl⟩ := Nat.exists_eq_add_of_le hle
    rw [giterN_add, giterN_of_quiescent w o d _ hq]

/-- any two fuel budgets that suffice give the same result -/
theorem runLoop_fuel_irrelevant (f1 f2 : Nat) (st out1 out2 : St)
    (h1 : runLoop w o f1 st = some out1) (h2 : runLoop w o f2 st = some out2) : out1 = out2 := by
  obtain ⟨k1, hk1, hq1⟩ := runLoop_is_giterN w o f1 st out1 h1
  obtain ⟨k2, hk2, hq2⟩ := runLoop_is_giterN w o f2 st out2 h2
  rw [hk1] at hq1 ⊢
  rw [hk2] at hq2 ⊢
  rcases Nat.le_total k1 k2 with hle | hle
  · obtain ⟨d, rfl⟩ := Nat.exists_eq_add_of_le hle
    rw [giterN_add, giterN_of_quiescent w o d _ hq1]
  · obtain ⟨d, rfl⟩ := Nat.exists_eq_add_of_le hle
    rw [giterN_add, giterN_of_quiescent w o d _ hq2]

/-- a completion event never touches the builder state (so a load finishing early, late, or after
any number of polls is unobservable) -/
theorem complete_is_invisible (s : SSt) (id : Nat) : (step w o s (.complete id)).st = s.st := rfl

/-- a poll while the head request is outstanding leaves everything as it is -/
theorem poll_blocked (s : SSt) (r : Req) (rest : List Req) (hp : s.st.pending = r :: rest)
    (hr : s.ready.contains s.popped = false) (hq : quiescent s.st = false) :
    step w o s .poll = s := by
  simp only [step, hq, Bool.false_eq_true, if_false, hp, hr]

/-- non-vacuity: two different schedules of a three-request world end in the same graph -/
def demoWorld : World :=
  { resp := [(0, .module 0), (1, .redirect 2), (2, .module 2)],
    content := [(0, { mt := .TypeScript, schemeFile := true, decodable := true, parsable := true, wasmOk := true,
                      parsed := { deps := [{ text := 0, code := .ok 1 0, type := .none, dyn := false, attr := none,
                                             isAsset := false, sourcePhase := none }],
                                  typesDep := none, sourceMapDep := none } }),
                (2, { mt := .JavaScript, schemeFile := true, decodable := true, parsable := true, wasmOk := true,
                      parsed := { deps := [], typesDep := none, sourceMapDep := none } })],
    wasmExt := [], nodeSpecs := [], maxRedirects := 10, lockRemote := [] }

def demoOpts : Opts :=
  { kind := .All, isDynamic := false, skipDynamicDeps := false, unstableBytes := false,
    unstableText := false, unstableCss := false, unstableConfig := false }

def demoStart : SSt :=
  { st := load demoWorld demoOpts 0
      { spec := 0, range := none, spRef := none, isAsset := false, inDyn := false, isRoot := true, attr := none } {},
    popped := 0, ready := [] }

def keysOf (s : SSt) : List Spec × Bool := (s.st.slots.map (·.1), quiescent s.st)

example :
    keysOf (run demoWorld demoOpts [.complete 0, .poll, .complete 1, .poll, .complete 2, .poll, .poll] demoStart)
      = ([0, 2], true) ∧
    keysOf (run demoWorld demoOpts
      [.poll, .complete 2, .complete 1, .complete 0, .poll, .poll, .poll, .poll, .poll] demoStart)
      = ([0, 2], true) := by
  decide

end DG.C04
