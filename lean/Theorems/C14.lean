import Proofs.Resolve
import DG.Walk
/-!
# C14 — redirect following terminates and all lookups agree with the walk

Model: `DG/Resolve.lean` (`resolve`, `get`, `contains`, `try_get`, `try_get_prefer_types`,
`specifiers`, `resolve_dependency_from_dep`), `DG/Walk.lean` (`visit`, `expandPrev`).

`WalkReaches g k s e` is what the walk does for one specifier, read off `visit`/`expandPrev`:
a specifier with a slot (or without a redirect entry) is where the walk stops; a specifier
with no slot but a redirect entry is yielded as a redirect and its target is pushed next.
-/
namespace DG.C14
open DG Tables

/-- the walk's own chain: redirect entries are only consulted when there is no slot -/
inductive WalkReaches (g : Graph) : Nat → Spec → Spec → Prop where
  | stop {s} : (g.slot s ≠ none ∨ g.redirect s = none) → WalkReaches g 0 s s
  | hop {k s t e} : g.slot s = none → g.redirect s = some t → WalkReaches g k t e →
      WalkReaches g (k + 1) s e

/-- `WalkReaches` really is the iterator's behaviour: a slot-less redirect source is
yielded as a redirect entry … -/
theorem visit_redirect (g : Graph) (o : WalkOpts) (s t : Spec) (st : WalkState)
    (hs : g.slot s = none) (hr : g.redirect s = some t) :
    visit g o s st = (st, some (.redirect t)) := by
  simp [visit, visitInfo, pushAll, hs, hr]

/-- … and on the next call its target is pushed to the front of the queue. -/
theorem expandPrev_redirect (o : WalkOpts) (st : WalkState) (s t : Spec)
    (hp : st.prev = some (s, .redirect t)) :
    expandPrev o st = ({ st with prev := none } : WalkState).pushFront t := by
  simp [expandPrev, hp, succs, pushAll]

/-- a specifier with a slot is yielded with that slot's own entry, whatever the redirect table says -/
theorem visit_err_slot (g : Graph) (o : WalkOpts) (s : Spec) (st : WalkState) (m c es)
    (hs : g.slot s = some (.err m c es)) :
    visit g o s st = (st, some (.err m c es)) := by
  simp [visit, visitInfo, pushAll, hs]

/-- what `try_get` should answer at the specifier where the walk stops -/
def endResult (g : Graph) (e : Spec) : TryGet :=
  match g.slot e with
  | some (.module _) => .module e
  | some (.err _ c _) => .error c
  | _ => .none

/-- the walk's chain is exactly the chain `resolve` follows: redirect entries of specifiers that
have no entry of their own (this is where the guard found in the source, table
`resolveStopsAtEntry`, is used: without it the proof does not go through) -/
theorem hopsTo_of_walkReaches {g : Graph} {k s e} (h : WalkReaches g k s e) :
    HopsTo g.redirectEff k s e := by
  induction h with
  | @stop s hs =>
    apply HopsTo.done
    rcases hs with hs | hs
    · cases h : g.slot s with
      | none => exact absurd h hs
      | some sl => simp [Graph.redirectEff, effRedirect, resolveStopsAtEntry, h]
    · cases h : g.slot s <;> simp [Graph.redirectEff, effRedirect, hs]
  | hop hs hr _ ih =>
    exact HopsTo.hop (by simp [Graph.redirectEff, effRedirect, hs, hr]) ih

theorem walkReaches_of_hopsTo {g : Graph} {k s e} (h : HopsTo g.redirectEff k s e) :
    WalkReaches g k s e := by
  induction h with
  | @done s hn =>
    apply WalkReaches.stop
    cases hs : g.slot s with
    | some sl => exact Or.inl (by simp)
    | none => exact Or.inr (by simpa [Graph.redirectEff, effRedirect, hs] using hn)
  | @hop k s t e hr _ ih =>
    cases hs : g.slot s with
    | some sl => simp [Graph.redirectEff, effRedirect, resolveStopsAtEntry, hs] at hr
    | none => exact WalkReaches.hop hs (by simpa [Graph.redirectEff, effRedirect, hs] using hr) ih

/-- **resolve follows the chain** (general form, for whatever cap the source has). -/
theorem resolve_follows_chain (g : Graph) (k : Nat) (s e : Spec)
    (h : HopsTo g.redirectEff k s e)
    (hcap : ∀ max, resolveCap = some max → k + 1 ≤ max)
    (hfuel : k ≤ g.resolveFuel + 1) :
    g.resolve s = e :=
  resolveWith_chain g.redirectEff resolveCap g.resolveFuel k s e h hfuel hcap

/-- With the cap currently in the source (`MAX_REDIRECTS = 10`, regenerated table) chains of up
to 9 hops resolve to their end.  Re-checked against the regenerated `Tables.lean` on every run:
a smaller cap in the source breaks this proof. -/
theorem resolve_follows_chain_current (g : Graph) (k : Nat) (s e : Spec)
    (h : HopsTo g.redirectEff k s e) (hk : k ≤ 9) : g.resolve s = e := by
  apply resolve_follows_chain g k s e h
  · intro max hmax
    simp [resolveCap, resolveHasCap, resolveMaxRedirects] at hmax
    omega
  · simp [Graph.resolveFuel, resolveCap, resolveHasCap, resolveMaxRedirects]
    omega

/-- resolve goes where the walk goes, for every chain within the cap — whatever the redirect table
says about specifiers that have entries of their own -/
theorem resolve_is_walk_end (g : Graph) (k : Nat) (s e : Spec)
    (hw : WalkReaches g k s e) (hk : k ≤ 9) : g.resolve s = e :=
  resolve_follows_chain_current g k s e (hopsTo_of_walkReaches hw) hk

/-- resolve is idempotent on terminating chains within the cap -/
theorem resolve_idempotent_on_chain (g : Graph) (k : Nat) (s e : Spec)
    (h : WalkReaches g k s e) (hk : k ≤ 9) : g.resolve (g.resolve s) = g.resolve s := by
  have hh := hopsTo_of_walkReaches h
  have h1 := resolve_follows_chain_current g k s e hh hk
  have h2 := resolve_follows_chain_current g 0 e e (HopsTo.done hh.end_no_redirect) (by omega)
  rw [h1, h2]

/-- **lookups agree with the walk** (partial only in the length of the chain: ≤ 9 hops, finding
F1; nothing is assumed about where entries sit — before the repair of F12/F35 the end of the
chain had to be a specifier without a redirect entry). -/
theorem lookup_agrees_partial (g : Graph) (k : Nat) (s e : Spec)
    (hw : WalkReaches g k s e) (hk : k ≤ 9) :
    g.tryGet s = endResult g e ∧
    g.get s = (if g.isModule e then some e else none) ∧
    g.contains s = g.isModule e := by
  have hr := resolve_is_walk_end g k s e hw hk
  refine ⟨?_, ?_, ?_⟩
  · simp only [Graph.tryGet, hr, endResult]
    cases g.slot e with
    | none => rfl
    | some sl => cases sl <;> rfl
  · rcases h : g.slot e with _ | sl
    · simp [Graph.get, hr, Graph.isModule, h]
    · cases sl <;> simp [Graph.get, hr, Graph.isModule, h]
  · rcases h : g.slot e with _ | sl
    · simp [Graph.contains, Graph.get, hr, Graph.isModule, h]
    · cases sl <;> simp [Graph.contains, Graph.get, hr, Graph.isModule, h]

/-- the hypotheses of `lookup_agrees_partial` are satisfiable: a 2-hop chain to a module -/
def g2 : Graph :=
  { kind := .All, roots := [0], slots := [(2, .module .json)], redirects := [(0, 1), (1, 2)],
    imports := [], schemes := [] }

example : WalkReaches g2 2 0 2 ∧ g2.redirect 2 = none ∧ g2.tryGet 0 = .module 2 := by
  refine ⟨?_, by decide, by decide⟩
  exact .hop (t := 1) (by decide) (by decide)
    (.hop (t := 2) (by decide) (by decide) (.stop (Or.inl (by decide))))

/-- findings F12 / F35 (repaired): an entry stored under a redirect source — an error recorded on
a member of a redirect chain, or a module the loader reported under a specifier a stale lockfile
redirects — is what the lookups return, as the walk does.  `1` has a module and the table still
says `1 → 2`. -/
def gStale : Graph :=
  { kind := .All, roots := [0], slots := [(1, .module .json)], redirects := [(0, 1), (1, 2)],
    imports := [], schemes := [] }

theorem entry_on_redirect_source_is_found :
    WalkReaches gStale 1 0 1 ∧ gStale.tryGet 0 = .module 1 ∧ gStale.get 1 = some 1 ∧
    gStale.resolve (gStale.resolve 0) = gStale.resolve 0 := by
  refine ⟨?_, by decide, by decide, by decide⟩
  exact .hop (t := 1) (by decide) (by decide) (.stop (Or.inl (by decide)))

/-! ## what is false of the current code (findings, replayed on the implementation) -/

/-- a chain of `n` redirects `0 → 1 → … → n` ending in a JSON module at `n` -/
def chainGraph (n : Nat) : Graph :=
  { kind := .All, roots := [0], slots := [(n, .module .json)],
    redirects := (List.range n).map fun i => (i, i + 1), imports := [], schemes := [] }

/-- full statement: lookups agree with the walk for every terminating chain -/
def lookup_agrees_statement : Prop :=
  ∀ (g : Graph) (k : Nat) (s e : Spec), WalkReaches g k s e → g.tryGet s = endResult g e

/-- F1: with 10 hops the walk reaches the module, the lookups do not. -/
theorem redirect_cap_counterexample :
    (chainGraph 10).tryGet 0 = .none ∧ endResult (chainGraph 10) 10 = .module 10 ∧
    (chainGraph 10).resolve 0 = 9 := by decide

/-- `resolve` idempotent for every graph and specifier -/
def resolve_idempotent_statement : Prop := ∀ (g : Graph) (s : Spec), g.resolve (g.resolve s) = g.resolve s

def cycleGraph : Graph :=
  { kind := .All, roots := [0], slots := [], redirects := [(0, 1), (1, 0)], imports := [], schemes := [] }

/-- on a redirect cycle `resolve` is not idempotent (lockfile-seeded or loader cycles) -/
theorem resolve_cycle_counterexample : ¬ resolve_idempotent_statement := by
  intro h
  have := h cycleGraph 0
  revert this
  decide

/-- `specifiers()` lists every redirect source under the entry its target resolves to, however
many hops away (finding F1b, repaired) … -/
theorem specifiers_lists_redirect_sources (g : Graph) (k t : Spec) (m : Mod)
    (hk : (k, t) ∈ g.redirects) (ht : g.slot (g.resolve t) = some (.module m)) :
    SpecEntry.module k (g.resolve t) ∈ g.specifiers := by
  simp only [Graph.specifiers, List.mem_append, List.mem_filterMap]
  right
  exact ⟨(k, t), hk, by simp [ht, toResult]⟩

theorem specifiers_lists_redirect_sources_err (g : Graph) (k t : Spec) (mi c es)
    (hk : (k, t) ∈ g.redirects) (ht : g.slot (g.resolve t) = some (.err mi c es)) :
    SpecEntry.error k c ∈ g.specifiers := by
  simp only [Graph.specifiers, List.mem_append, List.mem_filterMap]
  right
  exact ⟨(k, t), hk, by simp [ht, toResult]⟩

/-- every slot that is not pending is listed under its own key -/
theorem specifiers_lists_slots (g : Graph) (k : Spec) (m : Mod)
    (hk : (k, Slot.module m) ∈ g.slots) : SpecEntry.module k k ∈ g.specifiers := by
  simp only [Graph.specifiers, List.mem_append, List.mem_filterMap]
  left
  exact ⟨(k, .module m), hk, by simp [toResult]⟩

/-- … two hops away included: source `0` of `0 → 1 → 2` is listed at `2` (it was missing before the
repair of F1b) -/
theorem specifiers_multihop_example :
    SpecEntry.module 0 2 ∈ g2.specifiers ∧ SpecEntry.module 1 2 ∈ g2.specifiers := by
  constructor <;> decide

/-! ## type-preferring dependency resolution -/

/-- with `prefer_types`, a JS module with a loaded types dependency resolves to the types module -/
theorem resdep_prefers_types (g : Graph) (d : Dep) (u t rng : Spec) (mt deps td fc)
    (hu : (d.type.okSpec?.or d.code.okSpec?) = some u)
    (hm : g.slot (g.resolve u) = some (.module (.js mt deps (some td) fc)))
    (htd : td.res = .ok t rng) (hl : g.isModule (g.resolve t) = true) :
    g.resolveDependencyFromDep d true = some (g.resolve t) := by
  simp [Graph.resolveDependencyFromDep, hu, hm, htd, hl]

/-- without a loaded types module the code module is returned -/
theorem resdep_code_when_types_not_loaded (g : Graph) (d : Dep) (u t rng : Spec) (mt deps td fc)
    (hu : (d.type.okSpec?.or d.code.okSpec?) = some u)
    (hm : g.slot (g.resolve u) = some (.module (.js mt deps (some td) fc)))
    (htd : td.res = .ok t rng) (hl : g.isModule (g.resolve t) = false) :
    g.resolveDependencyFromDep d true = some (g.resolve u) := by
  simp [Graph.resolveDependencyFromDep, hu, hm, htd, hl]

/-- without `prefer_types` the answer is the resolved code (or, failing that, type) target
exactly when a module is loaded there -/
theorem resdep_no_preference (g : Graph) (d : Dep) (u : Spec)
    (hu : (d.code.okSpec?.or d.type.okSpec?) = some u) :
    g.resolveDependencyFromDep d false = (if g.isModule (g.resolve u) then some (g.resolve u) else none) := by
  rcases h : g.slot (g.resolve u) with _ | sl
  · simp [Graph.resolveDependencyFromDep, Graph.isModule, hu, h]
  · cases sl <;> simp [Graph.resolveDependencyFromDep, Graph.isModule, hu, h]

/-- no resolved target at all ⇒ `None` -/
theorem resdep_none (g : Graph) (d : Dep) (p : Bool)
    (hc : d.code.okSpec? = none) (ht : d.type.okSpec? = none) :
    g.resolveDependencyFromDep d p = none := by
  cases p <;> simp [Graph.resolveDependencyFromDep, hc, ht]

end DG.C14
