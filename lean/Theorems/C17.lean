import DG.Prune
import Proofs.Prune
/-!
# C17 — pruning types from a full graph gives the code-only graph

Model: `DG/Prune.lean` (`prune_types` as the insertion-ordered seen/pending worklist) on the
builder model's graph.  Proved for every graph: what a visited entry looks like afterwards (no
type side, no types dependency; code side, dynamic flag and text untouched), that pruning only
removes entries, and that what is kept is what the worklist has seen.  The equality with a
code-only build is decided on every run by correspondence (model prune = implementation prune)
plus the implementation-side comparison of `prune_types(All)` with a `CodeOnly` build; the
discrepancies found there are genuine and tracked as findings F6, F15–F18.
-/
namespace DG.C17
open DG DG.Build DG.Prune

/-- **no remaining type resolutions** on a visited dependency … -/
theorem pruneDep_no_type (d : BDep) : (pruneDep d).type = .none := rfl

/-- … while its code side, dynamic flag, text and attribute are untouched -/
theorem pruneDep_keeps_code (d : BDep) :
    (pruneDep d).code = d.code ∧ (pruneDep d).dyn = d.dyn ∧ (pruneDep d).text = d.text ∧
    (pruneDep d).attr = d.attr := ⟨rfl, rfl, rfl, rfl⟩

/-- a visited JS module has no types dependency and no type side on any dependency -/
theorem pruneSlot_js (mt : Tables.MediaType) (deps : List BDep) (td sm : Option Res) :
    pruneSlot (.module (.js mt deps td sm)) = .module (.js mt (deps.map pruneDep) none sm) ∧
    ∀ d ∈ deps.map pruneDep, d.type = .none := by
  refine ⟨rfl, ?_⟩
  intro d hd
  obtain ⟨d0, _, rfl⟩ := List.mem_map.mp hd
  rfl

theorem pruneSlot_wasm (deps : List BDep) :
    pruneSlot (.module (.wasm deps)) = .module (.wasm (deps.map pruneDep)) := rfl

/-- errors, JSON, node, external entries are kept as they are -/
theorem pruneSlot_other (sl : BSlot) (h1 : ∀ mt d t sm, sl ≠ .module (.js mt d t sm)) (h2 : ∀ d, sl ≠ .module (.wasm d)) :
    pruneSlot sl = sl := by
  unfold pruneSlot
  split
  · rename_i mt deps td sm; exact absurd rfl (h1 mt deps td sm)
  · rename_i deps; exact absurd rfl (h2 deps)
  · rfl

/-- the code edges followed from a visited module are exactly its resolved code targets
(dynamic ones included) and the resolved target of its source map (which a code-only build loads
as well — repair of F16): pruning never looks at the type side to decide what to keep -/
theorem slotTargets_js (mt : Tables.MediaType) (deps : List BDep) (td sm : Option Res) (t : Spec) :
    t ∈ slotTargets (.module (.js mt deps td sm)) ↔
      (∃ rng, sm = some (.ok t rng)) ∨ ∃ d ∈ deps, d.code.okSpec? = some t := by
  have hsm : t ∈ smTarget sm ↔ ∃ rng, sm = some (.ok t rng) := by
    unfold smTarget
    split
    · rename_i s rng
      constructor
      · intro h; simp at h; subst h; exact ⟨rng, rfl⟩
      · rintro ⟨r, h⟩; cases h; simp
    · rename_i hne
      constructor
      · intro h; cases h
      · rintro ⟨r, h⟩; exact absurd h (hne t r)
  simp only [slotTargets, Tables.pruneFollowsSourceMap, if_true, List.mem_append, hsm, depCodeTargets,
    List.mem_filterMap]

/-- the types dependency is never a reason to keep anything -/
theorem slotTargets_ignores_types_dependency (mt : Tables.MediaType) (deps : List BDep)
    (td td' sm : Option Res) :
    slotTargets (.module (.js mt deps td sm)) = slotTargets (.module (.js mt deps td' sm)) := rfl

/-- pruning only removes entries: every kept redirect was a redirect of the full graph … -/
theorem pruned_redirects_subset (roots : List Spec) (slots : List (Spec × BSlot))
    (redirects : List (Spec × Spec)) (fuel : Nat) (p : Spec × Spec)
    (h : p ∈ (pruneTypes roots slots redirects fuel).redirects) : p ∈ redirects := by
  simp only [pruneTypes, List.mem_filter] at h
  exact h.1

/-- … and everything kept has been seen by the worklist (so is reachable from the roots through
redirect hops and code edges) -/
theorem pruned_redirects_seen (roots : List Spec) (slots : List (Spec × BSlot))
    (redirects : List (Spec × Spec)) (fuel : Nat) (p : Spec × Spec)
    (h : p ∈ (pruneTypes roots slots redirects fuel).redirects) :
    p.1 ∈ (pruneLoop redirects fuel { slots := slots, seen := roots.foldl addSeen [], idx := 0 }).seen := by
  simp only [pruneTypes, List.mem_filter, List.contains_eq_mem, decide_eq_true_eq] at h
  exact h.2

theorem pruned_slots_seen (roots : List Spec) (slots : List (Spec × BSlot))
    (redirects : List (Spec × Spec)) (fuel : Nat) (p : Spec × BSlot)
    (h : p ∈ (pruneTypes roots slots redirects fuel).slots) :
    p.1 ∈ (pruneLoop redirects fuel { slots := slots, seen := roots.foldl addSeen [], idx := 0 }).seen := by
  simp only [pruneTypes, List.mem_filter, List.contains_eq_mem, decide_eq_true_eq] at h
  exact h.2

/-- the worklist only ever grows -/
theorem addSeen_mono (seen : List Spec) (s x : Spec) (h : x ∈ seen) : x ∈ addSeen seen s := by
  unfold addSeen
  split
  · exact h
  · exact List.mem_append_left _ h

theorem addSeen_mem (seen : List Spec) (s : Spec) : s ∈ addSeen seen s := by
  unfold addSeen
  split
  · rename_i h; simpa using h
  · simp

/-- roots are always kept in the seen set -/
theorem roots_seen (roots : List Spec) (r : Spec) (h : r ∈ roots) : r ∈ roots.foldl addSeen [] := by
  have key : ∀ (l acc : List Spec), (r ∈ acc ∨ r ∈ l) → r ∈ l.foldl addSeen acc := by
    intro l
    induction l with
    | nil => intro acc h; rcases h with h | h; exact h; cases h
    | cons a l ih =>
      intro acc h
      simp only [List.foldl_cons]
      apply ih
      rcases h with h | h
      · exact Or.inl (addSeen_mono acc a r h)
      · rcases List.mem_cons.mp h with rfl | h
        · exact Or.inl (addSeen_mem acc r)
        · exact Or.inr h
  exact key roots [] (Or.inr h)

/-- **an entry is pruned wherever it sits** (finding F36, repaired): when the worklist reaches a
specifier that has an entry, the entry's type sides are dropped and its code targets are put on the
worklist — whether or not the redirect table also lists the specifier as a source.  The proof uses
the regenerated table `pruneVisitsEntryOnSource`; with the loop as it was before the repair
(`continue` after following the redirect) it does not go through. -/
theorem entry_visited_even_on_redirect_source (redirects : List (Spec × Spec)) (p : PState)
    (s : Spec) (sl : BSlot) (h : p.slots.lookup s = some sl) :
    (pruneIter redirects p s).slots = upsert p.slots s (pruneSlot sl) ∧
    ∀ t ∈ slotTargets sl, t ∈ (pruneIter redirects p s).seen := by
  have key : ∀ seen : List Spec, ∀ ts : List Spec, ∀ t, (t ∈ ts ∨ t ∈ seen) → t ∈ ts.foldl addSeen seen := by
    intro seen ts
    induction ts generalizing seen with
    | nil => intro t ht; rcases ht with ht | ht; exact absurd ht List.not_mem_nil; exact ht
    | cons a ts ih =>
      intro t ht
      simp only [List.foldl_cons]
      apply ih
      rcases ht with ht | ht
      · rcases List.mem_cons.mp ht with rfl | ht
        · exact Or.inr (addSeen_mem seen t)
        · exact Or.inl ht
      · exact Or.inr (addSeen_mono seen a t ht)
  cases hr : redirects.lookup s with
  | none =>
    simp only [pruneIter, hr, visitEntry, h]
    exact ⟨trivial, fun t ht => key _ _ t (Or.inl ht)⟩
  | some u =>
    simp only [pruneIter, hr, Tables.pruneVisitsEntryOnSource, if_true, visitEntry, h]
    exact ⟨trivial, fun t ht => key _ _ t (Or.inl ht)⟩

/-- … and the redirect of such a specifier is still followed -/
theorem redirect_followed_from_entry (redirects : List (Spec × Spec)) (p : PState) (s u : Spec)
    (hr : redirects.lookup s = some u) : u ∈ (pruneIter redirects p s).seen := by
  have mono : ∀ (ts : List Spec) (seen : List Spec), u ∈ seen → u ∈ ts.foldl addSeen seen := by
    intro ts
    induction ts with
    | nil => intro seen h; exact h
    | cons a ts ih => intro seen h; exact ih _ (addSeen_mono seen a u h)
  simp only [pruneIter, hr, Tables.pruneVisitsEntryOnSource, if_true, visitEntry]
  cases h : p.slots.lookup s with
  | none => exact addSeen_mem p.seen u
  | some sl => exact mono _ _ (addSeen_mem p.seen u)

/-! ## the pruned graph is exactly the code-reachable part, type sides removed

`PReach roots slots redirects` (Proofs/Prune.lean) is the statement's reachability for a
code-only graph: the roots, the target of a redirect of a reachable specifier, the resolved code
targets and the source-map target of a reachable entry.  The worklist of `prune_types` ends within
`pruneFuel` having seen exactly that set (`pruneLoop_final`, by the invariant `PInv`). -/

theorem lookup_filter_key {α} (l : List (Spec × α)) (f : Spec → Bool) (k : Spec) :
    (l.filter fun (k', _) => f k').lookup k = if f k then l.lookup k else none := by
  induction l with
  | nil => simp
  | cons a l ih =>
    obtain ⟨k', v⟩ := a
    by_cases hk : (k == k') = true
    · have hk' : k = k' := by simpa using hk
      subst hk'
      by_cases hf : f k = true
      · simp [List.filter_cons, hf, List.lookup]
      · have hf' : f k = false := by simpa using hf
        simp only [List.filter_cons, hf', Bool.false_eq_true, if_false]
        rw [ih]; simp [hf']
    · have hk2 : (k == k') = false := by simpa using hk
      by_cases hf : f k' = true
      · simp only [List.filter_cons, hf, if_true, List.lookup, hk2, ih]
      · have hf' : f k' = false := by simpa using hf
        simp only [List.filter_cons, hf', Bool.false_eq_true, if_false, List.lookup, hk2, ih]

section exact
variable (roots : List Spec) (slots : List (Spec × BSlot)) (redirects : List (Spec × Spec))

/-- **a reachable entry is kept, pruned**: its type sides and types dependency are gone, everything
else is as it was -/
theorem pruned_entry_of_reachable (k : Spec) (h : PReach roots slots redirects k) :
    (pruneTypes roots slots redirects (pruneFuel roots slots redirects)).slots.lookup k =
      (slots.lookup k).map pruneSlot := by
  obtain ⟨hseen, hvis⟩ := pruneLoop_final roots slots redirects
  have hk := (hseen k).mpr h
  simp only [pruneTypes]
  rw [lookup_filter_key _ (fun k' => List.contains _ k')]
  simp only [List.contains_eq_mem, hk, decide_true, if_true]
  rw [hvis k]
  cases slots.lookup k <;> simp [hk]

/-- **an entry that is not reachable through code is removed** -/
theorem pruned_entry_unreachable (k : Spec) (h : ¬ PReach roots slots redirects k) :
    (pruneTypes roots slots redirects (pruneFuel roots slots redirects)).slots.lookup k = none := by
  obtain ⟨hseen, _⟩ := pruneLoop_final roots slots redirects
  have hk : ¬ _ := fun hm => h ((hseen k).mp hm)
  simp only [pruneTypes]
  rw [lookup_filter_key _ (fun k' => List.contains _ k')]
  simp [hk]

/-- **the redirects of reachable specifiers are kept as they were …** -/
theorem pruned_redirect_of_reachable (k : Spec) (h : PReach roots slots redirects k) :
    (pruneTypes roots slots redirects (pruneFuel roots slots redirects)).redirects.lookup k =
      redirects.lookup k := by
  obtain ⟨hseen, _⟩ := pruneLoop_final roots slots redirects
  have hk := (hseen k).mpr h
  simp only [pruneTypes]
  rw [lookup_filter_key _ (fun k' => List.contains _ k')]
  simp [hk]

/-- … **and all others are removed** -/
theorem pruned_redirect_unreachable (k : Spec) (h : ¬ PReach roots slots redirects k) :
    (pruneTypes roots slots redirects (pruneFuel roots slots redirects)).redirects.lookup k = none := by
  obtain ⟨hseen, _⟩ := pruneLoop_final roots slots redirects
  have hk : ¬ _ := fun hm => h ((hseen k).mp hm)
  simp only [pruneTypes]
  rw [lookup_filter_key _ (fun k' => List.contains _ k')]
  simp [hk]

/-- **the pruned graph is closed**: whatever a kept entry's code side (or source map) resolves to,
and wherever a kept redirect leads, is reachable — so it is kept with its entry and its redirect;
pruning never leaves a code edge of a kept module dangling that the full graph had an answer for -/
theorem pruned_closed (k : Spec) (h : PReach roots slots redirects k) :
    (∀ sl t, slots.lookup k = some sl → t ∈ slotTargets sl → PReach roots slots redirects t) ∧
    (∀ t, redirects.lookup k = some t → PReach roots slots redirects t) :=
  ⟨fun _ _ hs ht => .edge h hs ht, fun _ hr => .redirect h hr⟩

/-- **no remaining type resolutions, anywhere in the pruned graph**: every entry that is kept is the
pruned form of the original entry under the same key — a JS module without types dependency and
without a type side on any dependency (`pruneSlot_js`), a wasm module without type sides, anything
else as it was -/
theorem pruned_kept_is_pruned (k : Spec) (sl : BSlot)
    (h : (pruneTypes roots slots redirects (pruneFuel roots slots redirects)).slots.lookup k = some sl) :
    ∃ sl0, slots.lookup k = some sl0 ∧ sl = pruneSlot sl0 := by
  by_cases hr : PReach roots slots redirects k
  · rw [pruned_entry_of_reachable roots slots redirects k hr] at h
    cases h0 : slots.lookup k with
    | none => rw [h0] at h; cases h
    | some sl0 =>
      rw [h0] at h
      simp only [Option.map_some, Option.some.injEq] at h
      exact ⟨sl0, rfl, h.symm⟩
  · rw [pruned_entry_unreachable roots slots redirects k hr] at h
    cases h

/-- a type-only target is not a reason to keep anything: reachability never looks at a type side
or a types dependency (`slotTargets` reads code sides and the source map only) -/
theorem type_sides_irrelevant (k : Spec) (mt : Tables.MediaType) (deps deps' : List BDep)
    (td td' sm : Option Res) (hcode : deps.map (·.code) = deps'.map (·.code)) :
    slotTargets (.module (.js mt deps td sm)) = slotTargets (.module (.js mt deps' td' sm)) := by
  simp only [slotTargets, depCodeTargets]
  congr 1
  have : ∀ l : List BDep, l.filterMap (fun d => d.code.okSpec?) = (l.map (·.code)).filterMap Res.okSpec? := by
    intro l; induction l with
    | nil => rfl
    | cons d ds ih => simp [List.filterMap_cons, ih]
  rw [this deps, this deps', hcode]

end exact

/-- the F36 layout: the lockfile lists `1 → 9`, the loader reported the module of root `0` under
`1`; the module imports `2` (code) and `3` (type only).  `2` is kept, the type side is gone. -/
def staleSlots : List (Spec × BSlot) :=
  [(1, .module (.js .TypeScript
      [{ text := 0, code := .ok 2 0, type := .none, dyn := false, attr := none, isAsset := false, sourcePhase := none },
       { text := 1, code := .none, type := .ok 3 1, dyn := false, attr := none, isAsset := false, sourcePhase := none }]
      none none)),
   (2, .module (.js .TypeScript [] none none)),
   (3, .module (.js .Dts [] none none))]

theorem stale_lockfile_example :
    ((pruneTypes [0] staleSlots [(0, 1), (1, 9)] 10).slots.map (·.1)) = [1, 2] ∧
    (pruneTypes [0] staleSlots [(0, 1), (1, 9)] 10).redirects = [(0, 1), (1, 9)] := by decide

/-- non-vacuity: root 0 imports 1 (code) and 2 (type only) and names the source map 3; 2 is
dropped, 1 and the source map's stand-in are kept -/
def demoSlots : List (Spec × BSlot) :=
  [(0, .module (.js .TypeScript
      [{ text := 0, code := .ok 1 0, type := .none, dyn := false, attr := none, isAsset := false, sourcePhase := none },
       { text := 1, code := .none, type := .ok 2 1, dyn := false, attr := none, isAsset := false, sourcePhase := none }]
      none (some (.ok 3 7)))),
   (1, .module (.js .JavaScript [] (some (.ok 2 2)) none)),
   (2, .module (.js .Dts [] none none)),
   (3, .module (.external true))]

example : ((pruneTypes [0] demoSlots [] 10).slots.map (·.1)) = [0, 1, 3] := by decide

end DG.C17
