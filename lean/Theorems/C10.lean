import DG.Erase
import DG.Leave
/-!
# C10 — fast-check output has no executable logic and needs no type inference

Model: `DG/Erase.lean` (`transform_fn`, `transform_arrow`, `handle_param_pat`,
`transform_var_declarator`, `transform_class(_member)` and the two expression analyses).
Everything is for all inputs of the abstract syntax; the correspondence check ties the abstract
syntax and these functions to the real transform, declaration by declaration.
-/
namespace DG.C10
open DG.FC

/-- a parameter as the statement wants it: an explicit type, or a retained default value -/
def ParamOk (o : OParam) : Prop := o.ty.isSome = true ∨ (o.dflt.isSome = true ∧ o.rest = false)

theorem typedParam_ok (p : Param) (o : Bool) (t : Ty) : ParamOk (typedParam p o t) := by
  unfold typedParam; split <;> exact Or.inl rfl

theorem handleDefault_ok (p : Param) (isOpt : Bool) (d : Expr) (o : OParam)
    (h : handleDefault p isOpt d = .ok o) : ParamOk o := by
  unfold handleDefault at h
  split at h
  · simp only [Except.ok.injEq] at h; subst h; exact typedParam_ok _ _ _
  · split at h
    · simp only [Except.ok.injEq] at h; subst h; exact typedParam_ok _ _ _
    · split at h
      · simp only [Except.ok.injEq] at h; subst h; exact Or.inr ⟨rfl, rfl⟩
      · exact absurd h (by simp)

theorem handleParam_ok (p : Param) (isOpt : Bool) (o : OParam) (h : handleParam p isOpt = .ok o) :
    ParamOk o := by
  unfold handleParam at h
  split at h
  · split at h
    · exact absurd h (by simp)
    · simp only [Except.ok.injEq] at h; subst h; exact Or.inl rfl
  · split at h
    · split at h
      · exact absurd h (by simp)
      · simp only [Except.ok.injEq] at h; subst h; exact Or.inl rfl
    · exact handleDefault_ok _ _ _ _ h

/-- **a parameter that cannot be given a type is a diagnostic, never output** -/
theorem handleParam_diag_iff (p : Param) (isOpt : Bool) :
    (∃ d, handleParam p isOpt = .error d) ↔
      p.ty = none ∧ (p.rest = true ∨ p.dflt = none ∨
        ∃ e, p.dflt = some e ∧ inferType e .mutable = none ∧ leavable e = none) := by
  unfold handleParam
  constructor
  · rintro ⟨d, h⟩
    split at h
    · rename_i hr
      split at h
      · rename_i ht; exact ⟨ht, Or.inl hr⟩
      · exact absurd h (by simp)
    · split at h
      · rename_i hd
        split at h
        · rename_i ht; exact ⟨ht, Or.inr (Or.inl hd)⟩
        · exact absurd h (by simp)
      · rename_i e hd
        unfold handleDefault at h
        split at h
        · exact absurd h (by simp)
        · rename_i ht
          split at h
          · exact absurd h (by simp)
          · rename_i hi
            split at h
            · exact absurd h (by simp)
            · rename_i hl
              exact ⟨ht, Or.inr (Or.inr ⟨e, hd, hi, hl⟩)⟩
  · rintro ⟨ht, hcase⟩
    by_cases hr : p.rest = true
    · simp [hr, ht]
    · simp only [hr, Bool.false_eq_true, if_false]
      rcases hcase with h | h | ⟨e, hd, hi, hl⟩
      · exact absurd h hr
      · simp [h, ht]
      · simp [hd, ht, hi, hl, handleDefault]

theorem mapM_all {α β} (f : α → Except Diag β) (P : β → Prop) (hP : ∀ x y, f x = .ok y → P y) :
    ∀ (l : List α) (ys : List β), l.mapM f = .ok ys → ∀ y ∈ ys, P y := by
  intro l
  induction l with
  | nil => intro ys h; simp [pure, Except.pure] at h; subst h; simp
  | cons x r ih =>
    intro ys h
    simp only [List.mapM_cons, bind, Except.bind] at h
    split at h
    · exact absurd h (by simp)
    · rename_i y hy
      split at h
      · exact absurd h (by simp)
      · rename_i ys' hys
        simp only [pure, Except.pure, Except.ok.injEq] at h
        subst h
        intro z hz
        simp only [List.mem_cons] at hz
        rcases hz with rfl | hz
        · exact hP x _ hy
        · exact ih ys' hys z hz

theorem handleParams_ok (ps : List Param) (os : List OParam) (h : handleParams ps = .ok os) :
    ∀ o ∈ os, ParamOk o := by
  unfold handleParams at h
  exact mapM_all _ ParamOk (fun x y hxy => handleParam_ok x.1 _ y hxy) _ os h

theorem returnOf_some (f : Fn) (k : FnKind) (r : Option Ty) (h : returnOf f k = .ok r)
    (hk : k ≠ .setter) (hb : f.hasBody = true) : r.isSome = true := by
  unfold returnOf at h
  have hk' : (k != FnKind.setter) = true := by simpa using hk
  rw [if_pos hb] at h
  split at h
  · split at h
    · exact absurd h (by simp)
    · cases hir : inferReturn f.analysis k f.isAsync with
      | error d => rw [hir] at h; simp [Except.map] at h
      | ok t => rw [hir] at h; simp [Except.map] at h; subst h; rfl
  · rename_i hc
    simp only [Except.ok.injEq] at h
    subst h
    simp only [hk', Bool.true_and, Bool.not_eq_true] at hc
    cases hr : f.ret with
    | none => simp [hr] at hc
    | some t => rfl

theorem bodyOf_shape (hb : Bool) (ret : Option Ty) :
    (bodyOf hb ret = .empty ∨ bodyOf hb ret = .placeholder ∨ bodyOf hb ret = .none) ∧
    (bodyOf hb ret = .placeholder → ∃ t, ret = some t ∧ isVoid t = false) := by
  unfold bodyOf
  cases hb with
  | false => simp
  | true =>
    cases ret with
    | none => simp
    | some t =>
      by_cases hv : isVoid t = true
      · simp [hv]
      · simp [hv]

theorem transformFnCore_ok (f : Fn) (k : FnKind) (o : OFn) (h : transformFnCore f k = .ok o) :
    (∀ p ∈ o.params, ParamOk p) ∧
    (o.body = .empty ∨ o.body = .placeholder ∨ o.body = .none) ∧
    (k ≠ .setter → f.hasBody = true → o.ret.isSome = true) ∧
    (o.body = .placeholder → ∃ t, o.ret = some t ∧ isVoid t = false) ∧
    o.isAsync = false := by
  unfold transformFnCore at h
  split at h
  · exact absurd h (by simp)
  · rename_i ret hret
    split at h
    · exact absurd h (by simp)
    · rename_i ps hps
      simp only [Except.ok.injEq] at h
      subst h
      exact ⟨handleParams_ok _ ps hps, (bodyOf_shape _ _).1, fun hk hb => returnOf_some f k ret hret hk hb,
        (bodyOf_shape _ _).2, rfl⟩

/-- **every emitted function-like**: every parameter typed (or a retained default), the body empty or
the single placeholder return, a return type unless it is a setter (or has no body); the
placeholder is there exactly when the return type is not `void`; never `async` -/
theorem transformFn_ok (f : Fn) (k : FnKind) (ov : Bool) (o : OFn) (h : transformFn f k ov = .ok o) :
    (∀ p ∈ o.params, ParamOk p) ∧
    (o.body = .empty ∨ o.body = .placeholder ∨ o.body = .none) ∧
    (k ≠ .setter → f.hasBody = true → o.ret.isSome = true) ∧
    (o.body = .placeholder → ∃ t, o.ret = some t ∧ isVoid t = false) ∧
    o.isAsync = false := by
  unfold transformFn at h
  have := transformFnCore_ok _ k o h
  refine ⟨this.1, this.2.1, ?_, this.2.2.2.1, this.2.2.2.2⟩
  intro hk hb
  apply this.2.2.1 hk
  by_cases hov : ov = true <;> simp [hov, overloadOf, hb]

/-- a function whose return type is neither given nor inferable as `void` is a diagnostic -/
theorem missing_return_is_diagnostic (f : Fn) (k : FnKind)
    (hr : f.ret = none) (hk : k ≠ .setter) (hb : f.hasBody = true)
    (ha : f.analysis = .single ∨ f.analysis = .multiple ∨ f.isGen = true) :
    transformFnCore f k = .error .missingReturnType := by
  have hk' : (k != FnKind.setter) = true := by simpa using hk
  have : returnOf f k = .error .missingReturnType := by
    unfold returnOf
    simp only [hk', hr, Option.isNone_none, Bool.and_self, if_true, hb]
    by_cases hg : f.isGen = true
    · simp [hg]
    · simp only [hg, Bool.false_eq_true, if_false]
      rcases ha with ha | ha | ha
      · rw [ha]; cases k <;> simp [inferReturn, Except.map]
      · rw [ha]; cases k <;> simp [inferReturn, Except.map]
      · exact absurd ha hg
  unfold transformFnCore
  rw [this]

/-- **arrow functions**: typed parameters, and either an explicit (or inferred) return type with an
empty / placeholder body, or no return type and an expression body that was left in place -/
theorem transformArrow_ok (a : Arrow) (o : OFn) (h : transformArrow a = .ok o) :
    (∀ p ∈ o.params, ParamOk p) ∧
    ((o.ret.isSome = true ∧ (o.body = .empty ∨ o.body = .placeholder) ∧ o.isAsync = false) ∨
     (o.ret = none ∧ ((∃ t e, a.exprBody = some e ∧ leavable e = some t ∧ o.body = .kept t) ∨ o.body = .empty))) := by
  unfold transformArrow at h
  split at h
  · exact absurd h (by simp)
  · rename_i ret kept hrk
    split at h
    · exact absurd h (by simp)
    · rename_i ps hps
      simp only [Except.ok.injEq] at h
      subst h
      refine ⟨handleParams_ok _ ps hps, ?_⟩
      cases ret with
      | some t =>
        left
        refine ⟨rfl, ?_, by simp⟩
        simp only [arrowBody]
        split <;> simp
      | none =>
        right
        refine ⟨rfl, ?_⟩
        cases kept with
        | none => right; rfl
        | some t =>
          left
          unfold arrowReturn at hrk
          split at hrk
          · simp at hrk
          · split at hrk
            · cases hir : inferReturn a.fn.analysis .exprLike a.fn.isAsync with
              | error d => rw [hir] at hrk; simp [Except.map] at hrk
              | ok t' => rw [hir] at hrk; simp [Except.map] at hrk
            · rename_i e he
              split at hrk
              · simp at hrk
              · split at hrk
                · rename_i t' hl
                  simp only [Except.ok.injEq, Prod.mk.injEq, true_and, Option.some.injEq] at hrk
                  subst hrk
                  exact ⟨t', e, he, hl, rfl⟩
                · exact absurd hrk (by simp)

/-- **variables**: an explicit (or inferred) type with the placeholder initialiser, or no type and an
initialiser that was left in place (a leavable expression or a transformed function) -/
theorem transformVar_ok (name : String) (isConst : Bool) (ty : Option Ty) (init : Option Init) (o : OVar)
    (h : transformVar name isConst ty init = .ok o) :
    (o.ty.isSome = true ∧ o.init = .never) ∨
    (o.ty = none ∧ ∃ i oi, init = some i ∧ leaveInit i = .ok (some oi) ∧ o.init = oi) := by
  cases ty with
  | some t =>
    simp only [transformVar, Except.ok.injEq] at h; subst h; exact Or.inl ⟨rfl, rfl⟩
  | none =>
    cases init with
    | none => simp [transformVar] at h
    | some i =>
      simp only [transformVar, Option.bind_some] at h
      split at h
      · simp only [Except.ok.injEq] at h; subst h; exact Or.inl ⟨rfl, rfl⟩
      · split at h
        · exact absurd h (by simp)
        · rename_i oi hl
          simp only [Except.ok.injEq] at h; subst h
          exact Or.inr ⟨rfl, i, oi, rfl, hl, rfl⟩
        · exact absurd h (by simp)

/-- a typed variable never keeps its initialiser -/
theorem typed_var_drops_initialiser (name : String) (isConst : Bool) (t : Ty) (init : Option Init) :
    transformVar name isConst (some t) init = .ok { name := name, ty := some t, init := .never } := rfl

/-- **TypeScript-private members are reduced to `any`-typed declarations** -/
theorem private_prop_reduced (name : String) (isStatic ro : Bool) (ty : Option Ty) (init : Option Init)
    (seen : List String) :
    transformMember (.prop name .priv isStatic ro ty init) seen =
      .ok ([], some (.prop name .priv isStatic ro true false (some "any") .dropped)) := by
  simp [transformMember]

theorem private_method_reduced (name : String) (isStatic : Bool) (kind : FnKind) (f : Fn) (seen : List String)
    (h : seen.contains name = false) :
    transformMember (.method name .priv isStatic kind f) seen =
      .ok ([], some (.prop name .priv isStatic false true false (some "any") .dropped)) := by
  simp only [transformMember, if_true, h, Bool.false_eq_true, if_false]

/-- **ECMAScript-private members and static blocks are removed** (the model's emitted members have
no form for them at all; only the `#private` brand records that there were some) -/
theorem es_private_removed (seen : List String) :
    transformMember .esPrivate seen = .ok ([], none) ∧ transformMember .staticBlock seen = .ok ([], none) :=
  ⟨rfl, rfl⟩

/-- a non-private parameter property that would be emitted without a type is a diagnostic
(defect F28, fixed in /repo by 51f3b44) -/
theorem untyped_param_prop_is_diagnostic (access : Access) (params : List CtorParam) (hb cs ov : Bool)
    (seen : List String) (h : params.any untypedParamProp = true) :
    transformMember (.ctor access params hb cs ov) seen = .error .missingType := by
  simp [transformMember, h]

/-- **an overload implementation keeps its parameter properties**: whether or not the constructor
is the implementation behind overload signatures (whose own parameters become `paramN?: any`), an
accepted constructor contributes exactly the properties its parameter properties declare -/
theorem ctor_param_props_kept (access : Access) (params : List CtorParam) (hb cs ov : Bool)
    (seen : List String) (ins : List OMember) (om : Option OMember)
    (h : transformMember (.ctor access params hb cs ov) seen = .ok (ins, om)) :
    ins = params.filterMap paramProp := by
  simp only [transformMember] at h
  split at h
  · cases h
  · split at h
    · cases h; rfl
    · cases hp : handleParams (if ov = true then overloadParams (params.map (·.p)) else params.map (·.p)) with
      | error d => simp [hp, Except.map] at h
      | ok ps =>
        simp only [hp, Except.map] at h
        cases h; rfl

/-- the signature of an accepted overload implementation is `(param0?: any, …)` -/
example : transformMember (.ctor .pub [{ p := { name := "a", opt := false, rest := false, ty := some "number", dflt := none }, prop := some (.pub, true) }] true false true) [] =
    .ok ([.prop "a" .pub false true true false (some "number") .dropped],
         some (.ctor .pub [{ name := "param0", opt := true, rest := false, ty := some "any", dflt := none }] false)) := by
  rfl

/-- every property made from a parameter property is typed when the constructor is accepted -/
theorem param_prop_typed (cp : CtorParam) (m : OMember) (h : paramProp cp = some m)
    (hu : untypedParamProp cp = false) :
    ∃ name acc isStatic ro declare opt t, m = .prop name acc isStatic ro declare opt (some t) .dropped := by
  unfold paramProp at h
  unfold untypedParamProp at hu
  split at h
  · exact absurd h (by simp)
  · rename_i acc ro hp
    simp only [hp] at hu
    simp only [Option.some.injEq] at h
    subst h
    by_cases ha : acc = .priv
    · exact ⟨cp.p.name, acc, false, ro, true, (cp.p.opt && cp.p.dflt.isNone), "any", by simp [ha]⟩
    · have hne : (acc != Access.priv) = true := by simpa using ha
      simp only [hne, Bool.true_and, ha, if_false] at hu ⊢
      cases hty : cp.p.ty with
      | some t => exact ⟨cp.p.name, acc, false, ro, true, (cp.p.opt && cp.p.dflt.isNone), t, by simp⟩
      | none =>
        simp only [hty, Option.isNone_none, Bool.true_and] at hu
        cases hd : cp.p.dflt with
        | none => simp [hd] at hu
        | some d =>
          simp only [hd] at hu
          cases hi : inferType d (if ro = true then .const else .mutable) with
          | none => simp [hi] at hu
          | some t => exact ⟨cp.p.name, acc, false, ro, true, (cp.p.opt && cp.p.dflt.isNone), t, by simp [hi, hd]⟩

/-- **the statement's "initialisers are … reduced to literal-like … forms" is not what the code
does**: an expression over identifiers is *left in place* (finding F27): here an update expression -/
theorem leavable_expression_survives :
    transformVar "u" true none (some (.expr (.leave "counter++"))) =
      .ok { name := "u", ty := none, init := .kept "counter++" } := by rfl

/-- **an auto-accessor keeps its public signature**: it becomes a declared property of the same
name, staticness and accessibility that has a type (its annotation, a type inferred from a
literal-like initial value, `any` when private) and no value — or a diagnostic is raised -/
theorem accessor_typed (name : String) (access : Access) (isStatic : Bool) (ty : Option Ty) (init : Option Expr)
    (seen : List String) :
    transformMember (.accessor name access isStatic ty init) seen = .error .missingType ∨
    ∃ t, transformMember (.accessor name access isStatic ty init) seen =
      .ok ([], some (.prop name access isStatic false true false (some t) .dropped)) := by
  by_cases hp : access = .priv
  · right
    subst hp
    exact ⟨"any", by simp [transformMember]⟩
  · cases ty with
    | some t => right; exact ⟨t, by simp [transformMember, hp]⟩
    | none =>
      cases hi : init.bind fun e => inferType e .mutable with
      | none => left; simp [transformMember, hp, hi]
      | some t => right; exact ⟨t, by simp [transformMember, hp, hi]⟩

/-- an untyped public auto-accessor whose initial value has no inferable type is reported -/
theorem untyped_accessor_is_diagnostic (name : String) (isStatic : Bool) (seen : List String) :
    transformMember (.accessor name .pub isStatic none (some .opaque)) seen = .error .missingType := by
  simp [transformMember, inferType]

/-! ## what is left in place has no logic in it (`DG/Leave.lean`)

`leavable` is the analysis `maybe_transform_expr_if_leavable`; `NoLogic` says that nothing that
stays in the output is a call, `new`, sequence, assignment, tagged template, class, optional chain,
private member access or object method — at any depth, in any element, property value, computed key
or template substitution.  The two coincide for every expression, so an initialiser whose type is
not inferable is either left and free of logic, or a diagnostic. -/
section leave
open DG.Leave

mutual
theorem leavable_iff_noLogic : ∀ e : LExpr, Leave.leavable e = true ↔ NoLogic e
  | .atom => by simp [Leave.leavable, NoLogic]
  | .logic => by simp [Leave.leavable, NoLogic]
  | .arr es => by simpa [Leave.leavable, NoLogic] using leavableElems_iff es
  | .obj ps => by simpa [Leave.leavable, NoLogic] using leavableProps_iff ps
  | .unary a => by simpa [Leave.leavable, NoLogic] using leavable_iff_noLogic a
  | .update a => by simpa [Leave.leavable, NoLogic] using leavable_iff_noLogic a
  | .bin l r => by
    simp only [Leave.leavable, NoLogic, Bool.and_eq_true, leavable_iff_noLogic l, leavable_iff_noLogic r]
  | .cond t c a => by
    simp only [Leave.leavable, NoLogic, Bool.and_eq_true, leavable_iff_noLogic t, leavable_iff_noLogic c,
      leavable_iff_noLogic a, and_assoc]
  | .member o => by simpa [Leave.leavable, NoLogic] using leavable_iff_noLogic o
  | .memberPrivate _ => by simp [Leave.leavable, NoLogic]
  | .memberComputed o k => by
    simp only [Leave.leavable, NoLogic, Bool.and_eq_true, leavable_iff_noLogic o, leavable_iff_noLogic k]
  | .await a => by simpa [Leave.leavable, NoLogic] using leavable_iff_noLogic a
  | .paren e => by simpa [Leave.leavable, NoLogic] using leavable_iff_noLogic e
  | .asT _ => by simp [Leave.leavable, NoLogic]
  | .constAssertion e => by simpa [Leave.leavable, NoLogic] using leavable_iff_noLogic e
  | .nonNull e => by simpa [Leave.leavable, NoLogic] using leavable_iff_noLogic e
  | .satisfies e => by simpa [Leave.leavable, NoLogic] using leavable_iff_noLogic e
  | .tpl subs => by simpa [Leave.leavable, NoLogic] using leavableElems_iff subs
  | .fn => by simp [Leave.leavable, NoLogic]
theorem leavableElems_iff : ∀ es : LElems, leavableElems es = true ↔ NoLogicElems es
  | .nil => by simp [leavableElems, NoLogicElems]
  | .hole rest => by simpa [leavableElems, NoLogicElems] using leavableElems_iff rest
  | .cons e rest => by
    simp only [leavableElems, NoLogicElems, Bool.and_eq_true, leavable_iff_noLogic e, leavableElems_iff rest]
theorem leavableProp_iff : ∀ p : LProp, leavableProp p = true ↔ NoLogicProp p
  | .shorthand => by simp [leavableProp, NoLogicProp]
  | .kv v => by simpa [leavableProp, NoLogicProp] using leavable_iff_noLogic v
  | .kvComputed k v => by
    simp only [leavableProp, NoLogicProp, Bool.and_eq_true, leavable_iff_noLogic k, leavable_iff_noLogic v]
  | .assign v => by simpa [leavableProp, NoLogicProp] using leavable_iff_noLogic v
  | .method => by simp [leavableProp, NoLogicProp]
  | .spread e => by simpa [leavableProp, NoLogicProp] using leavable_iff_noLogic e
theorem leavableProps_iff : ∀ ps : LProps, leavableProps ps = true ↔ NoLogicProps ps
  | .nil => by simp [leavableProps, NoLogicProps]
  | .cons p rest => by
    simp only [leavableProps, NoLogicProps, Bool.and_eq_true, leavableProp_iff p, leavableProps_iff rest]
end

/-- **an initialiser that is left in the output contains no logic** -/
theorem left_initialiser_has_no_logic (e : LExpr) (h : Leave.leavable e = true) : NoLogic e :=
  (leavable_iff_noLogic e).mp h

/-- **position does not matter**: one substitution with logic in it makes the whole template a
diagnostic, wherever it stands among the substitutions (the loop stops at the first one; a loop
that let the last substitution decide would leave `` `${f()}${1}` `` in the output) -/
theorem template_with_logic_is_diagnostic (pre post : LElems) (e : LExpr) (h : Leave.leavable e = false) :
    ∀ (join : LElems → LElems → LElems)
      (_ : ∀ a b, leavableElems (join a b) = (leavableElems a && leavableElems b)),
      Leave.leavable (.tpl (join pre (.cons e post))) = false := by
  intro join hj
  simp [Leave.leavable, hj, leavableElems, h]

/-- `e as T` is always left, and nothing of `e` stays -/
theorem as_is_left (e : LExpr) : Leave.leavable (.asT e) = true ∧ NoLogic (.asT e) := ⟨rfl, trivial⟩

/-- non-vacuity: `` [`id-${f()}-${1}`] `` is a diagnostic, `[y + 1, { a: Math.PI }]` is left -/
example : Leave.leavable (.arr (.cons (.tpl (.cons .logic (.cons .atom .nil))) .nil)) = false := by decide
example : Leave.leavable (.arr (.cons (.bin .atom .atom) (.cons (.obj (.cons (.kv (.member .atom)) .nil)) .nil))) = true := by decide
end leave

/-! non-vacuity: `function f(a: number, b = "x", ...r: string[]) { }` -/
example :
    transformFn { params := [{ name := "a", opt := false, rest := false, ty := some "number", dflt := none },
                             { name := "b", opt := false, rest := false, ty := none, dflt := some (.lit (.str "\"x\"")) },
                             { name := "r", opt := false, rest := true, ty := some "string[]", dflt := none }],
                  ret := none, isAsync := false, isGen := false, hasBody := true, analysis := .none } .declLike false =
    .ok { params := [{ name := "a", opt := false, rest := false, ty := some "number", dflt := none },
                     { name := "b", opt := true, rest := false, ty := some "string", dflt := none },
                     { name := "r", opt := false, rest := true, ty := some "string[]", dflt := none }],
          ret := some "void", body := .empty } := by rfl

end DG.C10
