import DG.Decode
/-!
# C20 — module text and original bytes are faithful to what the loader supplied

Model: `DG/Decode.lean`.  The decoder of labels other than UTF-8/UTF-16 is a parameter
`otherDec`; the only thing assumed about it is the contract of `Cow::Borrowed` ("the input is
returned as is"), which is how `Conv.borrowed` is *interpreted* by `decodeDetail`.
-/
namespace DG.C20
open DG.Decode

variable (otherDec : Nat → Bytes → Conv)

/-- **original bytes are faithful**: a request for a module's original bytes returns nothing or
exactly the byte sequence the loader supplied — for every byte string, every charset and every
behaviour of the non-modelled decoders.  (This is the functional precondition of the `Arc`
transmute in `try_get_original_bytes`.) -/
theorem original_bytes_faithful (cs : Charset) (bs text : Bytes) (k : Kind)
    (h : decodeDetail otherDec cs bs = some (text, k)) :
    tryGetOriginalBytes text k = none ∨ tryGetOriginalBytes text k = some bs := by
  unfold decodeDetail at h
  split at h
  · cases h
  · split at h
    · simp only [Option.some.injEq, Prod.mk.injEq] at h
      obtain ⟨rfl, rfl⟩ := h
      right; rfl
    · simp only [Option.some.injEq, Prod.mk.injEq] at h
      obtain ⟨rfl, rfl⟩ := h
      right; rfl
  · simp only [Option.some.injEq, Prod.mk.injEq] at h
    obtain ⟨rfl, rfl⟩ := h
    left; rfl

/-- end to end through `new_source_with_text` (any header, any scheme) -/
theorem original_bytes_faithful_end_to_end (header : Option Charset) (isFile : Bool)
    (bs text : Bytes) (k : Kind) (h : newSource otherDec header isFile bs = some (text, k)) :
    tryGetOriginalBytes text k = none ∨ tryGetOriginalBytes text k = some bs :=
  original_bytes_faithful otherDec _ bs text k h

/-- text stored as "unchanged" under UTF-8 is the input itself and is valid UTF-8 -/
theorem unchanged_utf8_is_input (bs text : Bytes)
    (h : decodeDetail otherDec .utf8 bs = some (text, .unchanged)) :
    text = bs ∧ utf8Valid bs = true := by
  unfold decodeDetail convert at h
  by_cases hv : utf8Valid bs = true
  · simp only [hv, if_true] at h
    split at h
    · simp at h
    · simp only [Option.some.injEq, Prod.mk.injEq, and_true] at h
      exact ⟨h.symm, hv⟩
  · simp only [hv, Bool.false_eq_true, if_false] at h
    simp at h

/-- "only the BOM was stripped" means exactly that: input = EF BB BF ++ text -/
theorem only_bom_means_only_bom (cs : Charset) (bs text : Bytes)
    (h : decodeDetail otherDec cs bs = some (text, .onlyUtf8Bom)) :
    bs = 0xEF :: 0xBB :: 0xBF :: text := by
  unfold decodeDetail at h
  split at h
  · cases h
  · split at h
    · simp only [Option.some.injEq, Prod.mk.injEq, and_true] at h
      subst h; rfl
    · simp at h
  · simp at h

/-- **a leading byte-order mark is removed once** (decoded text) … -/
theorem bom_stripped_once (l : List Nat) :
    stripBomScalars (0xFEFF :: l) = l ∧ stripBomScalars (0xFEFF :: 0xFEFF :: l) = 0xFEFF :: l := by
  exact ⟨rfl, rfl⟩

theorem no_bom_untouched (c : Nat) (l : List Nat) (h : c ≠ 0xFEFF) :
    stripBomScalars (c :: l) = c :: l := by
  unfold stripBomScalars
  split
  · rename_i heq; cases heq; exact absurd rfl h
  · rfl

/-- … and once on the borrowed UTF-8 path: a second BOM stays in the text -/
theorem bom_stripped_once_borrowed (rest : Bytes)
    (hv : utf8Valid (0xEF :: 0xBB :: 0xBF :: 0xEF :: 0xBB :: 0xBF :: rest) = true) :
    decodeDetail otherDec .utf8 (0xEF :: 0xBB :: 0xBF :: 0xEF :: 0xBB :: 0xBF :: rest) =
      some (0xEF :: 0xBB :: 0xBF :: rest, .onlyUtf8Bom) := by
  simp [decodeDetail, convert, hv]

/-- **the reported size is the byte length of the stored text** -/
theorem size_is_text_len (text : Bytes) : size text = text.length := rfl

/-- **undecodable input becomes a decode error rather than a module** (unknown charset label) … -/
theorem unsupported_label_is_error (header : Option Charset) (isFile : Bool) (bs : Bytes)
    (h : chooseCharset header isFile bs = .unsupported) :
    newSource otherDec header isFile bs = none := by
  simp [newSource, h, decodeDetail, convert]

/-- … and UTF-8 / UTF-16 input always becomes a module, whatever the bytes -/
theorem modelled_charsets_never_fail (cs : Charset) (bs : Bytes)
    (h : cs = .utf8 ∨ cs = .utf16le ∨ cs = .utf16be) :
    (decodeDetail otherDec cs bs).isSome = true := by
  rcases h with rfl | rfl | rfl
  · unfold decodeDetail convert
    by_cases hv : utf8Valid bs = true
    · simp only [hv, if_true]
      split <;> rfl
    · simp [hv]
  · simp [decodeDetail, convert]
  · simp [decodeDetail, convert]

/-- **charset precedence**: the content-type header wins; without one, `file:` bytes are
sniffed for a UTF-16 BOM; everything else is UTF-8 -/
theorem charset_precedence (c : Charset) (isFile : Bool) (bs : Bytes) :
    chooseCharset (some c) isFile bs = c ∧
    chooseCharset none false bs = .utf8 ∧
    (∀ rest, chooseCharset none true (0xFF :: 0xFE :: rest) = .utf16le) ∧
    (∀ rest, chooseCharset none true (0xFE :: 0xFF :: rest) = .utf16be) := by
  refine ⟨rfl, rfl, fun _ => rfl, fun _ => rfl⟩

/-- valid UTF-8 without a BOM is stored verbatim -/
theorem valid_utf8_verbatim (bs : Bytes) (hv : utf8Valid bs = true)
    (hb : ∀ rest, bs ≠ 0xEF :: 0xBB :: 0xBF :: rest) :
    decodeDetail otherDec .utf8 bs = some (bs, .unchanged) := by
  unfold decodeDetail convert
  simp only [hv, if_true]

/-- non-vacuity: concrete inputs through every branch -/
example : decodeDetail (fun _ _ => .err) .utf8 [0x68, 0x69] = some ([0x68, 0x69], .unchanged) := by decide
example : decodeDetail (fun _ _ => .err) .utf8 [0xEF, 0xBB, 0xBF, 0x68] = some ([0x68], .onlyUtf8Bom) := by decide
example : decodeDetail (fun _ _ => .err) .utf8 [0x68, 0xFF] = some ([0x68, 0xEF, 0xBF, 0xBD], .changed) := by decide
example : decodeDetail (fun _ _ => .err) .utf16le [0xFF, 0xFE, 0x68, 0x00] = some ([0x68], .changed) := by decide
example : decodeDetail (fun _ _ => .err) .utf16be [0xD8, 0x3D, 0xDE, 0x00] = some ([0xF0, 0x9F, 0x98, 0x80], .changed) := by decide

end DG.C20
