import DG.FcPkg
import Proofs.FcDeps
/-!
# C12 — fast check is all-or-nothing per package and cache-transparent

Model: `DG/FcPkg.lean`.
-/
namespace DG.C12
open DG.FcPkg

theorem transformPackage_no_diag (stop : Bool) (ms : List MRes) (h : ∀ m ∈ ms, m.diag = false) :
    transformPackage stop ms = (ms.map (·.spec), []) := by
  induction ms with
  | nil => rfl
  | cons m r ih =>
    have hm := h m (by simp)
    simp only [transformPackage, hm, Bool.false_eq_true, if_false, List.map_cons]
    rw [ih (fun x hx => h x (by simp [hx]))]

theorem transformPackage_errors_iff (stop : Bool) (ms : List MRes) :
    (transformPackage stop ms).2 = [] ↔ ∀ m ∈ ms, m.diag = false := by
  induction ms with
  | nil => simp [transformPackage]
  | cons m r ih =>
    by_cases hm : m.diag = true
    · simp only [transformPackage, hm, if_true]
      constructor
      · intro h; cases stop <;> simp at h
      · intro h; exact absurd (h m (by simp)) (by simp [hm])
    · have hm' : m.diag = false := by simpa using hm
      simp only [transformPackage, hm', Bool.false_eq_true, if_false]
      rw [ih]
      constructor
      · intro h x hx
        simp only [List.mem_cons] at hx
        rcases hx with rfl | hx
        · exact hm'
        · exact h x hx
      · intro h x hx; exact h x (by simp [hx])

/-- **all or nothing**: without a cache, either no module of the public API has a diagnostic, every
one of them gets an emitted module and nothing carries diagnostics — or some has one, no module at
all gets an emitted module and every entrypoint carries the diagnostics -/
theorem all_or_nothing (p : Pkg) :
    ((∀ m ∈ p.mods, m.diag = false) ∧ uncached p = p.mods.map fun m => (m.spec, Res.output)) ∨
    ((∃ m ∈ p.mods, m.diag = true) ∧ outputs (uncached p) = [] ∧
      ∃ ds, ds ≠ [] ∧ uncached p = p.entrypoints.map fun e => (e, Res.diags ds)) := by
  by_cases h : ∀ m ∈ p.mods, m.diag = false
  · left
    refine ⟨h, ?_⟩
    unfold uncached
    rw [transformPackage_no_diag _ _ h]
    simp [uncachedOf]
  · right
    have hne : (transformPackage p.stopAtFirst p.mods).2 ≠ [] := fun e =>
      h ((transformPackage_errors_iff _ _).mp e)
    have hex : ∃ m ∈ p.mods, m.diag = true := by
      apply Classical.byContradiction
      intro hc
      apply h
      intro m hm
      cases hd : m.diag with
      | false => rfl
      | true => exact absurd ⟨m, hm, hd⟩ hc
    unfold uncached
    rcases hr : transformPackage p.stopAtFirst p.mods with ⟨oks, errs⟩
    rw [hr] at hne
    cases errs with
    | nil => exact absurd rfl hne
    | cons a b =>
      refine ⟨hex, ?_, a :: b, by simp, rfl⟩
      simp only [uncachedOf, outputs]
      induction p.entrypoints with
      | nil => rfl
      | cons x r ih => simpa using ih

theorem filter_info_map (hash : Nat → Nat) (l : List Nat) :
    ((l.map fun s => (s, CItem.info (hash s))).filter fun x => x.2.isDiag) = [] ∧
    ((l.map fun s => (s, CItem.info (hash s))).filter fun x => !x.2.isDiag) = l.map fun s => (s, CItem.info (hash s)) := by
  induction l with
  | nil => exact ⟨rfl, rfl⟩
  | cons x r ih => simp [CItem.isDiag]

theorem filter_diag_map (hash : Nat → Nat) (l : List Nat) :
    ((l.map fun s => (s, CItem.diagnostic (hash s))).filter fun x => !x.2.isDiag) = [] ∧
    ((l.map fun s => (s, CItem.diagnostic (hash s))).filter fun x => x.2.isDiag) = l.map fun s => (s, CItem.diagnostic (hash s)) := by
  induction l with
  | nil => exact ⟨rfl, rfl⟩
  | cons x r ih => simp [CItem.isDiag]

/-- **a warm cache is transparent for a passing package**: reading back what the cache-less run
stored gives exactly the cache-less result -/
theorem cached_result_of_pass (hash : Nat → Nat) (entrypoints oks : List Nat) :
    cachedResult entrypoints (cacheItemsOf hash (oks, [])) = uncachedOf entrypoints (oks, []) := by
  simp only [cacheItemsOf, uncachedOf, cachedResult]
  rw [(filter_info_map hash oks).1, (filter_info_map hash oks).2]
  simp

/-- **a warm cache is all-or-nothing for a failing package**: no module is emitted and every
entrypoint carries the (cached) diagnostics, naming the modules listed in the entry -/
theorem cached_result_of_fail (hash : Nat → Nat) (entrypoints oks : List Nat) (e : Nat) (es : List Nat) :
    cachedResult entrypoints (cacheItemsOf hash (oks, e :: es)) =
      entrypoints.map fun x => (x, Res.diags (oks ++ e :: es)) := by
  simp only [cacheItemsOf, cachedResult]
  rw [(filter_diag_map hash (oks ++ e :: es)).1, (filter_diag_map hash (oks ++ e :: es)).2]
  simp only [List.map_nil, List.nil_append, List.map_map]
  have : (List.map ((fun x => x.1) ∘ fun s => (s, CItem.diagnostic (hash s))) (oks ++ e :: es)) = oks ++ e :: es := by
    simp [Function.comp_def]
  rw [this]
  cases oks <;> rfl

theorem outputs_diags (entrypoints ds : List Nat) :
    outputs (entrypoints.map fun e => (e, Res.diags ds)) = [] := by
  induction entrypoints with
  | nil => rfl
  | cons x r ih =>
    simp only [outputs, List.map_cons, List.filter_cons] at ih ⊢
    simpa using ih

/-- **a cache never changes which modules have emitted output**: reading back what an uncached
run stored gives the same set of emitted modules … -/
theorem cached_outputs_of (hash : Nat → Nat) (entrypoints : List Nat) (r : List Nat × List Nat) :
    outputs (cachedResult entrypoints (cacheItemsOf hash r)) = outputs (uncachedOf entrypoints r) := by
  obtain ⟨oks, errs⟩ := r
  cases errs with
  | nil => rw [cached_result_of_pass]
  | cons a b =>
    rw [cached_result_of_fail]
    simp only [uncachedOf]
    rw [outputs_diags, outputs_diags]

theorem cached_outputs_eq (p : Pkg) : outputs (cachedResult p.entrypoints (cacheItems p)) = outputs (uncached p) :=
  cached_outputs_of _ _ _

/-- **the statement for a warm run**: the result read from the package's own entry is the
cache-less result when the package passes, and diagnostics on every entrypoint (and nothing else)
when it fails -/
theorem cached_all_or_nothing (p : Pkg) :
    ((∀ m ∈ p.mods, m.diag = false) ∧ cachedResult p.entrypoints (cacheItems p) = uncached p) ∨
    ((∃ m ∈ p.mods, m.diag = true) ∧
      ∃ ds, ds ≠ [] ∧ cachedResult p.entrypoints (cacheItems p) = p.entrypoints.map fun e => (e, Res.diags ds)) := by
  rcases all_or_nothing p with ⟨h, _⟩ | ⟨h, _, _⟩
  · left
    refine ⟨h, ?_⟩
    unfold cacheItems uncached
    rw [transformPackage_no_diag _ _ h]
    exact cached_result_of_pass _ _ _
  · right
    refine ⟨h, ?_⟩
    have hne : (transformPackage p.stopAtFirst p.mods).2 ≠ [] := fun e => by
      obtain ⟨m, hm, hd⟩ := h
      have := (transformPackage_errors_iff _ _).mp e m hm
      rw [this] at hd
      exact Bool.noConfusion hd
    unfold cacheItems
    rcases hr : transformPackage p.stopAtFirst p.mods with ⟨oks, errs⟩
    rw [hr] at hne
    cases errs with
    | nil => exact absurd rfl hne
    | cons a b => exact ⟨oks ++ a :: b, by simp, cached_result_of_fail _ _ _ _ _⟩

/-- … through any run: with a cold, warm or stale cache entry the emitted modules are those of
the cache-less run on the current sources, PROVIDED an entry that passes the hash check was
stored for sources with the same analysis results (the hash check covers exactly the listed
modules) -/
theorem run_outputs_eq (p : Pkg) (cache : Option (List (Nat × CItem)))
    (hc : ∀ items, cache = some items → valid items (hashOf p) = true → items = cacheItems p) :
    outputs (runWith cache p).1 = outputs (uncached p) := by
  unfold runWith
  cases cache with
  | none => rfl
  | some items =>
    simp only
    split
    · rename_i hv
      rw [hc items rfl hv]
      exact cached_outputs_eq p
    · rfl

/-- the entry stored is always the one of the current sources unless a valid one was kept -/
theorem run_cache_after (p : Pkg) (cache : Option (List (Nat × CItem))) :
    (runWith cache p).2 = some (cacheItems p) ∨ (∃ items, cache = some items ∧ valid items (hashOf p) = true ∧
      (runWith cache p).2 = some items) := by
  unfold runWith
  cases cache with
  | none => exact Or.inl rfl
  | some items =>
    simp only
    split
    · rename_i hv; exact Or.inr ⟨items, rfl, hv, rfl⟩
    · exact Or.inl rfl

/-- the assumption under which hashing the listed modules is enough: whenever the entry of one
state of the package passes the hash check in another state, the two states analyse alike -/
def Coherent (all : List Pkg) : Prop :=
  ∀ q ∈ all, ∀ p ∈ all, valid (cacheItems q) (hashOf p) = true → cacheItems q = cacheItems p

/-- **histories**: thread one cache through any sequence of states of a package (builds with edits
in between); every run emits exactly the modules of the cache-less run on the sources of that
moment -/
theorem history_outputs (all : List Pkg) (hco : Coherent all) (ps : List Pkg) (hps : ∀ p ∈ ps, p ∈ all)
    (c : Option (List (Nat × CItem))) (hc : c = none ∨ ∃ q ∈ all, c = some (cacheItems q)) :
    (history c ps).map outputs = ps.map fun p => outputs (uncached p) := by
  induction ps generalizing c with
  | nil => rfl
  | cons p ps ih =>
    have hp : p ∈ all := hps p (by simp)
    have hcond : ∀ items, c = some items → valid items (hashOf p) = true → items = cacheItems p := by
      intro items hi hv
      rcases hc with hn | ⟨q, hq, hcq⟩
      · rw [hn] at hi; cases hi
      · rw [hcq] at hi
        have : cacheItems q = items := Option.some.inj hi
        subst this
        exact hco q hq p hp hv
    simp only [history, List.map_cons]
    rw [run_outputs_eq p c hcond]
    congr 1
    apply ih (fun x hx => hps x (by simp [hx]))
    rcases run_cache_after p c with h | ⟨items, hi, hv, h⟩
    · exact Or.inr ⟨p, hp, h⟩
    · rw [h]
      exact Or.inr ⟨p, hp, by rw [hcond items hi hv]⟩

/-- the package of finding F4 (fixed): the second module has a diagnostic and the second entrypoint
is a third module — with and without a cache both entrypoints carry diagnostics -/
def f4 : Pkg :=
  { entrypoints := [0, 2], stopAtFirst := true,
    mods := [{ spec := 0, hash := 10, diag := false }, { spec := 1, hash := 11, diag := true },
             { spec := 2, hash := 12, diag := false }] }

theorem warm_cache_keeps_diagnostics_on_entrypoints :
    uncached f4 = [(0, .diags [1]), (2, .diags [1])] ∧
    cachedResult f4.entrypoints (cacheItems f4) = [(0, .diags [0, 1]), (2, .diags [0, 1])] := by
  constructor <;> decide

example : Coherent [f4] := by
  intro q hq p hp _
  simp only [List.mem_singleton] at hq hp
  rw [hq, hp]

/-- an edit of a listed module invalidates the entry -/
theorem stale_entry_recomputed (p : Pkg) (items : List (Nat × CItem)) (s : Nat) (i : CItem)
    (hm : (s, i) ∈ items) (hh : hashOf p s ≠ i.hash) :
    runWith (some items) p = (uncached p, some (cacheItems p)) := by
  unfold runWith
  have : valid items (hashOf p) = false := by
    unfold valid
    rw [List.all_eq_false]
    exact ⟨(s, i), hm, by simpa using hh⟩
  simp [this]

/-! ## across packages (`DG/FcDeps.lean`): which packages are analysed, with and without a cache -/
section Packages
open DG.FcDeps

/-- the packages taken from the queue are exactly those reachable from the top-level packages
through recorded dependencies — whatever the cache holds -/
theorem analysed_is_dependency_closure (w : World) (top : List Nat) (fuel : Nat) (s : St)
    (h : run w fuel (init top) = some s) (q : Nat) : q ∈ s.analysed ↔ Reach w top q :=
  analysed_iff_reach w top fuel s h q

/-- **cache transparency at the level of packages**: if every package the trace of a package enters
is recorded as its dependency, the packages that end up with fast check data are the same for
every cache state (all entries valid, none, or any mixture after edits) -/
theorem packages_cache_transparent (w : World) (top : List Nat) (fuel : Nat) (s : St)
    (hrec : ∀ p q, q ∈ (w.pkg p).touched → q = p ∨ q ∈ (w.pkg p).recorded)
    (h : run w fuel (init top) = some s) (stale stale' : Nat → Bool) (q : Nat) :
    q ∈ outputs w stale s ↔ q ∈ outputs w stale' s :=
  outputs_same_for_all_cache_states w top fuel s hrec h stale stale' q

/-- finding F33 (repaired in /repo): a package whose trace enters another package without recording
it — with a cold cache the other package has fast check data, with a warm cache it has none -/
theorem unrecorded_dependency_breaks_cache :
    let w : World := [{ touched := [1], recorded := [] }, { touched := [], recorded := [] }]
    ∃ s, run w 5 (init [0]) = some s ∧
      (1 ∈ outputs w (fun _ => true) s) ∧ ¬ (1 ∈ outputs w (fun _ => false) s) := by
  refine ⟨{ queue := [], seen := [0], analysed := [0] }, by rfl, by decide, by decide⟩

/-- the hypothesis is satisfiable and the run finishes: a diamond, both top-level packages star-re-export
the third -/
example :
    let w : World := [{ touched := [2], recorded := [2] }, { touched := [2], recorded := [2] }, { touched := [], recorded := [] }]
    (run w 5 (init [0, 1])).map (·.analysed) = some [0, 1, 2] := by decide

/-- the queue of packages is always emptied: every package is taken from it at most once, and only
finitely many are ever recorded -/
theorem package_queue_terminates (w : World) (top : List Nat) : ∃ fuel s, run w fuel (init top) = some s :=
  find_terminates w top

/-- … so, unconditionally: some run finishes, and for it the packages with fast check data are the
same for every cache state, provided every package a trace enters is recorded as a dependency -/
theorem packages_cache_transparent_total (w : World) (top : List Nat)
    (hrec : ∀ p q, q ∈ (w.pkg p).touched → q = p ∨ q ∈ (w.pkg p).recorded) :
    ∃ fuel s, run w fuel (init top) = some s ∧
      ∀ (stale stale' : Nat → Bool) (q : Nat), q ∈ outputs w stale s ↔ q ∈ outputs w stale' s := by
  obtain ⟨fuel, s, h⟩ := find_terminates w top
  exact ⟨fuel, s, h, fun stale stale' q => outputs_same_for_all_cache_states w top fuel s hrec h stale stale' q⟩

end Packages

end DG.C12
