import DG.Reload
import Proofs.BuildLoop
/-!
# C19 — incremental builds and reloads converge to the from-scratch graph

Model: `DG/Reload.lean` — a fresh builder per call over the persisted slots / redirects / roots /
configured imports.  Proved for every world and history:
* building again with roots and imports the graph already has issues no loader call and changes
  nothing (`build_idem`);
* every incremental build and every reload that finishes leaves no pending entry, provided the
  graph it started from had none (`buildMore_no_pending`, `reload_no_pending`);
* `reload` takes each specifier through the recorded redirects before removing and re-requesting
  it (`reload_resolves_first`) — which is why a changed redirect is never noticed (finding F20).
Convergence to the from-scratch graph is decided on every run by exact model correspondence after
every step plus the implementation-side comparison with from-scratch builds.
-/
namespace DG.C19
open DG DG.Build DG.Reload

variable (w : World) (o : Opts)

/-- **building again with roots it already has changes nothing** — no request is queued, no
loader call is made, slots and redirects are returned as they were -/
theorem build_idem (g : GSt) (roots : List Spec) (imports : List (Spec × List Dep)) (fuel : Nat)
    (hr : ∀ r ∈ roots, r ∈ g.roots) (hi : ∀ p ∈ imports, p.1 ∈ g.importReferrers) :
    buildMore w o g roots imports (fuel + 1) =
      some ({ g with slots := g.slots, redirects := g.redirects }, freshBuilder o g) := by
  have h1 : roots.filter (fun r => !g.roots.contains r) = [] := by
    apply List.filter_eq_nil_iff.mpr
    intro r hrm
    simp [hr r hrm]
  have h2 : (effImports o imports).filter (fun p => !g.importReferrers.contains p.1) = [] := by
    apply List.filter_eq_nil_iff.mpr
    intro p hp
    have hp' : p ∈ imports := by
      unfold effImports at hp
      split at hp
      · exact hp
      · cases hp
    simp [hi p hp']
  unfold buildMore
  simp only [h1, h2, List.foldl_nil, List.flatMap_nil, List.map_nil, List.append_nil]
  have hq : quiescent (freshBuilder o g) = true := by simp [quiescent, freshBuilder]
  simp only [runLoop, hq, if_true]
  rfl

/-- a graph without pending entries gives a builder state satisfying the queue invariant -/
theorem fresh_inv (g : GSt) (h : ∀ s a, g.slots.lookup s ≠ some (.pending a)) :
    PendInv (freshBuilder o g) := by
  intro s a hs
  exact absurd hs (h s a)

theorem erase_inv {ex : Option Spec} (st : St) (k : Spec) (h : PendInvEx ex st) :
    PendInvEx ex { st with slots := erase st.slots k } := by
  intro s a hs
  have : (erase st.slots k).lookup s = some (.pending a) := hs
  rw [lookup_erase] at this
  split at this
  · cases this
  · exact h s a this

/-- **an incremental build leaves no entry unfinished** -/
theorem buildMore_no_pending (g : GSt) (roots : List Spec) (imports : List (Spec × List Dep))
    (fuel : Nat) (g' : GSt) (out : St)
    (hg : ∀ s a, g.slots.lookup s ≠ some (.pending a))
    (h : buildMore w o g roots imports fuel = some (g', out)) :
    ∀ s a, g'.slots.lookup s ≠ some (.pending a) := by
  unfold buildMore at h
  simp only at h
  split at h
  · rename_i outst hrun
    simp only [Option.some.injEq, Prod.mk.injEq] at h
    obtain ⟨rfl, rfl⟩ := h
    have h0 := fresh_inv o g hg
    have h1 := (good_foldl (fun st r =>
        load w o 0 { spec := r, range := none, spRef := none, isAsset := false, inDyn := st.inDyn,
                     isRoot := true, attr := none } st) (fun r => good_load' w o 0 _)
        (roots.filter fun r => !g.roots.contains r)).inv none _ h0
    have h2 := (good_foldl (fun st (d : Dep) =>
          match d.type with
          | .ok s rng =>
            load w o 0 { spec := s, range := some rng, spRef := none, isAsset := false, inDyn := st.inDyn,
                         isRoot := st.isResolvedRoot s, attr := none } st
          | _ => st) (fun d => ?_)
        (((effImports o imports).filter fun p => !g.importReferrers.contains p.1).flatMap (·.2))).inv none _ h1
    rotate_left
    · constructor
      · intro ex st h
        split
        · exact (good_load w o 0 _).inv ex st h
        · exact h
      · intro st r hr
        split
        · exact (good_load w o 0 _).mono st r hr
        · exact hr
    obtain ⟨hinv, hq⟩ := runLoop_inv w o fuel _ outst h2 hrun
    intro s a hs
    rcases hinv s a hs with ⟨r, hr, _⟩ | hex
    · simp only [quiescent, Bool.and_eq_true, List.isEmpty_iff] at hq
      rw [hq.1.1] at hr
      cases hr
    · cases hex
  · cases h

/-- **a reload leaves no entry unfinished** -/
theorem reload_no_pending (g : GSt) (specs : List Spec) (fuel : Nat) (g' : GSt) (out : St)
    (hg : ∀ s a, g.slots.lookup s ≠ some (.pending a))
    (h : reload w o g specs fuel = some (g', out)) :
    ∀ s a, g'.slots.lookup s ≠ some (.pending a) := by
  unfold reload at h
  simp only at h
  split at h
  · rename_i outst hrun
    simp only [Option.some.injEq, Prod.mk.injEq] at h
    obtain ⟨rfl, rfl⟩ := h
    have h0 := fresh_inv o g hg
    have h1 : PendInv ((specs.map g.resolve).foldl (fun st s =>
        load w o 0 { spec := s, range := none, spRef := none, isAsset := false, inDyn := st.inDyn,
                     isRoot := true, attr := none } { st with slots := erase st.slots s })
        (freshBuilder o g)) := by
      refine (good_foldl _ (fun s => ?_) _).inv none _ h0
      constructor
      · intro ex st h
        exact (good_load w o 0 _).inv ex _ (erase_inv st s h)
      · intro st r hr
        exact (good_load w o 0 _).mono { st with slots := erase st.slots s } r hr
    obtain ⟨hinv, hq⟩ := runLoop_inv w o fuel _ outst h1 hrun
    intro s a hs
    rcases hinv s a hs with ⟨r, hr, _⟩ | hex
    · simp only [quiescent, Bool.and_eq_true, List.isEmpty_iff] at hq
      rw [hq.1.1] at hr
      cases hr
    · cases hex
  · cases h

/-- reload takes the requested specifier through the recorded redirects first: the specifier
actually removed and re-requested is `g.resolve s` (finding F20 when the redirect itself changed) -/
theorem reload_resolves_first (g : GSt) (s : Spec) (fuel : Nat) :
    reload w o g [s] fuel =
      (match runLoop w o fuel (load w o 0
          { spec := g.resolve s, range := none, spRef := none, isAsset := false, inDyn := o.isDynamic,
            isRoot := true, attr := none }
          { freshBuilder o g with slots := erase g.slots (g.resolve s) }) with
       | some out => some ({ g with slots := out.slots, redirects := out.redirects }, out)
       | none => none) := by
  unfold reload freshBuilder
  simp only [List.map_cons, List.map_nil, List.foldl_cons, List.foldl_nil]
  rfl

end DG.C19
