import Proofs.JsrVersion
/-!
# C06 — JSR requirements resolve to the specified version

Model: `DG/JsrVersion.lean` (`resolve_version`, `JsrPackageVersionResolver::resolve_version`,
`NewestDependencyDateOptions::get_for_package`, `jsr_unification_decides`).
All theorems are for arbitrary lists: the code iterates a `HashMap`, so nothing may depend
on the order of the registry's version map.
-/
namespace DG.C06
open DG.Jsr

variable (sat : Nat → Bool) (cutoff : Option Nat)

/-- **the fold selects the greatest candidate** -/
theorem resolveVersion_is_max (vs : List (Nat × Option VInfo)) (v : Nat) :
    (resolveVersion sat cutoff vs).best = some v ↔
      (∃ p ∈ vs, p.1 = v ∧ Cand sat cutoff p) ∧ ∀ p ∈ vs, Cand sat cutoff p → p.1 ≤ v := by
  have h := resolveVersion_inv sat cutoff vs
  constructor
  · intro hb; exact h.best_some v hb
  · rintro ⟨⟨p, hp, hpv, hpc⟩, hmax⟩
    rcases hb : (resolveVersion sat cutoff vs).best with _ | b
    · exact absurd hpc (h.best_none hb p hp)
    · obtain ⟨⟨q, hq, hqb, hqc⟩, hmaxb⟩ := h.best_some b hb
      have h1 := hmax q hq hqc
      have h2 := hmaxb p hp hpc
      congr 1
      omega

theorem resolveVersion_none_iff (vs : List (Nat × Option VInfo)) :
    (resolveVersion sat cutoff vs).best = none ↔ ∀ p ∈ vs, ¬ Cand sat cutoff p := by
  have h := resolveVersion_inv sat cutoff vs
  constructor
  · exact h.best_none
  · intro hn
    rcases hb : (resolveVersion sat cutoff vs).best with _ | b
    · rfl
    · obtain ⟨⟨q, hq, _, hqc⟩, _⟩ := h.best_some b hb
      exact absurd hqc (hn q hq)

/-- the "a newer match was excluded" flag: some version satisfies the requirement at all -/
theorem hadHigher_iff (vs : List (Nat × Option VInfo)) :
    (resolveVersion sat cutoff vs).hadHigher = true ↔ ∃ p ∈ vs, sat p.1 = true :=
  (resolveVersion_inv sat cutoff vs).had

/-- **order independence**: permuting the version map changes nothing -/
theorem resolveVersion_perm (vs vs' : List (Nat × Option VInfo)) (hp : vs.Perm vs') :
    resolveVersion sat cutoff vs = resolveVersion sat cutoff vs' := by
  have hbest : (resolveVersion sat cutoff vs).best = (resolveVersion sat cutoff vs').best := by
    rcases hb : (resolveVersion sat cutoff vs).best with _ | b
    · symm
      rw [resolveVersion_none_iff] at hb ⊢
      intro p hp'; exact hb p (hp.mem_iff.mpr hp')
    · symm
      rw [resolveVersion_is_max] at hb ⊢
      obtain ⟨⟨p, hpm, h1, h2⟩, hmax⟩ := hb
      exact ⟨⟨p, hp.mem_iff.mp hpm, h1, h2⟩, fun q hq hc => hmax q (hp.mem_iff.mpr hq) hc⟩
  have hhad : (resolveVersion sat cutoff vs).hadHigher = (resolveVersion sat cutoff vs').hadHigher := by
    rw [Bool.eq_iff_iff, hadHigher_iff, hadHigher_iff]
    constructor
    · rintro ⟨p, h1, h2⟩; exact ⟨p, hp.mem_iff.mp h1, h2⟩
    · rintro ⟨p, h1, h2⟩; exact ⟨p, hp.mem_iff.mpr h1, h2⟩
  cases h1 : resolveVersion sat cutoff vs
  cases h2 : resolveVersion sat cutoff vs'
  simp_all

variable (infos : List (Nat × VInfo)) (existing cached : List Nat)

/-- tier 1 ignores the date: every already-selected version that satisfies the requirement is a candidate -/
theorem tier1_cand (v : Nat) : Cand sat none (v, none) ↔ sat v = true := by
  simp [Cand, dateOk]

/-- **1. an already selected version wins**: the highest selected version satisfying the
requirement is chosen (dates ignored), reported yanked iff the registry says so. -/
theorem selected_wins (v : Nat)
    (hv : (resolveVersion sat none (tier1List existing)).best = some v) :
    resolveTiers sat cutoff infos existing cached =
      .ok v (yankedFlag infos v) ∧
    v ∈ existing ∧ sat v = true ∧ ∀ w ∈ existing, sat w = true → w ≤ v := by
  refine ⟨by unfold resolveTiers; simp only [hv], ?_⟩
  obtain ⟨⟨p, hp, hpv, hpc⟩, hmax⟩ := (resolveVersion_is_max sat none _ v).mp hv
  simp only [tier1List, List.mem_map] at hp
  obtain ⟨w, hw, rfl⟩ := hp
  simp only at hpv
  subst hpv
  refine ⟨hw, hpc.1, ?_⟩
  intro u hu hsu
  exact hmax (u, none) (by simp [tier1List]; exact hu) ((tier1_cand sat u).mpr hsu)

/-- tier 1 answers exactly when `jsr_unification_decides` says so (so skipping the cache probe
then is unobservable) -/
theorem unification_decides_iff_tier1 :
    unificationDecides sat existing = true ↔
      (resolveVersion sat none (tier1List existing)).best.isSome = true := by
  rw [Option.isSome_iff_ne_none, ne_eq, resolveVersion_none_iff]
  simp only [unificationDecides, List.any_eq_true, tier1List, List.mem_map]
  constructor
  · rintro ⟨v, hv, hs⟩ hall
    exact hall (v, none) ⟨v, hv, rfl⟩ ((tier1_cand sat v).mpr hs)
  · intro h
    apply Classical.byContradiction
    intro hne
    apply h
    rintro p ⟨v, hv, rfl⟩ hc
    exact hne ⟨v, hv, (tier1_cand sat v).mp hc⟩

/-- **1.5 cached manifests preferred**: nothing selected, some cached unyanked date-ok version
satisfies the requirement ⇒ the highest of them, not yanked. -/
theorem cached_preferred (v : Nat)
    (h1 : (resolveVersion sat none (tier1List existing)).best = none)
    (hc : cached.isEmpty = false)
    (hv : (resolveVersion sat cutoff (cachedList infos cached)).best = some v) :
    resolveTiers sat cutoff infos existing cached = .ok v false := by
  unfold resolveTiers
  rw [h1]
  simp only [hc, Bool.false_eq_true, if_false, hv]

/-- **2. otherwise the highest non-yanked version** that satisfies the requirement and is not
newer than the cutoff -/
theorem unyanked_highest (v : Nat)
    (h1 : (resolveVersion sat none (tier1List existing)).best = none)
    (h15 : cached.isEmpty = true ∨ (resolveVersion sat cutoff (cachedList infos cached)).best = none)
    (hv : (resolveVersion sat cutoff (unyankedList infos)).best = some v) :
    resolveTiers sat cutoff infos existing cached = .ok v false := by
  have h15' : (if cached.isEmpty = true then none
      else (resolveVersion sat cutoff (cachedList infos cached)).best) = none := by
    rcases h15 with h | h
    · simp only [h, if_true]
    · split
      · rfl
      · exact h
  unfold resolveTiers
  rw [h1]
  simp only [h15', hv]

/-- **3. otherwise the highest yanked version**, reported as a used yanked package -/
theorem yanked_fallback (v : Nat)
    (h1 : (resolveVersion sat none (tier1List existing)).best = none)
    (h15 : cached.isEmpty = true ∨ (resolveVersion sat cutoff (cachedList infos cached)).best = none)
    (h2 : (resolveVersion sat cutoff (unyankedList infos)).best = none)
    (hv : (resolveVersion sat cutoff (yankedList infos)).best = some v) :
    resolveTiers sat cutoff infos existing cached = .ok v true := by
  have h15' : (if cached.isEmpty = true then none
      else (resolveVersion sat cutoff (cachedList infos cached)).best) = none := by
    rcases h15 with h | h
    · simp only [h, if_true]
    · split
      · rfl
      · exact h
  unfold resolveTiers
  rw [h1]
  simp only [h15', h2, hv]

/-- **4. otherwise not found**, and the message mentions the cutoff exactly when some registry
version satisfies the requirement (it was then excluded by date) -/
theorem not_found
    (h1 : (resolveVersion sat none (tier1List existing)).best = none)
    (h15 : cached.isEmpty = true ∨ (resolveVersion sat cutoff (cachedList infos cached)).best = none)
    (h2 : (resolveVersion sat cutoff (unyankedList infos)).best = none)
    (h3 : (resolveVersion sat cutoff (yankedList infos)).best = none) :
    resolveTiers sat cutoff infos existing cached =
      .notFound (if (∃ p ∈ infos, sat p.1 = true) then cutoff else none) := by
  have hh : ((resolveVersion sat cutoff (unyankedList infos)).hadHigher ||
      (resolveVersion sat cutoff (yankedList infos)).hadHigher) = true ↔ ∃ p ∈ infos, sat p.1 = true := by
    rw [Bool.or_eq_true, hadHigher_iff, hadHigher_iff]
    simp only [unyankedList, yankedList, List.mem_map, List.mem_filter]
    constructor
    · rintro (⟨p, ⟨q, ⟨hq, _⟩, rfl⟩, hs⟩ | ⟨p, ⟨q, ⟨hq, _⟩, rfl⟩, hs⟩) <;> exact ⟨q, hq, hs⟩
    · rintro ⟨q, hq, hs⟩
      by_cases hy : q.2.yanked = true
      · exact Or.inr ⟨(q.1, some q.2), ⟨q, ⟨hq, hy⟩, rfl⟩, hs⟩
      · exact Or.inl ⟨(q.1, some q.2), ⟨q, ⟨hq, by simp [hy]⟩, rfl⟩, hs⟩
  have h15' : (if cached.isEmpty = true then none
      else (resolveVersion sat cutoff (cachedList infos cached)).best) = none := by
    rcases h15 with h | h
    · simp only [h, if_true]
    · split
      · rfl
      · exact h
  unfold resolveTiers
  rw [h1]
  simp only [h15', h2, h3]
  by_cases hex : ∃ p ∈ infos, sat p.1 = true
  · rw [if_pos (hh.mpr hex), if_pos hex]
  · rw [if_neg (fun h => hex (hh.mp h)), if_neg hex]

/-- a version chosen in tiers 1.5–3 satisfies the requirement and respects the cutoff -/
theorem registry_choice_sound (l : List (Nat × Option VInfo)) (v : Nat)
    (hv : (resolveVersion sat cutoff l).best = some v) :
    ∃ p ∈ l, p.1 = v ∧ sat v = true ∧ dateOk p.2 cutoff = true := by
  obtain ⟨⟨p, hp, hpv, hpc⟩, _⟩ := (resolveVersion_is_max sat cutoff l v).mp hv
  exact ⟨p, hp, hpv, by rw [← hpv]; exact hpc.1, hpc.2⟩

/-- **packages excluded from the date rule ignore the cutoff** -/
theorem excluded_package_ignores_date (date : Option Nat) (excluded prefixes : List (List Char))
    (name : List Char)
    (h : name ∈ excluded ∨ ∃ p ∈ prefixes, p.isPrefixOf name = true) (info : Option VInfo) :
    cutoffFor date excluded prefixes name = none ∧
    dateOk info (cutoffFor date excluded prefixes name) = true := by
  have hc : cutoffFor date excluded prefixes name = none := by
    unfold cutoffFor
    cases date with
    | none => rfl
    | some d =>
      have : (excluded.contains name || prefixes.any fun p => p.isPrefixOf name) = true := by
        rcases h with h | ⟨p, hp, hpre⟩
        · simp [h]
        · simp only [Bool.or_eq_true, List.any_eq_true]
          exact Or.inr ⟨p, hp, hpre⟩
      simp only [this, if_true]
  refine ⟨hc, ?_⟩
  rw [hc]
  cases info <;> simp [dateOk]

/-- a package that is not excluded keeps the configured cutoff -/
theorem not_excluded_keeps_date (d : Nat) (excluded prefixes : List (List Char)) (name : List Char)
    (h1 : name ∉ excluded) (h2 : ∀ p ∈ prefixes, p.isPrefixOf name = false) :
    cutoffFor (some d) excluded prefixes name = some d := by
  unfold cutoffFor
  have : (excluded.contains name || prefixes.any fun p => p.isPrefixOf name) = false := by
    simp only [Bool.or_eq_false_iff, List.contains_eq_mem, decide_eq_false_iff_not, List.any_eq_false]
    exact ⟨h1, fun p hp => by simp [h2 p hp]⟩
  simp only [this, Bool.false_eq_true, if_false]

/-- non-vacuity: 1.0.0 (old), 1.1.0 (yanked), 1.2.0 (newer than the cutoff); `^1` -/
def demoInfos : List (Nat × VInfo) :=
  [(2, { yanked := false, createdAt := some 50 }), (0, { yanked := false, createdAt := some 10 }),
   (1, { yanked := true, createdAt := some 20 })]

example : resolveTiers (fun _ => true) (some 30) demoInfos [] [] = .ok 0 false := by decide
example : resolveTiers (fun v => v != 0) (some 30) demoInfos [] [] = .ok 1 true := by decide
example : resolveTiers (fun v => v == 2) (some 30) demoInfos [] [] = .notFound (some 30) := by decide
example : resolveTiers (fun v => v == 7) (some 30) demoInfos [] [] = .notFound none := by decide
example : resolveTiers (fun _ => true) (some 30) demoInfos [1] [] = .ok 1 true := by decide

end DG.C06
