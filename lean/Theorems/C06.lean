import Proofs.JsrVersion
import Proofs.JsrSpec
/-!
# C06 — JSR requirements resolve to the specified version

Model: `DG/JsrVersion.lean` (`resolve_version`, `JsrPackageVersionResolver::resolve_version`,
`NewestDependencyDateOptions::get_for_package`, `jsr_unification_decides`).
All theorems are for arbitrary lists: the code iterates a `HashMap`, so nothing may depend
on the order of the registry's version map.
-/
namespace DG.C06
open DG.Jsr

variable (sat : Nat → Bool) (cutoff : Option Nat)

/-- **the fold selects the greatest candidate** -/
theorem resolveVersion_is_max (vs : List (Nat × Option VInfo)) (v : Nat) :
    (resolveVersion sat cutoff vs).best = some v ↔
      (∃ p ∈ vs, p.1 = v ∧ Cand sat cutoff p) ∧ ∀ p ∈ vs, Cand sat cutoff p → p.1 ≤ v := by
  have h := resolveVersion_inv sat cutoff vs
  constructor
  · intro hb; exact h.best_some v hb
  · rintro ⟨⟨p, hp, hpv, hpc⟩, hmax⟩
    rcases hb : (resolveVersion sat cutoff vs).best with _ | b
    · exact absurd hpc (h.best_none hb p hp)
    · obtain ⟨⟨q, hq, hqb, hqc⟩, hmaxb⟩ := h.best_some b hb
      have h1 := hmax q hq hqc
      have h2 := hmaxb p hp hpc
      congr 1
      omega

theorem resolveVersion_none_iff (vs : List (Nat × Option VInfo)) :
    (resolveVersion sat cutoff vs).best = none ↔ ∀ p ∈ vs, ¬ Cand sat cutoff p := by
  have h := resolveVersion_inv sat cutoff vs
  constructor
  · exact h.best_none
  · intro hn
    rcases hb : (resolveVersion sat cutoff vs).best with _ | b
    · rfl
    · obtain ⟨⟨q, hq, _, hqc⟩, _⟩ := h.best_some b hb
      exact absurd hqc (hn q hq)

/-- the "a newer match was excluded" flag: some version satisfies the requirement at all -/
theorem hadHigher_iff (vs : List (Nat × Option VInfo)) :
    (resolveVersion sat cutoff vs).hadHigher = true ↔ ∃ p ∈ vs, sat p.1 = true :=
  (resolveVersion_inv sat cutoff vs).had

/-- **order independence**: permuting the version map changes nothing -/
theorem resolveVersion_perm (vs vs' : List (Nat × Option VInfo)) (hp : vs.Perm vs') :
    resolveVersion sat cutoff vs = resolveVersion sat cutoff vs' := by
  have hbest : (resolveVersion sat cutoff vs).best = (resolveVersion sat cutoff vs').best := by
    rcases hb : (resolveVersion sat cutoff vs).best with _ | b
    · symm
      rw [resolveVersion_none_iff] at hb ⊢
      intro p hp'; exact hb p (hp.mem_iff.mpr hp')
    · symm
      rw [resolveVersion_is_max] at hb ⊢
      obtain ⟨⟨p, hpm, h1, h2⟩, hmax⟩ := hb
      exact ⟨⟨p, hp.mem_iff.mp hpm, h1, h2⟩, fun q hq hc => hmax q (hp.mem_iff.mpr hq) hc⟩
  have hhad : (resolveVersion sat cutoff vs).hadHigher = (resolveVersion sat cutoff vs').hadHigher := by
    rw [Bool.eq_iff_iff, hadHigher_iff, hadHigher_iff]
    constructor
    · rintro ⟨p, h1, h2⟩; exact ⟨p, hp.mem_iff.mp h1, h2⟩
    · rintro ⟨p, h1, h2⟩; exact ⟨p, hp.mem_iff.mpr h1, h2⟩
  cases h1 : resolveVersion sat cutoff vs
  cases h2 : resolveVersion sat cutoff vs'
  simp_all

variable (infos : List (Nat × VInfo)) (existing cached : List Nat)

/-- tier 1 ignores the date: every already-selected version that satisfies the requirement is a candidate -/
theorem tier1_cand (v : Nat) : Cand sat none (v, none) ↔ sat v = true := by
  simp [Cand, dateOk]

/-- **1. an already selected version wins**: the highest selected version satisfying the
requirement is chosen (dates ignored), reported yanked iff the registry says so. -/
theorem selected_wins (v : Nat)
    (hv : (resolveVersion sat none (tier1List existing)).best = some v) :
    resolveTiers sat cutoff infos existing cached =
      .ok v (yankedFlag infos v) ∧
    v ∈ existing ∧ sat v = true ∧ ∀ w ∈ existing, sat w = true → w ≤ v := by
  refine ⟨by unfold resolveTiers; simp only [hv], ?_⟩
  obtain ⟨⟨p, hp, hpv, hpc⟩, hmax⟩ := (resolveVersion_is_max sat none _ v).mp hv
  simp only [tier1List, List.mem_map] at hp
  obtain ⟨w, hw, rfl⟩ := hp
  simp only at hpv
  subst hpv
  refine ⟨hw, hpc.1, ?_⟩
  intro u hu hsu
  exact hmax (u, none) (by simp [tier1List]; exact hu) ((tier1_cand sat u).mpr hsu)

/-- tier 1 answers exactly when `jsr_unification_decides` says so (so skipping the cache probe
then is unobservable) -/
theorem unification_decides_iff_tier1 :
    unificationDecides sat existing = true ↔
      (resolveVersion sat none (tier1List existing)).best.isSome = true := by
  rw [Option.isSome_iff_ne_none, ne_eq, resolveVersion_none_iff]
  simp only [unificationDecides, List.any_eq_true, tier1List, List.mem_map]
  constructor
  · rintro ⟨v, hv, hs⟩ hall
    exact hall (v, none) ⟨v, hv, rfl⟩ ((tier1_cand sat v).mpr hs)
  · intro h
    apply Classical.byContradiction
    intro hne
    apply h
    rintro p ⟨v, hv, rfl⟩ hc
    exact hne ⟨v, hv, (tier1_cand sat v).mp hc⟩

/-- **1.5 cached manifests preferred**: nothing selected, some cached unyanked date-ok version
satisfies the requirement ⇒ the highest of them, not yanked. -/
theorem cached_preferred (v : Nat)
    (h1 : (resolveVersion sat none (tier1List existing)).best = none)
    (hc : cached.isEmpty = false)
    (hv : (resolveVersion sat cutoff (cachedList infos cached)).best = some v) :
    resolveTiers sat cutoff infos existing cached = .ok v false := by
  unfold resolveTiers
  rw [h1]
  simp only [hc, Bool.false_eq_true, if_false, hv]

/-- **2. otherwise the highest non-yanked version** that satisfies the requirement and is not
newer than the cutoff -/
theorem unyanked_highest (v : Nat)
    (h1 : (resolveVersion sat none (tier1List existing)).best = none)
    (h15 : cached.isEmpty = true ∨ (resolveVersion sat cutoff (cachedList infos cached)).best = none)
    (hv : (resolveVersion sat cutoff (unyankedList infos)).best = some v) :
    resolveTiers sat cutoff infos existing cached = .ok v false := by
  have h15' : (if cached.isEmpty = true then none
      else (resolveVersion sat cutoff (cachedList infos cached)).best) = none := by
    rcases h15 with h | h
    · simp only [h, if_true]
    · split
      · rfl
      · exact h
  unfold resolveTiers
  rw [h1]
  simp only [h15', hv]

/-- **3. otherwise the highest yanked version**, reported as a used yanked package -/
theorem yanked_fallback (v : Nat)
    (h1 : (resolveVersion sat none (tier1List existing)).best = none)
    (h15 : cached.isEmpty = true ∨ (resolveVersion sat cutoff (cachedList infos cached)).best = none)
    (h2 : (resolveVersion sat cutoff (unyankedList infos)).best = none)
    (hv : (resolveVersion sat cutoff (yankedList infos)).best = some v) :
    resolveTiers sat cutoff infos existing cached = .ok v true := by
  have h15' : (if cached.isEmpty = true then none
      else (resolveVersion sat cutoff (cachedList infos cached)).best) = none := by
    rcases h15 with h | h
    · simp only [h, if_true]
    · split
      · rfl
      · exact h
  unfold resolveTiers
  rw [h1]
  simp only [h15', h2, hv]

/-- **4. otherwise not found**, and the message mentions the cutoff exactly when some registry
version satisfies the requirement (it was then excluded by date) -/
theorem not_found
    (h1 : (resolveVersion sat none (tier1List existing)).best = none)
    (h15 : cached.isEmpty = true ∨ (resolveVersion sat cutoff (cachedList infos cached)).best = none)
    (h2 : (resolveVersion sat cutoff (unyankedList infos)).best = none)
    (h3 : (resolveVersion sat cutoff (yankedList infos)).best = none) :
    resolveTiers sat cutoff infos existing cached =
      .notFound (if (∃ p ∈ infos, sat p.1 = true) then cutoff else none) := by
  have hh : ((resolveVersion sat cutoff (unyankedList infos)).hadHigher ||
      (resolveVersion sat cutoff (yankedList infos)).hadHigher) = true ↔ ∃ p ∈ infos, sat p.1 = true := by
    rw [Bool.or_eq_true, hadHigher_iff, hadHigher_iff]
    simp only [unyankedList, yankedList, List.mem_map, List.mem_filter]
    constructor
    · rintro (⟨p, ⟨q, ⟨hq, _⟩, rfl⟩, hs⟩ | ⟨p, ⟨q, ⟨hq, _⟩, rfl⟩, hs⟩) <;> exact ⟨q, hq, hs⟩
    · rintro ⟨q, hq, hs⟩
      by_cases hy : q.2.yanked = true
      · exact Or.inr ⟨(q.1, some q.2), ⟨q, ⟨hq, hy⟩, rfl⟩, hs⟩
      · exact Or.inl ⟨(q.1, some q.2), ⟨q, ⟨hq, by simp [hy]⟩, rfl⟩, hs⟩
  have h15' : (if cached.isEmpty = true then none
      else (resolveVersion sat cutoff (cachedList infos cached)).best) = none := by
    rcases h15 with h | h
    · simp only [h, if_true]
    · split
      · rfl
      · exact h
  unfold resolveTiers
  rw [h1]
  simp only [h15', h2, h3]
  by_cases hex : ∃ p ∈ infos, sat p.1 = true
  · rw [if_pos (hh.mpr hex), if_pos hex]
  · rw [if_neg (fun h => hex (hh.mp h)), if_neg hex]

/-- a version chosen in tiers 1.5–3 satisfies the requirement and respects the cutoff -/
theorem registry_choice_sound (l : List (Nat × Option VInfo)) (v : Nat)
    (hv : (resolveVersion sat cutoff l).best = some v) :
    ∃ p ∈ l, p.1 = v ∧ sat v = true ∧ dateOk p.2 cutoff = true := by
  obtain ⟨⟨p, hp, hpv, hpc⟩, _⟩ := (resolveVersion_is_max sat cutoff l v).mp hv
  exact ⟨p, hp, hpv, by rw [← hpv]; exact hpc.1, hpc.2⟩

/-- **packages excluded from the date rule ignore the cutoff** -/
theorem excluded_package_ignores_date (date : Option Nat) (excluded prefixes : List (List Char))
    (name : List Char)
    (h : name ∈ excluded ∨ ∃ p ∈ prefixes, p.isPrefixOf name = true) (info : Option VInfo) :
    cutoffFor date excluded prefixes name = none ∧
    dateOk info (cutoffFor date excluded prefixes name) = true := by
  have hc : cutoffFor date excluded prefixes name = none := by
    unfold cutoffFor
    cases date with
    | none => rfl
    | some d =>
      have : (excluded.contains name || prefixes.any fun p => p.isPrefixOf name) = true := by
        rcases h with h | ⟨p, hp, hpre⟩
        · simp [h]
        · simp only [Bool.or_eq_true, List.any_eq_true]
          exact Or.inr ⟨p, hp, hpre⟩
      simp only [this, if_true]
  refine ⟨hc, ?_⟩
  rw [hc]
  cases info <;> simp [dateOk]

/-- a package that is not excluded keeps the configured cutoff -/
theorem not_excluded_keeps_date (d : Nat) (excluded prefixes : List (List Char)) (name : List Char)
    (h1 : name ∉ excluded) (h2 : ∀ p ∈ prefixes, p.isPrefixOf name = false) :
    cutoffFor (some d) excluded prefixes name = some d := by
  unfold cutoffFor
  have : (excluded.contains name || prefixes.any fun p => p.isPrefixOf name) = false := by
    simp only [Bool.or_eq_false_iff, List.contains_eq_mem, decide_eq_false_iff_not, List.any_eq_false]
    exact ⟨h1, fun p hp => by simp [h2 p hp]⟩
  simp only [this, Bool.false_eq_true, if_false]


/-! ## graph level: the cached-manifest probe and its memo (`probe_cached_jsr_version_manifests`) -/

/-- the fold's answer depends only on which candidates the list holds -/
theorem best_congr (l l' : List (Nat × Option VInfo))
    (h : ∀ p, (p ∈ l ∧ Cand sat cutoff p) ↔ (p ∈ l' ∧ Cand sat cutoff p)) :
    (resolveVersion sat cutoff l).best = (resolveVersion sat cutoff l').best := by
  rcases hb : (resolveVersion sat cutoff l).best with _ | b
  · symm
    rw [resolveVersion_none_iff] at hb ⊢
    intro p hp' hc
    exact hb p ((h p).mpr ⟨hp', hc⟩).1 hc
  · symm
    rw [resolveVersion_is_max] at hb ⊢
    obtain ⟨⟨p, hpm, h1, h2⟩, hmax⟩ := hb
    exact ⟨⟨p, ((h p).mp ⟨hpm, h2⟩).1, h1, h2⟩, fun q hq hc => hmax q ((h q).mpr ⟨hq, hc⟩).1 hc⟩

/-- the emptiness guard before tier 1.5 is redundant -/
theorem cached_guard_redundant (C : List Nat) :
    (if C.isEmpty then none else (resolveVersion sat cutoff (cachedList infos C)).best) =
      (resolveVersion sat cutoff (cachedList infos C)).best := by
  split
  · rename_i he
    have : C = [] := by simpa using he
    subst this
    have : cachedList infos [] = [] := by
      simp only [cachedList, List.map_eq_nil_iff, List.filter_eq_nil_iff]
      intro p _; simp
    rw [this]; rfl
  · rfl

/-- **tier 1.5 only looks at unyanked versions satisfying the requirement**: two cached sets
that agree on those give the same resolution -/
theorem cached_set_irrelevant_outside_matches (C W : List Nat)
    (h : ∀ p ∈ infos, p.2.yanked = false → sat p.1 = true → (p.1 ∈ C ↔ p.1 ∈ W)) :
    resolveTiers sat cutoff infos existing C = resolveTiers sat cutoff infos existing W := by
  have hb : (resolveVersion sat cutoff (cachedList infos C)).best =
      (resolveVersion sat cutoff (cachedList infos W)).best := by
    apply best_congr
    intro p
    simp only [cachedList, List.mem_map, List.mem_filter, Bool.and_eq_true, Bool.not_eq_true',
      List.contains_eq_mem, decide_eq_true_eq]
    constructor
    · rintro ⟨⟨q, ⟨hq, hy, hc⟩, rfl⟩, hcand⟩
      exact ⟨⟨q, ⟨hq, hy, (h q hq hy hcand.1).mp hc⟩, rfl⟩, hcand⟩
    · rintro ⟨⟨q, ⟨hq, hy, hc⟩, rfl⟩, hcand⟩
      exact ⟨⟨q, ⟨hq, hy, (h q hq hy hcand.1).mpr hc⟩, rfl⟩, hcand⟩
  unfold resolveTiers
  rw [cached_guard_redundant, cached_guard_redundant, hb]

/-- when tier 1 answers, the cached set is never read -/
theorem tier1_ignores_cached (C W : List Nat)
    (h : unificationDecides sat existing = true) :
    resolveTiers sat cutoff infos existing C = resolveTiers sat cutoff infos existing W := by
  rw [unification_decides_iff_tier1, Option.isSome_iff_exists] at h
  obtain ⟨v, hv⟩ := h
  rw [(selected_wins sat cutoff infos existing C v hv).1, (selected_wins sat cutoff infos existing W v hv).1]

/-- what the memo holds for a package is what cache-only probes found among the probed versions -/
def MemoInv (reg : Registry) (m : Memo) : Prop :=
  ∀ name v, v ∈ (m.get name).2 ↔ (v ∈ (m.get name).1 ∧ v ∈ reg.cachedManifests name)

theorem memoInv_empty (reg : Registry) : MemoInv reg [] := by
  intro name v
  simp [Memo.get]

theorem memo_get_setKey_self (m : Memo) (name : Nat) (x : List Nat × List Nat) :
    Memo.get (setKey name x m) name = x := by
  simp [Memo.get, lookup_setKey_self]

theorem memo_get_setKey_ne (m : Memo) (name n2 : Nat) (x : List Nat × List Nat) (h : n2 ≠ name) :
    Memo.get (setKey name x m) n2 = Memo.get m n2 := by
  simp [Memo.get, lookup_setKey_ne _ _ _ _ h]

/-- the probe keeps the memo faithful -/
theorem probe_inv (reg : Registry) (m : Memo) (name req : Nat) (infos : List (Nat × VInfo))
    (h : MemoInv reg m) : MemoInv reg (probe reg m name req infos).1 := by
  intro n2 v
  unfold probe
  simp only
  split
  · -- nothing to probe: the entry is rewritten unchanged
    by_cases hn : n2 = name
    · subst hn
      rw [memo_get_setKey_self]
      exact h n2 v
    · rw [memo_get_setKey_ne _ _ _ _ hn]
      exact h n2 v
  · by_cases hn : n2 = name
    · subst hn
      rw [memo_get_setKey_self]
      simp only [List.mem_append, List.mem_filter, List.contains_eq_mem, decide_eq_true_eq]
      have := h n2 v
      constructor
      · rintro (hc | ⟨hc, hw⟩)
        · exact ⟨Or.inl (this.mp hc).1, (this.mp hc).2⟩
        · exact ⟨Or.inr hc, hw⟩
      · rintro ⟨hp | hp, hw⟩
        · exact Or.inl (this.mpr ⟨hp, hw⟩)
        · exact Or.inr ⟨hp, hw⟩
    · rw [memo_get_setKey_ne _ _ _ _ hn]
      exact h n2 v

/-- after the probe every unyanked version satisfying the requirement has been probed -/
theorem probe_covers (reg : Registry) (m : Memo) (name req : Nat) (infos : List (Nat × VInfo))
    (p : Nat × VInfo) (hp : p ∈ infos) (hy : p.2.yanked = false) (hs : reg.sat req p.1 = true) :
    p.1 ∈ ((probe reg m name req infos).1.get name).1 := by
  have hmem : p.1 ∈ (m.get name).1 ∨ p.1 ∈ probeCandidates (reg.sat req) infos (m.get name).1 := by
    by_cases hpr : p.1 ∈ (m.get name).1
    · exact Or.inl hpr
    · right
      simp only [probeCandidates, List.mem_map, List.mem_filter]
      exact ⟨p, ⟨hp, by simp [hy, hs, hpr]⟩, rfl⟩
  unfold probe
  simp only
  split
  · rename_i hemp
    rw [memo_get_setKey_self]
    rcases hmem with h | h
    · exact h
    · have : probeCandidates (reg.sat req) infos (m.get name).1 = [] := by simpa using hemp
      rw [this] at h
      exact absurd h (by simp)
  · rw [memo_get_setKey_self]
    simp only [List.mem_append]
    exact hmem

/-- **the memoised probe is unobservable**: whatever was probed earlier in the pass, the version
selected for a pending item is the one the four tiers give for the set of manifests really in the
cache (or for no cache information when the option is off) -/
theorem probe_memo_irrelevant (reg : Registry) (s : P1) (it : Item) (infos : List (Nat × VInfo))
    (hm : MemoInv reg s.memo) :
    resolveTiers (reg.sat it.req) (reg.cutoff it.name) infos (s.table.versionsByName it.name)
        (probeStep reg s it infos).2.2 =
      resolveTiers (reg.sat it.req) (reg.cutoff it.name) infos (s.table.versionsByName it.name)
        (if reg.preferCached then reg.cachedManifests it.name else []) ∧
    MemoInv reg (probeStep reg s it infos).1 := by
  unfold probeStep
  by_cases hpc : reg.preferCached = true
  · by_cases hu : unificationDecides (reg.sat it.req) (s.table.versionsByName it.name) = true
    · simp only [hpc, hu, Bool.not_true, Bool.false_or, if_true]
      exact ⟨tier1_ignores_cached _ _ _ _ _ _ hu, hm⟩
    · simp only [hpc, hu, Bool.not_true, Bool.false_or, Bool.false_eq_true, if_false, if_true]
      have hinv := probe_inv reg s.memo it.name it.req infos hm
      refine ⟨?_, hinv⟩
      apply cached_set_irrelevant_outside_matches
      intro p hp hy hs
      have hcov := probe_covers reg s.memo it.name it.req infos p hp hy hs
      have := hinv it.name p.1
      constructor
      · intro hc; exact (this.mp hc).2
      · intro hw; exact this.mpr ⟨hcov, hw⟩
  · have : reg.preferCached = false := by simpa using hpc
    simp only [this, Bool.not_false, Bool.true_or, if_true, Bool.false_eq_true, if_false]
    exact ⟨trivial, hm⟩

/-! ## why the order on versions has to be strict (finding F37)

The theorems above are about versions as naturals under `<`: distinct versions are strictly
ordered.  `deno_semver`'s precedence is not: two versions that differ in build metadata only
compare as equal.  The selection fold with a comparison that has a tie keeps the first of the
equal versions it meets, so its result depends on the order of the list — which for the registry
map is the iteration order of a `HashMap`.  The repaired code breaks the tie on the build
metadata, which makes the comparison a strict total order again (the harness interns versions in
that order, and resolves every configuration on maps with different iteration orders). -/

/-- the selection fold of `resolve_version` over an arbitrary "is better" comparison -/
def pickWith (better : Nat → Nat → Bool) (l : List Nat) : Option Nat :=
  l.foldl (fun b v => match b with
    | none => some v
    | some x => if better x v then some v else some x) none

/-- precedence that ignores the last bit ("the build metadata"): 2 and 3 tie -/
def tiedPrecedence (a b : Nat) : Bool := a / 2 < b / 2

theorem tie_makes_selection_order_dependent :
    pickWith tiedPrecedence [2, 3] ≠ pickWith tiedPrecedence [3, 2] := by decide

/-- with the tie broken the two orders agree -/
theorem tie_broken_is_order_independent :
    pickWith (fun a b => a < b) [2, 3] = pickWith (fun a b => a < b) [3, 2] := by decide

/-- non-vacuity: 1.0.0 (old), 1.1.0 (yanked), 1.2.0 (newer than the cutoff); `^1` -/
def demoInfos : List (Nat × VInfo) :=
  [(2, { yanked := false, createdAt := some 50 }), (0, { yanked := false, createdAt := some 10 }),
   (1, { yanked := true, createdAt := some 20 })]

example : resolveTiers (fun _ => true) (some 30) demoInfos [] [] = .ok 0 false := by decide
example : resolveTiers (fun v => v != 0) (some 30) demoInfos [] [] = .ok 1 true := by decide
example : resolveTiers (fun v => v == 2) (some 30) demoInfos [] [] = .notFound (some 30) := by decide
example : resolveTiers (fun v => v == 7) (some 30) demoInfos [] [] = .notFound none := by decide
example : resolveTiers (fun _ => true) (some 30) demoInfos [1] [] = .ok 1 true := by decide

end DG.C06
