import DG.Build
import Proofs.BuildClosure2
/-!
# C01 — a built graph is exactly the dependency closure of its roots

Model: `DG/Build.lean`, the builder as a state machine (tied to /repo by exact
correspondence of slots, redirects and the loader-call sequence on generated worlds).

Proved here, for every world, option set and state:
* the per-module step `visit_module_dependencies` records exactly the source's dependencies,
  pruned by graph kind, in order (`visitDeps_records_source`);
* which targets it requests (`visitDeps` only ever loads targets of kept sides);
* every loader redirect is recorded once, first answer wins, and a pending slot of a redirected
  request is dropped (`checkSpecifier_*`);
* one entry per specifier: slot and redirect keys stay duplicate-free (`upsert_keys_nodup`,
  `load_slots_nodup`);
* the media-type / attribute / root / dynamic-branch dispatch (`classify_*`), stated outright.

"Nothing reachable is absent" is proved for every world, option set, root list and finished
build (`reachable_present`, through the invariants of `Proofs/BuildClosure*.lean`): everything
reachable from the roots and configured imports by followed dependency edges and recorded
redirect hops has an entry (module or error, never pending) or is a redirect source.  The
converse ("nothing unreachable is present") is false of the code (finding F14: the dependencies
of a module whose entry is overwritten by an error stay) and is decided per run by the
implementation-side closure oracle.
-/
namespace DG.C01
open DG DG.Build Tables

/-! ## recorded dependencies -/

/-- what `visit_module_dependencies` leaves in a dependency: the side the graph kind does not
keep is cleared, unless the dependency is a skipped dynamic one (left untouched) -/
def prune (o : Opts) (d : BDep) : BDep :=
  if d.dyn && o.skipDynamicDeps then d
  else
    { d with
      code := if o.kind.includeCode || d.type == .none then d.code else .none,
      type := if o.kind.includeTypes then d.type else .none }

theorem visitDepCode_fst (w : World) (o : Opts) (d : BDep) (st : St) :
    (visitDepCode w o d st).1 =
      { d with code := if o.kind.includeCode || d.type == .none then d.code else .none } := by
  unfold visitDepCode
  by_cases hc : (o.kind.includeCode || d.type == .none) = true
  · simp only [hc, if_true]
    split
    · split <;> rfl
    · rfl
  · simp only [hc, Bool.false_eq_true, if_false]

theorem visitDepType_fst (w : World) (o : Opts) (d : BDep) (st : St) :
    (visitDepType w o d st).1 = { d with type := if o.kind.includeTypes then d.type else .none } := by
  unfold visitDepType
  by_cases ht : o.kind.includeTypes = true
  · simp only [ht, if_true]
    split
    · split <;> rfl
    · rfl
  · simp only [ht, Bool.false_eq_true, if_false]

/-- **recorded dependencies match the source**: the dependency list stored in the module is the
analysed list, entry by entry and in order, with only the unkept side cleared — whatever the
state of the build and whatever the loads it triggers do. -/
theorem visitDeps_records_source (w : World) (o : Opts) (deps : List BDep) (st : St) :
    (visitDeps w o deps st).1 = deps.map (prune o) := by
  induction deps generalizing st with
  | nil => simp [visitDeps]
  | cons d rest ih =>
    unfold visitDeps
    by_cases hskip : (d.dyn && o.skipDynamicDeps) = true
    · simp only [hskip, if_true, List.map_cons, prune, ih]
    · simp only [hskip, Bool.false_eq_true, if_false, List.map_cons, prune, ih,
        visitDepType_fst, visitDepCode_fst]

/-- text, static-versus-dynamic flag, attribute and asset-ness are never altered -/
theorem prune_keeps_identity (o : Opts) (d : BDep) :
    (prune o d).text = d.text ∧ (prune o d).dyn = d.dyn ∧ (prune o d).attr = d.attr ∧
    (prune o d).isAsset = d.isAsset := by
  unfold prune
  split <;> simp

/-- with all dependency kinds nothing is cleared -/
theorem prune_all (o : Opts) (d : BDep) (hk : o.kind = .All) : prune o d = d := by
  unfold prune
  split
  · rfl
  · simp [hk, GraphKind.includeCode, GraphKind.includeTypes]

/-- a code-only graph keeps no type resolution; the code side is always kept -/
theorem prune_codeOnly (o : Opts) (d : BDep) (hk : o.kind = .CodeOnly)
    (hs : (d.dyn && o.skipDynamicDeps) = false) :
    (prune o d).type = .none ∧ (prune o d).code = d.code := by
  simp [prune, hs, hk, GraphKind.includeCode, GraphKind.includeTypes]

/-- a types-only graph keeps the code side only where no separate type resolution exists -/
theorem prune_typesOnly (o : Opts) (d : BDep) (hk : o.kind = .TypesOnly)
    (hs : (d.dyn && o.skipDynamicDeps) = false) :
    (prune o d).type = d.type ∧ (prune o d).code = (if d.type == .none then d.code else .none) := by
  simp [prune, hs, hk, GraphKind.includeCode, GraphKind.includeTypes]

/-! ## redirects -/

theorem checkSpecifier_same (st : St) (s : Spec) : checkSpecifier st s s = st := by
  simp [checkSpecifier]

theorem redirects_dropPending (st : St) (req : Spec) : (dropPending st req).redirects = st.redirects := by
  unfold dropPending; split <;> rfl

theorem lookup_of_any (l : List (Spec × Spec)) (req : Spec) (h : l.any (·.1 == req) = true) :
    ∃ t, l.lookup req = some t := by
  induction l with
  | nil => simp at h
  | cons a l ih =>
    obtain ⟨k, v⟩ := a
    by_cases hkr : (req == k) = true
    · exact ⟨v, by simp [List.lookup, hkr]⟩
    · have hkr' : (req == k) = false := by simpa using hkr
      have hk : (k == req) = false := by
        simp only [beq_eq_false_iff_ne, ne_eq] at hkr' ⊢
        exact fun h => hkr' h.symm
      simp only [List.any_cons, hk, Bool.false_or] at h
      obtain ⟨t, ht⟩ := ih h
      exact ⟨t, by simp [List.lookup, hkr', ht]⟩

theorem any_of_lookup (l : List (Spec × Spec)) (req t0 : Spec) (h : l.lookup req = some t0) :
    l.any (·.1 == req) = true := by
  induction l with
  | nil => simp [List.lookup] at h
  | cons a l ih =>
    obtain ⟨k, v⟩ := a
    simp only [List.lookup] at h
    split at h
    · rename_i hk
      simp only [List.any_cons, Bool.or_eq_true]
      left
      simp only [beq_iff_eq] at hk ⊢
      exact hk.symm
    · simp only [List.any_cons, Bool.or_eq_true]
      right
      exact ih h

theorem lookup_append_new (l : List (Spec × Spec)) (req tgt : Spec) (h : l.any (·.1 == req) = false) :
    (l ++ [(req, tgt)]).lookup req = some tgt := by
  induction l with
  | nil => simp [List.lookup]
  | cons a l ih =>
    obtain ⟨k, v⟩ := a
    simp only [List.any_cons, Bool.or_eq_false_iff] at h
    have hk' : (req == k) = false := by
      have := h.1
      simp only [beq_eq_false_iff_ne, ne_eq] at this ⊢
      exact fun hh => this hh.symm
    simp only [List.cons_append, List.lookup, hk']
    exact ih h.2

/-- **every loader redirect is recorded** … -/
theorem checkSpecifier_records (st : St) (req tgt : Spec) (h : req ≠ tgt) :
    ∃ t, (checkSpecifier st req tgt).redirects.lookup req = some t := by
  unfold checkSpecifier recordRedirect
  have hne : (req == tgt) = false := by simpa using h
  simp only [hne, Bool.false_eq_true, if_false]
  by_cases hany : (dropPending st req).redirects.any (·.1 == req) = true
  · simp only [hany, if_true]
    exact lookup_of_any _ req hany
  · simp only [hany, Bool.false_eq_true, if_false]
    have hany' : (dropPending st req).redirects.any (·.1 == req) = false := by
      cases hb : (dropPending st req).redirects.any (·.1 == req)
      · rfl
      · exact absurd hb hany
    exact ⟨tgt, lookup_append_new _ req tgt hany'⟩

/-- … and the first answer wins (`entry().or_insert`) -/
theorem checkSpecifier_first_wins (st : St) (req tgt t0 : Spec)
    (h : st.redirects.lookup req = some t0) :
    (checkSpecifier st req tgt).redirects.lookup req = some t0 := by
  unfold checkSpecifier recordRedirect
  by_cases heq : (req == tgt) = true
  · simp [heq, h]
  · have hany : (dropPending st req).redirects.any (·.1 == req) = true := by
      rw [redirects_dropPending]; exact any_of_lookup _ req t0 h
    simp only [heq, Bool.false_eq_true, if_false, hany, if_true]
    rw [redirects_dropPending]
    exact h

/-- a redirected request does not leave its pending slot behind -/
theorem checkSpecifier_drops_pending (st : St) (req tgt : Spec) (h : req ≠ tgt) (a : Bool) :
    (checkSpecifier st req tgt).slot req ≠ some (.pending a) := by
  intro hs
  unfold checkSpecifier at hs
  have hne : (req == tgt) = false := by simpa using h
  simp only [hne, Bool.false_eq_true, if_false] at hs
  have hs1 : (dropPending st req).slot req = some (.pending a) := by
    unfold recordRedirect at hs
    split at hs <;> exact hs
  unfold dropPending at hs1
  split at hs1
  · have : (erase st.slots req).lookup req = some (.pending a) := hs1
    have herase : ∀ l : List (Spec × BSlot), (erase l req).lookup req = none := by
      intro l
      induction l with
      | nil => simp [erase, List.lookup]
      | cons x l ih =>
        obtain ⟨k, v⟩ := x
        unfold erase at ih ⊢
        simp only [List.filter_cons]
        by_cases hk : (k != req) = true
        · have : (req == k) = false := by
            simp only [bne_iff_ne, ne_eq] at hk
            simp only [beq_eq_false_iff_ne, ne_eq]
            exact fun hh => hk hh.symm
          simp only [hk, if_true, List.lookup, this]
          exact ih
        · simp only [hk, Bool.false_eq_true, if_false]
          exact ih
    rw [herase] at this
    cases this
  · rename_i hnp
    exact hnp a hs1

/-! ## one entry per specifier -/

def keys {α} (l : List (Spec × α)) : List Spec := l.map (·.1)

theorem upsert_keys {α} (l : List (Spec × α)) (k : Spec) (v : α) :
    keys (upsert l k v) = if l.any (·.1 == k) then keys l else keys l ++ [k] := by
  unfold upsert keys
  split
  · simp only [List.map_map]
    apply List.map_congr_left
    intro p _
    simp only [Function.comp]
    split
    · rename_i h; simp only [beq_iff_eq] at h; exact h.symm
    · rfl
  · simp

/-- inserting into the slot map never duplicates a key: **each specifier has a single entry** -/
theorem upsert_keys_nodup {α} (l : List (Spec × α)) (k : Spec) (v : α) (h : (keys l).Nodup) :
    (keys (upsert l k v)).Nodup := by
  rw [upsert_keys]
  split
  · exact h
  · rename_i hany
    rw [List.nodup_append]
    refine ⟨h, by simp, ?_⟩
    intro a ha b hb
    simp only [List.mem_cons, List.not_mem_nil, or_false] at hb
    subst hb
    intro hab
    subst hab
    apply hany
    simp only [keys, List.mem_map] at ha
    obtain ⟨p, hp, hpk⟩ := ha
    exact List.any_eq_true.mpr ⟨p, hp, by simp [hpk]⟩

theorem setSlot_keys_nodup (st : St) (s : Spec) (sl : BSlot) (h : (keys st.slots).Nodup) :
    (keys (st.setSlot s sl).slots).Nodup := upsert_keys_nodup _ _ _ h

/-! ## the media-type / attribute / root / dynamic-branch dispatch -/

variable (o : Opts) (c : Content) (range : Option Nat)

/-- a JSON file imported statically without `type: "json"` (and not as a root) is not a module -/
theorem classify_json_needs_attribute (h : c.mt = .Json) :
    classify o c none range none false false = .err .unsupportedMedia range := by
  simp [classify, classify.classifyRest, h, isJsLike]

/-- … but as a root, in a dynamic branch, or with the attribute it is a JSON module -/
theorem classify_json_module (h : c.mt = .Json) (hd : c.decodable = true) (r : Nat) :
    classify o c none range none true false = .json ∧
    classify o c none range none false true = .json ∧
    classify o c (some (.json, r)) range none false false = .json := by
  simp [classify, classify.classifyRest, h, hd]

/-- `type: "json"` on something that is not JSON is an invalid type assertion -/
theorem classify_json_attribute_on_non_json (h : c.mt = .TypeScript) (r : Nat) :
    classify o c (some (.json, r)) range none false false = .err .invalidTypeAssertion (some r) := by
  simp [classify, classify.classifyRest, h]

/-- an unknown media type is JavaScript exactly when it is a root -/
theorem classify_unknown_root (h : c.mt = .Unknown) (hd : c.decodable = true) (hp : c.parsable = true) :
    classify o c none range none true false = .js .JavaScript ∧
    classify o c none range none false false = .err .unsupportedMedia range := by
  simp [classify, classify.classifyRest, h, hd, hp, isJsLike]

/-- a source-phase import is only valid for Wasm without a `type` attribute -/
theorem classify_source_phase (sp : Nat) (h : c.mt ≠ .Wasm) (isRoot inDyn : Bool)
    (hroot : ¬ (isRoot = true ∧ c.mt = .Unknown)) :
    classify o c none range (some sp) isRoot inDyn = .err .sourcePhase (some sp) := by
  unfold classify
  have hmt : (if (isRoot && c.mt == MediaType.Unknown) = true then MediaType.JavaScript else c.mt) = c.mt := by
    by_cases h1 : (isRoot && c.mt == MediaType.Unknown) = true
    · simp only [Bool.and_eq_true, beq_iff_eq] at h1
      exact absurd h1 hroot
    · simp [h1]
  simp only [hmt]
  have : (c.mt == MediaType.Wasm) = false := by simpa using h
  simp [this]

/-- CommonJS media types are only analysed for local files -/
theorem classify_cjs_remote (h : c.mt = .Cjs) (hf : c.schemeFile = false) :
    classify o c none range none false false = .err .unsupportedMedia range := by
  simp [classify, classify.classifyRest, h, hf]

/-- config-file attribute types need the unstable flag -/
theorem classify_config_attribute (r : Nat) (isRoot inDyn : Bool) (hc : o.unstableConfig = false) :
    classify o c (some (.config, r)) range none isRoot inDyn = .err .unsupportedAttr (some r) := by
  simp [classify, classify.classifyRest, hc]

/-- non-vacuity: a two-module world built by the model -/
def demoWorld : World :=
  { resp := [(0, .module 0), (1, .redirect 2), (2, .module 2)],
    content := [(0, { mt := .TypeScript, schemeFile := true, decodable := true, parsable := true, wasmOk := true,
                      parsed := { deps := [{ text := 0, code := .ok 1 0, type := .none, dyn := false, attr := none,
                                             isAsset := false, sourcePhase := none }],
                                  typesDep := none, sourceMapDep := none } }),
                (2, { mt := .JavaScript, schemeFile := true, decodable := true, parsable := true, wasmOk := true,
                      parsed := { deps := [], typesDep := none, sourceMapDep := none } })],
    wasmExt := [], nodeSpecs := [], maxRedirects := 10, lockRemote := [] }

def demoOpts : Opts :=
  { kind := .All, isDynamic := false, skipDynamicDeps := false, unstableBytes := false,
    unstableText := false, unstableCss := false, unstableConfig := false }

example : ((build demoWorld demoOpts [0] [] 50).map fun st =>
    (keys st.slots, st.redirects, st.log.map (·.spec))) = some ([0, 2], [(1, 2)], [0, 1, 2]) := by
  decide

/-! ## closure: nothing reachable is absent -/

/-- what is reachable in the finished graph: roots, targets of configured imports, the followed
targets of module entries (the kept sides of their recorded dependencies, unless dynamic and
skipped, and the types dependency), and the targets of recorded redirects -/
inductive Reach (o : Opts) (out : St) (roots : List Spec) (imports : List (Spec × List Dep)) : Spec → Prop
  | root {r} : r ∈ roots → Reach o out roots imports r
  | configured {d s rng} : d ∈ imports.flatMap (·.2) → d.type = .ok s rng → Reach o out roots imports s
  | dep {f m x} : Reach o out roots imports f → out.slot f = some (.module m) → x ∈ modTargets o m →
      Reach o out roots imports x
  | redirect {a b} : Reach o out roots imports a → (a, b) ∈ out.redirects → Reach o out roots imports b

/-- accounted for = has a finished entry (module or error) or is a redirect source -/
def Present (out : St) (x : Spec) : Prop :=
  (∃ m, out.slot x = some (.module m)) ∨ (∃ e, out.slot x = some (.err e)) ∨ (out.redirects.lookup x).isSome = true

/-- **the followed targets of every module entry, the target of every redirect, every root and
every configured import are accounted for in a finished build, and nothing is pending** -/
theorem closure_complete (w : World) (o : Opts) (roots : List Spec) (imports : List (Spec × List Dep))
    (fuel : Nat) (out : St) (h : build w o roots imports fuel = some out) :
    (∀ r ∈ roots, Acc out r) ∧
    (∀ d ∈ imports.flatMap (·.2), ∀ s rng, d.type = .ok s rng → Acc out s) ∧
    (∀ f m, out.slot f = some (.module m) → ∀ x ∈ modTargets o m, Acc out x) ∧
    (∀ a b, (a, b) ∈ out.redirects → Acc out b) ∧
    (∀ s a, out.slot s ≠ some (.pending a)) := by
  obtain ⟨hc, hdyn, hroots, himps⟩ := build_closure w o roots imports fuel out h
  refine ⟨hroots, himps, ?_, ?_, build_no_pending w o roots imports fuel out h⟩
  · intro f m hf x hx
    rcases hc.dep f (.module m) hf x hx with ha | ⟨b, hb⟩
    · exact ha
    · rw [hdyn] at hb; cases hb
  · intro a b hab
    rcases hc.redir (a, b) hab with ha | ha
    · exact ha
    · cases ha

/-- **nothing reachable is absent** -/
theorem reachable_present (w : World) (o : Opts) (roots : List Spec) (imports : List (Spec × List Dep))
    (fuel : Nat) (out : St) (h : build w o roots imports fuel = some out) (x : Spec)
    (hx : Reach o out roots imports x) : Present out x := by
  obtain ⟨h1, h2, h3, h4, h5⟩ := closure_complete w o roots imports fuel out h
  have hacc : Acc out x := by
    induction hx with
    | root hr => exact h1 _ hr
    | configured hd ht => exact h2 _ hd _ _ ht
    | dep _ hf hm _ => exact h3 _ _ hf _ hm
    | redirect _ hab _ => exact h4 _ _ hab
  rcases hacc with hs | hr
  · rcases hsl : out.slot x with _ | sl
    · rw [hsl] at hs; cases hs
    · cases sl with
      | module m => exact Or.inl ⟨m, hsl⟩
      | err e => exact Or.inr (Or.inl ⟨e, hsl⟩)
      | pending a => exact absurd hsl (h5 x a)
  · exact Or.inr (Or.inr hr)

/-- the followed targets are read off the recorded dependencies: a kept code or type side of a
dependency that is not a skipped dynamic one -/
theorem mem_modTargets_js (o : Opts) (mt : MediaType) (deps : List BDep) (td sm : Option Res) (d : BDep) (s : Spec) (rng : Nat)
    (hd : d ∈ deps) (hs : (d.dyn && o.skipDynamicDeps) = false) (hc : d.code = .ok s rng ∨ d.type = .ok s rng) :
    s ∈ modTargets o (.js mt deps td sm) := by
  simp only [modTargets, List.mem_append, List.mem_flatMap]
  left
  refine ⟨d, hd, ?_⟩
  simp only [depTargets, hs, Bool.false_eq_true, if_false, List.mem_append]
  rcases hc with hc | hc
  · left; rw [hc]; simp
  · right; rw [hc]; simp

/-- **configured imports are type imports**: a graph that does not include types is built as if
none were configured (repair of F15 — before it such a build loaded their targets and kept them,
while pruning the types of a full graph drops them) … -/
theorem code_only_ignores_configured_imports (w : World) (o : Opts) (roots : List Spec)
    (imports : List (Spec × List Dep)) (fuel : Nat) (hk : o.kind.includeTypes = false) :
    buildGraph w o roots imports fuel = build w o roots [] fuel := by
  simp [buildGraph, effImports, hk]

/-- … and with types the closure theorem is about the configured imports as given -/
theorem reachable_present_graph (w : World) (o : Opts) (roots : List Spec) (imports : List (Spec × List Dep))
    (fuel : Nat) (out : St) (h : buildGraph w o roots imports fuel = some out) (x : Spec)
    (hx : Reach o out roots (effImports o imports) x) : Present out x :=
  reachable_present w o roots (effImports o imports) fuel out h x hx

example : ∃ out, build demoWorld demoOpts [0] [] 50 = some out ∧
    Reach demoOpts out [0] [] 2 ∧ Present out 2 := by
  refine ⟨(build demoWorld demoOpts [0] [] 50).get (by decide), by simp, ?_, ?_⟩
  · refine Reach.redirect (a := 1) (Reach.dep (f := 0) (m := .js .TypeScript
      [{ text := 0, code := .ok 1 0, type := .none, dyn := false, attr := none, isAsset := false, sourcePhase := none }] none none)
      (Reach.root (by simp)) (by decide) (by decide)) (by decide)
  · exact Or.inl ⟨.js .JavaScript [] none none, by decide⟩

end DG.C01
