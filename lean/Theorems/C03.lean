import Proofs.BuildLoop
import Proofs.BuildProgress
import Proofs.BuildTerm
/-!
# C03 — builds terminate with every reachable specifier settled under any faults

Model: `DG/Build.lean`.  The world is arbitrary: `World.resp` may answer anything for any
specifier (errors, missing, redirect chains and loops, external markers), `Content` may be
undecodable or unparsable.  What is proved holds for *every* world and option set.
Termination is PROVED (`builds_terminate`) for every world in which a cache-bypassing reload
answers like a normal load and the final specifier a module is served under does not itself lead
elsewhere (a consistent loader): for every option set, all roots and configured imports, some
amount of fuel finishes the build.  The measure is lexicographic over (specifiers not accounted
for yet, asset stand-ins and asset requests in flight, redirect budget of the queued requests);
the invariant that makes it work is that every recorded redirect leads through entry-less
specifiers to an entry (`Proofs/BuildWalk*.lean`, `BuildTerm.lean`).  For inconsistent loaders and
reload answers that differ the loop is still shown not to spin — an iteration that takes a request off
the queue calls the loader, and at most two iterations in a row take none (`no_spinning`), so a
build that does not finish keeps calling the loader.  That the number of loader calls is bounded
is not proved (the model takes fuel); the correspondence run bounds the implementation's loader
calls and wall time and reports a build that does not finish.
-/
namespace DG.C03
open DG DG.Build Tables

/-- **no entry is left unfinished**: whatever the loader does, a build that finishes has no
pending slot — the graph never serialises "[INTERNAL ERROR] A pending module load never
completed". -/
theorem no_pending_after_build (w : World) (o : Opts) (roots : List Spec)
    (imports : List (Spec × List Dep)) (fuel : Nat) (out : St)
    (h : build w o roots imports fuel = some out) :
    ∀ s a, out.slot s ≠ some (.pending a) :=
  build_no_pending w o roots imports fuel out h

/-- the invariant behind it, for every reachable state: a pending slot always has a queued request -/
theorem pending_slots_are_queued (w : World) (o : Opts) (fuel : Nat) (st out : St)
    (hst : PendInv st) (h : runLoop w o fuel st = some out) : PendInv out ∧ quiescent out = true :=
  runLoop_inv w o fuel st out hst h

/-- **each failure becomes an error entry for the affected specifier carrying its referrer**:
a missing module … -/
theorem missing_becomes_error_entry (w : World) (o : Opts) (r : Req) (st : St)
    (h : w.respOf r.spec = .missing) :
    (stepPending w o r st).slot r.spec =
      some (.err { kind := .missing, spec := r.spec, referrer := r.range }) := by
  have ht : tryLoad w o r = .err { kind := .missing, spec := r.spec, referrer := r.range } := by
    simp [tryLoad, tryLoad', World.answer, World.respFor, h]
  simp only [stepPending, ht, applyOutcome, checkSpecifier_eq, slot_setSlot, if_true]

/-- … a loader error … -/
theorem loader_error_becomes_error_entry (w : World) (o : Opts) (r : Req) (st : St)
    (h : w.respOf r.spec = .error) :
    (stepPending w o r st).slot r.spec =
      some (.err { kind := .loader, spec := r.spec, referrer := r.range }) := by
  have ht : tryLoad w o r = .err { kind := .loader, spec := r.spec, referrer := r.range } := by
    simp [tryLoad, tryLoad', World.answer, World.respFor, h]
  simp only [stepPending, ht, applyOutcome, checkSpecifier_eq, slot_setSlot, if_true]

/-- … a redirect beyond the limit, or back to the requested specifier itself (fixed finding F13) -/
theorem redirect_loop_becomes_error_entry (w : World) (o : Opts) (r : Req) (st : St) (to : Spec)
    (h : w.respOf r.spec = .redirect to) (hc : r.checksum = none)
    (hl : r.count ≥ w.maxRedirects ∨ to = r.spec) :
    (stepPending w o r st).slot r.spec =
      some (.err { kind := .tooManyRedirects, spec := r.spec, referrer := r.range }) := by
  have ht : tryLoad w o r = .err { kind := .tooManyRedirects, spec := r.spec, referrer := r.range } := by
    unfold tryLoad tryLoad'
    simp only [World.answer, World.respFor, h, hc, Option.isSome_none, Bool.false_eq_true, if_false]
    have : (decide (r.count ≥ w.maxRedirects) || to == r.spec) = true := by
      rcases hl with hl | hl
      · simp [hl]
      · simp [hl]
    simp [this]
  simp only [stepPending, ht, applyOutcome, checkSpecifier_eq, slot_setSlot, if_true]

/-- undecodable / unparsable content is an error entry at the final specifier -/
theorem bad_content_becomes_error_entry (w : World) (o : Opts) (r : Req) (st : St) (f : Spec)
    (k : ErrKind) (ref : Option Nat) (h : w.respOf r.spec = .module f) (ha : r.isAsset = false)
    (hk : r.checksum = none)
    (hc : classify o (w.contentOf r.spec) r.attr r.range r.spRef r.isRoot r.inDyn = .err k ref) :
    (stepPending w o r st).slot f = some (.err { kind := k, spec := f, referrer := ref }) := by
  have ht : tryLoad w o r = .err { kind := k, spec := f, referrer := ref } := by
    simp [tryLoad, tryLoad', World.answer, World.respFor, moduleOutcome, h, ha, hc, hk]
  simp only [stepPending, ht, applyOutcome, slot_setSlot, if_true]

/-- an error never leaves the requested specifier pending -/
theorem error_settles_request (w : World) (o : Opts) (r : Req) (st : St) (e : BErr)
    (h : tryLoad w o r = .err e) (hp : PendInvEx (some r.spec) st) :
    PendInv (stepPending w o r st) := stepPending_inv w o r st hp

/-- **taking a request off the queue is a loader call**, and the call log never shrinks -/
theorem request_is_a_loader_call (w : World) (o : Opts) (st : St) :
    (iter w o st).log.length ≥ st.log.length + (if st.pending.isEmpty then 0 else 1) :=
  log_iter w o st

/-- **the loop cannot spin** (finding F13 was a loop that did): from any state the invariant holds
in with nothing queued, after at most two iterations a request is queued — whose processing is a
loader call — or the build is finished -/
theorem no_spinning (w : World) (o : Opts) (st : St) (hinv : PendInv st) (hd : DynInv st)
    (hp : st.pending = []) :
    (iter w o st).pending ≠ [] ∨ quiescent (iter w o st) = true ∨
    (iter w o (iter w o st)).pending ≠ [] ∨ quiescent (iter w o (iter w o st)) = true :=
  idle_at_most_twice w o st hinv hd hp

/-- both invariants hold in every state of the loop -/
theorem loop_invariants (w : World) (o : Opts) (st : St) (hinv : PendInv st) (hd : DynInv st) :
    PendInv (iter w o st) ∧ DynInv (iter w o st) :=
  ⟨pendInv_iter w o st hinv, dynInv_iter w o st hd⟩

/-- **builds terminate**: whatever the loader answers — errors, missing modules, redirect chains and
cycles, self-redirects, external markers, undecodable or unparsable content — provided a reload
answers like a normal load and module answers name final specifiers that do not lead elsewhere -/
theorem builds_terminate (w : World) (o : Opts) (roots : List Spec) (imports : List (Spec × List Dep))
    (hre : w.reloadResp = []) (hfin : ∀ q f, w.respOf q = .module f → f ≠ q → finalOf w f = f) :
    ∃ fuel out, build w o roots imports fuel = some out :=
  build_terminates' w o roots imports hre hfin

/-- … and the build that finishes has no pending entry (termination and `no_pending_after_build` together) -/
theorem builds_finish_settled (w : World) (o : Opts) (roots : List Spec) (imports : List (Spec × List Dep))
    (hre : w.reloadResp = []) (hfin : ∀ q f, w.respOf q = .module f → f ≠ q → finalOf w f = f) :
    ∃ fuel out, build w o roots imports fuel = some out ∧ ∀ s a, out.slot s ≠ some (.pending a) := by
  obtain ⟨fuel, out, h⟩ := build_terminates' w o roots imports hre hfin
  exact ⟨fuel, out, h, build_no_pending w o roots imports fuel out h⟩

/-- non-vacuity: a world with a self-redirect, a redirect loop and a missing module finishes with
error entries only -/
def mkDep (t s r : Nat) (dyn : Bool) : BDep :=
  { text := t, code := .ok s r, type := .none, dyn := dyn, attr := none, isAsset := false, sourcePhase := none }

def faultWorld : World :=
  { resp := [(0, .module 0), (1, .redirect 1), (2, .redirect 3), (3, .redirect 2)],
    content := [(0, { mt := .TypeScript, schemeFile := true, decodable := true, parsable := true, wasmOk := true,
                      parsed := { deps := [mkDep 0 1 0 false, mkDep 1 2 1 false, mkDep 2 4 2 true],
                                  typesDep := none, sourceMapDep := none } })],
    wasmExt := [], nodeSpecs := [], maxRedirects := 10, lockRemote := [] }

def faultOpts : Opts :=
  { kind := .All, isDynamic := false, skipDynamicDeps := false, unstableBytes := false,
    unstableText := false, unstableCss := false, unstableConfig := false }

def errKindOf : BSlot → Option ErrKind
  | .err e => some e.kind
  | _ => none

example : ((build faultWorld faultOpts [0] [] 100).map fun st =>
    st.slots.map fun p => (p.1, errKindOf p.2)) =
    some [(0, none), (1, some .tooManyRedirects), (3, some .tooManyRedirects), (4, some .missing)] := by
  decide

/-- the fault world above satisfies the hypotheses of the termination theorem -/
example : faultWorld.reloadResp = [] ∧ ∀ q f, faultWorld.respOf q = .module f → f ≠ q → finalOf faultWorld f = f := by
  refine ⟨rfl, ?_⟩
  intro q f h hne
  -- the only module answer is `0 ↦ module 0`
  unfold World.respOf faultWorld at h
  simp only [List.lookup] at h
  by_cases h0 : q = 0
  · subst h0; simp at h; exact absurd h.symm hne
  · by_cases h1 : q = 1
    · subst h1; simp at h
    · by_cases h2 : q = 2
      · subst h2; simp at h
      · by_cases h3 : q = 3
        · subst h3; simp at h
        · have e0 : (q == 0) = false := by simpa using h0
          have e1 : (q == 1) = false := by simpa using h1
          have e2 : (q == 2) = false := by simpa using h2
          have e3 : (q == 3) = false := by simpa using h3
          simp [e0, e1, e2, e3] at h

end DG.C03
