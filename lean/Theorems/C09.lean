import Theorems.C11
import Proofs.TraceTerm
/-!
# C09 — fast-check output is closed under reference

Model: `DG/Trace.lean`.  Closure is a property of the tracer: whatever a retained declaration's
public signature refers to is retained too, in the same module or — through a retained import —
in the module it comes from, whose own emitted counterpart still exports it.
-/
namespace DG.C09
open DG.Trace

variable (w : World) (entries : List Nat) (fuel : Nat) (s : State)

/-- a retained declaration has been processed -/
theorem retained_processed (h : trace w entries fuel = some s) (m name : Nat) (hr : (m, name) ∈ s.decls) :
    Task.decl m name ∈ s.done :=
  ((run_inv2 w entries fuel _ s (init_inv w entries).2 h).declsDone (m, name) hr).1

/-- **references to declarations of the same module stay resolvable**: if a retained declaration's
signature mentions a name that is a declaration of the module, that declaration is retained -/
theorem closed_local (h : trace w entries fuel = some s) (m name r : Nat) (d d' : Decl)
    (hr : (m, name) ∈ s.decls) (hd : findDecl (w.mod m) name = some d) (href : r ∈ d.refs)
    (hd' : findDecl (w.mod m) r = some d') : (m, d'.name) ∈ s.decls ∧
      (findDecl (w.mod m) d'.name = some d' → True) := by
  have h1 := C11.served_of_done w entries fuel s h _ (retained_processed w entries fuel s h m name hr) d hd
  have h2 := C11.done_of_sched w entries fuel s h _ (h1.2.1 r href)
  have h3 := C11.served_of_done w entries fuel s h _ h2
  simp only [Served, hd'] at h3
  have h4 := C11.done_of_sched w entries fuel s h _ h3
  -- the declaration found under `r` is named `r`
  have hn : d'.name = r := by
    have := List.find?_some hd'
    simpa using this
  refine ⟨?_, fun _ => trivial⟩
  rw [hn] at h4 ⊢
  exact C11.decl_retained w entries fuel s h m r d' h4 hd'

/-- **references to imports stay resolvable**: the import binding is retained and the exporting
module has been asked for that name -/
theorem closed_import (h : trace w entries fuel = some s) (m name r : Nat) (d : Decl) (p : Nat × Nat × Nat)
    (hr : (m, name) ∈ s.decls) (hd : findDecl (w.mod m) name = some d) (href : r ∈ d.refs)
    (hnd : findDecl (w.mod m) r = none) (hp : findImport (w.mod m) r = some p) :
    (m, r) ∈ s.imports ∧ Task.reqName p.2.1 p.2.2 ∈ s.done := by
  have h1 := C11.served_of_done w entries fuel s h _ (retained_processed w entries fuel s h m name hr) d hd
  have h2 := C11.done_of_sched w entries fuel s h _ (h1.2.1 r href)
  have h3 := C11.served_of_done w entries fuel s h _ h2
  simp only [Served, hnd, hp] at h3
  exact ⟨h3.1, C11.done_of_sched w entries fuel s h _ h3.2⟩

/-- **references through a namespace import stay resolvable**: when a retained declaration's
signature mentions a namespace import as a whole (`typeof ns`), the import is retained and the
imported module has been asked for everything but `default`; when it mentions `ns.x`, the import
is retained and the imported module has been asked for `x` -/
theorem closed_namespace_import (h : trace w entries fuel = some s) (m name : Nat) (d : Decl) (p : Nat × Nat)
    (hr : (m, name) ∈ s.decls) (hd : findDecl (w.mod m) name = some d) :
    (∀ r ∈ d.refs, findDecl (w.mod m) r = none → findImport (w.mod m) r = none → findNsImport (w.mod m) r = some p →
      (m, r) ∈ s.imports ∧ Task.reqAll p.2 false ∈ s.done) ∧
    (∀ q ∈ d.qrefs, findNsImport (w.mod m) q.1 = some p →
      (m, q.1) ∈ s.imports ∧ Task.reqName p.2 q.2 ∈ s.done) := by
  have h1 := C11.served_of_done w entries fuel s h _ (retained_processed w entries fuel s h m name hr) d hd
  constructor
  · intro r href hnd hni hns
    have h2 := C11.done_of_sched w entries fuel s h _ (h1.2.1 r href)
    have h3 := C11.served_of_done w entries fuel s h _ h2
    simp only [Served, hnd, hni, hns] at h3
    exact ⟨h3.1, C11.done_of_sched w entries fuel s h _ h3.2⟩
  · intro q hq hns
    have h2 := C11.done_of_sched w entries fuel s h _ (h1.2.2 q hq)
    have h3 := C11.served_of_done w entries fuel s h _ h2
    simp only [Served, hns] at h3
    exact ⟨h3.1, C11.done_of_sched w entries fuel s h _ h3.2⟩

/-- **the exporting module's emitted counterpart still exports the name**: a module that has been
asked for a name keeps whatever its source uses to export it — the declaration itself, the local
export specifier (and what it names), the named re-export (and the next module is asked in turn),
or, failing all that, the `export *` of every module on the path along which *this* module has the
name (the module at the end of the path being asked in turn); when there is no such path, every
star re-export is kept -/
theorem request_served (h : trace w entries fuel = some s) (m n : Nat) (hq : Task.reqName m n ∈ s.done) :
    m ∈ s.modules ∧
    (∀ d, ownExport (w.mod m) n = some d → findDecl (w.mod m) d.name = some d → (m, d.name) ∈ s.decls) ∧
    (ownExport (w.mod m) n = none → ∀ p, findLocalExport (w.mod m) n = some p →
        (m, n) ∈ s.exportLocal ∧ Task.local m p.2 ∈ s.done) ∧
    (ownExport (w.mod m) n = none → findLocalExport (w.mod m) n = none → ∀ p, findFrom (w.mod m) n = some p →
        (m, n) ∈ s.exportFrom ∧ Task.reqName p.2.1 p.2.2 ∈ s.done) ∧
    (ownExport (w.mod m) n = none → findLocalExport (w.mod m) n = none → findFrom (w.mod m) n = none →
        (∀ edges d, findPath w m n = some (edges, d) → (∀ e ∈ edges, e ∈ s.stars) ∧ Task.reqName d n ∈ s.done) ∧
        (findPath w m n = none → ∀ x ∈ (w.mod m).stars, (m, x) ∈ s.stars)) := by
  have hs := C11.served_of_done w entries fuel s h _ hq
  have dn := C11.done_of_sched w entries fuel s h
  refine ⟨hs.1, ?_, ?_, ?_, ?_⟩
  · intro d hd hf
    have := hs.2
    simp only [hd] at this
    exact C11.decl_retained w entries fuel s h m d.name d (dn _ this) hf
  · intro hd p hp
    have := hs.2
    simp only [hd, hp] at this
    exact ⟨this.1, dn _ this.2⟩
  · intro hd hp q hq'
    have := hs.2
    simp only [hd, hp, hq'] at this
    exact ⟨this.1, dn _ this.2⟩
  · intro hd hp hq'
    have := hs.2
    simp only [hd, hp, hq'] at this
    constructor
    · intro edges d hx
      simp only [hx] at this
      exact ⟨this.1, dn _ this.2⟩
    · intro hx
      simp only [hx] at this
      exact this

/-- **a name that a module has through `export *` is still exported by the emitted modules, all the
way**: when a module that was asked for a name has it along a path of `export *` declarations,
that path is a chain of star re-exports of the package from this module to one that has the name
as its own; every `export *` on it is retained, and the module at its end was asked for the name
(so, by `request_served` there, it keeps the declaration, export specifier or named re-export).
Cycles of `export *` cannot lead the path back: it is resolved from the asking module
(finding F34, repaired in /repo) -/
theorem star_path_retained (h : trace w entries fuel = some s) (m n : Nat) (hq : Task.reqName m n ∈ s.done)
    (hd : ownExport (w.mod m) n = none) (hp : findLocalExport (w.mod m) n = none) (hf : findFrom (w.mod m) n = none)
    (edges : List (Nat × Nat)) (d : Nat) (hpath : findPath w m n = some (edges, d)) :
    IsStarPath w m edges d ∧ ownsName (w.mod d) n = true ∧ (∀ e ∈ edges, e ∈ s.stars) ∧
      Task.reqName d n ∈ s.done ∧ d ∈ s.modules := by
  obtain ⟨_, hpth, hown⟩ := findPath_spec w m n edges d hpath
  obtain ⟨he, hdn⟩ := ((request_served w entries fuel s h m n hq).2.2.2.2 hd hp hf).1 edges d hpath
  exact ⟨hpth, hown, he, hdn, (request_served w entries fuel s h d n hdn).1⟩

/-- the cycle of finding F34: `a` re-exports `b`, `b` re-exports `a` and `c`, `c` declares the name;
the path from `a` is a → b → c (the choice made before the repair, `starProvider`, sent `b` back to `a`) -/
example :
    let w : World := [
      { decls := [], imports := [], exportFrom := [], stars := [1], exportLocal := [] },
      { decls := [], imports := [], exportFrom := [], stars := [0, 2], exportLocal := [] },
      { decls := [{ name := 5, exported := true, isDefault := false, refs := [] }], imports := [], exportFrom := [],
        stars := [], exportLocal := [] }]
    findPath w 0 5 = some ([(0, 1), (1, 2)], 2) ∧ starProvider w (w.mod 1) 5 = some 0 := by
  decide

/-- a retained local export specifier still names something retained -/
theorem local_served (h : trace w entries fuel = some s) (m l : Nat) (hq : Task.local m l ∈ s.done) (d : Decl)
    (hd : findDecl (w.mod m) l = some d) : (m, d.name) ∈ s.decls := by
  have h3 := C11.served_of_done w entries fuel s h _ hq
  simp only [Served, hd] at h3
  have hn : d.name = l := by
    have := List.find?_some hd
    simpa using this
  have h4 := C11.done_of_sched w entries fuel s h _ h3
  rw [hn] at h4 ⊢
  exact C11.decl_retained w entries fuel s h m l d h4 hd

/-- **the tracer terminates** on every package from every set of entry points: the theorems above
are not vacuous for any input — there always is an amount of fuel with which the run finishes,
and more fuel gives the same result -/
theorem tracer_terminates : ∃ fuel r, trace w entries fuel = some r :=
  trace_terminates w entries

theorem more_fuel_same_result (r : State) (h : trace w entries fuel = some r) :
    trace w entries (fuel + 1) = some r :=
  run_fuel_mono w fuel _ r h

/-- closure, unconditionally: for every package there is a finished run, and in it every local
reference of every retained declaration is retained -/
theorem closed_local_total : ∃ fuel r, trace w entries fuel = some r ∧
    ∀ m name x d d', (m, name) ∈ r.decls → findDecl (w.mod m) name = some d → x ∈ d.refs →
      findDecl (w.mod m) x = some d' → (m, d'.name) ∈ r.decls := by
  obtain ⟨fuel, r, h⟩ := trace_terminates w entries
  exact ⟨fuel, r, h, fun m name x d d' hr hd hx hd' => (closed_local w entries fuel r h m name x d d' hr hd hx hd').1⟩

/-- exactness, unconditionally (C11): for every package there is a finished run whose retained
declarations are exactly those the public API calls for -/
theorem retained_iff_total : ∃ fuel r, trace w entries fuel = some r ∧
    ∀ m name, (m, name) ∈ r.decls ↔ (Just w entries (.decl m name) ∧ (findDecl (w.mod m) name).isSome = true) := by
  obtain ⟨fuel, r, h⟩ := trace_terminates w entries
  exact ⟨fuel, r, h, fun m name => C11.retained_iff w entries fuel r h m name⟩

/-! ## requests still pending for a module are merged, never dropped (`DG/Subset.lean`)

While a module waits to be analysed, further requests for it are merged into the pending one
(`PendingTraces::add`); a reference is only closed if every one of them is analysed in the end. -/
section Pending
open DG.Subset

/-- the pending request after any sequence of merges covers everything each request covered -/
theorem pending_merge_keeps_every_request : ∀ (ts : List Imp) (h : Option Imp) (p : List String),
    (optCovers h p = true ∨ ∃ t ∈ ts, t.covers p = true) → optCovers (ts.foldl pendingAdd h) p = true
  | [], h, p, hc => by
    rcases hc with hc | ⟨t, ht, _⟩
    · simpa using hc
    · cases ht
  | t0 :: ts, h, p, hc => by
    simp only [List.foldl]
    apply pending_merge_keeps_every_request ts
    have hstep : ∀ q, (optCovers h q = true ∨ t0.covers q = true) → optCovers (pendingAdd h t0) q = true := by
      intro q hq
      cases h with
      | none =>
        rcases hq with hq | hq
        · simp [optCovers] at hq
        · simpa [pendingAdd, optCovers] using hq
      | some cur => simpa [pendingAdd, optCovers] using Imp.add_keeps cur t0 q (by simpa [optCovers] using hq)
    rcases hc with hc | ⟨t, ht, htc⟩
    · left; exact hstep p (Or.inl hc)
    · rcases List.mem_cons.mp ht with rfl | ht
      · left; exact hstep p (Or.inr htc)
      · right; exact ⟨t, ht, htc⟩

/-- a `default` request waiting for a module survives a `*` request merged into it -/
example : (pendingAdd (some (.subset onlyDefault)) .star).map (·.covers ["default"]) = some true := by
  simp [pendingAdd, Imp.add, onlyDefault, Sub.add, Sub.set, Sub.get?, Imp.covers]

end Pending

end DG.C09
