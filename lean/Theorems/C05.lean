import DG.Build
/-!
# C05 — known checksums are always enforced; new ones are recorded faithfully

Model: the checksum plumbing of `DG/Build.lean` — `knownChecksum` (`Locker::get_remote_checksum`),
the request queued by `load_pending_module`, `World.answer` (a loader that verifies the checksum it
is given), `tryLoad'` (one cache-bypassing retry), `recordChecksum` (`Locker::set_remote_checksum`).
Scope here: remote (non-registry) modules; registry manifests and package files are covered with
the registry worlds.
-/
namespace DG.C05
open DG DG.Build Tables

variable (w : World) (o : Opts)

/-- **every load presents the known checksum**: the request queued for a specifier carries what
the lockfile (or an earlier write of this build) says about it … -/
theorem queued_request_has_known_checksum (st : St) (lo : LoadOpts) (count : Nat) (spec : Spec) :
    ∃ r, (loadPendingModule w st lo count spec).pending = st.pending ++ [r] ∧ r.spec = spec ∧
      r.checksum = knownChecksum w (st.setSlot spec (.pending lo.isAsset)) spec := by
  exact ⟨_, rfl, rfl, rfl⟩

/-- … the lockfile entry takes precedence over anything recorded during the build … -/
theorem lockfile_checksum_wins (st : St) (spec : Spec) (c : Nat) (hl : w.hasLocker = true)
    (h : w.lockRemote.lookup spec = some c) : knownChecksum w st spec = some c := by
  simp [knownChecksum, hl, h]

/-- … and both the load and the retry present exactly the request's checksum to the loader -/
theorem loader_calls_present_request_checksum (r : Req) (st : St) :
    ∀ c ∈ (logRequest w o r st).log, c ∈ st.log ∨ (c.spec = r.spec ∧ c.checksum = r.checksum ∧
      c.ensureCached = r.isAsset) := by
  intro c hc
  unfold logRequest logCall at hc
  simp only at hc
  split at hc
  · simp only [List.mem_append, List.mem_cons, List.not_mem_nil, or_false] at hc
    rcases hc with (h | h) | h
    · exact Or.inl h
    · subst h; exact Or.inr ⟨rfl, rfl, rfl⟩
    · subst h; exact Or.inr ⟨rfl, rfl, rfl⟩
  · simp only [List.mem_append, List.mem_cons, List.not_mem_nil, or_false] at hc
    rcases hc with h | h
    · exact Or.inl h
    · subst h; exact Or.inr ⟨rfl, rfl, rfl⟩

/-- at most one retry per request, and only after a checksum failure -/
theorem at_most_one_retry (r : Req) (st : St) :
    (logRequest w o r st).log.length ≤ st.log.length + 2 ∧
    ((logRequest w o r st).log.length = st.log.length + 2 → w.answer r.spec r.checksum false = .checksumError) := by
  unfold logRequest logCall
  simp only
  split
  · rename_i h
    refine ⟨by simp, fun _ => ?_⟩
    unfold tryLoad' at h
    simp only at h
    split at h <;> simp_all
  · exact ⟨by simp, fun hlen => by simp at hlen⟩

/-- **content the loader rejects is never admitted**: rejected on the first load and not accepted
by the retry ⇒ an integrity error entry for the requested specifier -/
theorem mismatch_never_admitted (r : Req)
    (h1 : w.answer r.spec r.checksum false = .checksumError)
    (h2 : ∀ f, w.answer r.spec r.checksum true ≠ .module f)
    (h3 : ∀ f, w.answer r.spec r.checksum true ≠ .external f) :
    tryLoad w o r = .err { kind := .checksum, spec := r.spec, referrer := r.range } := by
  unfold tryLoad tryLoad'
  -- the two accepting arms of the retry are excluded by h2 / h3 (simp discharges them)
  simp only [h1]

/-- a loader that verifies checksums rejects content whose hash differs from the one presented -/
theorem answer_rejects_mismatch (s f : Spec) (c : Nat) (reload : Bool)
    (hm : w.respFor s reload = .module f)
    (hh : (if reload then w.hashReload.lookup s else w.hashUse.lookup s) ≠ some c) :
    w.answer s (some c) reload = .checksumError := by
  unfold World.answer
  simp only [hm]
  have : ((if reload = true then w.hashReload.lookup s else w.hashUse.lookup s) == some c) = false := by
    simpa using hh
  simp [this]

/-- **a checksummed URL that redirects is rejected** -/
theorem checksummed_redirect_rejected (r : Req) (to : Spec) (c : Nat)
    (h : w.respOf r.spec = .redirect to) (hc : r.checksum = some c) :
    tryLoad w o r = .err { kind := .checksumRedirect, spec := r.spec, referrer := r.range } := by
  unfold tryLoad tryLoad'
  simp [World.answer, World.respFor, h, hc]

/-- **new checksums are recorded**: a newly seen remote non-declaration module gets the hash of
the bytes used handed to the lockfile … -/
theorem new_checksum_recorded (cls : Class) (f : Spec) (hash : Nat) (st : St)
    (hl : w.hasLocker = true) (hd : isDeclaration cls.mediaType = false) (hr : f ∈ w.remote)
    (hn : w.lockRemote.lookup f = none) (hw : st.lockWrites.lookup f = none) :
    (recordChecksum w cls f (some hash) st).lockWrites = st.lockWrites ++ [(f, hash)] := by
  simp [recordChecksum, hl, hd, hr, hn, hw]

/-- … **and existing lockfile entries are never overwritten**: nothing is written for a specifier
the lockfile already knows (or that was written earlier in this build) … -/
theorem no_overwrite (cls : Class) (f : Spec) (hash : Option Nat) (st : St)
    (h : (w.lockRemote.lookup f).isSome ∨ (st.lockWrites.lookup f).isSome) :
    (recordChecksum w cls f hash st).lockWrites = st.lockWrites := by
  unfold recordChecksum
  rcases h with h | h
  · have : (w.lockRemote.lookup f).isNone = false := by
      cases hh : w.lockRemote.lookup f <;> simp_all
    simp [this]
  · have : (st.lockWrites.lookup f).isNone = false := by
      cases hh : st.lockWrites.lookup f <;> simp_all
    simp [this]

/-- … declaration files and local files are never recorded, and nothing is without a locker -/
theorem not_recorded (cls : Class) (f : Spec) (hash : Option Nat) (st : St)
    (h : w.hasLocker = false ∨ isDeclaration cls.mediaType = true ∨ f ∉ w.remote) :
    (recordChecksum w cls f hash st).lockWrites = st.lockWrites := by
  unfold recordChecksum
  rcases h with h | h | h
  · simp [h]
  · simp [h]
  · have : w.remote.contains f = false := by simpa using h
    simp only [this, Bool.and_false, Bool.false_and, Bool.false_eq_true, if_false]

/-- every write ever made is for the specifier it names only: writes are append-only -/
theorem writes_append_only (cls : Class) (f : Spec) (hash : Option Nat) (st : St) :
    ∃ l, (recordChecksum w cls f hash st).lockWrites = st.lockWrites ++ l := by
  unfold recordChecksum
  split
  · exact ⟨_, rfl⟩
  · exact ⟨[], by simp⟩

/-- non-vacuity: tampered cache, matching lockfile entry: one retry, then a module -/
def demoWorld : World :=
  { resp := [(0, .module 0)],
    content := [(0, { mt := .TypeScript, schemeFile := false, decodable := true, parsable := true, wasmOk := true,
                      parsed := { deps := [], typesDep := none, sourceMapDep := none } })],
    wasmExt := [], nodeSpecs := [], maxRedirects := 10, lockRemote := [(0, 7)],
    hashUse := [(0, 8)], hashReload := [(0, 7)], hasLocker := true, remote := [0] }

def demoOpts : Opts :=
  { kind := .All, isDynamic := false, skipDynamicDeps := false, unstableBytes := false,
    unstableText := false, unstableCss := false, unstableConfig := false }

example : ((build demoWorld demoOpts [0] [] 20).map fun st =>
    (st.log.map fun c => (c.spec, c.reload, c.checksum), st.lockWrites)) =
    some ([(0, false, some 7), (0, true, some 7)], []) := by decide

end DG.C05
