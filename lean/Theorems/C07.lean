import Proofs.JsrSpec
import Theorems.C06
/-!
# C07 — `jsr:` specifiers map to registry URLs through the manifest, with bookkeeping

Model: `DG/JsrSpec.lean` (`resolve_pending_jsr_specifiers` pass, `PackageSpecifiers`,
`JsrPackageVersionInfo::export(s)`, `recommended_registry_package_url(_to_nv)`, `get_subpath`).
-/
namespace DG.C07
open DG.Jsr

/-! ## exports -/

/-- an export found by `export` is one of the listed exports … -/
theorem export_mem_list (e : Exports) (n p : Str) (h : e.export n = some p) : (n, p) ∈ e.list := by
  cases e with
  | str v =>
    simp only [Exports.export] at h
    split at h
    · rename_i hn; subst hn
      simp only [Option.some.injEq] at h; subst h
      simp [Exports.list]
    · exact absurd h (by simp)
  | obj m =>
    simp only [Exports.export] at h
    simp only [Exports.list, List.mem_filterMap]
    split at h
    · rename_i v hl
      simp only [Option.some.injEq] at h; subst h
      induction m with
      | nil => simp [List.lookup] at hl
      | cons q r ih =>
        obtain ⟨k, w⟩ := q
        simp only [List.lookup] at hl
        split at hl
        · rename_i hk
          have hk' : n = k := by simpa using hk
          subst hk'
          simp only [Option.some.injEq] at hl
          subst hl
          exact ⟨(n, some v), by simp, by simp [objEntry]⟩
        · obtain ⟨a, ha, hb⟩ := ih hl
          exact ⟨a, by simp [ha], hb⟩
    · exact absurd h (by simp)
  | other => simp [Exports.export] at h

/-- … and, keys of a JSON object being unique, every listed export is found -/
theorem list_mem_export (e : Exports) (n p : Str)
    (hk : ∀ m, e = .obj m → (m.map (·.1)).Nodup) (h : (n, p) ∈ e.list) : e.export n = some p := by
  cases e with
  | str v =>
    simp only [Exports.list, List.mem_singleton, Prod.mk.injEq] at h
    obtain ⟨rfl, rfl⟩ := h
    simp [Exports.export]
  | obj m =>
    have hnd := hk m rfl
    simp only [Exports.list, List.mem_filterMap] at h
    obtain ⟨⟨k, w⟩, hm, hw⟩ := h
    simp only [objEntry] at hw
    cases w with
    | none => simp at hw
    | some v =>
      simp only [Option.some.injEq, Prod.mk.injEq] at hw
      obtain ⟨rfl, rfl⟩ := hw
      simp only [Exports.export]
      have key : ∀ (m : List (Str × Option Str)), (m.map (·.1)).Nodup → (k, some v) ∈ m →
          m.lookup k = some (some v) := by
        intro m
        induction m with
        | nil => intro _ hm; simp at hm
        | cons q r ih =>
          intro hnd hm
          obtain ⟨k', w'⟩ := q
          simp only [List.map_cons, List.nodup_cons] at hnd
          simp only [List.mem_cons, Prod.mk.injEq] at hm
          rcases hm with ⟨rfl, rfl⟩ | hm
          · simp [List.lookup]
          · have hne : k ≠ k' := by
              intro e; subst e
              exact hnd.1 (List.mem_map.mpr ⟨(k, some v), hm, rfl⟩)
            have : (k == k') = false := by simpa using hne
            simp only [List.lookup, this]
            exact ih hnd.2 hm
      have := key m hnd hm
      simp [this]
  | other => simp [Exports.list] at h

/-! ## registry URL ↔ name@version -/

variable (valid : Str → Bool)

/-- **round trip**: any URL inside a package's directory maps back to that package -/
theorem urlToNv_packageUrl (reg scope n ver rest : Str)
    (hs : '/' ∉ scope) (hs0 : scope ≠ []) (hn : '/' ∉ n) (hv : '/' ∉ ver) (hvalid : valid ver = true) :
    urlToNv valid reg (packageUrl reg (scope ++ '/' :: n) ver ++ rest) = some (scope ++ '/' :: n, ver) := by
  have e : packageUrl reg (scope ++ '/' :: n) ver ++ rest
      = reg ++ (scope ++ '/' :: (n ++ '/' :: (ver ++ '/' :: rest))) := by
    simp [packageUrl, List.append_assoc]
  rw [e]
  unfold urlToNv
  rw [stripPrefix?_append]
  have hd : dropLeadingSlash (scope ++ '/' :: (n ++ '/' :: (ver ++ '/' :: rest)))
      = scope ++ '/' :: (n ++ '/' :: (ver ++ '/' :: rest)) := by
    cases scope with
    | nil => exact absurd rfl hs0
    | cons c cs =>
      have : c ≠ '/' := fun e => hs (by simp [e])
      simp only [List.cons_append, dropLeadingSlash]
      split
      · rename_i heq
        simp only [List.cons.injEq] at heq
        exact absurd heq.1 this
      · rfl
  simp only [hd]
  rw [splitSlash_append _ _ hs, splitSlash_append _ _ hn, splitSlash_append _ _ hv]
  simp [hvalid]

/-- **never attributed to a different package**: whatever `urlToNv` answers, the URL lies inside
that package's directory (whole path segments; an optional doubled slash after the registry URL)
and the version segment is a valid version -/
theorem urlToNv_sound (reg url name ver : Str) (h : urlToNv valid reg url = some (name, ver)) :
    ∃ scope n rest, name = scope ++ '/' :: n ∧ '/' ∉ scope ∧ '/' ∉ n ∧ '/' ∉ ver ∧ valid ver = true ∧
      (url = reg ++ name ++ '/' :: ver ++ rest ∨ url = reg ++ '/' :: name ++ '/' :: ver ++ rest) ∧
      (rest = [] ∨ ∃ r, rest = '/' :: r) := by
  unfold urlToNv at h
  split at h
  · exact absurd h (by simp)
  · rename_i path hp
    have hurl := stripPrefix?_some hp
    split at h
    · rename_i scope n v tl hsplit
      split at h
      · rename_i hvalid
        simp only [Option.some.injEq, Prod.mk.injEq] at h
        obtain ⟨rfl, rfl⟩ := h
        have hseg := splitSlash_segments (dropLeadingSlash path)
        rw [hsplit] at hseg
        have hj := joinSlash_splitSlash (dropLeadingSlash path)
        rw [hsplit, joinSlash_three] at hj
        refine ⟨scope, n, tailOf tl, rfl,
          hseg scope (by simp), hseg n (by simp), hseg v (by simp), hvalid, ?_, tailOf_shape tl⟩
        clear hsplit hseg
        cases path with
        | nil =>
          left
          simp only [dropLeadingSlash] at hj
          rw [hurl, ← hj]
          simp [List.append_assoc]
        | cons c cs =>
          by_cases hc : c = '/'
          · subst hc
            right
            simp only [dropLeadingSlash] at hj
            rw [hurl, ← hj]
            simp [List.append_assoc]
          · left
            have : dropLeadingSlash (c :: cs) = c :: cs := by
              unfold dropLeadingSlash
              split
              · rename_i heq
                simp only [List.cons.injEq] at heq
                exact absurd heq.1 hc
              · rfl
            rw [this] at hj
            rw [hurl, ← hj]
            simp [List.append_assoc]
      · exact absurd h (by simp)
    · exact absurd h (by simp)

/-- so two well-formed packages never share a URL: the answer for a URL inside one package's
directory is that package and no other -/
theorem urlToNv_unique (reg scope n ver rest name' ver' : Str)
    (hs : '/' ∉ scope) (hs0 : scope ≠ []) (hn : '/' ∉ n) (hv : '/' ∉ ver) (hvalid : valid ver = true)
    (h : urlToNv valid reg (packageUrl reg (scope ++ '/' :: n) ver ++ rest) = some (name', ver')) :
    name' = scope ++ '/' :: n ∧ ver' = ver := by
  rw [urlToNv_packageUrl valid reg scope n ver rest hs hs0 hn hv hvalid] at h
  simp only [Option.some.injEq, Prod.mk.injEq] at h
  exact ⟨h.1.symm, h.2.symm⟩

/-- the sub-path of a file of the package, as `get_subpath` computes it (leading slash kept) -/
theorem getSubpath_packageUrl (reg name ver p : Str) :
    getSubpath (packageUrl reg name ver) (packageUrl reg name ver ++ p) = some ('/' :: p) := by
  have : dropTrailingSlash (packageUrl reg name ver) = reg ++ name ++ '/' :: ver := by
    unfold dropTrailingSlash packageUrl
    simp
  unfold getSubpath
  rw [this]
  have : packageUrl reg name ver ++ p = (reg ++ name ++ '/' :: ver) ++ '/' :: p := by
    simp [packageUrl, List.append_assoc]
  rw [this, stripPrefix?_append]
  rfl

/-- **`get_subpath` is segment-aware**: whatever it answers is a path inside the package's own
directory, so a URL of another version whose text merely starts with this version is never given
a sub-path of this one (the defect F23 fixed by 5d08f32) -/
theorem getSubpath_inside (reg name ver url p : Str)
    (h : getSubpath (packageUrl reg name ver) url = some p) :
    ∃ q, p = '/' :: q ∧ url = packageUrl reg name ver ++ q := by
  have hb : dropTrailingSlash (packageUrl reg name ver) = reg ++ name ++ '/' :: ver := by
    unfold dropTrailingSlash packageUrl
    simp
  unfold getSubpath at h
  rw [hb] at h
  split at h
  · rename_i q hq
    simp only [Option.some.injEq] at h
    refine ⟨q, h.symm, ?_⟩
    rw [stripPrefix?_some hq]
    simp [packageUrl, List.append_assoc]
  · exact absurd h (by simp)

/-- the sibling-version URL of the former defect gets no sub-path, and `urlToNv` attributes it
to its own version -/
theorem sibling_version_not_a_subpath :
    getSubpath (packageUrl "https://jsr.io/".toList "@s/a".toList "1.0.0".toList)
        "https://jsr.io/@s/a/1.0.0-beta/mod.ts".toList = none ∧
    urlToNv (fun _ => true) "https://jsr.io/".toList "https://jsr.io/@s/a/1.0.0-beta/mod.ts".toList
      = some ("@s/a".toList, "1.0.0-beta".toList) := by
  constructor <;> decide

/-! ## the resolution pass -/

variable (reg : Registry) (nm : Names)

/-- `./path` joins onto the package directory: the redirect target is package URL ++ path -/
theorem joinExport_dot_slash (base p : Str) (h1 : p.head? ≠ some '.') (h2 : p.head? ≠ some '/') :
    joinExport base ('.' :: '/' :: p) = some (base ++ p) := by
  simp [joinExport, h1, h2]

/-- **a `jsr:` specifier becomes a redirect to package URL + the export's path**, the export is
recorded for the package and the package is in the table -/
theorem pass2_redirect (collect : Bool) (s : P2) (it : Item) (nv : Nv) (exports : Exports) (path url : Str)
    (hv : reg.ver nv = .ok exports) (he : exports.export it.exportName = some path)
    (hu : joinExport (packageUrl nm.reg (nm.name nv.name) (nm.ver nv.version)) path = some url) :
    (pass2Step reg nm collect s (it, nv)).outs = s.outs ++ [.redirect it.spec url nv] ∧
    ∃ i, (pass2Step reg nm collect s (it, nv)).table.info nv = some i ∧
      i.exports.lookup it.exportName = some path := by
  unfold pass2Step
  simp only [hv, he, hu]
  refine ⟨trivial, ?_⟩
  have hens : ∃ i0, (s.table.ensurePackage nv).info nv = some i0 := by
    unfold Table.ensurePackage
    split
    · rename_i i hi; exact ⟨i, hi⟩
    · rename_i hi
      refine ⟨{}, ?_⟩
      simp only [Table.info] at hi ⊢
      generalize s.table.packages = l at hi ⊢
      induction l with
      | nil => simp
      | cons q r ih =>
        obtain ⟨k, w⟩ := q
        simp only [List.lookup_cons] at hi
        split at hi
        · exact absurd hi (by simp)
        · rename_i hk
          simp only [List.cons_append, List.lookup_cons, hk]
          exact ih hi
  obtain ⟨i0, hi0⟩ := hens
  refine ⟨{ i0 with exports := setKey it.exportName path i0.exports }, ?_, lookup_setKey_self _ _ _⟩
  have hadd : ((s.table.ensurePackage nv).addExport nv it.exportName path).info nv
      = some { i0 with exports := setKey it.exportName path i0.exports } := by
    unfold Table.addExport
    simp only [hi0]
    exact lookup_setKey_self _ _ _
  split
  · exact hadd
  · exact hadd

/-- **an export the manifest lacks yields an unknown-export error listing the available exports** -/
theorem pass2_unknown_export (collect : Bool) (s : P2) (it : Item) (nv : Nv) (exports : Exports)
    (hv : reg.ver nv = .ok exports) (he : exports.export it.exportName = none) :
    (pass2Step reg nm collect s (it, nv)).outs =
      s.outs ++ [.err it.spec (.unknownExport (exports.list.map (·.1)))] := by
  unfold pass2Step
  simp only [hv, he]

/-- a version manifest that cannot be loaded becomes an error for the specifier; nothing is redirected -/
theorem pass2_manifest_failure (collect : Bool) (s : P2) (it : Item) (nv : Nv)
    (hv : ∀ e, reg.ver nv ≠ .ok e) :
    ∃ k, (pass2Step reg nm collect s (it, nv)).outs = s.outs ++ [.err it.spec k] ∧
      (pass2Step reg nm collect s (it, nv)).table = s.table := by
  unfold pass2Step
  split
  · rename_i e he; exact absurd he (hv e)
  · exact ⟨_, rfl, rfl⟩

/-- the version selected by the tiers always satisfies the requirement -/
theorem selected_satisfies (sat : Nat → Bool) (cutoff : Option Nat) (infos : List (Nat × VInfo))
    (existing cached : List Nat) (v : Nat) (y : Bool)
    (h : resolveTiers sat cutoff infos existing cached = .ok v y) : sat v = true := by
  unfold resolveTiers at h
  split at h
  · rename_i w hw
    simp only [Resolved.ok.injEq] at h
    obtain ⟨_, _, _, hs, _⟩ := C06.registry_choice_sound sat none _ w hw
    rw [← h.1]; exact hs
  · split at h
    · rename_i w hw
      simp only [Resolved.ok.injEq] at h
      split at hw
      · exact absurd hw (by simp)
      · obtain ⟨_, _, _, hs, _⟩ := C06.registry_choice_sound sat cutoff _ w hw
        rw [← h.1]; exact hs
    · split at h
      · rename_i w hw
        simp only [Resolved.ok.injEq] at h
        obtain ⟨_, _, _, hs, _⟩ := C06.registry_choice_sound sat cutoff _ w hw
        rw [← h.1]; exact hs
      · split at h
        · rename_i w hw
          simp only [Resolved.ok.injEq] at h
          obtain ⟨_, _, _, hs, _⟩ := C06.registry_choice_sound sat cutoff _ w hw
          rw [← h.1]; exact hs
        · exact absurd h (by simp)

/-- **the package table maps the requirement to the selected name@version**, which satisfies the
requirement and is listed among the package's selected versions; the item goes on to the manifest
stage with exactly that selection -/
theorem pass1_maps_requirement (s s' : P1) (it : Item) (h : pass1Try reg s it = (s', none))
    (hp : ∀ infos, s.pkgOf reg it.name ≠ .ok infos → False) :
    ∃ v, s'.table.reqs.lookup { name := it.name, req := it.req } = some { name := it.name, version := v } ∧
      reg.sat it.req v = true ∧ v ∈ s'.table.versionsByName it.name ∧
      s'.selected = s.selected ++ [(it, { name := it.name, version := v })] := by
  unfold pass1Try at h
  split at h
  · rename_i infos hinf
    simp only at h
    split at h
    · rename_i v y hres
      simp only [Prod.mk.injEq, and_true] at h
      refine ⟨v, ?_, selected_satisfies _ _ _ _ _ v y hres, ?_, ?_⟩
      · subst h
        split <;> simp only [Table.addNv] <;> exact lookup_setKey_self _ _ _
      · subst h
        have : v ∈ (Table.addNv s.table { name := it.name, req := it.req } { name := it.name, version := v }).versionsByName it.name := by
          simp only [Table.addNv, Table.versionsByName]
          rw [lookup_setKey_self]
          exact mem_insertNew v _
        split
        · exact this
        · exact this
      · subst h; rfl
    · simp at h
  · rename_i hne
    exact (hp default (by
      intro hcon
      cases hpk : s.pkgOf reg it.name with
      | ok infos => exact hne infos hpk
      | notFound => rw [hpk] at hcon; cases hcon
      | loadErr => rw [hpk] at hcon; cases hcon
      | redirect => rw [hpk] at hcon; cases hcon)).elim

/-- selections are never forgotten: a later item of the pass still sees every version selected
for the package so far (this is what makes tier 1 "the highest version already selected") -/
theorem addNv_keeps_versions (t : Table) (r : Req) (nv : Nv) (name v : Nat)
    (h : v ∈ t.versionsByName name) : v ∈ (t.addNv r nv).versionsByName name := by
  simp only [Table.addNv, Table.versionsByName] at h ⊢
  by_cases hn : name = r.name
  · subst hn
    rw [lookup_setKey_self]
    exact mem_insertNew_of_mem _ _ _ h
  · rw [lookup_setKey_ne _ _ _ _ hn]
    exact h

/-- `mark_jsr_dep` / `mark_npm_dep`: the requirement is recorded for the package the referrer's
URL belongs to, and for no other package -/
theorem markDep_only_referrer_package (nvOf : Str × Str → Option Nv) (t : Table) (referrer : Str)
    (d : DepReq) (other : Nv)
    (h : ∀ p nv, urlToNv valid nm.reg referrer = some p → nvOf p = some nv → nv ≠ other) :
    (markDep valid nm nvOf t referrer d).info other = t.info other := by
  unfold markDep
  split
  · rename_i p hp
    split
    · rename_i nv hnv
      have hne := h p nv hp hnv
      unfold Table.addDependency
      split
      · simp only [Table.info]
        exact lookup_setKey_ne _ _ _ _ (fun e => hne e.symm)
      · rfl
    · rfl
  · rfl

/-- … and it is recorded there -/
theorem markDep_records (nvOf : Str × Str → Option Nv) (t : Table) (referrer : Str) (d : DepReq)
    (p : Str × Str) (nv : Nv) (i : PkgInfo)
    (hp : urlToNv valid nm.reg referrer = some p) (hnv : nvOf p = some nv) (hi : t.info nv = some i) :
    ∃ i', (markDep valid nm nvOf t referrer d).info nv = some i' ∧ d ∈ i'.deps ∧ i'.exports = i.exports := by
  unfold markDep
  simp only [hp, hnv, Table.addDependency, hi]
  refine ⟨_, lookup_setKey_self _ _ _, mem_insertNew d _, rfl⟩

/-! non-vacuity: one package, two versions; `jsr:@s/a@^1` and `jsr:@s/a@^1/nope` -/
def demoReg : Registry :=
  { pkg := fun _ => .ok [(0, { yanked := false, createdAt := none }), (1, { yanked := false, createdAt := none })],
    pkgFresh := fun _ => .notFound,
    ver := fun _ => .ok (.obj [(".".toList, some "./mod.ts".toList)]),
    sat := fun _ _ => true, cutoff := fun _ => none, cachedManifests := fun _ => [],
    preferCached := false, includeTypes := true }
def demoNames : Names :=
  { reg := "https://jsr.io/".toList, name := fun _ => "@s/a".toList,
    ver := fun v => if v = 0 then "1.0.0".toList else "1.1.0".toList }

example :
    (resolvePass demoReg demoNames .allowRestart {}
      [{ spec := 0, name := 0, req := 0, exportName := ".".toList },
       { spec := 1, name := 0, req := 0, exportName := "./nope".toList }]).2.outs =
    [.redirect 0 "https://jsr.io/@s/a/1.1.0/mod.ts".toList { name := 0, version := 1 },
     .err 1 (.unknownExport [".".toList])] := by decide

end DG.C07
