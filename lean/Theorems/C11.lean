import Proofs.TraceJust
/-!
# C11 — fast check preserves the public API and drops everything else

Model: `DG/Trace.lean` (the public-API tracer).  `s` is the state of any run that finishes.
-/
namespace DG.C11
open DG.Trace

variable (w : World) (entries : List Nat) (fuel : Nat) (s : State)

/-- at completion "scheduled" means "processed" -/
theorem done_of_sched (h : trace w entries fuel = some s) (t : Task)
    (ht : Sched s t) : t ∈ s.done := by
  obtain ⟨_, hw, _⟩ := run_inv w fuel _ s (init_inv w entries).1 h
  rcases ht with ht | ht
  · exact ht
  · rw [hw] at ht; simp at ht

/-- every entrypoint request has been processed -/
theorem entry_processed (h : trace w entries fuel = some s) (m : Nat) (hm : m ∈ entries) :
    Task.reqAll m true ∈ s.done := by
  obtain ⟨_, _, hle⟩ := run_inv w fuel _ s (init_inv w entries).1 h
  exact done_of_sched w entries fuel s h _ (hle.sched _ (Or.inr (List.mem_map.mpr ⟨m, hm, rfl⟩)))

theorem served_of_done (h : trace w entries fuel = some s) (t : Task) (ht : t ∈ s.done) : Served w s t :=
  (run_inv w fuel _ s (init_inv w entries).1 h).1 t ht

/-- a processed declaration request retains the declaration -/
theorem decl_retained (h : trace w entries fuel = some s) (m name : Nat) (d : Decl)
    (ht : Task.decl m name ∈ s.done) (hd : findDecl (w.mod m) name = some d) : (m, name) ∈ s.decls :=
  (served_of_done w entries fuel s h _ ht d hd).1

/-- **the emitted entrypoint exports exactly the names of the original**: every exported
declaration (including `default`) is retained, every local export specifier, every named
re-export and every star re-export is retained -/
theorem entry_exports_preserved (h : trace w entries fuel = some s) (m : Nat) (hm : m ∈ entries) :
    (∀ d ∈ (w.mod m).decls, d.exported = true → findDecl (w.mod m) d.name = some d → (m, d.name) ∈ s.decls) ∧
    (∀ p ∈ (w.mod m).exportLocal, (m, p.1) ∈ s.exportLocal) ∧
    (∀ p ∈ (w.mod m).exportFrom, (m, p.1) ∈ s.exportFrom) ∧
    (∀ x ∈ (w.mod m).stars, (m, x) ∈ s.stars) := by
  have hs := served_of_done w entries fuel s h _ (entry_processed w entries fuel s h m hm)
  obtain ⟨_, h1, h2, h3, h4⟩ := hs
  refine ⟨?_, fun p hp => (h2 p hp (by simp [keepL])).1, fun p hp => (h3 p hp (by simp [keepF])).1,
    fun x hx => (h4 x hx).1⟩
  intro d hd he hf
  have hsch := h1 d hd (by simp [exportedFor, he])
  exact decl_retained w entries fuel s h m d.name d (done_of_sched w entries fuel s h _ hsch) hf

/-- **nothing else appears**: a retained declaration is a declaration of its module that the public
API calls for — exported by a requested module, or referred to by the public signature of a
retained declaration, through imports and re-exports -/
theorem retained_is_justified (h : trace w entries fuel = some s) (m name : Nat) (hr : (m, name) ∈ s.decls) :
    Just w entries (.decl m name) ∧ (findDecl (w.mod m) name).isSome = true := by
  have i2 := run_inv2 w entries fuel _ s (init_inv w entries).2 h
  obtain ⟨hd, hf⟩ := i2.declsDone (m, name) hr
  exact ⟨i2.just _ (Or.inl hd), hf⟩

/-- **and everything the public API calls for is there**: every justified task has been processed -/
theorem justified_is_processed (h : trace w entries fuel = some s) (t : Task) (hj : Just w entries t) :
    t ∈ s.done := by
  have sv := served_of_done w entries fuel s h
  have dn := done_of_sched w entries fuel s h
  induction hj with
  | entry hm => exact entry_processed w entries fuel s h _ hm
  | allDecl _ hd he ih => exact dn _ ((sv _ ih).2.1 _ hd he)
  | allLocal _ hp hk ih => exact dn _ ((sv _ ih).2.2.1 _ hp hk).2
  | allFrom _ hp hk ih => exact dn _ ((sv _ ih).2.2.2.1 _ hp hk).2
  | allStar _ hx ih => exact dn _ ((sv _ ih).2.2.2.2 _ hx).2
  | nameDecl _ hd ih =>
    have := (sv _ ih).2
    simp only [hd] at this
    exact dn _ this
  | nameLocal _ hd hp ih =>
    have := (sv _ ih).2
    simp only [hd, hp] at this
    exact dn _ this.2
  | nameFrom _ hd hp hq ih =>
    have := (sv _ ih).2
    simp only [hd, hp, hq] at this
    exact dn _ this.2
  | nameStar _ hd hp hq hn hx ih =>
    have := (sv _ ih).2
    simp only [hd, hp, hq] at this
    exact dn _ (this hn _ hx).2
  | localDecl _ hd ih =>
    have := sv _ ih
    simp only [Served, hd] at this
    exact dn _ this
  | localImport _ hd hp ih =>
    have := sv _ ih
    simp only [Served, hd, hp] at this
    exact dn _ this.2
  | declRef _ hd hr ih => exact dn _ ((sv _ ih _ hd).2 _ hr)

/-- **exactly the public API**: a declaration is retained iff the public API calls for it -/
theorem retained_iff (h : trace w entries fuel = some s) (m name : Nat) :
    (m, name) ∈ s.decls ↔ (Just w entries (.decl m name) ∧ (findDecl (w.mod m) name).isSome = true) := by
  constructor
  · exact retained_is_justified w entries fuel s h m name
  · rintro ⟨hj, hf⟩
    obtain ⟨d, hd⟩ := Option.isSome_iff_exists.mp hf
    exact decl_retained w entries fuel s h m name d (justified_is_processed w entries fuel s h _ hj) hd

/-! non-vacuity: entry module 0 exports class A (refers to private B and to import C from module 1);
module 1 exports C and D; D is not part of the public API -/
def demo : World :=
  [ { decls := [{ name := 1, exported := true, isDefault := false, refs := [2, 3] },
                { name := 2, exported := false, isDefault := false, refs := [] },
                { name := 9, exported := false, isDefault := false, refs := [] }],
      imports := [(3, 1, 3)], exportFrom := [], stars := [], exportLocal := [] },
    { decls := [{ name := 3, exported := true, isDefault := false, refs := [] },
                { name := 4, exported := true, isDefault := false, refs := [] }],
      imports := [], exportFrom := [], stars := [], exportLocal := [] } ]

example : (trace demo [0] 100).map (fun s => (s.decls, s.imports)) = some ([(0, 1), (0, 2), (1, 3)], [(0, 3)]) := by
  decide

end DG.C11
