import Proofs.TraceJust
import Proofs.Subset
/-!
# C11 — fast check preserves the public API and drops everything else

Model: `DG/Trace.lean` (the public-API tracer).  `s` is the state of any run that finishes.
-/
namespace DG.C11
open DG.Trace

variable (w : World) (entries : List Nat) (fuel : Nat) (s : State)

/-- at completion "scheduled" means "processed" -/
theorem done_of_sched (h : trace w entries fuel = some s) (t : Task)
    (ht : Sched s t) : t ∈ s.done := by
  obtain ⟨_, hw, _⟩ := run_inv w fuel _ s (init_inv w entries).1 h
  rcases ht with ht | ht
  · exact ht
  · rw [hw] at ht; simp at ht

/-- every entrypoint request has been processed -/
theorem entry_processed (h : trace w entries fuel = some s) (m : Nat) (hm : m ∈ entries) :
    Task.reqAll m true ∈ s.done := by
  obtain ⟨_, _, hle⟩ := run_inv w fuel _ s (init_inv w entries).1 h
  exact done_of_sched w entries fuel s h _ (hle.sched _ (Or.inr (List.mem_map.mpr ⟨m, hm, rfl⟩)))

theorem served_of_done (h : trace w entries fuel = some s) (t : Task) (ht : t ∈ s.done) : Served w s t :=
  (run_inv w fuel _ s (init_inv w entries).1 h).1 t ht

/-- a processed declaration request retains the declaration -/
theorem decl_retained (h : trace w entries fuel = some s) (m name : Nat) (d : Decl)
    (ht : Task.decl m name ∈ s.done) (hd : findDecl (w.mod m) name = some d) : (m, name) ∈ s.decls :=
  (served_of_done w entries fuel s h _ ht d hd).1

/-- **the emitted entrypoint exports exactly the names of the original**: every exported
declaration (including `default`) is retained, every local export specifier, every named
re-export and every star re-export is retained -/
theorem entry_exports_preserved (h : trace w entries fuel = some s) (m : Nat) (hm : m ∈ entries) :
    (∀ d ∈ (w.mod m).decls, d.exported = true → findDecl (w.mod m) d.name = some d → (m, d.name) ∈ s.decls) ∧
    (∀ p ∈ (w.mod m).exportLocal, (m, p.1) ∈ s.exportLocal) ∧
    (∀ p ∈ (w.mod m).exportFrom, (m, p.1) ∈ s.exportFrom) ∧
    (∀ x ∈ (w.mod m).stars, (m, x) ∈ s.stars) := by
  have hs := served_of_done w entries fuel s h _ (entry_processed w entries fuel s h m hm)
  obtain ⟨_, h1, h2, h3, h4⟩ := hs
  refine ⟨?_, fun p hp => (h2 p hp (by simp [keepL])).1, fun p hp => (h3 p hp (by simp [keepF])).1,
    fun x hx => (h4 x hx).1⟩
  intro d hd he hf
  have hsch := h1 d hd (by simp [exportedFor, he])
  exact decl_retained w entries fuel s h m d.name d (done_of_sched w entries fuel s h _ hsch) hf

/-- **nothing else appears**: a retained declaration is a declaration of its module that the public
API calls for — exported by a requested module, or referred to by the public signature of a
retained declaration, through imports and re-exports -/
theorem retained_is_justified (h : trace w entries fuel = some s) (m name : Nat) (hr : (m, name) ∈ s.decls) :
    Just w entries (.decl m name) ∧ (findDecl (w.mod m) name).isSome = true := by
  have i2 := run_inv2 w entries fuel _ s (init_inv w entries).2 h
  obtain ⟨hd, hf⟩ := i2.declsDone (m, name) hr
  exact ⟨i2.just _ (Or.inl hd), hf⟩

/-- **and everything the public API calls for is there**: every justified task has been processed -/
theorem justified_is_processed (h : trace w entries fuel = some s) (t : Task) (hj : Just w entries t) :
    t ∈ s.done := by
  have sv := served_of_done w entries fuel s h
  have dn := done_of_sched w entries fuel s h
  induction hj with
  | entry hm => exact entry_processed w entries fuel s h _ hm
  | allDecl _ hd he ih => exact dn _ ((sv _ ih).2.1 _ hd he)
  | allLocal _ hp hk ih => exact dn _ ((sv _ ih).2.2.1 _ hp hk).2
  | allFrom _ hp hk ih => exact dn _ ((sv _ ih).2.2.2.1 _ hp hk).2
  | allStar _ hx ih => exact dn _ ((sv _ ih).2.2.2.2 _ hx).2
  | nameDecl _ hd ih =>
    have := (sv _ ih).2
    simp only [hd] at this
    exact dn _ this
  | nameLocal _ hd hp ih =>
    have := (sv _ ih).2
    simp only [hd, hp] at this
    exact dn _ this.2
  | nameFrom _ hd hp hq ih =>
    have := (sv _ ih).2
    simp only [hd, hp, hq] at this
    exact dn _ this.2
  | nameStar _ hd hp hq hsp ih =>
    have := (sv _ ih).2
    simp only [hd, hp, hq, hsp] at this
    exact dn _ this.2
  | localDecl _ hd ih =>
    have := sv _ ih
    simp only [Served, hd] at this
    exact dn _ this
  | localImport _ hd hp ih =>
    have := sv _ ih
    simp only [Served, hd, hp] at this
    exact dn _ this.2
  | declRef _ hd hr ih => exact dn _ ((sv _ ih _ hd).2.1 _ hr)
  | declQRef _ hd hq ih => exact dn _ ((sv _ ih _ hd).2.2 _ hq)
  | localNs _ hd hp hn ih =>
    have := sv _ ih
    simp only [Served, hd, hp, hn] at this
    exact dn _ this.2
  | qualNs _ hn ih =>
    have := sv _ ih
    simp only [Served, hn] at this
    exact dn _ this.2
  | qualLocal _ hn ih =>
    have := sv _ ih
    simp only [Served, hn] at this
    exact dn _ this

/-- **exactly the public API**: a declaration is retained iff the public API calls for it -/
theorem retained_iff (h : trace w entries fuel = some s) (m name : Nat) :
    (m, name) ∈ s.decls ↔ (Just w entries (.decl m name) ∧ (findDecl (w.mod m) name).isSome = true) := by
  constructor
  · exact retained_is_justified w entries fuel s h m name
  · rintro ⟨hj, hf⟩
    obtain ⟨d, hd⟩ := Option.isSome_iff_exists.mp hf
    exact decl_retained w entries fuel s h m name d (justified_is_processed w entries fuel s h _ hj) hd

/-! non-vacuity: entry module 0 exports class A (refers to private B and to import C from module 1);
module 1 exports C and D; D is not part of the public API -/
def demo : World :=
  [ { decls := [{ name := 1, exported := true, isDefault := false, refs := [2, 3] },
                { name := 2, exported := false, isDefault := false, refs := [] },
                { name := 9, exported := false, isDefault := false, refs := [] }],
      imports := [(3, 1, 3)], exportFrom := [], stars := [], exportLocal := [] },
    { decls := [{ name := 3, exported := true, isDefault := false, refs := [] },
                { name := 4, exported := true, isDefault := false, refs := [] }],
      imports := [], exportFrom := [], stars := [], exportLocal := [] } ]

example : (trace demo [0] 100).map (fun s => (s.decls, s.imports)) = some ([(0, 1), (0, 2), (1, 3)], [(0, 3)]) := by
  decide


/-! ## the bookkeeping of requests (`NamedSubset`, `Exports`, `ImportedExports`; `DG/Subset.lean`)

The tracer above treats "was this already requested" as a set of processed tasks.  The code keeps,
per module, a tree of export names with the members wanted of each, merges every new request into
it and traces only the difference.  These theorems are about that merge. -/
section Requests
open DG.Subset

/-- merging a request tree into another: the result covers both, and what the new one covers was
covered before or is in the difference -/
theorem tree_merge_complete (a b : Sub) (p : List String) :
    ((a.covers p = true ∨ b.covers p = true) → (Sub.extend a b).1.covers p = true) ∧
    (b.covers p = true → a.covers p = true ∨ (Sub.extend a b).2.covers p = true) :=
  ⟨Sub.extend_keeps a b p, Sub.extend_diff a b p⟩

/-- … and the result claims nothing that was neither covered before nor is in the difference -/
theorem tree_merge_sound (a b : Sub) (p : List String) (h : (Sub.extend a b).1.covers p = true) :
    a.covers p = true ∨ (Sub.extend a b).2.covers p = true :=
  Sub.extend_sound a b p h

/-- the same for a module's record (`*`, `*` with `default`, or a tree) -/
theorem record_merge_complete (a b : Imp) (p : List String) :
    ((a.covers p = true ∨ b.covers p = true) → (Imp.add a b).1.covers p = true) ∧
    (b.covers p = true → a.covers p = true ∨ ∃ d, (Imp.add a b).2 = some d ∧ d.covers p = true) :=
  ⟨Imp.add_keeps a b p, Imp.add_diff a b p⟩

theorem record_merge_sound (a b : Imp) (p : List String) (h : (Imp.add a b).1.covers p = true) :
    a.covers p = true ∨ ∃ d, (Imp.add a b).2 = some d ∧ d.covers p = true :=
  Imp.add_sound a b p h

/-- **no request is ever lost**: for any sequence of requests made of one module, every export
path some request covers is covered by one of the differences that were handed on for tracing -/
theorem every_request_is_traced (ts : List Imp) (t : Imp) (p : List String)
    (hm : t ∈ ts) (hc : t.covers p = true) :
    ∃ d ∈ (handledRun none ts).2, d.covers p = true := by
  rcases handledRun_complete ts none t p hm hc with h | h
  · simp [optCovers] at h
  · exact h

/-- finding F32 (repaired in /repo): the merge as it was took a partially requested `default` for
the whole of it when `*` came in.  After `Default.A`, then `*`, the record claimed `Default.B`
although neither the earlier request nor the difference covers it — a later request for it was
answered "already handled" and never traced -/
theorem old_merge_overclaims :
    let a := Imp.subset (Sub.fromParts ["default", "A"])
    (Imp.addOld a .star).1.covers ["default", "B"] = true ∧
    a.covers ["default", "B"] = false ∧
    (∀ d, (Imp.addOld a .star).2 = some d → d.covers ["default", "B"] = false) ∧
    (Imp.addOld (Imp.addOld a .star).1 (.subset (Sub.fromParts ["default", "B"]))).2 = none := by
  refine ⟨?_, ?_, ?_, ?_⟩
  · simp [Imp.addOld, Sub.fromParts, Sub.addQualified, Sub.get?, Sub.set, Sub.add, Sub.contains, Imp.covers]
  · simp [Sub.fromParts, Sub.addQualified, Sub.get?, Sub.set, Sub.add, Imp.covers, Sub.covers, Ex.covers]
  · intro d hd
    simp [Imp.addOld, Sub.fromParts, Sub.addQualified, Sub.get?, Sub.set, Sub.add, Sub.contains] at hd
    subst hd
    simp [Imp.covers]
  · simp [Imp.addOld, Imp.add, Sub.fromParts, Sub.addQualified, Sub.get?, Sub.set, Sub.add, Sub.contains]

/-- with the repaired merge the same history hands the rest of `default` on -/
example :
    (Imp.add (Imp.subset (Sub.fromParts ["default", "A"])) .star).2.map (·.covers ["default", "B"]) = some true := by
  simp [Imp.add, Sub.fromParts, Sub.addQualified, Sub.get?, Sub.set, Sub.add, Imp.covers]

end Requests

end DG.C11
