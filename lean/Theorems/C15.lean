import Proofs.WalkTerm
/-!
# C15 — a walk visits exactly the selected reachable set, each entry once

Model: `DG/Walk.lean` (`walkLoop`, the state machine of `ModuleEntryIterator::next`).
Specification: `DG.Enq` (Proofs/WalkInv.lean) — the set of specifiers the statement says are
enqueued — and `DG.yieldOf` — what is yielded for a specifier (module / error / redirect /
nothing), a function of the graph, the options and the specifier alone.

All theorems hold for every graph (well-formed or not), every option set, every client skip
predicate and every duplicate-free root list.
-/
namespace DG.C15
open DG Tables

variable (g : Graph) (o : WalkOpts) (skip : Spec → Bool) (roots : List Spec)

/-- the walk never runs out of the fuel `walkFuel` gives it -/
theorem walk_terminates (hnd : roots.Nodup) : (g.walk? o roots skip).isSome :=
  DG.walk_terminates hnd

/-- **exactness**: an entry is yielded iff the statement selects it. -/
theorem walk_eq_visits (hnd : roots.Nodup) (x : Spec) (e : Entry) :
    (x, e) ∈ g.walk o roots skip ↔ (Enq g o skip roots x ∧ yieldOf g o x = some e) := by
  have hsome := DG.walk_terminates (g := g) (o := o) (skip := skip) hnd
  rcases hw : g.walk? o roots skip with _ | out
  · rw [hw] at hsome; cases hsome
  · have := (walkLoop_spec (walkFuel g roots) _ [] out (inv_init hnd) hw).1 x e
    simpa [Graph.walk, hw] using this

/-- **each entry once**: the yielded specifiers are pairwise distinct. -/
theorem walk_nodup (hnd : roots.Nodup) : ((g.walk o roots skip).map (·.1)).Nodup := by
  have hsome := DG.walk_terminates (g := g) (o := o) (skip := skip) hnd
  rcases hw : g.walk? o roots skip with _ | out
  · rw [hw] at hsome; cases hsome
  · have := (walkLoop_spec (walkFuel g roots) _ [] out (inv_init hnd) hw).2
    simpa [Graph.walk, hw] using this

/-- the entry yielded for a specifier is determined by the specifier (so "the set of
specifiers" and "the set of entries" carry the same information) -/
theorem walk_entry_unique (hnd : roots.Nodup) (x : Spec) (e e' : Entry)
    (h : (x, e) ∈ g.walk o roots skip) (h' : (x, e') ∈ g.walk o roots skip) :
    yieldOf g o x = some e ∧ yieldOf g o x = some e' :=
  ⟨((walk_eq_visits g o skip roots hnd x e).mp h).2, ((walk_eq_visits g o skip roots hnd x e').mp h').2⟩

/-- the set yielded depends on the roots only as a set: reordering roots (or dependencies'
discovery order) never changes what is visited -/
theorem walk_order_irrelevant_for_set (roots' : List Spec) (hnd : roots.Nodup) (hnd' : roots'.Nodup)
    (hsame : ∀ x, x ∈ roots ↔ x ∈ roots') (x : Spec) (e : Entry) :
    (x, e) ∈ g.walk o roots skip ↔ (x, e) ∈ g.walk o roots' skip := by
  rw [walk_eq_visits g o skip roots hnd, walk_eq_visits g o skip roots' hnd']
  have key : ∀ r r' : List Spec, (∀ x, x ∈ r → x ∈ r') → ∀ y, Enq g o skip r y → Enq g o skip r' y := by
    intro r r' hsub y hy
    induction hy with
    | root h => exact Enq.root (hsub _ h)
    | imp h => exact Enq.imp h
    | typesDep _ ht ih => exact Enq.typesDep ih ht
    | succ _ ht ih => exact Enq.succ ih ht
  constructor
  · rintro ⟨h1, h2⟩; exact ⟨key roots roots' (fun x => (hsame x).mp) x h1, h2⟩
  · rintro ⟨h1, h2⟩; exact ⟨key roots' roots (fun x => (hsame x).mpr) x h1, h2⟩

/-! ## what `yieldOf` / `push1` / `succs` say, clause by clause of the statement -/

/-- an error entry is yielded as that error -/
theorem yield_error (s : Spec) (mi c es) (h : g.slot s = some (.err mi c es)) :
    yieldOf g o s = some (.err mi c es) ∧ push1 g o s = [] := by
  simp [yieldOf, push1, visitInfo, h]

/-- redirects are transparent: a slot-less redirect source is yielded as a redirect entry and
its target is what gets enqueued next (unless the client skips it) -/
theorem yield_redirect (s t : Spec) (hs : g.slot s = none) (hr : g.redirect s = some t) :
    yieldOf g o s = some (.redirect t) ∧ succOf g o skip s = (if skip s then [] else [t]) := by
  have hy : yieldOf g o s = some (.redirect t) := by simp [yieldOf, visitInfo, hs, hr]
  refine ⟨hy, ?_⟩
  simp [succOf, hy, succs]

/-- pending entries and unknown specifiers yield nothing and enqueue nothing -/
theorem yield_nothing (s : Spec) (h : g.slot s = some .pending ∨ (g.slot s = none ∧ g.redirect s = none)) :
    yieldOf g o s = none ∧ push1 g o s = [] ∧ succOf g o skip s = [] := by
  rcases h with h | ⟨h1, h2⟩
  · simp [yieldOf, push1, succOf, visitInfo, h]
  · simp [yieldOf, push1, succOf, visitInfo, h1, h2]

/-- when types are not included every module entry is yielded as it is, and no types
dependency is enqueued -/
theorem yield_module_no_types (s : Spec) (m : Mod) (h : g.slot s = some (.module m))
    (hk : o.kind.includeTypes = false) :
    yieldOf g o s = some (.module m) ∧ push1 g o s = [] := by
  cases m <;> simp [yieldOf, push1, visitInfo, h, hk]

/-- in a types-only walk an untyped module with a resolved types dependency is *replaced* by
that dependency: nothing is yielded for it, its types dependency is enqueued -/
theorem typesOnly_replaces_untyped (s t r : Spec) (mt deps td fc)
    (h : g.slot s = some (.module (.js mt deps (some td) fc))) (htd : td.res = .ok t r)
    (hk : o.kind = .TypesOnly) :
    yieldOf g o s = none ∧ push1 g o s = [t] := by
  simp [yieldOf, push1, visitInfo, h, htd, hk, GraphKind.includeTypes]

/-- with types included (and not types-only) the module is yielded *and* its types dependency
is enqueued -/
theorem all_keeps_module_and_types (s t r : Spec) (mt deps td fc)
    (h : g.slot s = some (.module (.js mt deps (some td) fc))) (htd : td.res = .ok t r)
    (hk : o.kind = .All) :
    yieldOf g o s = some (.module (.js mt deps (some td) fc)) ∧ push1 g o s = [t] := by
  simp [yieldOf, push1, visitInfo, h, htd, hk, GraphKind.includeTypes]

/-- the dependencies followed from a yielded module: its (fast-check, when preferred and
checkable) dependencies that are static or followed, code targets always, type targets only
when types are included -/
theorem followed_targets (key t : Spec) (m : Mod) :
    t ∈ succs o key (.module m) ↔
      ∃ d ∈ walkDeps o key m, (d.dyn = false ∨ o.followDynamic = true) ∧ t ∈ depTargets o.kind d := by
  simp only [succs, depEdgeTargets, List.mem_flatMap, List.mem_reverse]
  constructor
  · rintro ⟨d, hd, ht⟩
    split at ht
    · rename_i hc
      refine ⟨d, hd, ?_, ht⟩
      cases hdyn : d.dyn <;> simp_all
    · cases ht
  · rintro ⟨d, hd, hc, ht⟩
    refine ⟨d, hd, ?_⟩
    have : (!d.dyn || o.followDynamic) = true := by
      rcases hc with h | h <;> simp [h]
    simp [this, ht]

theorem depTargets_no_types (d : Dep) (kind : GraphKind) (hk : kind.includeTypes = false) (t : Spec) :
    t ∈ depTargets kind d ↔ d.code.okSpec? = some t := by
  unfold depTargets Res.okSpec?
  cases d.code <;> simp [hk] <;> exact eq_comm

theorem depTargets_with_types (d : Dep) (kind : GraphKind) (hk : kind.includeTypes = true) (t : Spec) :
    t ∈ depTargets kind d ↔ (d.code.okSpec? = some t ∨ d.type.okSpec? = some t) := by
  unfold depTargets Res.okSpec?
  cases d.code <;> cases d.type <;> simp [hk] <;> grind

/-- a skipped module contributes no dependencies -/
theorem skip_cuts_dependencies (s : Spec) (h : skip s = true) : succOf g o skip s = [] := by
  unfold succOf
  split <;> simp [h]

/-- fast-check dependencies are used exactly when requested, types are included and the module
is checkable -/
theorem fast_check_deps_when (key : Spec) (m : Mod) :
    walkDeps o key m =
      (if o.kind.includeTypes && isCheckable o key m.mediaType && o.preferFastCheck
       then m.depsPreferFastCheck else m.deps) := by
  simp [walkDeps]

/-! ## the error listing -/

/-- an error *attached* to a visited entry `(x, e)`: one the entry contributes in place, or — for
a missing entry visited while dynamic imports are followed — the entry's own error, which is
listed when no visited import surfaced that entry in place -/
def Attached (x : Spec) (e : Entry) (err : ErrOut) : Prop :=
  err ∈ entryErrors g o x e ∨
  (o.followDynamic = true ∧ ∃ code es, e = .err true code es ∧ err = .moduleErr code ∧
    ¬ ∃ y ey, Enq g o (fun _ => false) roots y ∧ yieldOf g o y = some ey ∧ x ∈ entrySurfaced g o y ey)

theorem mem_surfacedIn (hnd : roots.Nodup) (k : Spec) :
    k ∈ surfacedIn g o (g.walk o roots) ↔
      ∃ y ey, Enq g o (fun _ => false) roots y ∧ yieldOf g o y = some ey ∧ k ∈ entrySurfaced g o y ey := by
  simp only [surfacedIn, List.mem_flatMap]
  constructor
  · rintro ⟨⟨y, ey⟩, hm, hk⟩
    obtain ⟨h1, h2⟩ := (walk_eq_visits g o (fun _ => false) roots hnd y ey).mp hm
    exact ⟨y, ey, h1, h2, hk⟩
  · rintro ⟨y, ey, h1, h2, hk⟩
    exact ⟨(y, ey), (walk_eq_visits g o (fun _ => false) roots hnd y ey).mpr ⟨h1, h2⟩, hk⟩

theorem deferredError_eq_some (sf : List Spec) (x : Spec) (e : Entry) (err : ErrOut) :
    deferredError o sf (x, e) = some err ↔
      (o.followDynamic = true ∧ ∃ code es, e = .err true code es ∧ err = .moduleErr code ∧ x ∉ sf) := by
  cases e with
  | module m => simp [deferredError]
  | redirect t => simp [deferredError]
  | err mi c es =>
    cases mi
    · simp [deferredError]
    · simp only [deferredError]
      by_cases hf : o.followDynamic = true <;> by_cases hx : x ∈ sf <;>
        simp [hf, hx, eq_comm]

/-- **the error listing contains precisely the errors attached to what the walk visited** -/
theorem errors_eq_attached (hnd : roots.Nodup) (err : ErrOut) :
    err ∈ g.errors o roots ↔
      ∃ x e, Enq g o (fun _ => false) roots x ∧ yieldOf g o x = some e ∧ Attached g o roots x e err := by
  simp only [Graph.errors, Tables.errorsReportSkippedMissing, if_true, List.mem_append, List.mem_flatMap,
    List.mem_reverse, List.mem_filterMap, Attached]
  constructor
  · rintro (⟨⟨x, e⟩, hm, he⟩ | ⟨⟨x, e⟩, hm, he⟩)
    · obtain ⟨h1, h2⟩ := (walk_eq_visits g o (fun _ => false) roots hnd x e).mp hm
      exact ⟨x, e, h1, h2, Or.inl he⟩
    · obtain ⟨h1, h2⟩ := (walk_eq_visits g o (fun _ => false) roots hnd x e).mp hm
      obtain ⟨hf, code, es, he1, he2, hns⟩ := (deferredError_eq_some o _ x e err).mp he
      exact ⟨x, e, h1, h2, Or.inr ⟨hf, code, es, he1, he2,
        fun hex => hns ((mem_surfacedIn g o roots hnd x).mpr hex)⟩⟩
  · rintro ⟨x, e, h1, h2, (he | ⟨hf, code, es, he1, he2, hns⟩)⟩
    · exact Or.inl ⟨(x, e), (walk_eq_visits g o (fun _ => false) roots hnd x e).mpr ⟨h1, h2⟩, he⟩
    · exact Or.inr ⟨(x, e), (walk_eq_visits g o (fun _ => false) roots hnd x e).mpr ⟨h1, h2⟩,
        (deferredError_eq_some o _ x e err).mpr ⟨hf, code, es, he1, he2,
          fun hm => hns ((mem_surfacedIn g o roots hnd x).mp hm)⟩⟩

/-! ## non-vacuity: a concrete graph with a redirect, a types dependency and a dynamic edge -/

def demo : Graph :=
  { kind := .All, roots := [0],
    slots := [(0, .module (.js .TypeScript
                [{ text := 0, fileText := false, code := .ok 1 0, type := .none, dyn := false },
                 { text := 1, fileText := false, code := .ok 4 1, type := .none, dyn := true }]
                none none)),
              (2, .module (.js .JavaScript [] (some { text := 2, fileText := false, res := .ok 3 2 }) none)),
              (3, .module (.js .Dts [] none none)),
              (4, .err true 7 4)],
    redirects := [(1, 2)], imports := [], schemes := [] }

def demoOpts (k : GraphKind) (fd : Bool) : WalkOpts :=
  { kind := k, followDynamic := fd, checkJs := fun _ => true, preferFastCheck := false }

example : (demo.walk (demoOpts .All false) [0]).map (·.1) = [0, 1, 2, 3] := by decide
example : (demo.walk (demoOpts .TypesOnly true) [0]).map (·.1) = [0, 1, 3, 4] := by decide
example : (demo.walk (demoOpts .CodeOnly false) [0]).map (·.1) = [0, 1, 2] := by decide

end DG.C15
