import Theorems.C15
/-!
# C02 — validation fails exactly when a followed edge reaches a failure

Model: `DG/Walk.lean` (`checkResolution`, `entryErrors`, `Graph.errors`, `Graph.validate`,
`Graph.valid`), on top of the walk characterisation of C15.
-/
namespace DG.C02
open DG Tables

variable (g : Graph) (o : WalkOpts)

/-- a resolution the policy of `check_resolution` rejects, spelled from the statement -/
def BadRes (referrer : Spec) (fileText : Bool) (r : Res) : Prop :=
  match r with
  | .err _ => True
  | .none => False
  | .ok s _ =>
    (g.scheme referrer = .https ∧ g.scheme s = .http) ∨
    ((g.scheme referrer = .https ∨ g.scheme referrer = .http) ∧ g.scheme s = .file ∧ fileText = true) ∨
    (o.followDynamic = true ∧ ∃ c es, g.slot (g.resolve s) = some (.err true c es))

theorem checkResolution_isSome_iff (referrer : Spec) (types fileText : Bool) (r : Res) (dyn : Bool) :
    (checkResolution g o referrer types fileText r dyn).isSome ↔ BadRes g o referrer fileText r := by
  unfold checkResolution BadRes
  cases r with
  | none => simp
  | err c => simp
  | ok s rng =>
    simp only
    by_cases h1 : g.scheme referrer = .https ∧ g.scheme s = .http
    · simp [h1]
    · by_cases h2 : (g.scheme referrer = .https ∨ g.scheme referrer = .http) ∧ g.scheme s = .file ∧ fileText = true
      · have h1' : ¬ (g.scheme referrer = .https && g.scheme s = .http) = true := by simpa using h1
        have h2' : ((g.scheme referrer = .https || g.scheme referrer = .http) && g.scheme s = .file && fileText) = true := by
          simpa [Bool.and_assoc] using h2
        simp [h1', h2', h2]
      · have h1' : ¬ (g.scheme referrer = .https && g.scheme s = .http) = true := by simpa using h1
        have h2' : ¬ ((g.scheme referrer = .https || g.scheme referrer = .http) && g.scheme s = .file && fileText) = true := by
          simpa [Bool.and_assoc] using h2
        simp only [h1', h2', if_false, h1, h2, false_or]
        by_cases hf : o.followDynamic = true
        · simp only [hf, if_true, true_and]
          rcases hs : g.slot (g.resolve s) with _ | sl
          · simp
          · cases sl with
            | module m => simp
            | pending => simp
            | err mi c es =>
              cases mi
              · simp
              · cases dyn <;> simp
        · simp [hf]

/-- what one visited entry contributes *in place* (while it is the walk's current entry) -/
inductive InPlace (key : Spec) : Entry → Prop where
  /-- a load / parse / unsupported-module error entry (a `Missing` entry is deferred while
  dynamic imports are followed: it is reported at the import, or at the end of the walk) -/
  | errorEntry {mi c es} : ¬ (o.followDynamic = true ∧ mi = true) → InPlace key (.err mi c es)
  /-- the module's own types dependency, when types are included -/
  | typesDep {m td} : o.kind.includeTypes = true → m.typesDep = some td →
      BadRes g o key td.fileText td.res → InPlace key (.module m)
  /-- the code side of a followed dependency -/
  | code {m d} : d ∈ walkDeps o key m → (o.followDynamic = true ∨ d.dyn = false) →
      BadRes g o key d.fileText d.code → InPlace key (.module m)
  /-- the type side of a followed dependency of a checkable module, when types are included -/
  | type {m d} : d ∈ walkDeps o key m → (o.followDynamic = true ∨ d.dyn = false) →
      (o.kind.includeTypes && isCheckable o key m.mediaType) = true →
      BadRes g o key d.fileText d.type → InPlace key (.module m)

/-- the statement's failure predicate for one visited entry: **every** error entry, and a module
with a rejected resolution on a selected side -/
inductive Failure (key : Spec) : Entry → Prop where
  | errorEntry {mi c es} : Failure key (.err mi c es)
  | typesDep {m td} : o.kind.includeTypes = true → m.typesDep = some td →
      BadRes g o key td.fileText td.res → Failure key (.module m)
  | code {m d} : d ∈ walkDeps o key m → (o.followDynamic = true ∨ d.dyn = false) →
      BadRes g o key d.fileText d.code → Failure key (.module m)
  | type {m d} : d ∈ walkDeps o key m → (o.followDynamic = true ∨ d.dyn = false) →
      (o.kind.includeTypes && isCheckable o key m.mediaType) = true →
      BadRes g o key d.fileText d.type → Failure key (.module m)

theorem InPlace.failure {key : Spec} {e : Entry} (h : InPlace g o key e) : Failure g o key e := by
  cases h with
  | errorEntry _ => exact .errorEntry
  | typesDep a b c => exact .typesDep a b c
  | code a b c => exact .code a b c
  | type a b c d => exact .type a b c d

/-- a failure that is not reported in place is a missing entry visited while dynamic imports
are followed -/
theorem Failure.inPlace_or_deferred {key : Spec} {e : Entry} (h : Failure g o key e) :
    InPlace g o key e ∨ (o.followDynamic = true ∧ ∃ c es, e = .err true c es) := by
  cases h with
  | @errorEntry mi c es =>
    by_cases hc : o.followDynamic = true ∧ mi = true
    · exact Or.inr ⟨hc.1, c, es, by rw [hc.2]⟩
    · exact Or.inl (.errorEntry hc)
  | typesDep a b c => exact Or.inl (.typesDep a b c)
  | code a b c => exact Or.inl (.code a b c)
  | type a b c d => exact Or.inl (.type a b c d)

theorem toList_ne_nil_iff {α} (x : Option α) : x.toList ≠ [] ↔ x.isSome := by
  cases x <;> simp

/-- an entry contributes an error in place exactly when `InPlace` holds -/
theorem entryErrors_ne_nil_iff (key : Spec) (e : Entry) :
    entryErrors g o key e ≠ [] ↔ InPlace g o key e := by
  cases e with
  | redirect t =>
    simp only [entryErrors, ne_eq, not_true_eq_false, false_iff]
    intro h; cases h
  | err mi c es =>
    simp only [entryErrors]
    constructor
    · intro h
      apply InPlace.errorEntry
      intro ⟨h1, h2⟩
      simp [h1, h2] at h
    · intro h
      cases h with
      | errorEntry hn =>
        by_cases hc : (o.followDynamic && mi) = true
        · exfalso; apply hn; simpa using hc
        · simp [hc]
  | module m =>
    simp only [entryErrors, ne_eq, List.append_eq_nil_iff, Classical.not_and_iff_not_or_not]
    constructor
    · rintro (h | h)
      · -- types dependency
        by_cases hk : o.kind.includeTypes = true
        · simp only [hk, if_true] at h
          rcases htd : m.typesDep with _ | td
          · simp [htd] at h
          · simp only [htd] at h
            exact InPlace.typesDep hk htd
              ((checkResolution_isSome_iff g o key true td.fileText td.res false).mp
                ((toList_ne_nil_iff _).mp h))
        · simp [hk] at h
      · -- dependencies
        simp only [List.flatMap_eq_nil_iff] at h
        have hex : ∃ d, d ∈ walkDeps o key m ∧
            (if (o.followDynamic || !d.dyn) = true then
              (checkResolution g o key false d.fileText d.code d.dyn).toList ++
                if (o.kind.includeTypes && isCheckable o key m.mediaType) = true then
                  (checkResolution g o key true d.fileText d.type d.dyn).toList
                else []
            else []) ≠ [] := by
          apply Classical.byContradiction
          intro hc
          apply h
          intro d hd
          apply Classical.byContradiction
          intro hne
          exact hc ⟨d, hd, hne⟩
        obtain ⟨d, hd, hne⟩ := hex
        by_cases hf : (o.followDynamic || !d.dyn) = true
        · simp only [hf, if_true] at hne
          have hf' : o.followDynamic = true ∨ d.dyn = false := by
            cases h1 : o.followDynamic <;> cases h2 : d.dyn <;> simp_all
          by_cases hcode : (checkResolution g o key false d.fileText d.code d.dyn).toList = []
          · by_cases hct : (o.kind.includeTypes && isCheckable o key m.mediaType) = true
            · simp only [hcode, hct, if_true, List.nil_append] at hne
              exact InPlace.type hd hf' hct
                ((checkResolution_isSome_iff g o key true d.fileText d.type d.dyn).mp
                  ((toList_ne_nil_iff _).mp hne))
            · simp [hcode, hct] at hne
          · exact InPlace.code hd hf'
              ((checkResolution_isSome_iff g o key false d.fileText d.code d.dyn).mp
                ((toList_ne_nil_iff _).mp hcode))
        · simp [hf] at hne
    · intro h
      cases h with
      | typesDep hk htd hb =>
        left
        simp only [hk, if_true, htd]
        exact (toList_ne_nil_iff _).mpr ((checkResolution_isSome_iff g o key true _ _ false).mpr hb)
      | code hd hf hb =>
        right
        simp only [List.flatMap_eq_nil_iff]
        rename_i d
        intro hall
        have hnil := hall d hd
        have hf' : (o.followDynamic || !d.dyn) = true := by
          rcases hf with h | h <;> simp [h]
        simp only [hf', if_true, List.append_eq_nil_iff] at hnil
        exact (toList_ne_nil_iff _).mpr ((checkResolution_isSome_iff g o key false _ _ d.dyn).mpr hb) hnil.1
      | type hd hf hct hb =>
        right
        simp only [List.flatMap_eq_nil_iff]
        rename_i d
        intro hall
        have hnil := hall d hd
        have hf' : (o.followDynamic || !d.dyn) = true := by
          rcases hf with h | h <;> simp [h]
        simp only [hf', if_true, List.append_eq_nil_iff, hct] at hnil
        exact (toList_ne_nil_iff _).mpr ((checkResolution_isSome_iff g o key true _ _ d.dyn).mpr hb) hnil.2

variable (roots : List Spec)

/-- whenever an import surfaces a missing entry in place, it reports an error there -/
theorem surfacedKey_isSome (referrer : Spec) (types fileText : Bool) (r : Res) (dyn : Bool) (k : Spec)
    (h : surfacedKey g o referrer fileText r = some k) :
    (checkResolution g o referrer types fileText r dyn).isSome := by
  unfold surfacedKey at h
  unfold checkResolution
  cases r with
  | none => simp at h
  | err c => simp at h
  | ok s rng =>
    simp only at h ⊢
    split at h
    · cases h
    · split at h
      · cases h
      · rename_i h1 h2
        simp only [h1, h2, if_false]
        split at h
        · rename_i hf
          simp only [hf, if_true]
          split at h
          · cases dyn <;> simp
          · cases h
        · cases h

/-- an entry that surfaces something in place contributes an error in place -/
theorem entryErrors_ne_nil_of_surfaced (key k : Spec) (e : Entry) (h : k ∈ entrySurfaced g o key e) :
    entryErrors g o key e ≠ [] := by
  cases e with
  | redirect t => simp [entrySurfaced] at h
  | err mi c es => simp [entrySurfaced] at h
  | module m =>
    simp only [entrySurfaced, List.mem_append, List.mem_flatMap] at h
    simp only [entryErrors, ne_eq, List.append_eq_nil_iff, Classical.not_and_iff_not_or_not]
    rcases h with h | ⟨d, hd, h⟩
    · left
      by_cases hk : o.kind.includeTypes = true
      · simp only [hk, if_true] at h ⊢
        rcases htd : m.typesDep with _ | td
        · simp [htd] at h
        · simp only [htd] at h ⊢
          have hk' : surfacedKey g o key td.fileText td.res = some k := by
            cases hh : surfacedKey g o key td.fileText td.res <;> simp_all
          exact (toList_ne_nil_iff _).mpr (surfacedKey_isSome g o key true _ _ false k hk')
      · simp [hk] at h
    · right
      simp only [List.flatMap_eq_nil_iff]
      intro hall
      have hnil := hall d hd
      by_cases hf : (o.followDynamic || !d.dyn) = true
      · simp only [hf, if_true, List.mem_append, List.append_eq_nil_iff] at h hnil
        rcases h with h | h
        · have hk' : surfacedKey g o key d.fileText d.code = some k := by
            cases hh : surfacedKey g o key d.fileText d.code <;> simp_all
          exact (toList_ne_nil_iff _).mpr (surfacedKey_isSome g o key false _ _ d.dyn k hk') hnil.1
        · by_cases hct : (o.kind.includeTypes && isCheckable o key m.mediaType) = true
          · simp only [hct, if_true] at h hnil
            have hk' : surfacedKey g o key d.fileText d.type = some k := by
              cases hh : surfacedKey g o key d.fileText d.type <;> simp_all
            exact (toList_ne_nil_iff _).mpr (surfacedKey_isSome g o key true _ _ d.dyn k hk') hnil.2
          · simp [hct] at h
      · simp [hf] at h

/-- **validation succeeds iff no failure is reachable along the selected edges**: `Failure` counts
every visited error entry — also a missing root, configured import or redirect target visited
while dynamic imports are followed (repair of F5) -/
theorem validate_ok_iff (hnd : roots.Nodup) :
    g.validate o roots = none ↔
      ∀ x e, Enq g o (fun _ => false) roots x → yieldOf g o x = some e → ¬ Failure g o x e := by
  have hmem := C15.errors_eq_attached g o roots hnd
  simp only [Graph.validate, List.head?_eq_none_iff]
  constructor
  · intro hnil x e hx hy hf
    have hempty : ∀ err, err ∉ g.errors o roots := by rw [hnil]; simp
    rcases Failure.inPlace_or_deferred g o hf with hp | ⟨hfd, c, es, he⟩
    · have hne := (entryErrors_ne_nil_iff g o x e).mpr hp
      obtain ⟨err, herr⟩ := List.exists_mem_of_ne_nil _ hne
      exact hempty err ((hmem err).mpr ⟨x, e, hx, hy, Or.inl herr⟩)
    · by_cases hs : ∃ y ey, Enq g o (fun _ => false) roots y ∧ yieldOf g o y = some ey ∧
          x ∈ entrySurfaced g o y ey
      · obtain ⟨y, ey, hy1, hy2, hy3⟩ := hs
        have hne := entryErrors_ne_nil_of_surfaced g o y x ey hy3
        obtain ⟨err, herr⟩ := List.exists_mem_of_ne_nil _ hne
        exact hempty err ((hmem err).mpr ⟨y, ey, hy1, hy2, Or.inl herr⟩)
      · exact hempty (.moduleErr c)
          ((hmem _).mpr ⟨x, e, hx, hy, Or.inr ⟨hfd, c, es, he, rfl, hs⟩⟩)
  · intro h
    apply List.eq_nil_iff_forall_not_mem.mpr
    intro err herr
    obtain ⟨x, e, hx, hy, (he | ⟨_, c, es, he, _, _⟩)⟩ := (hmem err).mp herr
    · exact h x e hx hy ((entryErrors_ne_nil_iff g o x e).mp (List.ne_nil_of_mem he)).failure
    · exact h x e hx hy (he ▸ Failure.errorEntry)

/-- the reported error belongs to a visited entry that is a failure (it names that entry's
specifier / the resolved target and the referring range: see `checkResolution`) -/
theorem validate_error_is_reachable_failure (hnd : roots.Nodup) (err : ErrOut)
    (h : g.validate o roots = some err) :
    ∃ x e, Enq g o (fun _ => false) roots x ∧ yieldOf g o x = some e ∧
      C15.Attached g o roots x e err ∧ Failure g o x e := by
  have hm : err ∈ g.errors o roots := List.mem_of_mem_head? (by simpa [Graph.validate] using h)
  obtain ⟨x, e, hx, hy, he⟩ := (C15.errors_eq_attached g o roots hnd err).mp hm
  refine ⟨x, e, hx, hy, he, ?_⟩
  rcases he with he | ⟨_, c, es, he, _, _⟩
  · exact ((entryErrors_ne_nil_iff g o x e).mp (List.ne_nil_of_mem he)).failure
  · exact he ▸ Failure.errorEntry

/-- the options `valid()` uses -/
def defaultOpts : WalkOpts :=
  { kind := .CodeOnly, followDynamic := false, checkJs := fun _ => true, preferFastCheck := false }

/-- `valid()` is `validate` with the default code options from the graph's own roots -/
theorem valid_ok_iff (hnd : g.roots.Nodup) :
    g.valid = none ↔
      ∀ x e, Enq g defaultOpts (fun _ => false) g.roots x → yieldOf g defaultOpts x = some e →
        ¬ Failure g defaultOpts x e :=
  validate_ok_iff g defaultOpts g.roots hnd

/-- **type-only failures never fail code validation**: when types are not included a module is a
failure only through the *code* side of one of its own recorded dependencies — type
resolutions, types dependencies and fast-check data play no role … -/
theorem type_only_failure_ignored (hk : o.kind.includeTypes = false) (key : Spec) (m : Mod) :
    Failure g o key (.module m) ↔
      ∃ d ∈ m.deps, (o.followDynamic = true ∨ d.dyn = false) ∧ BadRes g o key d.fileText d.code := by
  have hdeps : walkDeps o key m = m.deps := by simp [walkDeps, hk]
  constructor
  · intro h
    cases h with
    | typesDep hk' _ _ => rw [hk] at hk'; cases hk'
    | code hd hf hb => rw [hdeps] at hd; exact ⟨_, hd, hf, hb⟩
    | type _ _ hct _ => simp [hk] at hct
  · rintro ⟨d, hd, hf, hb⟩
    exact Failure.code (by rw [hdeps]; exact hd) hf hb

/-- … and type targets are never even enqueued (reachability ignores them) -/
theorem type_targets_not_followed (hk : o.kind.includeTypes = false) (d : Dep) (t : Spec) :
    t ∈ depTargets o.kind d ↔ d.code.okSpec? = some t :=
  C15.depTargets_no_types d o.kind hk t

/-- **unfollowed dynamic edges never fail validation**: without `follow_dynamic` a dependency can
make its module a failure only if it is static … -/
theorem unfollowed_dynamic_ignored (hf : o.followDynamic = false) (key : Spec) (m : Mod)
    (h : Failure g o key (.module m)) :
    (∃ td, m.typesDep = some td ∧ BadRes g o key td.fileText td.res) ∨
    (∃ d ∈ walkDeps o key m, d.dyn = false ∧
      (BadRes g o key d.fileText d.code ∨ BadRes g o key d.fileText d.type)) := by
  cases h with
  | typesDep _ htd hb => exact Or.inl ⟨_, htd, hb⟩
  | code hd hfd hb =>
    rcases hfd with h | h
    · rw [hf] at h; cases h
    · exact Or.inr ⟨_, hd, h, Or.inl hb⟩
  | type hd hfd _ hb =>
    rcases hfd with h | h
    · rw [hf] at h; cases h
    · exact Or.inr ⟨_, hd, h, Or.inr hb⟩

/-- … and its target is not enqueued either -/
theorem unfollowed_dynamic_not_enqueued (hf : o.followDynamic = false) (key t : Spec) (m : Mod)
    (h : t ∈ succs o key (.module m)) :
    ∃ d ∈ walkDeps o key m, d.dyn = false ∧ t ∈ depTargets o.kind d := by
  obtain ⟨d, hd, hc, ht⟩ := (C15.followed_targets o key t m).mp h
  rcases hc with hc | hc
  · exact ⟨d, hd, hc, ht⟩
  · rw [hf] at hc; cases hc

/-- a missing module that is the resolved target of a followed dependency is reported in place,
at that import … -/
theorem missing_reported_in_place (hfd : o.followDynamic = true) (key : Spec) (m : Mod) (d : Dep)
    (hd : d ∈ walkDeps o key m) (s rng c es : Nat) (hc : d.code = .ok s rng)
    (hmiss : g.slot (g.resolve s) = some (.err true c es)) :
    InPlace g o key (.module m) :=
  InPlace.code hd (Or.inl hfd) (by
    unfold BadRes
    rw [hc]
    exact Or.inr (Or.inr ⟨hfd, c, es, hmiss⟩))

/-- … and **no reachable failure is ever skipped**: every visited error entry — whatever made the
walk visit it: a root, a configured import, a redirect, a dependency — makes validation fail.
(Before the repair of F5 this was false for missing roots under `follow_dynamic`; the
counterexample graph is `missingRoot` below.) -/
theorem missing_never_dropped (hnd : roots.Nodup) (x : Spec) (mi : Bool) (c es : Nat)
    (h : (x, Entry.err mi c es) ∈ g.walk o roots) : g.validate o roots ≠ none := by
  intro hv
  obtain ⟨h1, h2⟩ := (C15.walk_eq_visits g o (fun _ => false) roots hnd x _).mp h
  exact (validate_ok_iff g o roots hnd).mp hv x _ h1 h2 Failure.errorEntry

/-- likewise for a visited module with a rejected resolution on a selected side -/
theorem failure_never_dropped (hnd : roots.Nodup) (x : Spec) (e : Entry)
    (h : (x, e) ∈ g.walk o roots) (hf : Failure g o x e) : g.validate o roots ≠ none := by
  intro hv
  obtain ⟨h1, h2⟩ := (C15.walk_eq_visits g o (fun _ => false) roots hnd x _).mp h
  exact (validate_ok_iff g o roots hnd).mp hv x _ h1 h2 hf

/-- a graph whose only root is missing (F5's input) -/
def missingRoot : Graph :=
  { kind := .All, roots := [0], slots := [(0, .err true 5 0)], redirects := [], imports := [], schemes := [] }

/-- with `follow_dynamic` the missing root is now reported -/
example : missingRoot.validate
    { kind := .All, followDynamic := true, checkJs := fun _ => true, preferFastCheck := false } [0]
    = some (.moduleErr 5) := by decide

/-- non-vacuity of `validate_ok_iff`: a failing and a passing graph -/
example : C15.demo.validate (C15.demoOpts .All true) [0] = some (.missingDynamic 4 1) := by decide
example : C15.demo.valid = none := by decide

end DG.C02
