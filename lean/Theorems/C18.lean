import DG.Segment
import Theorems.C15
/-!
# C18 — a graph segment is self-contained and equals a direct build of its roots

Model: `DG/Segment.lean` (`segment` = clone shortcut, otherwise the entries of a walk with the
graph's own kind, following dynamic imports, check_js on) on top of the walk model, whose exact
characterisation is C15's theorem.
-/
namespace DG.C18
open DG Tables

/-- **clone shortcut**: asking for roots the graph already has returns the graph itself -/
theorem segment_clone (g : Graph) (roots : List Spec)
    (h : (dedup roots).all (fun r => g.roots.contains r) = true) : g.segment roots = g := by
  unfold Graph.segment
  simp only [h, if_true]

/-- what a yielded entry says about the original graph -/
theorem yield_module_is_slot (g : Graph) (o : WalkOpts) (k : Spec) (m : Mod)
    (h : yieldOf g o k = some (.module m)) : g.slot k = some (.module m) := by
  unfold yieldOf visitInfo at h
  split at h
  · cases h
  · rename_i m' hs
    have : m = m' := by
      split at h
      · split at h
        · split at h
          · split at h <;> simp at h <;> exact h.symm
          · split at h <;> simp at h <;> exact h.symm
        · simp at h; exact h.symm
      · simp at h; exact h.symm
    subst this
    exact hs
  · simp at h
  · split at h <;> simp at h

theorem yield_err_is_slot (g : Graph) (o : WalkOpts) (k : Spec) (mi c es)
    (h : yieldOf g o k = some (.err mi c es)) : g.slot k = some (.err mi c es) := by
  unfold yieldOf visitInfo at h
  split at h
  · cases h
  · split at h
    · split at h
      · split at h
        · split at h <;> simp at h
        · split at h <;> simp at h
      · simp at h
    · simp at h
  · rename_i mi' c' es' hs
    simp at h
    obtain ⟨rfl, rfl, rfl⟩ := h
    exact hs
  · split at h <;> simp at h

theorem yield_redirect_is_redirect (g : Graph) (o : WalkOpts) (k to : Spec)
    (h : yieldOf g o k = some (.redirect to)) : g.slot k = none ∧ g.redirect k = some to := by
  unfold yieldOf visitInfo at h
  split at h
  · cases h
  · split at h
    · split at h
      · split at h
        · split at h <;> simp at h
        · split at h <;> simp at h
      · simp at h
    · simp at h
  · simp at h
  · rename_i hs
    split at h
    · rename_i to' hr
      simp at h
      subst h
      exact ⟨hs, hr⟩
    · cases h

variable (g : Graph) (roots : List Spec)

/-- the segment taken when some requested root is new -/
def walked (g : Graph) (roots : List Spec) : List (Spec × Entry) := g.walk (segmentOpts g) (dedup roots)

theorem dedup_nodup (l : List Spec) : (dedup l).Nodup := by
  unfold dedup
  have key : ∀ (l acc : List Spec), acc.Nodup →
      (l.foldl (fun acc x => if acc.contains x then acc else acc ++ [x]) acc).Nodup := by
    intro l
    induction l with
    | nil => intro acc h; exact h
    | cons a l ih =>
      intro acc h
      simp only [List.foldl_cons]
      apply ih
      split
      · exact h
      · rename_i hc
        rw [List.nodup_append]
        refine ⟨h, by simp, ?_⟩
        intro x hx y hy hxy
        simp only [List.mem_cons, List.not_mem_nil, or_false] at hy
        subst hy
        subst hxy
        exact hc (by simpa using hx)
  exact key l [] (by simp)

/-- **faithful entries**: every module or error entry of the segment is the original graph's
entry under the same key — same module (with all its recorded dependencies) or same error -/
theorem segment_slot_faithful (hnew : (dedup roots).all (fun r => g.roots.contains r) = false)
    (k : Spec) (sl : Slot) (h : (k, sl) ∈ (g.segment roots).slots) : g.slot k = some sl := by
  simp only [Graph.segment, hnew, Bool.false_eq_true, if_false, List.mem_filterMap] at h
  obtain ⟨⟨k', e⟩, hmem, hes⟩ := h
  have hy := ((C15.walk_eq_visits g (segmentOpts g) (fun _ => false) (dedup roots) (dedup_nodup roots) k' e).mp hmem).2
  cases e with
  | module m =>
    simp only [entrySlot, Option.some.injEq, Prod.mk.injEq] at hes
    obtain ⟨rfl, rfl⟩ := hes
    exact yield_module_is_slot g _ _ m hy
  | err mi c es =>
    simp only [entrySlot, Option.some.injEq, Prod.mk.injEq] at hes
    obtain ⟨rfl, rfl⟩ := hes
    exact yield_err_is_slot g _ _ mi c es hy
  | redirect to => simp [entrySlot] at hes

/-- every redirect of the segment is the original's redirect, from a specifier without an entry -/
theorem segment_redirect_faithful (hnew : (dedup roots).all (fun r => g.roots.contains r) = false)
    (k to : Spec) (h : (k, to) ∈ (g.segment roots).redirects) :
    g.redirect k = some to ∧ g.slot k = none := by
  simp only [Graph.segment, hnew, Bool.false_eq_true, if_false, List.mem_filterMap] at h
  obtain ⟨⟨k', e⟩, hmem, hes⟩ := h
  have hy := ((C15.walk_eq_visits g (segmentOpts g) (fun _ => false) (dedup roots) (dedup_nodup roots) k' e).mp hmem).2
  cases e with
  | module m => simp [entryRedirect] at hes
  | err mi c es => simp [entryRedirect] at hes
  | redirect to' =>
    simp only [entryRedirect, Option.some.injEq, Prod.mk.injEq] at hes
    obtain ⟨rfl, rfl⟩ := hes
    obtain ⟨h1, h2⟩ := yield_redirect_is_redirect g _ _ _ hy
    exact ⟨h2, h1⟩

/-- **closed under the walk's own edges**: the segment contains an entry for exactly the
specifiers the statement's reachability relation selects from the requested roots (following
dynamic imports, under the graph's kind) and that yield something -/
theorem segment_contains_exactly_reachable
    (hnew : (dedup roots).all (fun r => g.roots.contains r) = false) (k : Spec) (e : Entry) :
    ((∃ sl, entrySlot (k, e) = some (k, sl) ∧ (k, sl) ∈ (g.segment roots).slots) ∨
     (∃ to, e = .redirect to ∧ (k, to) ∈ (g.segment roots).redirects)) ↔
    (Enq g (segmentOpts g) (fun _ => false) (dedup roots) k ∧ yieldOf g (segmentOpts g) k = some e) := by
  rw [← C15.walk_eq_visits g (segmentOpts g) (fun _ => false) (dedup roots) (dedup_nodup roots) k e]
  simp only [Graph.segment, hnew, Bool.false_eq_true, if_false, List.mem_filterMap]
  constructor
  · rintro (⟨sl, hsl, ⟨⟨k', e'⟩, hmem, hes⟩⟩ | ⟨to, rfl, ⟨⟨k', e'⟩, hmem, hes⟩⟩)
    · -- a slot entry: the walk entry with the same key is unique (walk_nodup) and has the same shape
      have hn := C15.walk_nodup g (segmentOpts g) (fun _ => false) (dedup roots) (dedup_nodup roots)
      have hk : k' = k := by
        cases e' <;> simp [entrySlot] at hes <;> exact hes.1
      subst hk
      have he : e' = e := by
        cases e' <;> cases e <;> simp only [entrySlot, Option.some.injEq, Prod.mk.injEq, true_and, reduceCtorEq] at hes hsl
        · rw [← hsl] at hes; cases hes; rfl
        · rw [← hsl] at hes; cases hes
        · rw [← hsl] at hes; cases hes
        · rw [← hsl] at hes; cases hes; rfl
      subst he
      exact hmem
    · have hk : k' = k ∧ e' = .redirect to := by
        cases e' <;> simp [entryRedirect] at hes
        exact ⟨hes.1, by rw [hes.2]⟩
      obtain ⟨rfl, rfl⟩ := hk
      exact hmem
  · intro hmem
    cases e with
    | module m => exact Or.inl ⟨.module m, rfl, ⟨(k, .module m), hmem, rfl⟩⟩
    | err mi c es => exact Or.inl ⟨.err mi c es, rfl, ⟨(k, .err mi c es), hmem, rfl⟩⟩
    | redirect to => exact Or.inr ⟨to, rfl, ⟨(k, .redirect to), hmem, rfl⟩⟩

/-! ## lookups and redirect following in the segment agree with the original

For a graph that is not types-only (there the walk replaces an untyped module by its types
dependency — finding F19) every specifier the walk reaches has the same entry in the segment, the
same redirect as far as `resolve` consults it, and `resolve` runs through the same chain to the
same end. -/

theorem lookup_of_mem_nodup {α} (l : List (Spec × α)) (hnd : (l.map (·.1)).Nodup) (k : Spec) (v : α)
    (h : (k, v) ∈ l) : l.lookup k = some v := by
  induction l with
  | nil => cases h
  | cons a l ih =>
    obtain ⟨k', v'⟩ := a
    simp only [List.map_cons, List.nodup_cons] at hnd
    rcases List.mem_cons.mp h with heq | hmem
    · cases heq; simp [List.lookup]
    · have hne : k ≠ k' := by
        intro hkk; subst hkk
        exact hnd.1 (List.mem_map.mpr ⟨(k, v), hmem, rfl⟩)
      have : (k == k') = false := by simpa using hne
      simp only [List.lookup, this]
      exact ih hnd.2 hmem

theorem lookup_none_of_no_key {α} (l : List (Spec × α)) (k : Spec) (h : ∀ v, (k, v) ∉ l) :
    l.lookup k = none := by
  induction l with
  | nil => rfl
  | cons a l ih =>
    obtain ⟨k', v'⟩ := a
    by_cases hk : k = k'
    · subst hk; exact absurd List.mem_cons_self (h v')
    · have : (k == k') = false := by simpa using hk
      simp only [List.lookup, this]
      exact ih (fun v hv => h v (List.mem_cons_of_mem _ hv))

theorem filterMap_keys_nodup {α β} (l : List (Spec × α)) (f : Spec × α → Option (Spec × β))
    (hf : ∀ p q, f p = some q → q.1 = p.1) (hnd : (l.map (·.1)).Nodup) :
    ((l.filterMap f).map (·.1)).Nodup := by
  induction l with
  | nil => simp
  | cons a l ih =>
    simp only [List.map_cons, List.nodup_cons] at hnd
    simp only [List.filterMap_cons]
    cases hfa : f a with
    | none => exact ih hnd.2
    | some q =>
      simp only [List.map_cons, List.nodup_cons]
      refine ⟨?_, ih hnd.2⟩
      intro hmem
      obtain ⟨q', hq', hk⟩ := List.mem_map.mp hmem
      obtain ⟨p', hp', hfp⟩ := List.mem_filterMap.mp hq'
      apply hnd.1
      have h1 := hf a q hfa
      have h2 := hf p' q' hfp
      exact List.mem_map.mpr ⟨p', hp', by rw [← h2, hk, h1]⟩

section lookups
variable (hnew : (dedup roots).all (fun r => g.roots.contains r) = false)
include hnew

theorem segment_slot_lookup (k : Spec) (e : Entry) (sl : Slot)
    (hw : (k, e) ∈ walked g roots) (hes : entrySlot (k, e) = some (k, sl)) :
    (g.segment roots).slot k = some sl := by
  have hn := C15.walk_nodup g (segmentOpts g) (fun _ => false) (dedup roots) (dedup_nodup roots)
  have hmem : (k, sl) ∈ (g.segment roots).slots := by
    simp only [Graph.segment, hnew, Bool.false_eq_true, if_false, List.mem_filterMap]
    exact ⟨(k, e), hw, hes⟩
  have hnd : ((g.segment roots).slots.map (·.1)).Nodup := by
    simp only [Graph.segment, hnew, Bool.false_eq_true, if_false]
    apply filterMap_keys_nodup _ _ _ hn
    intro p q hpq
    obtain ⟨pk, pe⟩ := p
    cases pe <;> simp [entrySlot] at hpq <;> rw [← hpq]
  exact lookup_of_mem_nodup _ hnd k sl hmem

theorem segment_redirect_lookup (k to : Spec) (hw : (k, .redirect to) ∈ walked g roots) :
    (g.segment roots).redirect k = some to := by
  have hn := C15.walk_nodup g (segmentOpts g) (fun _ => false) (dedup roots) (dedup_nodup roots)
  have hmem : (k, to) ∈ (g.segment roots).redirects := by
    simp only [Graph.segment, hnew, Bool.false_eq_true, if_false, List.mem_filterMap]
    exact ⟨(k, .redirect to), hw, rfl⟩
  have hnd : ((g.segment roots).redirects.map (·.1)).Nodup := by
    simp only [Graph.segment, hnew, Bool.false_eq_true, if_false]
    apply filterMap_keys_nodup _ _ _ hn
    intro p q hpq
    obtain ⟨pk, pe⟩ := p
    cases pe <;> simp [entryRedirect] at hpq <;> rw [← hpq]
  exact lookup_of_mem_nodup _ hnd k to hmem

/-- **the redirect `resolve` consults is the same, and leads to a reached specifier** -/
theorem segment_redirectEff_eq (hk : g.kind ≠ .TypesOnly) (x : Spec)
    (hx : Enq g (segmentOpts g) (fun _ => false) (dedup roots) x) :
    (g.segment roots).redirectEff x = g.redirectEff x ∧
    ∀ t, g.redirectEff x = some t → Enq g (segmentOpts g) (fun _ => false) (dedup roots) t := by
  have hwalk := fun e => C15.walk_eq_visits g (segmentOpts g) (fun _ => false) (dedup roots) (dedup_nodup roots) x e
  have hkind : (segmentOpts g).kind = g.kind := rfl
  have hnoslot : g.slot x = none → (g.segment roots).slot x = none := by
    intro h0
    apply lookup_none_of_no_key
    intro v hv
    have := segment_slot_faithful g roots hnew x v hv
    rw [h0] at this; cases this
  unfold Graph.redirectEff effRedirect
  simp only [Tables.resolveStopsAtEntry, Bool.true_and]
  cases hs : g.slot x with
  | some sl =>
    cases sl with
    | pending =>
      -- nothing is yielded; the segment has neither an entry nor a redirect for x
      have h1 : (g.segment roots).slot x = none := by
        apply lookup_none_of_no_key
        intro v hv
        have := segment_slot_faithful g roots hnew x v hv
        rw [hs] at this; cases this; 
        simp only [Graph.segment, hnew, Bool.false_eq_true, if_false, List.mem_filterMap] at hv
        obtain ⟨⟨k', e⟩, hmem, hes⟩ := hv
        have hy := ((C15.walk_eq_visits g (segmentOpts g) (fun _ => false) (dedup roots) (dedup_nodup roots) k' e).mp hmem).2
        cases e <;> simp [entrySlot] at hes
        all_goals (obtain ⟨rfl, _⟩ := hes; simp [yieldOf, visitInfo, hs] at hy)
      have h2 : (g.segment roots).redirect x = none := by
        apply lookup_none_of_no_key
        intro v hv
        have := (segment_redirect_faithful g roots hnew x v hv).2
        rw [hs] at this; cases this
      simp [h1, h2]
    | module m =>
      have hy : yieldOf g (segmentOpts g) x = some (.module m) := by
        have hk' : (segmentOpts g).kind ≠ .TypesOnly := hk
        unfold yieldOf visitInfo
        simp only [hs]
        cases m <;> simp [hk']
        all_goals (split <;> try rfl)
        all_goals (split <;> rfl)
      have := segment_slot_lookup g roots hnew x (.module m) (.module m) ((hwalk _).mpr ⟨hx, hy⟩) rfl
      simp [this]
    | err mi c es =>
      have hy : yieldOf g (segmentOpts g) x = some (.err mi c es) := by
        simp [yieldOf, visitInfo, hs]
      have := segment_slot_lookup g roots hnew x (.err mi c es) (.err mi c es) ((hwalk _).mpr ⟨hx, hy⟩) rfl
      simp [this]
  | none =>
    simp only [hnoslot hs, Option.isSome_none, Bool.false_eq_true, if_false]
    cases hr : g.redirect x with
    | none =>
      refine ⟨?_, by intro t ht; cases ht⟩
      apply lookup_none_of_no_key
      intro v hv
      have := (segment_redirect_faithful g roots hnew x v hv).1
      rw [hr] at this; cases this
    | some to =>
      have hy : yieldOf g (segmentOpts g) x = some (.redirect to) := by
        simp [yieldOf, visitInfo, hs, hr]
      refine ⟨segment_redirect_lookup g roots hnew x to ((hwalk _).mpr ⟨hx, hy⟩), ?_⟩
      intro t ht
      cases ht
      exact Enq.succ hx (by simp [succOf, hy, succs])

end lookups

theorem resolveLoop_congr (r1 r2 : Spec → Option Spec) (cap : Option Nat) (P : Spec → Prop)
    (h : ∀ y, P y → r1 y = r2 y ∧ ∀ t, r2 y = some t → P t) :
    ∀ (fuel : Nat) (seen : List Spec) (cur : Spec), P cur →
      resolveLoop r1 cap fuel seen cur = resolveLoop r2 cap fuel seen cur := by
  intro fuel
  induction fuel with
  | zero => intro seen cur _; rfl
  | succ fuel ih =>
    intro seen cur hp
    obtain ⟨heq, hnext⟩ := h cur hp
    unfold resolveLoop
    rw [heq]
    cases hr : r2 cur with
    | none => rfl
    | some s =>
      simp only
      by_cases hs : s ∈ seen
      · simp [hs]
      · simp only [hs, if_false]
        cases cap with
        | none => exact ih _ _ (hnext s hr)
        | some max =>
          simp only
          split
          · rfl
          · exact ih _ _ (hnext s hr)

/-- **redirect following in the segment ends where it ends in the original**, for every specifier
the walk from the requested roots reaches (roots, dependency targets, redirect targets) -/
theorem segment_resolve_eq (hnew : (dedup roots).all (fun r => g.roots.contains r) = false)
    (hk : g.kind ≠ .TypesOnly) (x : Spec)
    (hx : Enq g (segmentOpts g) (fun _ => false) (dedup roots) x) :
    (g.segment roots).resolve x = g.resolve x := by
  have hfuel : (g.segment roots).resolveFuel = g.resolveFuel := by
    simp [Graph.resolveFuel, resolveCap, Tables.resolveHasCap]
  have hP := fun y hy => segment_redirectEff_eq g roots hnew hk y hy
  unfold Graph.resolve resolveWith
  rw [hfuel, (hP x hx).1]
  cases hr : g.redirectEff x with
  | none => rfl
  | some s1 =>
    simp only
    exact resolveLoop_congr _ _ _ (Enq g (segmentOpts g) (fun _ => false) (dedup roots)) hP _ _ _
      ((hP x hx).2 s1 hr)

/-- … and so the module lookup finds the same module (or nothing) -/
theorem segment_get_eq (hnew : (dedup roots).all (fun r => g.roots.contains r) = false)
    (hk : g.kind ≠ .TypesOnly) (x : Spec)
    (hx : Enq g (segmentOpts g) (fun _ => false) (dedup roots) x)
    (hend : Enq g (segmentOpts g) (fun _ => false) (dedup roots) (g.resolve x))
    (m : Mod) (hm : g.slot (g.resolve x) = some (.module m)) :
    (g.segment roots).slot ((g.segment roots).resolve x) = some (.module m) := by
  rw [segment_resolve_eq g roots hnew hk x hx]
  have hy : yieldOf g (segmentOpts g) (g.resolve x) = some (.module m) := by
    have hk' : (segmentOpts g).kind ≠ .TypesOnly := hk
    unfold yieldOf visitInfo
    simp only [hm]
    cases m <;> simp [hk']
    all_goals (split <;> try rfl)
    all_goals (split <;> rfl)
  exact segment_slot_lookup g roots hnew _ (.module m) (.module m)
    ((C15.walk_eq_visits g (segmentOpts g) (fun _ => false) (dedup roots) (dedup_nodup roots) _ _).mpr ⟨hend, hy⟩) rfl

/-- non-vacuity: the segment of C15's demo graph at the redirect source `1` (not a root of the
graph) follows the redirect as the graph does -/
example : (C15.demo.segment [1]).resolve 1 = 2 ∧ C15.demo.resolve 1 = 2 ∧
    ((dedup [1]).all (fun r => C15.demo.roots.contains r) = false) ∧ C15.demo.kind ≠ .TypesOnly := by decide

/-- configured imports and the graph kind are carried over unchanged -/
theorem segment_keeps_kind_and_imports : (g.segment roots).kind = g.kind ∧ (g.segment roots).imports = g.imports := by
  unfold Graph.segment
  simp only
  split <;> exact ⟨rfl, rfl⟩

/-- non-vacuity on the C15 demo graph: segment at the redirect target `2` -/
example : (C15.demo.segment [2]).slots.map (·.1) = [2, 3] ∧ (C15.demo.segment [0]) = C15.demo := by
  constructor
  · decide
  · exact segment_clone _ _ (by decide)

end DG.C18
