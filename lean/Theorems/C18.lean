import DG.Segment
import Theorems.C15
/-!
# C18 — a graph segment is self-contained and equals a direct build of its roots

Model: `DG/Segment.lean` (`segment` = clone shortcut, otherwise the entries of a walk with the
graph's own kind, following dynamic imports, check_js on) on top of the walk model, whose exact
characterisation is C15's theorem.
-/
namespace DG.C18
open DG Tables

/-- **clone shortcut**: asking for roots the graph already has returns the graph itself -/
theorem segment_clone (g : Graph) (roots : List Spec)
    (h : (dedup roots).all (fun r => g.roots.contains r) = true) : g.segment roots = g := by
  unfold Graph.segment
  simp only [h, if_true]

/-- what a yielded entry says about the original graph -/
theorem yield_module_is_slot (g : Graph) (o : WalkOpts) (k : Spec) (m : Mod)
    (h : yieldOf g o k = some (.module m)) : g.slot k = some (.module m) := by
  unfold yieldOf visitInfo at h
  split at h
  · cases h
  · rename_i m' hs
    have : m = m' := by
      split at h
      · split at h
        · split at h
          · split at h <;> simp at h <;> exact h.symm
          · split at h <;> simp at h <;> exact h.symm
        · simp at h; exact h.symm
      · simp at h; exact h.symm
    subst this
    exact hs
  · simp at h
  · split at h <;> simp at h

theorem yield_err_is_slot (g : Graph) (o : WalkOpts) (k : Spec) (mi c es)
    (h : yieldOf g o k = some (.err mi c es)) : g.slot k = some (.err mi c es) := by
  unfold yieldOf visitInfo at h
  split at h
  · cases h
  · split at h
    · split at h
      · split at h
        · split at h <;> simp at h
        · split at h <;> simp at h
      · simp at h
    · simp at h
  · rename_i mi' c' es' hs
    simp at h
    obtain ⟨rfl, rfl, rfl⟩ := h
    exact hs
  · split at h <;> simp at h

theorem yield_redirect_is_redirect (g : Graph) (o : WalkOpts) (k to : Spec)
    (h : yieldOf g o k = some (.redirect to)) : g.slot k = none ∧ g.redirect k = some to := by
  unfold yieldOf visitInfo at h
  split at h
  · cases h
  · split at h
    · split at h
      · split at h
        · split at h <;> simp at h
        · split at h <;> simp at h
      · simp at h
    · simp at h
  · simp at h
  · rename_i hs
    split at h
    · rename_i to' hr
      simp at h
      subst h
      exact ⟨hs, hr⟩
    · cases h

variable (g : Graph) (roots : List Spec)

/-- the segment taken when some requested root is new -/
def walked (g : Graph) (roots : List Spec) : List (Spec × Entry) := g.walk (segmentOpts g) (dedup roots)

theorem dedup_nodup (l : List Spec) : (dedup l).Nodup := by
  unfold dedup
  have key : ∀ (l acc : List Spec), acc.Nodup →
      (l.foldl (fun acc x => if acc.contains x then acc else acc ++ [x]) acc).Nodup := by
    intro l
    induction l with
    | nil => intro acc h; exact h
    | cons a l ih =>
      intro acc h
      simp only [List.foldl_cons]
      apply ih
      split
      · exact h
      · rename_i hc
        rw [List.nodup_append]
        refine ⟨h, by simp, ?_⟩
        intro x hx y hy hxy
        simp only [List.mem_cons, List.not_mem_nil, or_false] at hy
        subst hy
        subst hxy
        exact hc (by simpa using hx)
  exact key l [] (by simp)

/-- **faithful entries**: every module or error entry of the segment is the original graph's
entry under the same key — same module (with all its recorded dependencies) or same error -/
theorem segment_slot_faithful (hnew : (dedup roots).all (fun r => g.roots.contains r) = false)
    (k : Spec) (sl : Slot) (h : (k, sl) ∈ (g.segment roots).slots) : g.slot k = some sl := by
  simp only [Graph.segment, hnew, Bool.false_eq_true, if_false, List.mem_filterMap] at h
  obtain ⟨⟨k', e⟩, hmem, hes⟩ := h
  have hy := ((C15.walk_eq_visits g (segmentOpts g) (fun _ => false) (dedup roots) (dedup_nodup roots) k' e).mp hmem).2
  cases e with
  | module m =>
    simp only [entrySlot, Option.some.injEq, Prod.mk.injEq] at hes
    obtain ⟨rfl, rfl⟩ := hes
    exact yield_module_is_slot g _ _ m hy
  | err mi c es =>
    simp only [entrySlot, Option.some.injEq, Prod.mk.injEq] at hes
    obtain ⟨rfl, rfl⟩ := hes
    exact yield_err_is_slot g _ _ mi c es hy
  | redirect to => simp [entrySlot] at hes

/-- every redirect of the segment is the original's redirect, from a specifier without an entry -/
theorem segment_redirect_faithful (hnew : (dedup roots).all (fun r => g.roots.contains r) = false)
    (k to : Spec) (h : (k, to) ∈ (g.segment roots).redirects) :
    g.redirect k = some to ∧ g.slot k = none := by
  simp only [Graph.segment, hnew, Bool.false_eq_true, if_false, List.mem_filterMap] at h
  obtain ⟨⟨k', e⟩, hmem, hes⟩ := h
  have hy := ((C15.walk_eq_visits g (segmentOpts g) (fun _ => false) (dedup roots) (dedup_nodup roots) k' e).mp hmem).2
  cases e with
  | module m => simp [entryRedirect] at hes
  | err mi c es => simp [entryRedirect] at hes
  | redirect to' =>
    simp only [entryRedirect, Option.some.injEq, Prod.mk.injEq] at hes
    obtain ⟨rfl, rfl⟩ := hes
    obtain ⟨h1, h2⟩ := yield_redirect_is_redirect g _ _ _ hy
    exact ⟨h2, h1⟩

/-- **closed under the walk's own edges**: the segment contains an entry for exactly the
specifiers the statement's reachability relation selects from the requested roots (following
dynamic imports, under the graph's kind) and that yield something -/
theorem segment_contains_exactly_reachable
    (hnew : (dedup roots).all (fun r => g.roots.contains r) = false) (k : Spec) (e : Entry) :
    ((∃ sl, entrySlot (k, e) = some (k, sl) ∧ (k, sl) ∈ (g.segment roots).slots) ∨
     (∃ to, e = .redirect to ∧ (k, to) ∈ (g.segment roots).redirects)) ↔
    (Enq g (segmentOpts g) (fun _ => false) (dedup roots) k ∧ yieldOf g (segmentOpts g) k = some e) := by
  rw [← C15.walk_eq_visits g (segmentOpts g) (fun _ => false) (dedup roots) (dedup_nodup roots) k e]
  simp only [Graph.segment, hnew, Bool.false_eq_true, if_false, List.mem_filterMap]
  constructor
  · rintro (⟨sl, hsl, ⟨⟨k', e'⟩, hmem, hes⟩⟩ | ⟨to, rfl, ⟨⟨k', e'⟩, hmem, hes⟩⟩)
    · -- a slot entry: the walk entry with the same key is unique (walk_nodup) and has the same shape
      have hn := C15.walk_nodup g (segmentOpts g) (fun _ => false) (dedup roots) (dedup_nodup roots)
      have hk : k' = k := by
        cases e' <;> simp [entrySlot] at hes <;> exact hes.1
      subst hk
      have he : e' = e := by
        cases e' <;> cases e <;> simp only [entrySlot, Option.some.injEq, Prod.mk.injEq, true_and, reduceCtorEq] at hes hsl
        · rw [← hsl] at hes; cases hes; rfl
        · rw [← hsl] at hes; cases hes
        · rw [← hsl] at hes; cases hes
        · rw [← hsl] at hes; cases hes; rfl
      subst he
      exact hmem
    · have hk : k' = k ∧ e' = .redirect to := by
        cases e' <;> simp [entryRedirect] at hes
        exact ⟨hes.1, by rw [hes.2]⟩
      obtain ⟨rfl, rfl⟩ := hk
      exact hmem
  · intro hmem
    cases e with
    | module m => exact Or.inl ⟨.module m, rfl, ⟨(k, .module m), hmem, rfl⟩⟩
    | err mi c es => exact Or.inl ⟨.err mi c es, rfl, ⟨(k, .err mi c es), hmem, rfl⟩⟩
    | redirect to => exact Or.inr ⟨to, rfl, ⟨(k, .redirect to), hmem, rfl⟩⟩

/-- configured imports and the graph kind are carried over unchanged -/
theorem segment_keeps_kind_and_imports : (g.segment roots).kind = g.kind ∧ (g.segment roots).imports = g.imports := by
  unfold Graph.segment
  simp only
  split <;> exact ⟨rfl, rfl⟩

/-- non-vacuity on the C15 demo graph: segment at the redirect target `2` -/
example : (C15.demo.segment [2]).slots.map (·.1) = [2, 3] ∧ (C15.demo.segment [0]) = C15.demo := by
  constructor
  · decide
  · exact segment_clone _ _ (by decide)

end DG.C18
