import DG.TextPos
import Proofs.Deps
/-!
# C08 — reported ranges cover precisely the specifier; position lookup

Models: `DG/TextPos.lean` (position arithmetic every reported range goes through) and
`DG/Deps.lean` (what a module's analysis becomes in the graph: `parse_js_module_from_module_info`
and `fill_module_dependencies`).  The parser itself (swc) and its dependency collector are not
modelled: that the *analysis* lists every import of the source is decided on the implementation by a
generator that knows what it wrote.  From the analysis on, "each dependency once" is a theorem.
-/
namespace DG.C08
open DG.MI DG.TP

/-- scanning invariant: the position found is not before the starting one, and going back from it
(relative to the starting line/column) gives the offset -/
theorem posFrom_spec (text : List Char) : ∀ (off l c : Nat), off ≤ text.length →
    let p := posFrom text off l c
    l ≤ p.line ∧ (p.line = l → c ≤ p.char) ∧
    offFrom text (p.line - l) (if p.line = l then p.char - c else p.char) = off := by
  induction text with
  | nil =>
    intro off l c h
    have : off = 0 := by simpa using h
    subst this
    simp [posFrom, offFrom]
  | cons c0 cs ih =>
    intro off l c h
    cases off with
    | zero => simp [posFrom, offFrom]
    | succ off =>
      have h' : off ≤ cs.length := by simpa using h
      by_cases hn : c0 = '\n'
      · have := ih off (l + 1) 0 h'
        simp only [posFrom, hn, if_true] at this ⊢
        obtain ⟨h1, _, h3⟩ := this
        refine ⟨by omega, fun e => by omega, ?_⟩
        have hne : (posFrom cs off (l + 1) 0).line ≠ l := by omega
        simp only [hne, if_false]
        have hk : (posFrom cs off (l + 1) 0).line - l = ((posFrom cs off (l + 1) 0).line - (l + 1)) + 1 := by omega
        rw [hk]
        simp only [offFrom, if_true]
        by_cases he : (posFrom cs off (l + 1) 0).line = l + 1
        · simp only [he, if_true, Nat.sub_zero] at h3 ⊢
          omega
        · simp only [he, if_false] at h3 ⊢
          omega
      · have := ih off l (c + 1) h'
        simp only [posFrom, hn, if_false] at this ⊢
        obtain ⟨h1, h2, h3⟩ := this
        refine ⟨h1, fun e => by have := h2 e; omega, ?_⟩
        by_cases he : (posFrom cs off l (c + 1)).line = l
        · have hc := h2 he
          simp only [he, if_true, Nat.sub_self, offFrom] at h3 ⊢
          omega
        · simp only [he, if_false] at h3 ⊢
          have hk : (posFrom cs off l (c + 1)).line - l = ((posFrom cs off l (c + 1)).line - l - 1) + 1 := by omega
          rw [hk] at h3 ⊢
          simp only [offFrom, hn, if_false] at h3 ⊢
          omega

/-- **a position maps back to the offset it came from** (any text: non-ASCII characters, `\r\n`
or `\n` line ends, comments — the scan only distinguishes `\n`) -/
theorem offOf_posOf (text : List Char) (off : Nat) (h : off ≤ text.length) :
    offOf text (posOf text off) = off := by
  have := posFrom_spec text off 0 0 h
  simp only [Nat.sub_zero] at this
  obtain ⟨_, _, h3⟩ := this
  unfold offOf posOf
  by_cases he : (posFrom text off 0 0).line = 0
  · simp only [he, if_true] at h3
    rw [he]; exact h3
  · simp only [he, if_false] at h3
    exact h3

theorem posLe_refl (p : Pos) : posLe p p = true := by simp [posLe]

theorem posLe_trans (a b c : Pos) (h1 : posLe a b = true) (h2 : posLe b c = true) : posLe a c = true := by
  simp only [posLe, Bool.or_eq_true, decide_eq_true_eq, Bool.and_eq_true, beq_iff_eq] at *
  omega

/-- positions are monotone in the offset -/
theorem posFrom_mono (text : List Char) : ∀ (o1 o2 l c : Nat), o1 ≤ o2 → o2 ≤ text.length →
    posLe (posFrom text o1 l c) (posFrom text o2 l c) = true := by
  induction text with
  | nil =>
    intro o1 o2 l c h1 h2
    have : o2 = 0 := by simpa using h2
    subst this
    have : o1 = 0 := by omega
    subst this
    exact posLe_refl _
  | cons c0 cs ih =>
    intro o1 o2 l c h1 h2
    cases o1 with
    | zero =>
      have := posFrom_spec (c0 :: cs) o2 l c h2
      obtain ⟨ha, hb, _⟩ := this
      have e0 : posFrom (c0 :: cs) 0 l c = { line := l, char := c } := by simp [posFrom]
      rw [e0]
      simp only [posLe, Bool.or_eq_true, decide_eq_true_eq, Bool.and_eq_true, beq_iff_eq]
      by_cases he : (posFrom (c0 :: cs) o2 l c).line = l
      · right; exact ⟨he.symm, hb he⟩
      · left
        have : l ≤ (posFrom (c0 :: cs) o2 l c).line := ha
        omega
    | succ o1 =>
      cases o2 with
      | zero => omega
      | succ o2 =>
        have h2' : o2 ≤ cs.length := by simpa using h2
        by_cases hn : c0 = '\n'
        · simp only [posFrom, hn, if_true]
          exact ih o1 o2 (l + 1) 0 (by omega) h2'
        · simp only [posFrom, hn, if_false]
          exact ih o1 o2 l (c + 1) (by omega) h2'

/-- so the range of `[a, b]` includes exactly … at least every position of an offset in between -/
theorem includes_of_between (text : List Char) (a x b : Nat) (h1 : a ≤ x) (h2 : x ≤ b) (h3 : b ≤ text.length) :
    includes { s := posOf text a, e := posOf text b } (posOf text x) = true := by
  simp only [includes, Bool.and_eq_true]
  exact ⟨posFrom_mono text a x 0 0 h1 (by omega), posFrom_mono text x b 0 0 h2 h3⟩

/-- **the range computed for a match inside a comment covers precisely the quoted specifier**:
the comment starts at `pre.length`, its text (after `//` or `/*`) is `a ++ q :: spec ++ q :: b`, the
match is `spec`; whatever precedes (non-ASCII text, other comments, any line ends) -/
theorem commentSpan_covers_quoted (pre a spec b post : List Char) (o1 o2 q : Char) :
    let text := pre ++ o1 :: o2 :: (a ++ q :: spec ++ q :: b) ++ post
    slice text (commentSpan text pre.length (a.length + 1) (a.length + 1 + spec.length) false)
      = q :: spec ++ [q] := by
  intro text
  have hlen : text.length = pre.length + 2 + (a.length + 1 + spec.length + 1 + b.length) + post.length := by
    simp [text] <;> omega
  have hs : offOf text (posOf text (pre.length + 2 + (a.length + 1) - 1)) = pre.length + 2 + a.length := by
    rw [offOf_posOf _ _ (by omega)]; omega
  have he : offOf text (posOf text (pre.length + 2 + (a.length + 1 + spec.length) + 1))
      = pre.length + 2 + a.length + (spec.length + 2) := by
    rw [offOf_posOf _ _ (by omega)]; omega
  simp only [slice, commentSpan, Bool.false_eq_true, if_false, hs, he]
  have e1 : text = (pre ++ o1 :: o2 :: a) ++ ((q :: spec ++ [q]) ++ (b ++ post)) := by
    simp [text, List.append_assoc]
  have hl : (pre ++ o1 :: o2 :: a).length = pre.length + 2 + a.length := by simp <;> omega
  rw [e1, ← hl, List.drop_left]
  have : pre.length + 2 + a.length + (spec.length + 2) - (pre.length + 2 + a.length) = (q :: spec ++ [q]).length := by
    simp <;> omega
  rw [hl, this, List.take_left]

/-- … and precisely the specifier when the pragma has no quotes (`@jsxImportSource x`,
`sourceMappingURL=x`, `@deno-types=x`) -/
theorem commentSpan_covers_unquoted (pre a spec b post : List Char) (o1 o2 : Char) :
    let text := pre ++ o1 :: o2 :: (a ++ spec ++ b) ++ post
    slice text (commentSpan text pre.length a.length (a.length + spec.length) true) = spec := by
  intro text
  have hlen : text.length = pre.length + 2 + (a.length + spec.length + b.length) + post.length := by
    simp [text] <;> omega
  have hs : offOf text (posOf text (pre.length + 2 + a.length - 0)) = pre.length + 2 + a.length := by
    rw [offOf_posOf _ _ (by omega)]; omega
  have he : offOf text (posOf text (pre.length + 2 + (a.length + spec.length) + 0))
      = pre.length + 2 + a.length + spec.length := by
    rw [offOf_posOf _ _ (by omega)]; omega
  simp only [slice, commentSpan, if_true, hs, he]
  have e1 : text = (pre ++ o1 :: o2 :: a) ++ (spec ++ (b ++ post)) := by
    simp [text, List.append_assoc]
  have hl : (pre ++ o1 :: o2 :: a).length = pre.length + 2 + a.length := by simp <;> omega
  rw [e1, ← hl, List.drop_left]
  have : pre.length + 2 + a.length + spec.length - (pre.length + 2 + a.length) = spec.length := by omega
  rw [hl, this, List.take_left]

/-- **position lookup**: what `Dependency::includes` returns holds the position and is one of the
dependency's ranges … -/
theorem depIncludes_sound (imports : List Range) (t : Option Range) (p : Pos) (r : Range)
    (h : depIncludes imports t p = some r) : includes r p = true ∧ (r ∈ imports ∨ t = some r) := by
  unfold depIncludes at h
  split at h
  · rename_i r' hf
    simp only [Option.some.injEq] at h; subst h
    exact ⟨by simpa using List.find?_some hf, Or.inl (List.mem_of_find?_eq_some hf)⟩
  · split at h
    · rename_i r' 
      split at h
      · rename_i hi
        simp only [Option.some.injEq] at h; subst h
        exact ⟨hi, Or.inr rfl⟩
      · exact absurd h (by simp)
    · exact absurd h (by simp)

/-- … and it answers whenever some range of the dependency holds the position -/
theorem depIncludes_complete (imports : List Range) (t : Option Range) (p : Pos)
    (h : (∃ r ∈ imports, includes r p = true) ∨ (∃ r, t = some r ∧ includes r p = true)) :
    (depIncludes imports t p).isSome = true := by
  unfold depIncludes
  split
  · rfl
  · rename_i hf
    rcases h with ⟨r, hr, hi⟩ | ⟨r, ht, hi⟩
    · have := List.find?_eq_none.mp hf r hr
      simp [hi] at this
    · subst ht
      simp [hi]

/-! non-vacuity: a two-line text with a non-ASCII character before the comment -/
example :
    slice "é\r\n// @ts-types=\"./x.d.ts\"\nimport".toList
      (commentSpan "é\r\n// @ts-types=\"./x.d.ts\"\nimport".toList 3 12 20 false) = "\"./x.d.ts\"".toList := by
  decide

/-! ## from the analysis to the recorded dependencies -/

/-- **each dependency once**: whatever the analysis lists — imports, exports, dynamic imports,
triple-slash references, JSDoc imports, the JSX import source, in any number and order — the
module records exactly one entry per specifier text -/
theorem one_entry_per_specifier (e : DG.Deps.Env) (mi : ModuleInfo) :
    ((DG.Deps.analyse e mi).deps.map (·.text)).Nodup :=
  DG.Deps.analyse_keys_nodup e mi

/-- **static wins** (C01): an entry is flagged dynamic only if every import of the module as code
behind it is dynamic — one static import, `@jsxImportSource` included, makes it static -/
theorem static_wins (e : DG.Deps.Env) (mi : ModuleInfo) (d : DG.Deps.Dep) (hd : d ∈ (DG.Deps.analyse e mi).deps)
    (hdyn : d.dyn = true) : ∀ i ∈ d.imports, i.kind.isCode = true → i.dyn = true :=
  DG.Deps.analyse_static_wins e mi d hd hdyn

/-- **a code-only analysis has no type side**: no type resolution, no `@deno-types`, no type-only
import behind any entry, and no types dependency of the module -/
theorem code_only_has_no_types (e : DG.Deps.Env) (he : e.includeTypes = false) (mi : ModuleInfo) :
    (∀ d ∈ (DG.Deps.analyse e mi).deps, d.type = .none ∧ d.denoTypes = none ∧ ∀ i ∈ d.imports, i.kind.isCode = true) ∧
    (DG.Deps.analyse e mi).typesDep = none :=
  DG.Deps.analyse_code_only e he mi

/-- non-vacuity: `import "./a.ts"; await import("./a.ts"); import type {T} from "./b.ts"` -/
def demoInfo : ModuleInfo :=
  { script := false,
    deps := [.static { kind := .import, typesSpecifier := none, specifier := "./a.ts",
                       specifierRange := ⟨⟨0, 7⟩, ⟨0, 15⟩⟩, sideEffect := true, attrs := .none },
             .dynamic { kind := .import, typesSpecifier := none, argument := .str "./a.ts",
                        argumentRange := ⟨⟨1, 13⟩, ⟨1, 21⟩⟩, attrs := .none },
             .static { kind := .importType, typesSpecifier := none, specifier := "./b.ts",
                       specifierRange := ⟨⟨2, 21⟩, ⟨2, 29⟩⟩, sideEffect := false, attrs := .none }],
    tsRefs := [], selfTypes := none, jsxSrc := none, jsxSrcTypes := none, jsdoc := [], sourceMap := none }

def demoEnv : DG.Deps.Env :=
  { includeTypes := true, isDeclaration := false, isTyped := true, isJsx := false, header := none,
    resC := fun t => if t = "./a.ts" then .ok 1 else if t = "./b.ts" then .ok 2 else .err,
    resT := fun t => if t = "./a.ts" then .ok 1 else if t = "./b.ts" then .ok 2 else .err }

example : (DG.Deps.analyse demoEnv demoInfo).deps.map (fun d => (d.text, d.dyn, d.imports.length)) =
    [("./a.ts", false, 2), ("./b.ts", false, 1)] := by decide

end DG.C08
