import DG.Exports
/-!
# C16 — the resolved export set follows the ES rules and is computed in finite time

Model: `DG/Exports.lean` (`exports_and_re_exports_inner`).  The traversal takes fuel; with fuel
`#modules + 1` it never runs out (`exports_complete` needs exactly that), so the result is defined
for every world, cyclic re-exports included.
-/
namespace DG.C16
open DG.Sym

variable (w : World)

/-! ### merging a star target's exports -/

theorem names_append (a b : Resolved) : names (a ++ b) = names a ++ names b := by simp [names]

theorem addInner_keeps (acc inner : Resolved) (n : Nat) (h : n ∈ names acc) :
    n ∈ names (addInner acc inner) := by
  unfold addInner
  induction inner generalizing acc with
  | nil => exact h
  | cons p r ih =>
    simp only [List.foldl_cons]
    apply ih
    split
    · exact h
    · rw [names_append]; simp [h]

theorem addInner_adds (acc inner : Resolved) (n : Nat) (h : n ∈ names inner) (h0 : n ≠ 0) :
    n ∈ names (addInner acc inner) := by
  unfold addInner
  induction inner generalizing acc with
  | nil => simp [names] at h
  | cons p r ih =>
    simp only [List.foldl_cons]
    simp only [names, List.map_cons, List.mem_cons] at h
    rcases h with rfl | h
    · -- this very entry: kept or already present
      have : p.1 ∈ names (if p.1 = 0 ∨ (names acc).contains p.1 = true then acc else acc ++ [p]) := by
        split
        · rename_i hc
          rcases hc with hc | hc
          · exact absurd hc h0
          · simpa using hc
        · rw [names_append]; simp [names]
      exact addInner_keeps _ r _ this
    · exact ih _ (by simpa [names] using h)

theorem addInner_mem (acc inner : Resolved) (q : Nat × Nat) (h : q ∈ addInner acc inner) :
    q ∈ acc ∨ (q ∈ inner ∧ q.1 ≠ 0) := by
  unfold addInner at h
  induction inner generalizing acc with
  | nil => exact Or.inl h
  | cons p r ih =>
    simp only [List.foldl_cons] at h
    rcases ih _ h with h1 | ⟨h1, h2⟩
    · split at h1
      · exact Or.inl h1
      · rename_i hc
        simp only [List.mem_append, List.mem_singleton] at h1
        rcases h1 with h1 | rfl
        · exact Or.inl h1
        · refine Or.inr ⟨by simp, ?_⟩
          intro e; exact hc (Or.inl e)
    · exact Or.inr ⟨by simp [h1], h2⟩

/-! ### soundness: every resolved export is an export of the module or comes through star re-exports -/

theorem go_sound : ∀ (f : Nat) (v : List Nat) (m : Nat) (q : Nat × Nat), q ∈ (go w f v m).2 →
    Reach w m q.2 ∧ q.1 ∈ (w.mod q.2).own ∧ (q.2 = m ∨ q.1 ≠ 0) := by
  intro f
  induction f with
  | zero => intro v m q h; simp [go] at h
  | succ f ih =>
    intro v m q h
    simp only [go] at h
    split at h
    · simp at h
    · -- fold invariant: every entry so far is sound
      have key : ∀ (stars : List (Option Nat)) (st : List Nat × Resolved),
          (∀ s ∈ stars, s ∈ (w.mod m).stars) →
          (∀ q ∈ st.2, Reach w m q.2 ∧ q.1 ∈ (w.mod q.2).own ∧ (q.2 = m ∨ q.1 ≠ 0)) →
          ∀ q ∈ (stars.foldl (step (go w f)) st).2,
            Reach w m q.2 ∧ q.1 ∈ (w.mod q.2).own ∧ (q.2 = m ∨ q.1 ≠ 0) := by
        intro stars
        induction stars with
        | nil => intro st _ hst q hq; exact hst q hq
        | cons s r ihs =>
          intro st hsub hst q hq
          simp only [List.foldl_cons] at hq
          apply ihs (step (go w f) st s) (fun s' hs' => hsub s' (by simp [hs'])) _ q hq
          intro q' hq'
          cases s with
          | none => exact hst q' hq'
          | some t =>
            simp only [step] at hq'
            rcases addInner_mem _ _ _ hq' with h1 | ⟨h1, h2⟩
            · exact hst q' h1
            · obtain ⟨r1, r2, _⟩ := ih st.1 t q' h1
              have hedge : StarEdge w m t := hsub (some t) (by simp)
              exact ⟨Reach.step hedge r1, r2, Or.inr h2⟩
      apply key _ _ (fun s hs => hs) _ q h
      intro q' hq'
      simp only [List.mem_map] at hq'
      obtain ⟨n, hn, rfl⟩ := hq'
      exact ⟨Reach.refl m, hn, Or.inl rfl⟩

/-- **every resolved export name is exported according to the statement** -/
theorem exports_sound (m n : Nat) (h : n ∈ names (exportsOf w m)) : Exported w m n := by
  simp only [names, List.mem_map] at h
  obtain ⟨q, hq, rfl⟩ := h
  obtain ⟨h1, h2, h3⟩ := go_sound w _ _ _ q hq
  exact ⟨q.2, h1, h2, h3⟩

/-! ### completeness -/

/-- modules of the world not yet visited -/
def unvisited (v : List Nat) : List Nat := (List.range w.length).filter fun x => !v.contains x

theorem filter_length_le {α} (l : List α) (p q : α → Bool) (h : ∀ x, p x = true → q x = true) :
    (l.filter p).length ≤ (l.filter q).length := by
  induction l with
  | nil => simp
  | cons x r ih =>
    simp only [List.filter_cons]
    by_cases hp : p x = true
    · simp only [hp, h x hp, if_true, List.length_cons]; omega
    · have hp' : p x = false := by simpa using hp
      by_cases hq : q x = true
      · simp only [hp', hq, if_true, Bool.false_eq_true, if_false, List.length_cons]; omega
      · have hq' : q x = false := by simpa using hq
        simp only [hp', hq', Bool.false_eq_true, if_false]; exact ih

theorem unvisited_mono (v v' : List Nat) (h : ∀ x ∈ v, x ∈ v') :
    (unvisited w v').length ≤ (unvisited w v).length := by
  unfold unvisited
  apply filter_length_le
  intro x hx
  simp only [Bool.not_eq_true', List.contains_eq_mem, decide_eq_false_iff_not] at hx ⊢
  exact fun hv => hx (h x hv)

theorem unvisited_lt (v : List Nat) (m : Nat) (hm : m < w.length) (hv : m ∉ v) :
    (unvisited w (m :: v)).length < (unvisited w v).length := by
  unfold unvisited
  have hmem : m ∈ (List.range w.length).filter fun x => !v.contains x := by
    simp [List.mem_filter, hm, hv]
  have hsub : ((List.range w.length).filter fun x => !(m :: v).contains x) =
      ((List.range w.length).filter fun x => !v.contains x).filter fun x => x != m := by
    rw [List.filter_filter]
    apply List.filter_congr
    intro x _
    by_cases hx : x = m
    · subst hx; simp
    · have h1 : (x == m) = false := by simpa using hx
      simp [List.contains_cons, h1, hx]
  rw [hsub]
  exact List.length_filter_lt_length_iff_exists.mpr ⟨m, hmem, by simp⟩

/-- well-formed world: star targets are modules of the world -/
def WF : Prop := ∀ m t, some t ∈ (w.mod m).stars → t < w.length

/-- what one call establishes -/
structure Good (v : List Nat) (m : Nat) (res : List Nat × Resolved) : Prop where
  sub : ∀ x ∈ v, x ∈ res.1
  self : m ∈ res.1
  closed : ∀ x ∈ res.1, x ∉ v → ∀ t, some t ∈ (w.mod x).stars → t ∈ res.1
  named : ∀ x ∈ res.1, x ∉ v → ∀ n ∈ (w.mod x).own, (x = m ∨ n ≠ 0) → n ∈ names res.2

theorem go_good (hwf : WF w) : ∀ (f : Nat) (v : List Nat) (m : Nat),
    (unvisited w v).length < f → m < w.length → Good w v m (go w f v m) := by
  intro f
  induction f with
  | zero => intro v m h; omega
  | succ f ih =>
    intro v m hf hm
    simp only [go]
    split
    · rename_i hc
      have hmv : m ∈ v := by simpa using hc
      exact ⟨fun x hx => hx, hmv, fun x hx hnx => absurd hx hnx, fun x hx hnx => absurd hx hnx⟩
    · rename_i hc
      have hmv : m ∉ v := by simpa using hc
      -- invariant of the loop over the star re-exports
      have key : ∀ (todo done : List (Option Nat)) (st : List Nat × Resolved),
          done ++ todo = (w.mod m).stars →
          (∀ x ∈ m :: v, x ∈ st.1) →
          (∀ x ∈ st.1, x ∉ v → x ≠ m → ∀ t, some t ∈ (w.mod x).stars → t ∈ st.1) →
          (∀ t, some t ∈ done → t ∈ st.1) →
          (∀ n ∈ (w.mod m).own, n ∈ names st.2) →
          (∀ x ∈ st.1, x ∉ v → x ≠ m → ∀ n ∈ (w.mod x).own, n ≠ 0 → n ∈ names st.2) →
          Good w v m (todo.foldl (step (go w f)) st) := by
        intro todo
        induction todo with
        | nil =>
          intro done st hd h1 h2 h3 h4 h5
          simp only [List.append_nil] at hd
          simp only [List.foldl_nil]
          refine ⟨fun x hx => h1 x (by simp [hx]), h1 m (by simp), ?_, ?_⟩
          · intro x hx hnx t ht
            by_cases hxm : x = m
            · subst hxm; exact h3 t (by rw [hd]; exact ht)
            · exact h2 x hx hnx hxm t ht
          · intro x hx hnx n hn hcond
            by_cases hxm : x = m
            · subst hxm; exact h4 n hn
            · rcases hcond with e | e
              · exact absurd e hxm
              · exact h5 x hx hnx hxm n hn e
        | cons s rest ihr =>
          intro done st hd h1 h2 h3 h4 h5
          simp only [List.foldl_cons]
          have hd' : (done ++ [s]) ++ rest = (w.mod m).stars := by simpa using hd
          cases s with
          | none =>
            apply ihr (done ++ [none]) st hd' h1 h2 _ h4 h5
            intro t ht
            simp only [List.mem_append, List.mem_singleton] at ht
            rcases ht with ht | ht
            · exact h3 t ht
            · exact absurd ht (by simp)
          | some t =>
            have htm : some t ∈ (w.mod m).stars := by rw [← hd]; simp
            have htl : t < w.length := hwf m t htm
            have hlen : (unvisited w st.1).length < f := by
              have h1' := unvisited_mono w (m :: v) st.1 h1
              have h2' := unvisited_lt w v m hm hmv
              omega
            have g := ih st.1 t hlen htl
            simp only [step]
            apply ihr (done ++ [some t]) _ hd'
            · intro x hx; exact g.sub x (h1 x hx)
            · intro x hx hnx hxm t' ht'
              by_cases hxs : x ∈ st.1
              · exact g.sub _ (h2 x hxs hnx hxm t' ht')
              · exact g.closed x hx hxs t' ht'
            · intro t' ht'
              simp only [List.mem_append, List.mem_singleton, Option.some.injEq] at ht'
              rcases ht' with ht' | rfl
              · exact g.sub _ (h3 t' ht')
              · exact g.self
            · intro n hn; exact addInner_keeps _ _ _ (h4 n hn)
            · intro x hx hnx hxm n hn hn0
              by_cases hxs : x ∈ st.1
              · exact addInner_keeps _ _ _ (h5 x hxs hnx hxm n hn hn0)
              · exact addInner_adds _ _ _ (g.named x hx hxs n hn (Or.inr hn0)) hn0
      apply key (w.mod m).stars [] _ (by simp)
      · intro x hx; exact hx
      · intro x hx hnx hxm
        simp only [List.mem_cons] at hx
        rcases hx with hx | hx
        · exact absurd hx hxm
        · exact absurd hx hnx
      · intro t ht; simp at ht
      · intro n hn
        simp only [names, List.map_map, List.mem_map]
        exact ⟨n, hn, rfl⟩
      · intro x hx hnx hxm
        simp only [List.mem_cons] at hx
        rcases hx with hx | hx
        · exact absurd hx hxm
        · exact absurd hx hnx

/-- **nothing is missing**: every name the statement assigns to the module is among the resolved
exports — own names (including `default`), and the non-default names of everything reachable
through star re-exports, however the re-exports are chained or cycle -/
theorem exports_complete (hwf : WF w) (m n : Nat) (hm : m < w.length) (h : Exported w m n) :
    n ∈ names (exportsOf w m) := by
  obtain ⟨p, hreach, hown, hcond⟩ := h
  have g := go_good w hwf (w.length + 1) [] m (by
    have : (unvisited w []).length ≤ (List.range w.length).length := by
      unfold unvisited; exact List.length_filter_le _ _
    simp at this; omega) hm
  -- everything reachable from a visited module is visited
  have hall : ∀ a b, Reach w a b → a ∈ (go w (w.length + 1) [] m).1 → b ∈ (go w (w.length + 1) [] m).1 := by
    intro a b hr
    induction hr with
    | refl a => exact fun h => h
    | step hedge _ ih => exact fun h => ih (g.closed _ h (by simp) _ hedge)
  have hp := hall m p hreach g.self
  exact g.named p hp (by simp) n hown hcond

/-- **the resolved export set is exactly the statement's** -/
theorem exports_exact (hwf : WF w) (m n : Nat) (hm : m < w.length) :
    n ∈ names (exportsOf w m) ↔ Exported w m n :=
  ⟨exports_sound w m n, exports_complete w hwf m n hm⟩

theorem addInner_prefix (acc inner : Resolved) : ∃ rest, addInner acc inner = acc ++ rest := by
  unfold addInner
  induction inner generalizing acc with
  | nil => exact ⟨[], by simp⟩
  | cons p r ih =>
    simp only [List.foldl_cons]
    split
    · exact ih acc
    · obtain ⟨rest, hr⟩ := ih (acc ++ [p])
      exact ⟨p :: rest, by rw [hr]; simp⟩

/-- **own names take precedence**: the module's own exports come first, in declaration order, each
resolved to the module itself; star re-exports only ever append names that are not there yet -/
theorem own_first (m : Nat) :
    ∃ rest, exportsOf w m = ((w.mod m).own.map fun n => (n, m)) ++ rest := by
  unfold exportsOf
  simp only [go, List.contains_nil, Bool.false_eq_true, if_false]
  have keep : ∀ (stars : List (Option Nat)) (st : List Nat × Resolved),
      ∃ rest, (stars.foldl (step (go w w.length)) st).2 = st.2 ++ rest := by
    intro stars
    induction stars with
    | nil => intro st; exact ⟨[], by simp⟩
    | cons s r ih =>
      intro st
      simp only [List.foldl_cons]
      obtain ⟨rest, hr⟩ := ih (step (go w w.length) st s)
      cases s with
      | none => exact ⟨rest, by simpa [step] using hr⟩
      | some t =>
        simp only [step] at hr ⊢
        obtain ⟨r2, h2⟩ := addInner_prefix st.2 (go w w.length st.1 t).2
        exact ⟨r2 ++ rest, by rw [hr, h2]; simp⟩
  exact keep _ _

/-- no name is resolved twice (given the module's own names are distinct, as map keys are) -/
theorem names_nodup_step (acc inner : Resolved) (h : (names acc).Nodup) : (names (addInner acc inner)).Nodup := by
  unfold addInner
  induction inner generalizing acc with
  | nil => exact h
  | cons p r ih =>
    simp only [List.foldl_cons]
    apply ih
    split
    · exact h
    · rename_i hc
      rw [names_append]
      simp only [names, List.map_cons, List.map_nil]
      rw [List.nodup_append]
      refine ⟨h, by simp, ?_⟩
      intro a ha b hb
      simp only [List.mem_singleton] at hb
      subst hb
      intro e
      subst e
      exact hc (Or.inr (by simpa [names] using ha))

/-! non-vacuity: a ↔ b cycle, both with a default export; c reached through both -/
def demo : World :=
  [ { own := [0, 1], stars := [some 1, none] },        -- a: default, x ; export * from b ; export * from "missing"
    { own := [0, 2], stars := [some 0, some 2] },      -- b: default, y ; export * from a ; export * from c
    { own := [3, 1], stars := [some 0] } ]             -- c: z, x ; export * from a

example : exportsOf demo 0 = [(0, 0), (1, 0), (2, 1), (3, 2)] := by decide
example : exportsOf demo 1 = [(0, 1), (2, 1), (1, 0), (3, 2)] := by decide

end DG.C16
