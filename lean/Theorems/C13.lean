import DG.ModInfo
/-!
# C13 — module information survives serialisation

Model: `DG/ModInfo.lean` (the JSON writer and reader that `serde` derives for `ModuleInfo` and its
parts, and the comment-to-types-specifier step of `module_graph_1_to_2`).
-/
namespace DG.C13
open DG.MI

/-! field lookup in an object built with skipped fields -/

theorem lookup_mkFields_nil (k : String) : (mkFields []).lookup k = none := rfl

theorem lookup_mkFields_cons (k k1 : String) (ov : Option J) (rest : List (String × Option J)) :
    (mkFields ((k1, ov) :: rest)).lookup k =
      if k == k1 then ov.or ((mkFields rest).lookup k)
      else (mkFields rest).lookup k := by
  cases ov with
  | none => simp [mkFields]
  | some v =>
    by_cases h : (k == k1) = true
    · simp [mkFields, List.lookup, h]
    · simp [mkFields, List.lookup, h]

theorem opt_match_id {α} (o : Option α) :
    (match o with | some v => some v | none => none) = o := by cases o <;> rfl

theorem pos_rt (p : Pos) : decPos (encPos p) = some p := rfl

theorem range_rt (r : Range) : decRange (encRange r) = some r := by
  simp [decRange, encRange, pos_rt]

theorem spec_rt (s : SpecR) : decSpecR (encSpecR s) = some s := by
  simp [decSpecR, encSpecR, mkObj, specFields, specOf, getStr, lookup_mkFields_cons, lookup_mkFields_nil, range_rt]

theorem attr_rt (a : Attr) : decAttr (encAttr a) = some a := by
  cases a <;> rfl

theorem attr_entries_rt (m : List (String × Attr)) :
    decAttrEntries (m.map fun p => (p.1, encAttr p.2)) = some m := by
  induction m with
  | nil => rfl
  | cons p r ih =>
    obtain ⟨k, a⟩ := p
    simp [decAttrEntries, attr_rt, ih]

theorem mode_name_rt (m : ResMode) : ResMode.parse m.name = some m := by cases m <;> rfl
theorem static_kind_rt (k : StaticKind) : StaticKind.parse k.name = some k := by cases k <;> rfl
theorem dyn_kind_rt (k : DynKind) : DynKind.parse k.name = some k := by cases k <;> rfl

theorem tpart_rt (t : TPart) : decTPart (encTPart t) = some t := by
  cases t <;> simp [decTPart, encTPart, getStr, List.lookup]

theorem decList_map {α} (dec : J → Option α) (enc : α → J) (h : ∀ x, dec (enc x) = some x) (l : List α) :
    decList dec (l.map enc) = some l := by
  induction l with
  | nil => rfl
  | cons x r ih => simp [decList, h, ih]


theorem attrs_field_rt (a : Attrs) (kvs : List (String × J)) (hk : kvs.lookup "importAttributes" = encAttrs a) :
    decAttrs kvs = some a := by
  unfold decAttrs
  rw [hk]
  cases a with
  | none => rfl
  | unknown => simp [encAttrs]
  | known m => simp [encAttrs, attr_entries_rt]

theorem dynarg_field_rt (a : DynArg) (kvs : List (String × J)) (hk : kvs.lookup "argument" = encDynArg a) :
    decDynArg kvs = some a := by
  unfold decDynArg
  rw [hk]
  cases a with
  | str s => rfl
  | template l => simp [encDynArg, decList_map decTPart encTPart tpart_rt]
  | expr => rfl

theorem optSpec_field_rt (o : Option SpecR) (kvs : List (String × J)) (k : String)
    (hk : kvs.lookup k = o.map encSpecR) : optField decSpecR kvs k = some o := by
  unfold optField
  rw [hk]
  cases o with
  | none => rfl
  | some s =>
    have := spec_rt s
    simp only [Option.map_some]
    simp only [encSpecR, mkObj] at this ⊢
    simp [this]

theorem bool_field_rt (b : Bool) (kvs : List (String × J)) (k : String)
    (hk : kvs.lookup k = optBool b) : boolField kvs k = some b := by
  unfold boolField
  rw [hk]
  cases b <;> rfl

theorem mode_field_rt (m : Option ResMode) (kvs : List (String × J))
    (hk : kvs.lookup "resolutionMode" = encMode m) : decMode kvs = some m := by
  unfold decMode
  rw [hk]
  cases m with
  | none => rfl
  | some m => simp [encMode, mode_name_rt]

theorem list_field_rt {α} (dec : J → Option α) (enc : α → J) (h : ∀ x, dec (enc x) = some x)
    (l : List α) (kvs : List (String × J)) (k : String)
    (hk : kvs.lookup k = optList (l.map enc)) : listField dec kvs k = some l := by
  unfold listField
  rw [hk]
  cases l with
  | nil => rfl
  | cons x r =>
    simp only [optList, List.map_cons, List.isEmpty_cons, Bool.false_eq_true, if_false]
    exact decList_map dec enc h (x :: r)

theorem static_rt (d : StaticDep) : decDep (encDep (.static d)) = some (.static d) := by
  have L : (staticFields d).lookup "type" = some (.str "static") ∧
      (staticFields d).lookup "kind" = some (.str d.kind.name) ∧
      (staticFields d).lookup "typesSpecifier" = d.typesSpecifier.map encSpecR ∧
      (staticFields d).lookup "specifier" = some (.str d.specifier) ∧
      (staticFields d).lookup "specifierRange" = some (encRange d.specifierRange) ∧
      (staticFields d).lookup "sideEffect" = optBool d.sideEffect ∧
      (staticFields d).lookup "importAttributes" = encAttrs d.attrs := by
    refine ⟨?_, ?_, ?_, ?_, ?_, ?_, ?_⟩ <;>
      simp [staticFields, lookup_mkFields_cons, lookup_mkFields_nil, Option.or_none]
  obtain ⟨l1, l2, l3, l4, l5, l6, l7⟩ := L
  simp only [encDep, encStatic, decDep, getStr, l1, decStatic, l2, l4, l5]
  rw [optSpec_field_rt _ _ _ l3, bool_field_rt _ _ _ l6, attrs_field_rt _ _ l7]
  simp [static_kind_rt, range_rt]

theorem dyn_rt (d : DynDep) : decDep (encDep (.dynamic d)) = some (.dynamic d) := by
  have L : (dynFields d).lookup "type" = some (.str "dynamic") ∧
      (dynFields d).lookup "kind" = encDynKind d.kind ∧
      (dynFields d).lookup "typesSpecifier" = d.typesSpecifier.map encSpecR ∧
      (dynFields d).lookup "argument" = encDynArg d.argument ∧
      (dynFields d).lookup "argumentRange" = some (encRange d.argumentRange) ∧
      (dynFields d).lookup "importAttributes" = encAttrs d.attrs := by
    refine ⟨?_, ?_, ?_, ?_, ?_, ?_⟩ <;>
      simp [dynFields, lookup_mkFields_cons, lookup_mkFields_nil, Option.or_none]
  obtain ⟨l1, l2, l3, l4, l5, l6⟩ := L
  have hk : decDynKind (dynFields d) = some d.kind := by
    unfold decDynKind
    rw [l2]
    cases d.kind <;> rfl
  simp only [encDep, encDyn, decDep, getStr, l1, decDyn, l5, hk]
  rw [optSpec_field_rt _ _ _ l3, dynarg_field_rt _ _ l4, attrs_field_rt _ _ l6]
  simp [range_rt]

theorem dep_rt (d : Dep) : decDep (encDep d) = some d := by
  cases d with
  | static d => exact static_rt d
  | dynamic d => exact dyn_rt d

theorem tsref_rt (r : TsRef) : decTsRef (encTsRef r) = some r := by
  cases r with
  | path s =>
    simp [decTsRef, encTsRef, tsRefFields, getStr, specOf, lookup_mkFields_cons, range_rt]
  | types s m =>
    have hm : (tsRefFields (.types s m)).lookup "resolutionMode" = encMode m := by
      simp [tsRefFields, lookup_mkFields_cons, lookup_mkFields_nil, Option.or_none]
    have h := mode_field_rt m _ hm
    simp only [decTsRef, encTsRef, h]
    simp [tsRefFields, getStr, specOf, lookup_mkFields_cons, range_rt]

theorem jsdoc_rt (d : JsDoc) : decJsDoc (encJsDoc d) = some d := by
  have hm : (jsDocFields d).lookup "resolutionMode" = encMode d.mode := by
    simp [jsDocFields, lookup_mkFields_cons, lookup_mkFields_nil, Option.or_none]
  have h := mode_field_rt d.mode _ hm
  simp only [decJsDoc, encJsDoc, h]
  simp [jsDocFields, getStr, specOf, lookup_mkFields_cons, range_rt]

/-- **serialising the analysis result of any module and reading it back yields an identical
result** — for every `ModuleInfo` value, all field combinations (empty and non-empty lists,
default and non-default kinds, every attribute form) -/
theorem decode_encode (m : ModuleInfo) : decode (encode m) = some m := by
  have L : (infoFields m).lookup "script" = optBool m.script ∧
      (infoFields m).lookup "dependencies" = optList (m.deps.map encDep) ∧
      (infoFields m).lookup "tsReferences" = optList (m.tsRefs.map encTsRef) ∧
      (infoFields m).lookup "selfTypesSpecifier" = m.selfTypes.map encSpecR ∧
      (infoFields m).lookup "jsxImportSource" = m.jsxSrc.map encSpecR ∧
      (infoFields m).lookup "jsxImportSourceTypes" = m.jsxSrcTypes.map encSpecR ∧
      (infoFields m).lookup "jsdocImports" = optList (m.jsdoc.map encJsDoc) ∧
      (infoFields m).lookup "sourceMapUrl" = m.sourceMap.map encSpecR := by
    refine ⟨?_, ?_, ?_, ?_, ?_, ?_, ?_, ?_⟩ <;>
      simp [infoFields, lookup_mkFields_cons, lookup_mkFields_nil, Option.or_none]
  obtain ⟨l1, l2, l3, l4, l5, l6, l7, l8⟩ := L
  simp only [encode, decode]
  rw [bool_field_rt _ _ _ l1, list_field_rt decDep encDep dep_rt _ _ _ l2,
    list_field_rt decTsRef encTsRef tsref_rt _ _ _ l3, optSpec_field_rt _ _ _ l4,
    optSpec_field_rt _ _ _ l5, optSpec_field_rt _ _ _ l6,
    list_field_rt decJsDoc encJsDoc jsdoc_rt _ _ _ l7, optSpec_field_rt _ _ _ l8]
  rfl

/-- the writer is injective: different analysis results never share a JSON form -/
theorem encode_injective (a b : ModuleInfo) (h : encode a = encode b) : a = b := by
  have ha := decode_encode a
  rw [h, decode_encode b] at ha
  exact (Option.some.inj ha).symm

/-- **older `moduleGraph1` manifests keep their `@deno-types` information**: the types specifier
recovered from a dependency's leading comment is the one `find_deno_types` finds in the last comment,
with the range of the specifier on the comment's line -/
theorem upgrade_keeps_types (find : String → Option (String × Nat × Nat × Bool)) (pre : List Comment)
    (c : Comment) (t : String) (lo hi : Nat) (q : Bool) (h : find c.text = some (t, lo, hi, q)) :
    upgradeTypes find (pre ++ [c]) = some { text := t, range := commentRange c.range.s lo hi q } := by
  simp [upgradeTypes, h]

/-- the range arithmetic: a `// @deno-types="x"` comment starting at column `col` gives the range of
`"x"` including its quotes … -/
theorem commentRange_quotes (line col lo hi : Nat) (hlo : 1 ≤ lo) :
    commentRange { line := line, char := col } lo hi false =
      { s := { line := line, char := col + 1 + lo }, e := { line := line, char := col + 3 + hi } } := by
  simp only [commentRange, Bool.false_eq_true, if_false, Range.mk.injEq, Pos.mk.injEq, true_and]
  omega

/-- … and exactly the specifier when the pragma has no quotes (as the analyser reports it; the
upgrade ignored this before 'fix: … quoteless' in /repo) -/
theorem commentRange_quoteless (line col lo hi : Nat) :
    commentRange { line := line, char := col } lo hi true =
      { s := { line := line, char := col + 2 + lo }, e := { line := line, char := col + 2 + hi } } := by
  simp [commentRange]

/-! non-vacuity -/
def demo : ModuleInfo :=
  { script := false,
    deps := [.static { kind := .import, typesSpecifier := none, specifier := "./a.ts",
                       specifierRange := ⟨⟨0, 7⟩, ⟨0, 15⟩⟩, sideEffect := true,
                       attrs := .known [("type", .known "json")] },
             .dynamic { kind := .require, typesSpecifier := none, argument := .template [.str "./x", .expr],
                        argumentRange := ⟨⟨1, 7⟩, ⟨1, 15⟩⟩, attrs := .unknown }],
    tsRefs := [.types ⟨"node", ⟨⟨0, 0⟩, ⟨0, 5⟩⟩⟩ (some .require)], selfTypes := none, jsxSrc := none,
    jsxSrcTypes := none, jsdoc := [], sourceMap := none }

example : decode (encode demo) = some demo := decode_encode demo

end DG.C13
