import DG.Proto
/-! Line-protocol driver: one request per line on stdin, one answer per line on stdout. -/
open DG DG.Sexp

structure DState where
  graph : Graph := default

def joinSp (l : List String) : String := " ".intercalate l

def handle (st : DState) (req : Sexp) : DState × String :=
  match req with
  | .list [.atom "g", gx] =>
    match graph? gx with
    | some g => ({ st with graph := g }, "ok")
    | none => (st, "bad-graph")
  | .list [.atom "resolve", s] =>
    match nat? s with
    | some s => (st, toString (st.graph.resolve s))
    | none => (st, "bad-op")
  | .list [.atom "lookup", s] =>
    match nat? s with
    | some s =>
      let g := st.graph
      (st, joinSp [s!"resolve={g.resolve s}", s!"get={showOptNat (g.get s)}",
        s!"contains={if g.contains s then 1 else 0}", s!"tryget={(g.tryGet s).show}",
        s!"trygetpt={(g.tryGetPreferTypes s).show}"])
    | none => (st, "bad-op")
  | .list [.atom "specifiers"] => (st, joinSp (st.graph.specifiers.map SpecEntry.show))
  | .list [.atom "resdep", d, p] =>
    match dep? d, bool? p with
    | some d, some p => (st, showOptNat (st.graph.resolveDependencyFromDep d p))
    | _, _ => (st, "bad-op")
  | .list [.atom "walk", k, fd, cj, pfc, .list (.atom "roots" :: rs), .list (.atom "skip" :: sk)] =>
    match walkOpts? k fd cj pfc, nats? rs, nats? sk with
    | some o, some rs, some sk =>
      match st.graph.walk? o rs (fun s => sk.contains s) with
      | some es => (st, joinSp (es.map fun (s, e) => s!"{s}:{e.show}"))
      | none => (st, "OUT-OF-FUEL")
    | _, _, _ => (st, "bad-op")
  | .list [.atom "errors", k, fd, cj, pfc, .list (.atom "roots" :: rs)] =>
    match walkOpts? k fd cj pfc, nats? rs with
    | some o, some rs => (st, joinSp ((st.graph.errors o rs).map ErrOut.show))
    | _, _ => (st, "bad-op")
  | .list [.atom "valid"] =>
    (st, match st.graph.valid with | some e => e.show | none => "ok")
  | _ => (st, "bad-op")

partial def loop (h : IO.FS.Stream) (out : IO.FS.Stream) (st : DState) : IO Unit := do
  let line ← h.getLine
  if line.isEmpty then return ()
  match Sexp.parse line with
  | none =>
    out.putStrLn "bad-parse"
    loop h out st
  | some req =>
    let (st', ans) := handle st req
    out.putStrLn ans
    loop h out st'

def main : IO Unit := do
  let out ← IO.getStdout
  loop (← IO.getStdin) out {}
  out.flush
