import DG.Proto
import DG.JsrVersion
import DG.Decode
import DG.BuildProto
import DG.Prune
import DG.Segment
import DG.Reload
import DG.JsrProto
import DG.ModInfoProto
import DG.Deps
import DG.TextPos
import DG.Exports
import DG.EraseProto
import DG.Trace
import DG.FcPkg
import DG.SubsetProto
import DG.FcDeps
import DG.Leave
/-! Line-protocol driver: one request per line on stdin, one answer per line on stdout. -/
open DG DG.Sexp

structure DState where
  graph : Graph := default
  hist : DG.Reload.GSt := {}

def joinSp (l : List String) : String := " ".intercalate l

def handle (st : DState) (req : Sexp) : DState × String :=
  match DG.Subset.Proto.handle req with
  | some out => (st, out)
  | none =>
  match DG.Leave.Proto.handle req with
  | some out => (st, out)
  | none =>
  match req with
  | .list [.atom "fc-deps-outputs", .list (.atom "top" :: ts), .list (.atom "pkgs" :: ps), .list (.atom "stale" :: ss)] =>
    let pkg? : Sexp → Option DG.FcDeps.Pkg := fun
      | .list [.list (.atom "recorded" :: r), .list (.atom "touched" :: t)] => do
        pure { recorded := ← nats? r, touched := ← nats? t }
      | _ => none
    match nats? ts, ps.mapM pkg?, nats? ss with
    | some top, some w, some stale =>
      (st, match DG.FcDeps.run w 10000 (DG.FcDeps.init top) with
        | some s =>
          let out := DG.FcDeps.outputs w (fun p => stale.contains p) s
          let sorted := (out.foldl (fun acc x => if acc.contains x then acc else acc ++ [x]) []).toArray.qsort (· < ·) |>.toList
          joinSp (sorted.map toString)
        | none => "OUT-OF-FUEL")
    | _, _, _ => (st, "bad-op")
  | .list [.atom "fc-deps", .list (.atom "top" :: ts), .list (.atom "pkgs" :: ps), .list (.atom "stale" :: ss)] =>
    let pkg? : Sexp → Option DG.FcDeps.Pkg := fun
      | .list [.list (.atom "recorded" :: r), .list (.atom "touched" :: t)] => do
        pure { recorded := ← nats? r, touched := ← nats? t }
      | _ => none
    match nats? ts, ps.mapM pkg?, nats? ss with
    | some top, some w, some stale =>
      (st, match DG.FcDeps.run w 10000 (DG.FcDeps.init top) with
        | some s =>
          let out := DG.FcDeps.outputs w (fun p => stale.contains p) s
          let sorted := (out.foldl (fun acc x => if acc.contains x then acc else acc ++ [x]) []).toArray.qsort (· < ·) |>.toList
          "analysed " ++ joinSp (s.analysed.map toString) ++ " ; outputs " ++ joinSp (sorted.map toString)
        | none => "OUT-OF-FUEL")
    | _, _, _ => (st, "bad-op")
  | .list [.atom "g", gx] =>
    match graph? gx with
    | some g => ({ st with graph := g }, "ok")
    | none => (st, "bad-graph")
  | .list [.atom "resolve", s] =>
    match nat? s with
    | some s => (st, toString (st.graph.resolve s))
    | none => (st, "bad-op")
  | .list [.atom "lookup", s] =>
    match nat? s with
    | some s =>
      let g := st.graph
      (st, joinSp [s!"resolve={g.resolve s}", s!"get={showOptNat (g.get s)}",
        s!"contains={if g.contains s then 1 else 0}", s!"tryget={(g.tryGet s).show}",
        s!"trygetpt={(g.tryGetPreferTypes s).show}"])
    | none => (st, "bad-op")
  | .list [.atom "specifiers"] => (st, joinSp (st.graph.specifiers.map SpecEntry.show))
  | .list [.atom "resdep", d, p] =>
    match dep? d, bool? p with
    | some d, some p => (st, showOptNat (st.graph.resolveDependencyFromDep d p))
    | _, _ => (st, "bad-op")
  | .list [.atom "walk", k, fd, cj, pfc, .list (.atom "roots" :: rs), .list (.atom "skip" :: sk)] =>
    match walkOpts? k fd cj pfc, nats? rs, nats? sk with
    | some o, some rs, some sk =>
      match st.graph.walk? o rs (fun s => sk.contains s) with
      | some es => (st, joinSp (es.map fun (s, e) => s!"{s}:{e.show}"))
      | none => (st, "OUT-OF-FUEL")
    | _, _, _ => (st, "bad-op")
  | .list [.atom "errors", k, fd, cj, pfc, .list (.atom "roots" :: rs)] =>
    match walkOpts? k fd cj pfc, nats? rs with
    | some o, some rs => (st, joinSp ((st.graph.errors o rs).map ErrOut.show))
    | _, _ => (st, "bad-op")
  | .list [.atom "jsr", .list (.atom "sat" :: sats), cutoff, .list (.atom "infos" :: infos),
           .list (.atom "existing" :: ex), .list (.atom "cached" :: ca)] =>
    let optNat : Sexp → Option (Option Nat) := fun
      | .atom "-" => some none
      | x => (nat? x).map some
    let info? : Sexp → Option (Nat × DG.Jsr.VInfo) := fun
      | .list [v, y, c] => do
        pure ((← nat? v), { yanked := ← bool? y, createdAt := ← optNat c })
      | _ => none
    match nats? sats, optNat cutoff, infos.mapM info?, nats? ex, nats? ca with
    | some sats, some cutoff, some infos, some ex, some ca =>
      match DG.Jsr.resolveTiers (fun v => sats.contains v) cutoff infos ex ca with
      | .ok v y => (st, s!"ok {v} {if y then 1 else 0}")
      | .notFound d => (st, s!"notfound {showOptNat d}")
    | _, _, _, _, _ => (st, "bad-op")
  | .list [.atom "cutofffor", date, .list (.atom "excl" :: ex), .list (.atom "pref" :: pf), .atom name] =>
    let optNat : Sexp → Option (Option Nat) := fun
      | .atom "-" => some none
      | x => (nat? x).map some
    let strs : List Sexp → Option (List (List Char)) := fun l => l.mapM fun
      | .atom a => some a.toList
      | _ => none
    match optNat date, strs ex, strs pf with
    | some d, some ex, some pf => (st, showOptNat (DG.Jsr.cutoffFor d ex pf name.toList))
    | _, _, _ => (st, "bad-op")
  | .list [.atom "decode", hdr, isFile, .list (.atom "bytes" :: bs), conv] =>
    -- conv: what encoding_rs answered for a non-modelled label ("-" when not applicable)
    let hex (l : List UInt8) : String :=
      String.join (l.map fun b =>
        let n := b.toNat
        let d (k : Nat) : Char := if k < 10 then Char.ofNat (48 + k) else Char.ofNat (87 + k)
        String.ofList [d (n / 16), d (n % 16)])
    let charset? : Sexp → Option (Option DG.Decode.Charset) := fun
      | .atom "-" => some none
      | .atom "utf8" => some (some .utf8)
      | .atom "utf16le" => some (some .utf16le)
      | .atom "utf16be" => some (some .utf16be)
      | .atom "unsupported" => some (some .unsupported)
      | .atom "other" => some (some (.other 0))
      | _ => none
    let conv? : Sexp → Option DG.Decode.Conv := fun
      | .atom "-" => some .err
      | .atom "borrowed" => some .borrowed
      | .list (.atom "owned" :: cs) => (nats? cs).map .owned
      | _ => none
    match charset? hdr, bool? isFile, nats? bs, conv? conv with
    | some h, some f, some bs, some cv =>
      let bytes := bs.map UInt8.ofNat
      match DG.Decode.newSource (fun _ _ => cv) h f bytes with
      | none => (st, "err")
      | some (text, k) =>
        let ks := match k with | .unchanged => "unchanged" | .changed => "changed" | .onlyUtf8Bom => "bom"
        let orig := match DG.Decode.tryGetOriginalBytes text k with
          | some o => hex o
          | none => "-"
        (st, s!"{ks} text={hex text} orig={orig} size={DG.Decode.size text}")
    | _, _, _, _ => (st, "bad-op")
  | .list [.atom "build", wx, ox, .list (.atom "roots" :: rs), .list (.atom "imports" :: is), fuel] =>
    match DG.Build.world? wx, DG.Build.opts? ox, nats? rs, DG.Build.imports? is, nat? fuel with
    | some w, some o, some rs, some is, some fuel =>
      match DG.Build.buildGraph w o rs is fuel with
      | some stf => (st, DG.Build.showSt stf)
      | none => (st, "OUT-OF-FUEL")
    | _, _, _, _, _ => (st, "bad-op")
  | .list [.atom "prune", wx, ox, .list (.atom "roots" :: rs), .list (.atom "imports" :: is), fuel] =>
    match DG.Build.world? wx, DG.Build.opts? ox, nats? rs, DG.Build.imports? is, nat? fuel with
    | some w, some o, some rs, some is, some fuel =>
      match DG.Build.buildGraph w o rs is fuel with
      | some stf =>
        let (slots, reds) :=
          if o.kind.includeTypes then
            let p := DG.Prune.pruneTypes rs stf.slots stf.redirects (DG.Prune.pruneFuel rs stf.slots stf.redirects)
            (p.slots, p.redirects)
          else (stf.slots, stf.redirects)
        (st, DG.Build.showSt { stf with slots := slots, redirects := reds, log := [] })
      | none => (st, "OUT-OF-FUEL")
    | _, _, _, _, _ => (st, "bad-op")
  | .list [.atom "segment", .list (.atom "roots" :: rs)] =>
    match nats? rs with
    | some rs =>
      let sg := st.graph.segment rs
      let showSlot : Slot → String
        | .module _ => "m"
        | .err _ c _ => s!"e{c}"
        | .pending => "p"
      let slots := (DG.Build.sortByKey sg.slots).map fun (k, sl) => s!"{k}:{showSlot sl}"
      let reds := (DG.Build.sortByKey sg.redirects).map fun (a, b) => s!"{a}>{b}"
      (st, joinSp (slots ++ reds ++ [s!"roots={sg.roots.length}"]))
    | none => (st, "bad-op")
  | .list [.atom "hist-start"] => ({ st with hist := {} }, "ok")
  | .list [.atom "hist-build", wx, ox, .list (.atom "roots" :: rs), .list (.atom "imports" :: is), fuel] =>
    match DG.Build.world? wx, DG.Build.opts? ox, nats? rs, DG.Build.imports? is, nat? fuel with
    | some w, some o, some rs, some is, some fuel =>
      match DG.Reload.buildMore w o st.hist rs is fuel with
      | some (g', out) => ({ st with hist := g' }, DG.Build.showSt out)
      | none => (st, "OUT-OF-FUEL")
    | _, _, _, _, _ => (st, "bad-op")
  | .list [.atom "hist-reload", wx, ox, .list (.atom "specs" :: ss), fuel] =>
    match DG.Build.world? wx, DG.Build.opts? ox, nats? ss, nat? fuel with
    | some w, some o, some ss, some fuel =>
      match DG.Reload.reload w o st.hist ss fuel with
      | some (g', out) => ({ st with hist := g' }, DG.Build.showSt out)
      | none => (st, "OUT-OF-FUEL")
    | _, _, _, _ => (st, "bad-op")
  | .list [.atom "jsr-export", ex, name] =>
    match DG.Jsr.Proto.exports? ex, DG.Jsr.Proto.str? name with
    | some e, some n =>
      let r := match e.export n with
        | some p => "some:" ++ DG.Jsr.Proto.showStr p
        | none => "none"
      (st, joinSp (r :: e.list.map fun (k, v) => "L" ++ DG.Jsr.Proto.showStr k ++ ">" ++ DG.Jsr.Proto.showStr v))
    | _, _ => (st, "bad-op")
  | .list [.atom "jsr-urlnv", reg, url, .list (.atom "valid" :: vs)] =>
    match DG.Jsr.Proto.str? reg, DG.Jsr.Proto.str? url, vs.mapM DG.Jsr.Proto.str? with
    | some reg, some url, some vs =>
      (st, match DG.Jsr.urlToNv (fun v => vs.contains v) reg url with
        | some (n, v) => DG.Jsr.Proto.showStr n ++ " " ++ DG.Jsr.Proto.showStr v
        | none => "none")
    | _, _, _ => (st, "bad-op")
  | .list [.atom "jsr-pkgurl", reg, name, ver] =>
    match DG.Jsr.Proto.str? reg, DG.Jsr.Proto.str? name, DG.Jsr.Proto.str? ver with
    | some reg, some n, some v => (st, DG.Jsr.Proto.showStr (DG.Jsr.packageUrl reg n v))
    | _, _, _ => (st, "bad-op")
  | .list [.atom "jsr-subpath", base, url] =>
    match DG.Jsr.Proto.str? base, DG.Jsr.Proto.str? url with
    | some b, some u =>
      (st, match DG.Jsr.getSubpath b u with
        | some p => "some:" ++ DG.Jsr.Proto.showStr p
        | none => "none")
    | _, _ => (st, "bad-op")
  | .list (.atom "jsr-pass" :: rest) =>
    match DG.Jsr.Proto.pass? rest with
    | some p => (st, DG.Jsr.Proto.showPass (DG.Jsr.resolvePass p.reg p.names p.mode p.table p.items))
    | none => (st, "bad-op")
  | .list [.atom "mi-roundtrip", j] =>
    match DG.MI.Proto.json? j with
    | some j => (st, DG.MI.Proto.roundtrip j)
    | none => (st, "bad-op")
  | .list [.atom "mod-deps", it, isd, ist, isj, hdr, .list (.atom "resc" :: tc), .list (.atom "rest" :: tt), j] =>
    let entry? : Sexp → Option (String × DG.Deps.R) := fun
      | Sexp.list [Sexp.atom k, Sexp.atom "err"] =>
        if k.startsWith "s:" then some (String.ofList (k.toList.drop 2), DG.Deps.R.err) else none
      | Sexp.list [Sexp.atom k, v] =>
        if k.startsWith "s:" then (nat? v).map fun n => (String.ofList (k.toList.drop 2), DG.Deps.R.ok n) else none
      | _ => none
    let hdr? : Option (Option String) := match hdr with
      | Sexp.atom "-" => some none
      | Sexp.atom a => if a.startsWith "s:" then some (some (String.ofList (a.toList.drop 2))) else none
      | _ => none
    match bool? it, bool? isd, bool? ist, bool? isj, hdr?, tc.mapM entry?, tt.mapM entry?, (DG.MI.Proto.json? j).bind DG.MI.decode with
    | some it, some isd, some ist, some isj, some hdr, some tc, some tt, some mi =>
      let env : DG.Deps.Env :=
        { includeTypes := it, isDeclaration := isd, isTyped := ist, isJsx := isj, header := hdr,
          resC := fun t => (tc.lookup t).getD .err, resT := fun t => (tt.lookup t).getD .err }
      (st, (DG.Deps.analyse env mi).render)
    | _, _, _, _, _, _, _, _ => (st, "bad-op")
  | .list [.atom "mi-upgrade", lo, hi, line, col, q] =>
    -- comment range arithmetic of module_graph_1_to_2
    match nat? lo, nat? hi, nat? line, nat? col, bool? q with
    | some lo, some hi, some line, some col, some q =>
      let r := DG.MI.commentRange { line := line, char := col } lo hi q
      (st, s!"{r.s.line}:{r.s.char}-{r.e.line}:{r.e.char}")
    | _, _, _, _, _ => (st, "bad-op")
  | .list [.atom "posof", .list (.atom "t" :: cps), off] =>
    match nats? cps, nat? off with
    | some cps, some off =>
      let p := DG.TP.posOf (cps.map Char.ofNat) off
      (st, s!"{p.line}:{p.char}")
    | _, _ => (st, "bad-op")
  | .list [.atom "cspan", .list (.atom "t" :: cps), start, lo, hi, q] =>
    match nats? cps, nat? start, nat? lo, nat? hi, bool? q with
    | some cps, some start, some lo, some hi, some q =>
      let text := cps.map Char.ofNat
      let r := DG.TP.commentSpan text start lo hi q
      (st, s!"{r.s.line}:{r.s.char}-{r.e.line}:{r.e.char} " ++ joinSp ((DG.TP.slice text r).map fun c => toString c.toNat))
    | _, _, _, _, _ => (st, "bad-op")
  | .list [.atom "includes", sl, sc, el, ec, pl, pc] =>
    match nats? [sl, sc, el, ec, pl, pc] with
    | some [sl, sc, el, ec, pl, pc] =>
      (st, if DG.TP.includes ⟨⟨sl, sc⟩, ⟨el, ec⟩⟩ ⟨pl, pc⟩ then "1" else "0")
    | _ => (st, "bad-op")
  | .list [.atom "depincludes", .list (.atom "ranges" :: rs), ty, pl, pc] =>
    let range? : Sexp → Option DG.MI.Range := fun
      | .list [a, b, c, d] => do pure ⟨⟨← nat? a, ← nat? b⟩, ⟨← nat? c, ← nat? d⟩⟩
      | _ => none
    let ty? : Option (Option DG.MI.Range) := match ty with
      | .atom "-" => some none
      | x => (range? x).map some
    match rs.mapM range?, ty?, nat? pl, nat? pc with
    | some rs, some ty, some pl, some pc =>
      (st, match DG.TP.depIncludes rs ty ⟨pl, pc⟩ with
        | some r => s!"{r.s.line}:{r.s.char}-{r.e.line}:{r.e.char}"
        | none => "none")
    | _, _, _, _ => (st, "bad-op")
  | .list [.atom "sym-exports", .list (.atom "mods" :: ms), m] =>
    let mod? : Sexp → Option DG.Sym.Mod := fun
      | .list [.list (.atom "own" :: o), .list (.atom "stars" :: ss)] => do
        let own ← nats? o
        let stars ← ss.mapM fun
          | .atom "-" => some (none : Option Nat)
          | x => (nat? x).map some
        pure { own := own, stars := stars }
      | _ => none
    match ms.mapM mod?, nat? m with
    | some w, some m =>
      (st, joinSp (((DG.Sym.exportsOf w m).map fun (n, p) => s!"{n}@{p}")))
    | _, _ => (st, "bad-op")
  | .list [.atom "fc-trace", .list (.atom "mods" :: ms), .list (.atom "entries" :: es)] =>
    let triple? : Sexp → Option (Nat × Nat × Nat) := fun
      | .list [a, b, c] => do pure ((← nat? a), (← nat? b), (← nat? c))
      | _ => none
    let pair? : Sexp → Option (Nat × Nat) := fun
      | .list [a, b] => do pure ((← nat? a), (← nat? b))
      | _ => none
    let decl? : Sexp → Option DG.Trace.Decl := fun
      | .list [n, e, d, .list (.atom "refs" :: rs)] => do
        pure { name := ← nat? n, exported := ← bool? e, isDefault := ← bool? d, refs := ← nats? rs }
      | .list [n, e, d, .list (.atom "refs" :: rs), .list (.atom "qrefs" :: qs)] => do
        pure { name := ← nat? n, exported := ← bool? e, isDefault := ← bool? d, refs := ← nats? rs, qrefs := ← qs.mapM pair? }
      | _ => none
    let mod? : Sexp → Option DG.Trace.Mod := fun
      | .list [.list (.atom "decls" :: ds), .list (.atom "imports" :: is), .list (.atom "from" :: fs),
               .list (.atom "stars" :: ss), .list (.atom "locals" :: ls)] => do
        pure { decls := ← ds.mapM decl?, imports := ← is.mapM triple?, exportFrom := ← fs.mapM triple?,
               stars := ← nats? ss, exportLocal := ← ls.mapM pair? }
      | .list [.list (.atom "decls" :: ds), .list (.atom "imports" :: is), .list (.atom "from" :: fs),
               .list (.atom "stars" :: ss), .list (.atom "locals" :: ls), .list (.atom "nsimports" :: ns)] => do
        pure { decls := ← ds.mapM decl?, imports := ← is.mapM triple?, exportFrom := ← fs.mapM triple?,
               stars := ← nats? ss, exportLocal := ← ls.mapM pair?, nsImports := ← ns.mapM pair? }
      | _ => none
    match ms.mapM mod?, nats? es with
    | some w, some es =>
      (st, match DG.Trace.trace w es 100000 with
        | some s => joinSp s.tokens
        | none => "OUT-OF-FUEL")
    | _, _ => (st, "bad-op")
  | .list [.atom "fc-uncached", stop, .list (.atom "entries" :: es), .list (.atom "mods" :: ms)] =>
    let mres? : Sexp → Option DG.FcPkg.MRes := fun
      | .list [a, b, c] => do pure { spec := ← nat? a, hash := ← nat? b, diag := ← bool? c }
      | _ => none
    let showRes : Nat × DG.FcPkg.Res → String := fun
      | (s, .output) => s!"ok:{s}"
      | (s, .diags ds) => s!"err:{s}:[{",".intercalate (ds.map toString)}]"
    match bool? stop, nats? es, ms.mapM mres? with
    | some stop, some es, some ms =>
      let p : DG.FcPkg.Pkg := { entrypoints := es, mods := ms, stopAtFirst := stop }
      (st, joinSp ((DG.FcPkg.uncached p).map showRes) ++ " | " ++
        joinSp ((DG.FcPkg.cacheItems p).map fun (s, i) => match i with
          | .info h => s!"info:{s}:{h}" | .diagnostic h => s!"diag:{s}:{h}"))
    | _, _, _ => (st, "bad-op")
  | .list [.atom "fc-cached", .list (.atom "entries" :: es), .list (.atom "items" :: is), .list (.atom "now" :: hs)] =>
    let item? : Sexp → Option (Nat × DG.FcPkg.CItem) := fun
      | .list [a, .atom "info", h] => do pure ((← nat? a), .info (← nat? h))
      | .list [a, .atom "diag", h] => do pure ((← nat? a), .diagnostic (← nat? h))
      | _ => none
    let pair? : Sexp → Option (Nat × Nat) := fun
      | .list [a, b] => do pure ((← nat? a), (← nat? b))
      | _ => none
    let showRes : Nat × DG.FcPkg.Res → String := fun
      | (s, .output) => s!"ok:{s}"
      | (s, .diags ds) => s!"err:{s}:[{",".intercalate (ds.map toString)}]"
    match es.mapM nat?, is.mapM item?, hs.mapM pair? with
    | some entries, some items, some now =>
      if DG.FcPkg.valid items (fun s => (now.lookup s).getD 0) then
        (st, "valid " ++ joinSp ((DG.FcPkg.cachedResult entries items).map showRes))
      else (st, "stale")
    | _, _, _ => (st, "bad-op")
  | .list [.atom "valid"] =>
    (st, match st.graph.valid with | some e => e.show | none => "ok")
  | other =>
    match DG.FC.Proto.handle other with
    | some ans => (st, ans)
    | none => (st, "bad-op")

partial def loop (h : IO.FS.Stream) (out : IO.FS.Stream) (st : DState) : IO Unit := do
  let line ← h.getLine
  if line.isEmpty then return ()
  match Sexp.parse line with
  | none =>
    out.putStrLn "bad-parse"
    loop h out st
  | some req =>
    let (st', ans) := handle st req
    out.putStrLn ans
    loop h out st'

def main : IO Unit := do
  let out ← IO.getStdout
  loop (← IO.getStdin) out {}
  out.flush
