//! Building real graphs from worlds.
use crate::world::*;
use deno_graph::BuildOptions;
use deno_graph::ModuleGraph;
use deno_graph::ReferrerImports;
use deno_graph::source::Locker;

pub fn block_on<F: std::future::Future>(f: F) -> F::Output {
  futures::executor::block_on(f)
}

pub fn build_options<'a>(w: &World, locker: Option<&'a mut dyn Locker>) -> BuildOptions<'a> {
  BuildOptions {
    is_dynamic: w.opts.is_dynamic,
    skip_dynamic_deps: w.opts.skip_dynamic_deps,
    unstable_bytes_imports: w.opts.unstable_bytes,
    unstable_text_imports: w.opts.unstable_text,
    unstable_css_imports: w.opts.unstable_css,
    unstable_config_imports: w.opts.unstable_config,
    executor: &InlineExecutor,
    locker,
    ..Default::default()
  }
}

pub fn referrer_imports(w: &World) -> Vec<ReferrerImports> {
  w.imports
    .iter()
    .map(|(r, l)| ReferrerImports { referrer: r.clone(), imports: l.clone() })
    .collect()
}

#[derive(Debug, Clone)]
pub enum BuildFailure {
  /// the loader's call budget was exhausted: the build does not terminate
  NonTermination,
  Panic(String),
}

pub fn panic_message(e: Box<dyn std::any::Any + Send>) -> String {
  if let Some(s) = e.downcast_ref::<String>() {
    s.clone()
  } else if let Some(s) = e.downcast_ref::<&str>() {
    s.to_string()
  } else {
    "non-string panic".to_string()
  }
}

pub fn quiet_panics() {
  std::panic::set_hook(Box::new(|_| {}));
}

/// Build a fresh graph of the world's kind from the world's roots.
pub fn try_build_world(w: &World, loader: &ScriptedLoader) -> Result<ModuleGraph, BuildFailure> {
  let roots = w.roots.iter().map(|r| w.specs[*r].clone()).collect::<Vec<_>>();
  try_build(w, loader, ModuleGraph::new(w.kind), roots)
}

pub fn try_build(
  w: &World,
  loader: &ScriptedLoader,
  mut graph: ModuleGraph,
  roots: Vec<deno_graph::ModuleSpecifier>,
) -> Result<ModuleGraph, BuildFailure> {
  crate::watchdog::enter(w.describe());
  let r = std::panic::catch_unwind(std::panic::AssertUnwindSafe(|| {
    block_on(graph.build(roots, referrer_imports(w), loader, build_options(w, None)));
    graph
  }));
  crate::watchdog::leave();
  match r {
    Ok(g) => Ok(g),
    Err(e) => {
      let m = panic_message(e);
      if m.contains(NONTERMINATION_MARKER) { Err(BuildFailure::NonTermination) } else { Err(BuildFailure::Panic(m)) }
    }
  }
}

pub fn build_world(w: &World, loader: &ScriptedLoader) -> ModuleGraph {
  try_build_world(w, loader).expect("build failed")
}
