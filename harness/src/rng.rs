//! SplitMix64: every random choice of the harness derives from one state.
#[derive(Clone, Debug)]
pub struct Rng(pub u64);

impl Rng {
  pub fn new(seed: u64) -> Self {
    Rng(seed ^ 0x9E37_79B9_7F4A_7C15)
  }
  pub fn next(&mut self) -> u64 {
    self.0 = self.0.wrapping_add(0x9E37_79B9_7F4A_7C15);
    let mut z = self.0;
    z = (z ^ (z >> 30)).wrapping_mul(0xBF58_476D_1CE4_E5B9);
    z = (z ^ (z >> 27)).wrapping_mul(0x94D0_49BB_1331_11EB);
    z ^ (z >> 31)
  }
  /// uniform in 0..n (n > 0)
  pub fn below(&mut self, n: usize) -> usize {
    (self.next() % (n as u64)) as usize
  }
  pub fn range(&mut self, lo: usize, hi_incl: usize) -> usize {
    lo + self.below(hi_incl - lo + 1)
  }
  /// true with probability num/den
  pub fn chance(&mut self, num: usize, den: usize) -> bool {
    self.below(den) < num
  }
  pub fn pick<'a, T>(&mut self, xs: &'a [T]) -> &'a T {
    &xs[self.below(xs.len())]
  }
  pub fn fork(&mut self) -> Rng {
    Rng(self.next())
  }
  /// the k-th independent generator derived from this state (does not advance it)
  pub fn fork_n(&self, k: u64) -> Rng {
    let mut r = Rng(self.0 ^ k.wrapping_mul(0xD6E8_FEB8_6659_FD93));
    Rng(r.next())
  }
  pub fn shuffle<T>(&mut self, xs: &mut [T]) {
    for i in (1..xs.len()).rev() {
      let j = self.below(i + 1);
      xs.swap(i, j);
    }
  }
}
