//! C09 / C11 — fast-check output is closed under reference; the public API is preserved and
//! everything else dropped.  Generated multi-module packages with a known reference graph.
use crate::fc::*;
use crate::fcgen::*;
use crate::fcx;
use crate::report::*;
use crate::rng::Rng;
use crate::walkprops::Batch;
use serde_json::json;
use std::collections::BTreeMap;
use std::collections::BTreeSet;

const GLOBALS: &[&str] = &["Array", "Promise", "Math", "Generator", "RegExp", "Map", "undefined", "console", "Record", "Partial"];

fn path_of(i: usize) -> String {
  if i == 0 { "/mod.ts".into() } else { format!("/f{}.ts", i) }
}

#[derive(Clone, Debug)]
struct Planned {
  name: String,
  exported: bool,
  is_default: bool,
  /// class / interface / type / enum / function / const
  kind: &'static str,
}

fn ty_with(rng: &mut Rng, names: &[String], refs: &mut Vec<String>) -> String {
  if names.is_empty() || rng.chance(1, 3) {
    return ["number", "string", "boolean"][rng.below(3)].into();
  }
  let n = names[rng.below(names.len())].clone();
  if !refs.contains(&n) {
    refs.push(n.clone());
  }
  match rng.below(4) {
    0 => format!("{}[]", n),
    1 => format!("{} | undefined", n),
    2 => format!("Array<{}>", n),
    _ => n,
  }
}

pub fn gen_pkg(rng: &mut Rng, idx: usize) -> APkg {
  gen_pkg_named(rng, idx, "", "@s/a")
}

/// `prefix` keeps the declaration names of different packages of one world apart
pub fn gen_pkg_named(rng: &mut Rng, idx: usize, prefix: &str, pkg_name: &str) -> APkg {
  let nfiles = 2 + rng.below(4);
  // phase 1: declaration names and kinds
  let mut plan: Vec<Vec<Planned>> = vec![];
  for i in 0..nfiles {
    let k = 1 + rng.below(5);
    let mut v = vec![];
    let mut has_default = false;
    for j in 0..k {
      let kind = *rng.pick(&["class", "interface", "type", "enum", "function", "const", "class", "interface", "namespace"]);
      let is_default = !has_default && matches!(kind, "class" | "function") && rng.chance(1, 3);
      has_default |= is_default;
      v.push(Planned { name: format!("{}N{}_{}", prefix, i, j), exported: is_default || rng.chance(3, 5), is_default, kind });
    }
    plan.push(v);
  }
  let type_capable = |p: &Planned| matches!(p.kind, "class" | "interface" | "type" | "enum");
  // phase 2: items
  let mut files = vec![];
  for i in 0..nfiles {
    let mut items: Vec<Item> = vec![];
    let mut type_names: Vec<String> = plan[i].iter().filter(|p| type_capable(p)).map(|p| p.name.clone()).collect();
    // a namespace of the module is referred to as a whole (`typeof NS`, a value position) or by a member
    for p in plan[i].iter().filter(|p| p.kind == "namespace") {
      for form in [format!("typeof {}", p.name), format!("{}.A", p.name), format!("{}.T", p.name)] {
        if rng.chance(1, 2) {
          type_names.push(form);
        }
      }
    }
    // imports
    let nimp = rng.below(3);
    for _ in 0..nimp {
      let j = rng.below(nfiles + 1);
      if j == i {
        continue;
      }
      let from = format!(".{}", if j < nfiles { path_of(j) } else { "/missing.ts".into() });
      if j >= nfiles {
        continue; // a missing module would be a graph error; skip
      }
      let cands: Vec<&Planned> = plan[j].iter().filter(|p| p.exported && type_capable(p)).collect();
      if cands.is_empty() {
        continue;
      }
      let mut names = vec![];
      let mut default_local: Option<String> = None;
      for c in &cands {
        if rng.chance(1, 2) {
          if c.is_default {
            default_local = Some(format!("Def{}_{}", i, j));
          } else {
            let local = if rng.chance(1, 4) { format!("{}As{}", c.name, i) } else { c.name.clone() };
            if !names.iter().any(|(_, l): &(String, String)| *l == local) && !type_names.contains(&local) {
              names.push((c.name.clone(), local));
            }
          }
        }
      }
      if !names.is_empty() {
        for (_, l) in &names {
          type_names.push(l.clone());
        }
        items.push(Item::Import { from: from.clone(), names, type_only: rng.chance(1, 3) });
      }
      if let Some(l) = default_local {
        if !type_names.contains(&l) {
          type_names.push(l.clone());
          items.push(Item::ImportDefault { from, local: l });
        }
      }
    }
    // namespace imports: used as a whole (`typeof ns`) and qualified (`ns.Name`)
    if rng.chance(1, 3) {
      let j = rng.below(nfiles);
      if j != i {
        let local = format!("{}ns{}_{}", prefix.to_lowercase(), i, j);
        items.push(Item::ImportNs { from: format!(".{}", path_of(j)), local: local.clone() });
        if rng.chance(1, 2) {
          type_names.push(format!("typeof {}", local));
        }
        for c in plan[j].iter().filter(|p| p.exported && !p.is_default && type_capable(p)) {
          if rng.chance(1, 2) {
            type_names.push(format!("{}.{}", local, c.name));
          }
        }
      }
    }
    // declarations
    for p in &plan[i] {
      let mut refs = vec![];
      let mut body_refs = vec![];
      let mut overloaded = false;
      let others: Vec<String> = type_names.iter().filter(|n| **n != p.name).cloned().collect();
      let kind = match p.kind {
        "class" => {
          let mut members = vec![];
          for k in 0..rng.below(3) {
            members.push(Member::Prop { name: format!("p{}", k), access: Access::Pub, is_static: false, readonly: false, ty: Some(ty_with(rng, &others, &mut refs)), init: None });
          }
          if rng.chance(1, 2) {
            members.push(Member::Prop { name: "hidden".into(), access: Access::Priv, is_static: false, readonly: false, ty: Some(ty_with(rng, &others, &mut body_refs)), init: None });
          }
          if rng.chance(1, 3) {
            members.push(Member::Prop { name: "sp".into(), access: Access::Pub, is_static: true, readonly: rng.chance(1, 2), ty: Some(ty_with(rng, &others, &mut refs)), init: None });
          }
          if rng.chance(1, 3) {
            members.push(Member::Accessor { name: "acc".into(), access: *rng.pick(&[Access::Pub, Access::Prot]), is_static: rng.chance(1, 2), ty: Some(ty_with(rng, &others, &mut refs)), init: None });
          }
          if rng.chance(1, 2) {
            let f = Fn {
              params: vec![Param { name: "a".into(), opt: false, rest: false, ty: Some(ty_with(rng, &others, &mut refs)), dflt: None }],
              ret: Some(ty_with(rng, &others, &mut refs)),
              is_async: false,
              is_gen: false,
              analysis: RetAnalysis::Single,
            };
            members.push(Member::Method { name: "m".into(), access: Access::Pub, is_static: false, kind: FnKind::DeclLike, f });
          }
          if rng.chance(1, 3) {
            // parameter properties, now and then on the implementation behind overload signatures
            let mut params = vec![];
            for k in 0..1 + rng.below(2) {
              let acc = *rng.pick(&[Access::Pub, Access::Prot, Access::Pub]);
              params.push((Param { name: format!("cp{}", k), opt: false, rest: false, ty: Some(ty_with(rng, &others, &mut refs)), dflt: None }, Some((acc, rng.chance(1, 2)))));
            }
            if rng.chance(1, 2) {
              params.push((Param { name: "plain".into(), opt: false, rest: false, ty: Some("number".into()), dflt: None }, None));
            }
            members.push(Member::Ctor { access: Access::Pub, params, calls_super: false, overloads: if rng.chance(1, 2) { 1 + rng.below(2) } else { 0 } });
          }
          DeclKind::Class { extends: None, implements: vec![], members }
        }
        "interface" => {
          let mut props = vec![];
          for k in 0..1 + rng.below(3) {
            props.push((format!("p{}", k), ty_with(rng, &others, &mut refs)));
          }
          DeclKind::Interface { extends: vec![], props }
        }
        "type" => DeclKind::TypeAlias { ty: ty_with(rng, &others, &mut refs) },
        "enum" => DeclKind::Enum,
        "namespace" => DeclKind::Namespace { segments: vec![] },
        "function" => {
          // the body mentions names the signature does not
          if !others.is_empty() && rng.chance(1, 2) {
            let b = others[rng.below(others.len())].clone();
            body_refs.push(b);
          }
          // behind overload signatures the implementation's own signature is not part of the public API:
          // what only it mentions is neither traced nor emitted
          let overloads = if rng.chance(1, 3) { 1 + rng.below(2) } else { 0 };
          overloaded = overloads > 0;
          let mut impl_refs = vec![];
          let sig_refs: &mut Vec<String> = if overloaded { &mut impl_refs } else { &mut refs };
          DeclKind::Function {
            f: Fn {
              params: vec![Param { name: "a".into(), opt: false, rest: false, ty: Some(ty_with(rng, &others, sig_refs)), dflt: None }],
              ret: Some(ty_with(rng, &others, sig_refs)),
              is_async: false,
              is_gen: false,
              analysis: RetAnalysis::Single,
            },
            overloads,
          }
        }
        _ => DeclKind::Var { is_const: true, ty: Some(ty_with(rng, &others, &mut refs)), init: Some(Init::Expr(Expr::Opaque("compute()".into()))) },
      };
      // body-only references must be usable as values in `void X;`: keep classes and enums only
      let body_refs: Vec<String> = body_refs
        .into_iter()
        .filter(|r| !refs.contains(r) && plan[i].iter().any(|q| q.name == *r && matches!(q.kind, "class" | "enum")))
        .collect();
      // type parameters: constraint only, default only, or both, referring to other declarations
      let mut generics = String::new();
      if matches!(p.kind, "class" | "interface" | "type" | "function") && !overloaded && !others.is_empty() && rng.chance(1, 3) {
        let mut tp = String::from("<T");
        let form = rng.below(3);
        if form != 1 {
          let c = others[rng.below(others.len())].clone();
          tp.push_str(&format!(" extends {}", c));
          refs.push(c);
        }
        if form != 0 {
          let d = others[rng.below(others.len())].clone();
          tp.push_str(&format!(" = {}", d));
          refs.push(d);
        }
        tp.push('>');
        generics = tp;
      }
      let body_refs: Vec<String> = body_refs.into_iter().filter(|r| !refs.contains(r)).collect();
      items.push(Item::Decl(Decl { name: p.name.clone(), exported: p.exported, is_default: p.is_default, kind, sig_refs: refs, body_refs, generics }));
    }
    // re-exports
    for _ in 0..rng.below(3) {
      let j = rng.below(nfiles);
      if j == i {
        continue;
      }
      let from = format!(".{}", path_of(j));
      match rng.below(3) {
        0 => items.push(Item::ExportStar { from }),
        _ => {
          let cands: Vec<&Planned> = plan[j].iter().filter(|p| p.exported && !p.is_default).collect();
          let mut names = vec![];
          for c in cands {
            if rng.chance(1, 2) {
              let exported = if rng.chance(1, 3) { format!("{}Re{}", c.name, i) } else { c.name.clone() };
              names.push((c.name.clone(), exported));
            }
          }
          // exported names must be unique in the module
          names.retain(|(_, e)| !plan[i].iter().any(|p| p.exported && p.name == *e));
          let mut seen = BTreeSet::new();
          names.retain(|(_, e)| seen.insert(e.clone()));
          let already: Vec<String> = items
            .iter()
            .flat_map(|it| match it {
              Item::ExportFrom { names, .. } => names.iter().map(|x| x.1.clone()).collect::<Vec<_>>(),
              Item::ExportLocal { names } => names.iter().map(|x| x.1.clone()).collect(),
              _ => vec![],
            })
            .collect();
          names.retain(|(_, e)| !already.contains(e));
          if !names.is_empty() {
            items.push(Item::ExportFrom { from, names });
          }
        }
      }
    }
    // a local export list for a declaration without `export`
    if let Some(p) = plan[i].iter().find(|p| !p.exported) {
      if rng.chance(1, 3) {
        items.push(Item::ExportLocal { names: vec![(p.name.clone(), format!("{}Alias", p.name))] });
      }
    }
    items.push(Item::SideEffect("console.log(\"side effect\");".into()));
    files.push(AFile { path: path_of(i), items });
  }
  // now and then a chain of `export *` through three modules
  if nfiles >= 3 && rng.chance(1, 3) {
    let a = rng.below(nfiles);
    let b = (a + 1 + rng.below(nfiles - 1)) % nfiles;
    let mut c = rng.below(nfiles);
    if c == a || c == b {
      c = (0..nfiles).find(|x| *x != a && *x != b).unwrap();
    }
    for (x, y) in [(a, b), (b, c)] {
      let from = format!(".{}", path_of(y));
      if !files[x].items.iter().any(|it| matches!(it, Item::ExportStar { from: f } if *f == from)) {
        let pos = files[x].items.len().saturating_sub(1);
        files[x].items.insert(pos, Item::ExportStar { from });
      }
    }
  }
  // names imported from a module that has them only through one or several `export *` hops
  {
    let star_targets = |f: &AFile| -> Vec<usize> {
      f.items.iter().filter_map(|it| if let Item::ExportStar { from } = it { files.iter().position(|g| format!(".{}", g.path) == *from) } else { None }).collect()
    };
    let own_names = |f: &AFile| -> Vec<String> {
      let mut v: Vec<String> = f.items.iter().filter_map(|it| if let Item::Decl(d) = it { if d.exported && !d.is_default && matches!(d.kind, DeclKind::Class { .. } | DeclKind::Interface { .. } | DeclKind::TypeAlias { .. } | DeclKind::Enum) { Some(d.name.clone()) } else { None } } else { None }).collect();
      // (a named re-export or a local export list of the same name would shadow what the stars provide)
      v.sort();
      v
    };
    let shadowing = |f: &AFile| -> Vec<String> {
      f.items
        .iter()
        .flat_map(|it| match it {
          Item::Decl(d) if d.exported => vec![d.name.clone()],
          Item::ExportFrom { names, .. } => names.iter().map(|x| x.1.clone()).collect(),
          Item::ExportLocal { names } => names.iter().map(|x| x.1.clone()).collect(),
          _ => vec![],
        })
        .collect()
    };
    let mut additions: Vec<(usize, Vec<Item>)> = vec![];
    for i in 0..nfiles {
      if !rng.chance(1, 2) {
        continue;
      }
      let j = rng.below(nfiles);
      if j == i {
        continue;
      }
      // names at distance >= 1 from j (distance >= 2 preferred), found breadth first along the stars
      let mut seen = vec![j];
      let mut frontier = vec![j];
      let mut found: Vec<(usize, String)> = vec![];
      let mut dist = 0;
      while !frontier.is_empty() && dist < 4 {
        dist += 1;
        let mut next = vec![];
        for m in &frontier {
          for t in star_targets(&files[*m]) {
            if !seen.contains(&t) {
              seen.push(t);
              next.push(t);
              for n in own_names(&files[t]) {
                found.push((dist, n));
              }
            }
          }
        }
        frontier = next;
      }
      let shadow = shadowing(&files[j]);
      found.retain(|(_, n)| !shadow.contains(n));
      found.sort_by_key(|(d, _)| std::cmp::Reverse(*d));
      let Some((_, name)) = found.first().cloned() else { continue };
      let local = format!("{}Far{}", name, i);
      if files[i].items.iter().any(|it| matches!(it, Item::Decl(d) if d.name == local || d.name == format!("Uses{}", local))) {
        continue;
      }
      additions.push((
        i,
        vec![
          Item::Import { from: format!(".{}", files[j].path), names: vec![(name.clone(), local.clone())], type_only: rng.chance(1, 2) },
          Item::Decl(Decl { name: format!("Uses{}", local), exported: true, is_default: false, kind: DeclKind::Interface { extends: vec![], props: vec![("x".into(), local.clone())] }, sig_refs: vec![local], body_refs: vec![], generics: String::new() }),
        ],
      ));
    }
    for (i, items) in additions {
      let pos = files[i].items.len().saturating_sub(1);
      for (k, it) in items.into_iter().enumerate() {
        files[i].items.insert(pos + k, it);
      }
    }
  }
  let mut exports = vec![(".".to_string(), "./mod.ts".to_string())];
  if nfiles > 2 && idx % 3 == 0 {
    exports.push(("./other".into(), format!(".{}", path_of(nfiles - 1))));
  }
  APkg { name: pkg_name.into(), version: "1.0.0".into(), exports, files }
}

/// several packages; earlier ones refer to the entrypoint of later ones (`export *`, named /
/// default / type-only imports used in public signatures, named re-exports).  `cross[i]` lists the
/// items added to package i for that, so that a variant of the world without them can be made
pub struct MultiWorld {
  pub pkgs: Vec<APkg>,
  /// (package, file, item) triples of the cross-package items
  pub cross: Vec<(usize, usize, Item)>,
  /// packages `main.ts` imports
  pub top_level: Vec<usize>,
}

pub fn gen_multi(rng: &mut Rng, idx: usize, shared_dependency: bool) -> MultiWorld {
  let names = ["@s/a", "@s/b", "@s/c"];
  let prefixes = ["A", "B", "C"];
  let np = if shared_dependency { 3 } else { 2 + rng.below(2) };
  let mut pkgs: Vec<APkg> = (0..np)
    .map(|k| {
      let mut p = gen_pkg_named(rng, idx * 3 + 1, prefixes[k], names[k]);
      p.exports.truncate(1);
      p
    })
    .collect();
  let mut cross = vec![];
  // who refers to whom: a diamond (a -> c, b -> c) or a chain of references to later packages
  let edges: Vec<(usize, usize)> = if shared_dependency { vec![(0, 2), (1, 2)] } else { (0..np).flat_map(|a| (a + 1..np).map(move |b| (a, b))).collect() };
  for (a, b) in edges {
    if !shared_dependency && rng.chance(1, 3) {
      continue;
    }
    let from = format!("jsr:{}", names[b]);
    // what the entrypoint of b exports by declaration
    let entry_decls: Vec<Decl> = pkgs[b].files[0].items.iter().filter_map(|it| if let Item::Decl(d) = it { Some(d.clone()) } else { None }).collect();
    let type_capable = |d: &Decl| matches!(d.kind, DeclKind::Class { .. } | DeclKind::Interface { .. } | DeclKind::TypeAlias { .. } | DeclKind::Enum);
    let named: Vec<&Decl> = entry_decls.iter().filter(|d| d.exported && !d.is_default && type_capable(d)).collect();
    let default: Option<&Decl> = entry_decls.iter().find(|d| d.is_default && type_capable(d));
    let nfiles = pkgs[a].files.len();
    let mut forms: Vec<usize> = (0..5).filter(|_| shared_dependency || rng.chance(1, 2)).collect();
    if forms.is_empty() {
      forms.push(0);
    }
    for f in forms {
      let fi = rng.below(nfiles);
      let mut add: Vec<Item> = vec![];
      match f {
        0 => add.push(Item::ExportStar { from: from.clone() }),
        1 => {
          if let Some(d) = named.first() {
            let local = format!("{}In{}f{}", d.name, prefixes[a], fi);
            add.push(Item::Import { from: from.clone(), names: vec![(d.name.clone(), local.clone())], type_only: rng.chance(1, 2) });
            add.push(Item::Decl(Decl {
              name: format!("Uses{}", local),
              exported: true,
              is_default: false,
              kind: DeclKind::Interface { extends: vec![], props: vec![("x".into(), local.clone())] },
              sig_refs: vec![local],
              body_refs: vec![],
              generics: String::new(),
            }));
          }
        }
        2 => {
          if default.is_some() {
            let local = format!("Def{}In{}f{}", prefixes[b], prefixes[a], fi);
            add.push(Item::ImportDefault { from: from.clone(), local: local.clone() });
            add.push(Item::Decl(Decl {
              name: format!("Uses{}", local),
              exported: true,
              is_default: false,
              kind: DeclKind::Interface { extends: vec![], props: vec![("d".into(), local.clone())] },
              sig_refs: vec![local],
              body_refs: vec![],
              generics: String::new(),
            }));
          }
        }
        3 => {
          if let Some(d) = named.last() {
            add.push(Item::ExportFrom { from: from.clone(), names: vec![(d.name.clone(), format!("{}Via{}f{}", d.name, prefixes[a], fi))] });
          }
        }
        _ => {
          // a name of b imported through a module of a that does nothing but `export *` b; preferably
          // a name b's entrypoint itself only has through a star re-export
          let behind_star: Vec<Decl> = pkgs[b].files[0]
            .items
            .iter()
            .filter_map(|it| if let Item::ExportStar { from } = it { file_index(&pkgs[b], 0, from) } else { None })
            .flat_map(|j| pkgs[b].files[j].items.iter().filter_map(|it| if let Item::Decl(d) = it { Some(d.clone()) } else { None }).collect::<Vec<_>>())
            .filter(|d| d.exported && !d.is_default && type_capable(d))
            .filter(|d| !entry_decls.iter().any(|e| e.exported && e.name == d.name))
            .collect();
          let pick: Option<Decl> = behind_star.first().cloned().or(named.first().map(|d| (*d).clone()));
          let path = format!("/via{}_{}.ts", prefixes[b], fi);
          if let (Some(d), false) = (pick, pkgs[a].files.iter().any(|f| f.path == path)) {
            let newfi = pkgs[a].files.len();
            let star = Item::ExportStar { from: from.clone() };
            pkgs[a].files.push(AFile { path: path.clone(), items: vec![star.clone()] });
            cross.push((a, newfi, star));
            let local = format!("{}Through{}f{}", d.name, prefixes[a], fi);
            add.push(Item::Import { from: format!(".{}", path), names: vec![(d.name.clone(), local.clone())], type_only: rng.chance(1, 2) });
            add.push(Item::Decl(Decl {
              name: format!("Uses{}", local),
              exported: true,
              is_default: false,
              kind: DeclKind::Interface { extends: vec![], props: vec![("x".into(), local.clone())] },
              sig_refs: vec![local],
              body_refs: vec![],
              generics: String::new(),
            }));
          }
        }
      }
      for it in add {
        // before the trailing side-effect statement
        let pos = pkgs[a].files[fi].items.len().saturating_sub(1);
        pkgs[a].files[fi].items.insert(pos, it.clone());
        cross.push((a, fi, it));
      }
    }
  }
  let top_level: Vec<usize> = if shared_dependency { vec![0, 1] } else { (0..np).collect() };
  MultiWorld { pkgs, cross, top_level }
}

impl MultiWorld {
  /// the same world after an edit of every source of package `a` that leaves its declarations alone
  pub fn touched(&self, a: usize, stamp: usize) -> MultiWorld {
    let mut pkgs = self.pkgs.clone();
    for f in pkgs[a].files.iter_mut() {
      f.items.retain(|it| !matches!(it, Item::SideEffect(_)));
      f.items.push(Item::SideEffect(format!("console.log(\"side effect, edit {}\");", stamp)));
    }
    MultiWorld { pkgs, cross: self.cross.clone(), top_level: self.top_level.clone() }
  }

  /// the same world with the cross-package items of package `a` removed
  pub fn without_cross_of(&self, a: usize) -> MultiWorld {
    let mut pkgs = self.pkgs.clone();
    for (pa, fi, it) in &self.cross {
      if *pa == a {
        if let Some(pos) = pkgs[*pa].files[*fi].items.iter().position(|x| x == it) {
          pkgs[*pa].files[*fi].items.remove(pos);
        }
      }
    }
    MultiWorld { pkgs, cross: self.cross.iter().filter(|c| c.0 != a).cloned().collect(), top_level: self.top_level.clone() }
  }
  pub fn world(&self) -> FcWorld {
    FcWorld {
      main: self.top_level.iter().map(|k| format!("import 'jsr:{}';\n", self.pkgs[*k].name)).collect(),
      pkgs: self
        .pkgs
        .iter()
        .map(|p| FcPackage { name: p.name.clone(), version: p.version.clone(), exports: p.exports.clone(), files: p.files.iter().map(|f| (f.path.clone(), render_file(f))).collect() })
        .collect(),
    }
  }
  fn offset(&self, pi: usize) -> usize {
    self.pkgs[..pi].iter().map(|p| p.files.len()).sum()
  }
  /// global module index of a specifier written in file `fi` of package `pi`
  fn module_index(&self, pi: usize, spec: &str) -> Option<usize> {
    if let Some(name) = spec.strip_prefix("jsr:") {
      let qi = self.pkgs.iter().position(|p| p.name == name)?;
      let entry = self.pkgs[qi].exports[0].1.trim_start_matches('.').to_string();
      let fi = self.pkgs[qi].files.iter().position(|f| f.path == entry)?;
      return Some(self.offset(qi) + fi);
    }
    let path = spec.strip_prefix('.')?;
    self.pkgs[pi].files.iter().position(|f| f.path == path).map(|fi| self.offset(pi) + fi)
  }
  /// the tracer request over all modules of all packages; every package is analysed from its entrypoints
  pub fn trace_request(&self, names: &mut Names) -> String {
    let mut mods = vec![];
    for (pi, p) in self.pkgs.iter().enumerate() {
      for f in &p.files {
        let mut decls = vec![];
        let mut imports = vec![];
        let mut froms = vec![];
        let mut stars = vec![];
        let mut locals = vec![];
        let mut nsimports: Vec<String> = vec![];
        for it in &f.items {
          match it {
            Item::Decl(d) => {
              let r = refs_sexp(d, names);
              decls.push(format!("({} {} {} {})", names.id(&d.name), d.exported as u8, d.is_default as u8, r))
            }
            Item::Import { from, names: ns, .. } => {
              if let Some(j) = self.module_index(pi, from) {
                for (n, l) in ns {
                  imports.push(format!("({} {} {})", names.id(l), j, names.id(n)));
                }
              }
            }
            Item::ImportDefault { from, local } => {
              if let Some(j) = self.module_index(pi, from) {
                imports.push(format!("({} {} 0)", names.id(local), j));
              }
            }
            Item::ImportNs { from, local } => {
              if let Some(j) = self.module_index(pi, from) {
                nsimports.push(format!("({} {})", names.id(local), j));
              }
            }
            Item::ExportFrom { from, names: ns } => {
              if let Some(j) = self.module_index(pi, from) {
                for (n, e) in ns {
                  froms.push(format!("({} {} {})", names.id(e), j, names.id(n)));
                }
              }
            }
            Item::ExportStar { from } => {
              if let Some(j) = self.module_index(pi, from) {
                stars.push(j.to_string());
              }
            }
            Item::ExportLocal { names: ns } => {
              for (l, e) in ns {
                locals.push(format!("({} {})", names.id(e), names.id(l)));
              }
            }
            Item::SideEffect(_) => {}
          }
        }
        mods.push(format!("((decls {}) (imports {}) (from {}) (stars {}) (locals {}) (nsimports {}))", decls.join(" "), imports.join(" "), froms.join(" "), stars.join(" "), locals.join(" "), nsimports.join(" ")));
      }
    }
    let entries: Vec<String> = (0..self.pkgs.len()).filter_map(|pi| self.module_index(pi, &format!("jsr:{}", self.pkgs[pi].name))).map(|i| i.to_string()).collect();
    format!("(fc-trace (mods {}) (entries {}))", mods.join(" "), entries.join(" "))
  }
  /// what the implementation retained, in the model's tokens
  pub fn retained_tokens(&self, run: &FcRun, names: &mut Names) -> Result<String, String> {
    let mut toks = vec![];
    for (pi, p) in self.pkgs.iter().enumerate() {
      for (fi, f) in p.files.iter().enumerate() {
        let i = self.offset(pi) + fi;
        let url = format!("https://jsr.io/{}/{}{}", p.name, p.version, f.path);
        match run.slots.get(&url) {
          Some(FcSlot::Module { text, .. }) => {
            toks.push(format!("M{}", i));
            let parsed = fcx::parse(&url, text)?;
            let x = fcx::X { src: &parsed };
            for (n, _, _) in x.top_level() {
              if n == "compute" {
                continue;
              }
              toks.push(format!("D{}.{}", i, names.id(&n)));
            }
            for (local, _, _) in x.imports() {
              if !local.is_empty() {
                toks.push(format!("I{}.{}", i, names.id(&local)));
              }
            }
            for (exported, src) in x.exports() {
              match src {
                Some((from, orig)) if orig == "*" && exported == "*" => {
                  if let Some(j) = self.module_index(pi, &from) {
                    toks.push(format!("S{}.{}", i, j));
                  }
                }
                Some((from, _)) if !from.is_empty() => toks.push(format!("F{}.{}", i, names.id(&exported))),
                Some((_, _)) => toks.push(format!("L{}.{}", i, names.id(&exported))),
                None => {}
              }
            }
          }
          Some(FcSlot::Diagnostics(d)) => return Err(format!("diagnostics: {:?}", d)),
          _ => {}
        }
      }
    }
    let set: BTreeSet<String> = toks.into_iter().collect();
    Ok(set.into_iter().collect::<Vec<_>>().join(" "))
  }
}

pub fn world_of(p: &APkg) -> FcWorld {
  FcWorld {
    main: "import 'jsr:@s/a';\nimport 'jsr:@s/a/other';\n".lines().take(p.exports.len()).map(|l| format!("{}\n", l)).collect(),
    pkgs: vec![FcPackage {
      name: p.name.clone(),
      version: p.version.clone(),
      exports: p.exports.clone(),
      files: p.files.iter().map(|f| (f.path.clone(), render_file(f))).collect(),
    }],
  }
}

pub struct Names {
  pub list: Vec<String>,
}
impl Names {
  pub fn id(&mut self, n: &str) -> usize {
    if n == "default" {
      return 0;
    }
    if let Some(i) = self.list.iter().position(|x| x == n) {
      return i;
    }
    self.list.push(n.to_string());
    self.list.len() - 1
  }
}

/// the references of a declaration's public signature in the model's terms: plain local names
/// (`X`, and `typeof ns` for a namespace import used as a whole) and qualified ones (`ns.X`)
fn refs_sexp(d: &Decl, names: &mut Names) -> String {
  let mut plain = vec![];
  let mut qual = vec![];
  for r in &d.sig_refs {
    if let Some(ns) = r.strip_prefix("typeof ") {
      plain.push(names.id(ns).to_string());
    } else if let Some((l, x)) = r.split_once('.') {
      qual.push(format!("({} {})", names.id(l), names.id(x)));
    } else {
      plain.push(names.id(r).to_string());
    }
  }
  format!("(refs {}) (qrefs {})", plain.join(" "), qual.join(" "))
}

fn file_index(p: &APkg, from_file: usize, spec: &str) -> Option<usize> {
  // "./f2.ts" relative to the package root (all files are at the root)
  let _ = from_file;
  let path = spec.strip_prefix('.')?;
  p.files.iter().position(|f| f.path == path)
}

pub fn trace_request(p: &APkg, names: &mut Names) -> String {
  let mut mods = vec![];
  for (i, f) in p.files.iter().enumerate() {
    let mut decls = vec![];
    let mut imports = vec![];
    let mut froms = vec![];
    let mut stars = vec![];
    let mut locals = vec![];
    let mut nsimports: Vec<String> = vec![];
    for it in &f.items {
      match it {
        Item::Decl(d) => {
          let r = refs_sexp(d, names);
          decls.push(format!("({} {} {} {})", names.id(&d.name), d.exported as u8, d.is_default as u8, r))
        }
        Item::Import { from, names: ns, .. } => {
          if let Some(j) = file_index(p, i, from) {
            for (n, l) in ns {
              imports.push(format!("({} {} {})", names.id(l), j, names.id(n)));
            }
          }
        }
        Item::ImportDefault { from, local } => {
          if let Some(j) = file_index(p, i, from) {
            imports.push(format!("({} {} 0)", names.id(local), j));
          }
        }
        Item::ImportNs { from, local } => {
          if let Some(j) = file_index(p, i, from) {
            nsimports.push(format!("({} {})", names.id(local), j));
          }
        }
        Item::ExportFrom { from, names: ns } => {
          if let Some(j) = file_index(p, i, from) {
            for (n, e) in ns {
              froms.push(format!("({} {} {})", names.id(e), j, names.id(n)));
            }
          }
        }
        Item::ExportStar { from } => {
          if let Some(j) = file_index(p, i, from) {
            stars.push(j.to_string());
          }
        }
        Item::ExportLocal { names: ns } => {
          for (l, e) in ns {
            locals.push(format!("({} {})", names.id(e), names.id(l)));
          }
        }
        Item::SideEffect(_) => {}
      }
    }
    mods.push(format!(
      "((decls {}) (imports {}) (from {}) (stars {}) (locals {}) (nsimports {}))",
      decls.join(" "),
      imports.join(" "),
      froms.join(" "),
      stars.join(" "),
      locals.join(" "),
      nsimports.join(" ")
    ));
  }
  let entries: Vec<String> = p
    .exports
    .iter()
    .filter_map(|(_, path)| p.files.iter().position(|f| format!(".{}", f.path) == *path).map(|i| i.to_string()))
    .collect();
  format!("(fc-trace (mods {}) (entries {}))", mods.join(" "), entries.join(" "))
}

/// what the implementation retained, in the model's tokens
pub fn retained_tokens(p: &APkg, run: &FcRun, names: &mut Names) -> Result<String, String> {
  let mut toks = vec![];
  for (i, f) in p.files.iter().enumerate() {
    let url = format!("https://jsr.io/{}/{}{}", p.name, p.version, f.path);
    match run.slots.get(&url) {
      Some(FcSlot::Module { text, .. }) => {
        toks.push(format!("M{}", i));
        let parsed = fcx::parse(&url, text)?;
        let x = fcx::X { src: &parsed };
        for (n, _, _) in x.top_level() {
          if n == "compute" {
            continue;
          }
          toks.push(format!("D{}.{}", i, names.id(&n)));
        }
        for (local, _, _) in x.imports() {
          if !local.is_empty() {
            toks.push(format!("I{}.{}", i, names.id(&local)));
          }
        }
        for (exported, src) in x.exports() {
          match src {
            Some((from, orig)) if orig == "*" && exported == "*" => {
              if let Some(j) = file_index(p, i, &from) {
                toks.push(format!("S{}.{}", i, j));
              }
            }
            Some((from, _)) if !from.is_empty() => toks.push(format!("F{}.{}", i, names.id(&exported))),
            Some((_, _)) => toks.push(format!("L{}.{}", i, names.id(&exported))),
            None => {}
          }
        }
      }
      Some(FcSlot::Diagnostics(d)) => return Err(format!("diagnostics: {:?}", d)),
      _ => {}
    }
  }
  // (a statement written twice is retained twice: sets are compared)
  let set: BTreeSet<String> = toks.into_iter().collect();
  Ok(set.into_iter().collect::<Vec<_>>().join(" "))
}

/// direct export items of a source file: (exported name or `*:<spec>`)
fn source_exports(f: &AFile) -> BTreeSet<String> {
  let mut out = BTreeSet::new();
  for it in &f.items {
    match it {
      Item::Decl(d) if d.is_default => {
        out.insert("default".into());
      }
      Item::Decl(d) if d.exported => {
        out.insert(d.name.clone());
      }
      Item::ExportFrom { names, .. } => {
        for (_, e) in names {
          out.insert(e.clone());
        }
      }
      Item::ExportStar { from } => {
        out.insert(format!("*:{}", from));
      }
      Item::ExportLocal { names } => {
        for (_, e) in names {
          out.insert(e.clone());
        }
      }
      _ => {}
    }
  }
  out
}

fn emitted_exports(x: &fcx::X) -> BTreeSet<String> {
  x.exports()
    .into_iter()
    .map(|(e, src)| match src {
      Some((from, orig)) if e == "*" && orig == "*" => format!("*:{}", from),
      _ => e,
    })
    .collect()
}

fn kind_of(d: &Decl) -> &'static str {
  match &d.kind {
    DeclKind::Function { .. } => "function",
    DeclKind::Var { .. } => "var",
    DeclKind::Class { .. } => "class",
    DeclKind::Interface { .. } => "interface",
    DeclKind::TypeAlias { .. } => "type",
    DeclKind::Enum => "enum",
    DeclKind::Namespace { .. } => "namespace",
  }
}

/// decode a source map's `mappings` into (generated line, generated column, source line, source column)
pub fn decode_mappings(m: &str) -> Result<Vec<(usize, usize, usize, usize)>, String> {
  const B64: &str = "ABCDEFGHIJKLMNOPQRSTUVWXYZabcdefghijklmnopqrstuvwxyz0123456789+/";
  let mut out = vec![];
  let (mut src, mut sl, mut sc) = (0i64, 0i64, 0i64);
  for (gl, line) in m.split(';').enumerate() {
    let mut gc = 0i64;
    for seg in line.split(',') {
      if seg.is_empty() {
        continue;
      }
      let mut vals = vec![];
      let (mut shift, mut cur) = (0u32, 0i64);
      for ch in seg.chars() {
        let d = B64.find(ch).ok_or_else(|| format!("bad base64 digit {:?}", ch))? as i64;
        cur |= (d & 31) << shift;
        if d & 32 != 0 {
          shift += 5;
        } else {
          let v = if cur & 1 == 1 { -(cur >> 1) } else { cur >> 1 };
          vals.push(v);
          shift = 0;
          cur = 0;
        }
      }
      if shift != 0 {
        return Err("unterminated VLQ".into());
      }
      if !(vals.len() == 1 || vals.len() == 4 || vals.len() == 5) {
        return Err(format!("segment with {} fields", vals.len()));
      }
      gc += vals[0];
      if vals.len() >= 4 {
        src += vals[1];
        sl += vals[2];
        sc += vals[3];
        if gc < 0 || src < 0 || sl < 0 || sc < 0 {
          return Err("negative position".into());
        }
        out.push((gl, gc as usize, sl as usize, sc as usize));
      }
    }
  }
  Ok(out)
}

fn line_col_text(text: &str, line: usize, col_utf16: usize) -> Option<&str> {
  let l = text.split('\n').nth(line)?;
  // columns are UTF-16 code units
  let mut u = 0usize;
  for (bi, ch) in l.char_indices() {
    if u == col_utf16 {
      return Some(&l[bi..]);
    }
    u += ch.len_utf16();
  }
  if u == col_utf16 { Some("") } else { None }
}

fn ident_at(s: &str) -> String {
  s.chars().take_while(|c| c.is_alphanumeric() || *c == '_' || *c == '$').collect()
}

pub fn source_map_oracle(url: &str, original: &str, emitted: &str, map: &str, report: &mut Report, replay: &serde_json::Value) {
  let v: serde_json::Value = match serde_json::from_str(map) {
    Ok(v) => v,
    Err(e) => {
      report.fail("oracle", "source-map-not-json", format!("{}: {}", url, e), replay.clone());
      return;
    }
  };
  if v["version"] != json!(3) || !v["sources"].is_array() || !v["mappings"].is_string() {
    report.fail("oracle", "source-map-malformed", format!("{}: version/sources/mappings missing", url), replay.clone());
    return;
  }
  let segs = match decode_mappings(v["mappings"].as_str().unwrap()) {
    Ok(s) => s,
    Err(e) => {
      report.fail("oracle", "source-map-malformed", format!("{}: {}", url, e), replay.clone());
      return;
    }
  };
  const MODIFIERS: &[&str] = &["export", "declare", "default", "async", "static", "private", "protected", "public", "readonly", "abstract", "override", "const", "let", "var", "function", "class", "interface", "type", "enum", "import", "from", "as", "return", "never", "get", "set", "constructor", "namespace", "extends", "implements", "new", "typeof", "void", "any", "unknown", "number", "string", "boolean", "undefined", "null", "super", "this", "true", "false", "unique", "symbol", "object", "bigint", "keyof", "infer", "is", "asserts", "in", "of", "module", "global", "accessor", "satisfies", "await", "yield"];
  for (gl, gc, sl, sc) in &segs {
    report.evaluations += 1;
    let Some(g) = line_col_text(emitted, *gl, *gc) else {
      report.fail("oracle", "source-map-position-outside-emitted-text", format!("{}: generated {}:{}", url, gl, gc), replay.clone());
      return;
    };
    let Some(o) = line_col_text(original, *sl, *sc) else {
      report.fail("oracle", "source-map-position-outside-original-text", format!("{}: original {}:{} (generated {}:{})", url, sl, sc, gl, gc), replay.clone());
      return;
    };
    let gi = ident_at(g);
    let oi = ident_at(o);
    if gi.is_empty() || gi.chars().next().map(|c| c.is_numeric()).unwrap_or(true) || MODIFIERS.contains(&gi.as_str()) {
      continue;
    }
    // an identifier of the emitted text maps to the same identifier of the original
    if gi != oi && !MODIFIERS.contains(&oi.as_str()) && !oi.is_empty() {
      report.fail(
        "oracle",
        "source-map-identifier-maps-to-other-identifier",
        format!("{}: `{}` at generated {}:{} maps to `{}` at original {}:{}", url, gi, gl, gc, oi, sl, sc),
        replay.clone(),
      );
      return;
    }
  }
  report.count_n("source-map-segments", segs.len() as u64);
}

struct Case {
  pkg: APkg,
  world: FcWorld,
  run: FcRun,
  replay: serde_json::Value,
}

/// packages in which the same target modules are reached by every kind of trace — named import,
/// default import, `export *`, named and default re-export — from several modules and in varying
/// statement order, so that a module is traced several times with growing demands
pub fn gen_multi_trace_pkg(rng: &mut Rng, _idx: usize) -> APkg {
  let nt = 1 + rng.below(2);
  let np = 2 + rng.below(2);
  let mut files: Vec<AFile> = vec![];
  let iface = |name: &str, exported: bool| Decl {
    name: name.to_string(),
    exported,
    is_default: false,
    kind: DeclKind::Interface { extends: vec![], props: vec![("a".into(), "string".into())] },
    sig_refs: vec![],
    body_refs: vec![],
    generics: String::new(),
  };
  // entry: star re-exports of the p modules
  let mut order: Vec<usize> = (0..np).collect();
  rng.shuffle(&mut order);
  let mut entry_items: Vec<Item> = order.iter().map(|k| Item::ExportStar { from: format!("./f{}.ts", 1 + k) }).collect();
  entry_items.push(Item::SideEffect("console.log(\"side effect\");".into()));
  files.push(AFile { path: "/mod.ts".into(), items: entry_items });
  // p modules
  for k in 0..np {
    let mut items: Vec<Item> = vec![];
    let mut decls: Vec<Item> = vec![];
    let mut stmts: Vec<Item> = vec![];
    for t in 0..nt {
      let from = format!("./f{}.ts", 1 + np + t);
      let mut forms: Vec<usize> = (0..5).filter(|_| rng.chance(1, 2)).collect();
      rng.shuffle(&mut forms);
      for f in forms {
        match f {
          0 => {
            let local = format!("X{}in{}", t, k);
            stmts.push(Item::Import { from: from.clone(), names: vec![(format!("X{}", t), local.clone())], type_only: rng.chance(1, 2) });
            decls.push(Item::Decl(Decl {
              name: format!("UsesX{}_{}", t, k),
              exported: true,
              is_default: false,
              kind: DeclKind::Interface { extends: vec![], props: vec![("x".into(), local.clone())] },
              sig_refs: vec![local],
              body_refs: vec![],
              generics: String::new(),
            }));
          }
          1 => {
            let local = format!("D{}in{}", t, k);
            stmts.push(Item::ImportDefault { from: from.clone(), local: local.clone() });
            decls.push(Item::Decl(Decl {
              name: format!("UsesD{}_{}", t, k),
              exported: true,
              is_default: false,
              kind: DeclKind::Interface { extends: vec![], props: vec![("d".into(), local.clone())] },
              sig_refs: vec![local],
              body_refs: vec![],
              generics: String::new(),
            }));
          }
          2 => stmts.push(Item::ExportStar { from: from.clone() }),
          3 => stmts.push(Item::ExportFrom { from: from.clone(), names: vec![(format!("E{}", t), format!("E{}from{}", t, k))] }),
          _ => stmts.push(Item::ExportFrom { from: from.clone(), names: vec![("default".into(), format!("Def{}from{}", t, k))] }),
        }
      }
    }
    // statement order matters to the tracer: keep the shuffled order of the forms
    items.extend(stmts);
    items.extend(decls);
    items.push(Item::SideEffect("console.log(\"side effect\");".into()));
    files.push(AFile { path: format!("/f{}.ts", 1 + k), items });
  }
  // targets: an interface, an extra exported interface, a private one the default class refers to, a default class
  for t in 0..nt {
    let items = vec![
      Item::Decl(iface(&format!("X{}", t), true)),
      Item::Decl(iface(&format!("E{}", t), true)),
      Item::Decl(iface(&format!("P{}", t), false)),
      Item::Decl(Decl {
        name: format!("D{}", t),
        exported: true,
        is_default: true,
        kind: DeclKind::Class {
          extends: None,
          implements: vec![],
          members: vec![Member::Prop { name: "p".into(), access: Access::Pub, is_static: false, readonly: false, ty: Some(format!("P{}", t)), init: None }],
        },
        sig_refs: vec![format!("P{}", t)],
        body_refs: vec![],
        generics: String::new(),
      }),
      Item::SideEffect("console.log(\"side effect\");".into()),
    ];
    files.push(AFile { path: format!("/f{}.ts", 1 + np + t), items });
  }
  APkg { name: "@s/a".into(), version: "1.0.0".into(), exports: vec![(".".to_string(), "./mod.ts".to_string())], files }
}

fn cases(tier: &str, seed: u64, salt: u64, quick: usize, thorough: usize) -> Vec<Case> {
  crate::build::quiet_panics();
  let mut rng = Rng::new(seed ^ salt);
  let n = if tier == "thorough" { thorough } else { quick };
  let mut out = vec![];
  for i in 0..n {
    let mut pr = rng.fork();
    let pkg = if i % 4 == 3 { gen_multi_trace_pkg(&mut pr, i) } else { gen_pkg(&mut pr, i) };
    let world = world_of(&pkg);
    let run = run_fast_check(&world, None, false);
    let replay = json!({"world": world.describe()});
    if std::env::var("DGH_DUMP_WORLD").is_ok() {
      eprintln!("{}", serde_json::to_string(&replay).unwrap());
    }
    out.push(Case { pkg, world, run, replay });
  }
  out
}

/// declarations that share a name (a value and a type, a function and a namespace, a class and an
/// interface, two interfaces, an enum and a namespace), exported or not in every combination: the
/// emitted entrypoint keeps every exported declaration with its kind and none of the unexported,
/// unreferenced ones
fn merged_names_part(report: &mut Report, rng: &mut Rng, n: usize) {
  for i in 0..n {
    let mut text = String::new();
    let k = 1 + rng.below(4);
    for j in 0..k {
      let name = format!("M{}_{}", i % 7, j);
      let (ea, eb) = match rng.below(4) {
        0 => (true, true),
        1 => (true, false),
        2 => (false, true),
        _ => (true, true),
      };
      let ex = |e: bool| if e { "export " } else { "" };
      let (a, b) = match rng.below(6) {
        0 => (format!("{}const {}: number = 1;\n", ex(ea), name), format!("{}type {} = 1 | 2;\n", ex(eb), name)),
        1 => (format!("{}function {}(): void {{}}\n", ex(ea), name), format!("{}namespace {} {{ export const prop: number = 1; }}\n", ex(ea), name)),
        2 => (format!("{}class {} {{ a: string = \"\"; }}\n", ex(ea), name), format!("{}interface {} {{ extra: string }}\n", ex(ea), name)),
        3 => (format!("{}interface {} {{ a: string }}\n", ex(ea), name), format!("{}interface {} {{ b: number }}\n", ex(ea), name)),
        4 => (format!("{}enum {} {{ A, B }}\n", ex(ea), name), format!("{}namespace {} {{ export const x: number = 1; }}\n", ex(ea), name)),
        _ => (format!("{}let {}: string = \"\";\n", ex(ea), name), format!("{}interface {} {{ v: number }}\n", ex(eb), name)),
      };
      if rng.chance(1, 2) {
        text.push_str(&a);
        text.push_str(&b);
      } else {
        text.push_str(&b);
        text.push_str(&a);
      }
    }
    let w = FcWorld {
      main: "import * as a from \"jsr:@s/a@1\";\n".into(),
      pkgs: vec![FcPackage { name: "@s/a".into(), version: "1.0.0".into(), exports: vec![(".".into(), "./mod.ts".into())], files: vec![("/mod.ts".into(), text.clone())] }],
    };
    let replay = json!({"world": w.describe()});
    report.evaluations += 1;
    let r = run_fast_check(&w, None, false);
    let url = FcWorld::url(&w.pkgs[0], "/mod.ts");
    let Some(FcSlot::Module { text: emitted, .. }) = r.slots.get(&url) else {
      report.count("merged-names:diagnostic-or-none");
      continue;
    };
    let (Ok(ps), Ok(pe)) = (fcx::parse(&url, &text), fcx::parse(&url, emitted)) else {
      report.fail("oracle", "emitted-module-does-not-parse", format!("{}\n{}", url, emitted), replay);
      continue;
    };
    let src: Vec<(String, &'static str, bool)> = fcx::X { src: &ps }.top_level();
    let emt: Vec<(String, &'static str, bool)> = fcx::X { src: &pe }.top_level();
    let mut want: Vec<(String, &'static str)> = src.iter().filter(|t| t.2).map(|t| (t.0.clone(), t.1)).collect();
    let mut got: Vec<(String, &'static str)> = emt.iter().filter(|t| t.2).map(|t| (t.0.clone(), t.1)).collect();
    want.sort();
    got.sort();
    if want != got {
      report.fail("oracle", "exported-declaration-of-merged-name-changed", format!("{}: the source exports {:?}, the emitted module exports {:?}\n--- source\n{}--- emitted\n{}", url, want, got, text, emitted), replay.clone());
    }
    // an unexported declaration stays out unless an exported one of the same name is of a kind that merges with it
    for t in emt.iter().filter(|t| !t.2) {
      let merges = src.iter().any(|s| s.2 && s.0 == t.0 && matches!((s.1, t.1), ("function", "namespace") | ("namespace", "function") | ("class", "interface") | ("interface", "class") | ("interface", "interface") | ("enum", "namespace") | ("namespace", "enum") | ("class", "namespace") | ("namespace", "class")));
      if !merges {
        report.fail("oracle", "unexported-unreferenced-declaration-retained", format!("{}: `{}` ({}) is neither exported nor referred to by the public API\n--- source\n{}--- emitted\n{}", url, t.0, t.1, text, emitted), replay.clone());
      }
    }
    report.count("merged-names:emitted");
  }
}

pub fn run_c11(tier: &str, seed: u64) -> Report {
  let mut report = Report::new("C11");
  report.rule = "generated packages of 2-5 modules (classes, interfaces, type aliases, enums, functions, typed constants; exported, default-exported \
    or private; signatures referring to local declarations and to imports (named, aliased, default, type-only); bodies and private members \
    referring to further declarations; named, aliased and star re-exports with cycles; local export lists; one or two entrypoints): which \
    declarations, import bindings and re-export specifiers fast check retains per module against the Lean tracer model (exact sets); oracles: \
    an entrypoint's emitted module exports exactly the export items of its source, every other emitted module a subset; every retained \
    declaration keeps its kind and name; declarations neither exported nor referenced from the public API are absent; \
    non-trivial = distinct (#modules, #retained declarations, #dropped declarations, star?, default?) classes"
    .into();
  let mut batch = Batch::new();
  for (i, c) in cases(tier, seed, 0xC11, 700, 8000).into_iter().enumerate() {
    batch.descs.push(c.replay.clone());
    report.evaluations += 1;
    if !c.run.graph_errors.is_empty() {
      report.fail("oracle", "generated-package-does-not-build", c.run.graph_errors.join(" | "), c.replay.clone());
      continue;
    }
    let mut names = Names { list: vec!["default".into()] };
    let req = trace_request(&c.pkg, &mut names);
    match retained_tokens(&c.pkg, &c.run, &mut names) {
      Ok(t) => batch.push(req, t, true),
      Err(e) => {
        report.fail("oracle", "unexpected-diagnostics", e, c.replay.clone());
        continue;
      }
    }
    let entry_paths: Vec<String> = c.pkg.exports.iter().map(|(_, p)| p.trim_start_matches('.').to_string()).collect();
    let mut retained = 0;
    let mut dropped = 0;
    for f in &c.pkg.files {
      let url = FcWorld::url(&c.world.pkgs[0], &f.path);
      let Some(FcSlot::Module { text, .. }) = c.run.slots.get(&url) else {
        if entry_paths.contains(&f.path) {
          report.fail("oracle", "entrypoint-without-emitted-module", url.clone(), c.replay.clone());
        }
        continue;
      };
      let Ok(parsed) = fcx::parse(&url, text) else { continue };
      let x = fcx::X { src: &parsed };
      let want = source_exports(f);
      let got = emitted_exports(&x);
      if entry_paths.contains(&f.path) {
        if want != got {
          report.fail("oracle", "entrypoint-export-set-changed", format!("{}: source exports {:?}, emitted exports {:?}", url, want, got), c.replay.clone());
        }
      } else if !got.is_subset(&want) {
        report.fail("oracle", "emitted-module-exports-name-not-in-source", format!("{}: {:?} not among {:?}", url, got.difference(&want).collect::<Vec<_>>(), want), c.replay.clone());
      }
      // public member signatures of retained classes
      for (n, tok) in x.decl_tokens() {
        if let Some(d) = f.items.iter().find_map(|it| match it {
          Item::Decl(d) if d.name == n => Some(d),
          _ => None,
        }) {
          crate::c10::member_signature_oracle(&mut report, &url, d, &tok, &c.replay);
        }
      }
      // kinds and names of retained declarations
      let tl = x.top_level();
      for (n, k, exported) in &tl {
        if n == "compute" {
          continue;
        }
        let src = f.items.iter().find_map(|it| match it {
          Item::Decl(d) if d.name == *n => Some(d),
          _ => None,
        });
        match src {
          None => report.fail("oracle", "emitted-declaration-not-in-source", format!("{}: {} {}", url, k, n), c.replay.clone()),
          Some(d) => {
            if kind_of(d) != *k {
              report.fail("oracle", "declaration-kind-changed", format!("{}: {} was a {} and is a {}", url, n, kind_of(d), k), c.replay.clone());
            }
            if (d.exported || d.is_default) != *exported {
              report.fail("oracle", "declaration-export-flag-changed", format!("{}: {}", url, n), c.replay.clone());
            }
            retained += 1;
          }
        }
      }
      for it in &f.items {
        if let Item::Decl(d) = it {
          if !tl.iter().any(|(n, _, _)| *n == d.name) {
            dropped += 1;
            if entry_paths.contains(&f.path) && (d.exported || d.is_default) {
              report.fail("oracle", "exported-declaration-of-entrypoint-dropped", format!("{}: {}", url, d.name), c.replay.clone());
            }
          }
        }
      }
    }
    let has_star = c.pkg.files.iter().any(|f| f.items.iter().any(|i| matches!(i, Item::ExportStar { .. })));
    let has_default = c.pkg.files.iter().any(|f| f.items.iter().any(|i| matches!(i, Item::Decl(d) if d.is_default)));
    report.nontrivial.insert(format!("m{}/r{}/d{}/s{}/df{}", c.pkg.files.len(), retained.min(8), dropped.min(6), has_star as u8, has_default as u8));
    report.count_n("declarations-retained", retained as u64);
    report.count_n("declarations-dropped", dropped as u64);
    if i < 2 {
      report.sample(c.replay.clone());
    }
  }
  // several packages referring to each other's entrypoints, all analysed from their entrypoints
  {
    let mut rng = Rng::new(seed ^ 0xC11 ^ 0x77);
    let n = if tier == "thorough" { 3000 } else { 300 };
    for i in 0..n {
      let mut pr = rng.fork();
      let mw = gen_multi(&mut pr, i, false);
      let world = mw.world();
      let replay = json!({"multi_package_world": world.describe()});
      batch.descs.push(replay.clone());
      report.evaluations += 1;
      let run = run_fast_check(&world, None, false);
      if !run.graph_errors.is_empty() {
        report.fail("oracle", "generated-package-does-not-build", run.graph_errors.join(" | "), replay.clone());
        continue;
      }
      let mut names = Names { list: vec!["default".into()] };
      let req = mw.trace_request(&mut names);
      match mw.retained_tokens(&run, &mut names) {
        Ok(t) => batch.push(req, t, true),
        Err(e) => {
          report.fail("oracle", "unexpected-diagnostics", e, replay.clone());
          continue;
        }
      }
      // every package's entrypoint keeps its export items
      for p in &mw.pkgs {
        let f = &p.files[0];
        let url = format!("https://jsr.io/{}/{}{}", p.name, p.version, f.path);
        let Some(FcSlot::Module { text, .. }) = run.slots.get(&url) else {
          report.fail("oracle", "entrypoint-without-emitted-module", url.clone(), replay.clone());
          continue;
        };
        let Ok(parsed) = fcx::parse(&url, text) else { continue };
        let x = fcx::X { src: &parsed };
        let want = source_exports(f);
        let got = emitted_exports(&x);
        if want != got {
          report.fail("oracle", "entrypoint-export-set-changed", format!("{}: source exports {:?}, emitted exports {:?}", url, want, got), replay.clone());
        }
      }
      report.nontrivial.insert(format!("multi/p{}/cross{}", mw.pkgs.len(), mw.cross.len().min(8)));
      report.count(&format!("multi-package:cross-items:{}", mw.cross.len().min(8)));
    }
  }
  {
    let mut rr = Rng::new(seed ^ 0xC11_3E6);
    merged_names_part(&mut report, &mut rr, if tier == "thorough" { 3000 } else { 300 });
  }
  // shape corpora of C09 and C10 (one syntax form per package): the entrypoint exports the same
  // names in the emitted module as in the source, and the private declaration nothing refers to
  // (`Unused`, `kUnused`, `Hidden`) is not in the output
  {
    let mut checked = 0u64;
    for (name, w) in shape_worlds().into_iter().chain(crate::c10::shape_worlds()) {
      let r = run_fast_check(&w, None, false);
      let replay = json!({"shape": name, "world": w.describe()});
      let p = &w.pkgs[0];
      let url = FcWorld::url(p, "/mod.ts");
      let Some(FcSlot::Module { text, .. }) = r.slots.get(&url) else { continue };
      let Some(src) = p.files.iter().find(|(k, _)| k == "/mod.ts").map(|(_, v)| v) else { continue };
      let (Ok(ps), Ok(pe)) = (fcx::parse(&url, src), fcx::parse(&url, text)) else { continue };
      report.evaluations += 1;
      checked += 1;
      let want = emitted_exports(&fcx::X { src: &ps });
      let got = emitted_exports(&fcx::X { src: &pe });
      if want != got {
        report.fail("oracle", "entrypoint-export-set-changed", format!("{} ({}): source exports {:?}, emitted exports {:?}", url, name, want, got), replay.clone());
      }
      for dropped in ["Hidden", "kUnused"] {
        if src.contains(dropped) && text.contains(dropped) {
          report.fail("oracle", "unreferenced-private-declaration-emitted", format!("{} ({}): `{}` is referred to by nothing public and is in the output", url, name, dropped), replay.clone());
        }
      }
    }
    report.count_n("shape-corpus-entrypoints-checked", checked);
  }
  {
    let mut rr = Rng::new(seed ^ 0xC11_5EB);
    crate::reqs::reqs_part(&mut report, &mut batch, &mut rr, if tier == "thorough" { 20000 } else { 2000 });
  }
  batch.finish(&mut report, "C11");
  report
}

/// minimised inputs of repaired findings, checked first on every run
pub fn regression_worlds() -> Vec<(&'static str, FcWorld)> {
  let pkg = |files: &[(&str, &str)]| FcWorld {
    main: "import * as a from \"jsr:@s/a@1\";\n".into(),
    pkgs: vec![FcPackage {
      name: "@s/a".into(),
      version: "1.0.0".into(),
      exports: [(".".to_string(), "./mod.ts".to_string())].into_iter().collect(),
      files: files.iter().map(|(k, v)| (k.to_string(), v.to_string())).collect(),
    }],
  };
  vec![(
    "F32: a member of the default export requested after `Default.A` and `*`",
    pkg(&[
      ("/mod.ts", "import Foo from \"./a.ts\";\nexport type T1 = Foo.A;\nexport * from \"./b.ts\";\nexport * from \"./c.ts\";\n"),
      ("/a.ts", "namespace Foo { export interface A { a: string } export interface B { b: string } }\nexport default Foo;\nexport const other: number = 1;\n"),
      ("/b.ts", "import Foo from \"./a.ts\";\nexport type T3 = Foo.B;\n"),
      ("/c.ts", "import * as ns from \"./a.ts\";\nexport type N = typeof ns;\n"),
    ]),
  ), (
    "F34: a name imported through `export *` declarations that form a cycle",
    pkg(&[
      ("/mod.ts", "import { X } from \"./a.ts\";\nexport interface U { x: X }\n"),
      ("/a.ts", "export * from \"./b.ts\";\n"),
      ("/b.ts", "export * from \"./a.ts\";\nexport * from \"./c.ts\";\n"),
      ("/c.ts", "export interface X { v: string }\n"),
    ]),
  ), (
    // not a repaired finding: a fixed shape the generators do not write. A computed key is a
    // reference to a *value* wherever the signature stands; the constants below are referred to
    // from nowhere else, so each of them is kept only if its key is recorded as a value reference.
    "computed keys of every signature kind naming unique-symbol constants nothing else refers to",
    pkg(&[(
      "/mod.ts",
      "const kMeth: unique symbol = Symbol(\"m\");\nconst kProp: unique symbol = Symbol(\"p\");\nconst kGet: unique symbol = Symbol(\"g\");\nconst kSet: unique symbol = Symbol(\"s\");\n\
const kIm: unique symbol = Symbol(\"im\");\nconst kIp: unique symbol = Symbol(\"ip\");\nconst kPar: unique symbol = Symbol(\"par\");\nconst kRet: unique symbol = Symbol(\"ret\");\n\
const kCls: unique symbol = Symbol(\"cls\");\nconst kNest: unique symbol = Symbol(\"nest\");\nconst kUnused: unique symbol = Symbol(\"unused\");\n\
export type Lit = { name: string; [kMeth](): void; [kProp]: number; get [kGet](): string; set [kSet](v: string) };\n\
export interface Direct { [kIm](x: number): void; [kIp]: string }\n\
export function take(h: { [kPar](): void }): void { h[kPar](); }\n\
export function give(): { [kRet](code: number): string } { return undefined as never; }\n\
export class Holder { hooks: { [kCls](): void } | undefined = undefined; }\n\
export interface Outer { inner: { deep: { [kNest](): boolean }[] } }\n",
    )]),
  )]
}

/// One package per syntax form in which a public declaration can mention another declaration. The
/// mentioned declaration (`P`, `c`, `k`, `Base`, …) is private and referred to from nowhere else, so it
/// is in the output only if that form is followed; the closure clause is then checked on the output.
pub fn shape_worlds() -> Vec<(String, FcWorld)> {
  let p = "interface P { a: number }\n";
  let c = "const c: number = 1;\n";
  let k = "const k: unique symbol = Symbol(\"k\");\n";
  let forms: Vec<(&str, String)> = vec![
    ("keyof", format!("{p}export type A = keyof P;\n")),
    ("indexed access", format!("{p}export type A = P[\"a\"];\n")),
    ("type parameter constraint and default", format!("{p}interface Q {{ a: number; b: string }}\nexport type A<T extends P = Q> = T;\n")),
    ("mapped type", format!("{p}export type A = {{ [K in keyof P]: P[K] }};\n")),
    ("mapped type with as clause", format!("{p}type N = \"x\";\nexport type A = {{ [K in keyof P as `${{N}}${{K & string}}`]: P[K] }};\n")),
    ("conditional type", format!("{p}interface Q {{ b: string }}\nexport type A<T> = T extends P ? Q : never;\n")),
    ("infer with constraint", format!("{p}export type A<T> = T extends [infer U extends P] ? U : never;\n")),
    ("template literal type", "type S = \"a\" | \"b\";\nexport type A = `${S}-x`;\n".to_string()),
    ("tuple with rest and names", format!("{p}interface Q {{ b: string }}\nexport type A = [first: P, ...rest: Q[]];\n")),
    ("function type with assertion predicate", format!("{p}export type A = (x: unknown) => asserts x is P;\n")),
    ("constructor type", format!("{p}interface Q {{ b: string }}\nexport type A = abstract new (x: P) => Q;\n")),
    ("typeof of a private constant", format!("{c}export type A = typeof c;\n")),
    ("typeof with member access", "const o: { inner: { v: number } } = { inner: { v: 1 } };\nexport type A = typeof o.inner.v;\n".to_string()),
    ("readonly array and parenthesised union", format!("{p}interface Q {{ b: string }}\nexport type A = readonly (P | Q)[];\n")),
    ("interface extends and index signature", format!("{p}interface Q {{ b: string }}\nexport interface A extends P {{ [key: string]: Q | number }}\n")),
    ("call and construct signatures", format!("{p}interface Q {{ b: string }}\nexport interface A {{ (x: P): void; new (x: Q): A }}\n")),
    ("class implements and this parameter", format!("{p}interface Q {{ b: string }}\nexport class A implements P {{ a: number = 1; m(this: A, x: Q): x is Q {{ return true; }} }}\n")),
    ("abstract member and auto-accessor", format!("{p}interface Q {{ b: string }}\nexport abstract class A {{ abstract m(x: P): void; accessor v: Q | undefined = undefined; }}\n")),
    ("class extends a private class with type arguments", format!("{p}class Base<T> {{ v: T | undefined = undefined; }}\nexport class A extends Base<P> {{}}\n")),
    ("overload signatures", format!("{p}interface Q {{ b: string }}\ninterface Hidden {{ h: number }}\nexport function f(x: P): void;\nexport function f(x: Q): void;\nexport function f(x: P | Q | Hidden): void {{}}\n")),
    ("generic function with constraint", format!("{p}export function f<T extends P>(x: T): T {{ return x; }}\n")),
    ("optional and rest parameters", format!("{p}interface Q {{ b: string }}\nexport function f(x?: P, ...rest: Q[]): void {{}}\n")),
    ("destructured parameter", format!("{p}export function f({{ a }}: P): void {{}}\n")),
    ("variable with a private type", format!("{p}export const v: P = {{ a: 1 }};\n")),
    ("computed class members", format!("{k}const k2: unique symbol = Symbol(\"k2\");\nexport class A {{ [k](): void {{}} [k2]: number = 1; }}\n")),
    ("computed interface members", format!("{k}const k2: unique symbol = Symbol(\"k2\");\nexport interface A {{ [k](): void; [k2]: number }}\n")),
    ("enum member type and namespace-qualified type", "enum E { X, Y }\nnamespace N { export interface I { v: E.X } }\nexport type A = N.I | E.Y;\n".to_string()),
    ("import type of an own module", format!("export type A = import(\"./other.ts\").O;\n")),
    ("default-exported class with heritage", format!("{p}class Base {{ b: number = 1; }}\nexport default class extends Base implements P {{ a: number = 1; }}\n")),
    ("export assignment of a private function", format!("{p}function inner(x: P): void {{}}\nexport default inner;\n")),
    ("getter and setter pair", format!("{p}interface Q {{ b: string }}\nexport class A {{ get v(): P {{ return {{ a: 1 }}; }} set v(x: P) {{}} static get s(): Q {{ return {{ b: \"\" }}; }} }}\n")),
    ("satisfies and as const initialisers with annotation", format!("{p}export const v: P = {{ a: 1 }} satisfies P;\n")),
  ];
  forms
    .into_iter()
    .map(|(name, text)| {
      (
        name.to_string(),
        FcWorld {
          main: "import * as a from \"jsr:@s/a@1\";\n".into(),
          pkgs: vec![FcPackage {
            name: "@s/a".into(),
            version: "1.0.0".into(),
            exports: [(".".to_string(), "./mod.ts".to_string())].into_iter().collect(),
            files: vec![("/mod.ts".to_string(), text), ("/other.ts".to_string(), "export interface O { o: number }\nexport interface Unused { u: number }\n".to_string())],
          }],
        },
      )
    })
    .collect()
}

/// do the `export * from "./x"` declarations of the world's sources form a cycle?
fn star_cycle_in_sources(w: &FcWorld) -> bool {
  let mut edges: BTreeMap<String, Vec<String>> = BTreeMap::new();
  for p in &w.pkgs {
    for (path, text) in &p.files {
      let from = FcWorld::url(p, path);
      for line in text.lines() {
        let l = line.trim();
        if let Some(rest) = l.strip_prefix("export * from \"") {
          if let Some(spec) = rest.split('"').next() {
            if spec.starts_with("./") || spec.starts_with("../") {
              if let Some(to) = deno_graph::ModuleSpecifier::parse(&from).ok().and_then(|b| b.join(spec).ok()) {
                edges.entry(from.clone()).or_default().push(to.to_string());
              }
            }
          }
        }
      }
    }
  }
  // a node that reaches itself
  for start in edges.keys() {
    let mut seen = BTreeSet::new();
    let mut stack: Vec<&String> = edges.get(start).map(|v| v.iter().collect()).unwrap_or_default();
    while let Some(n) = stack.pop() {
      if n == start {
        return true;
      }
      if seen.insert(n.clone()) {
        if let Some(v) = edges.get(n) {
          stack.extend(v.iter());
        }
      }
    }
  }
  false
}

pub fn run_c09(tier: &str, seed: u64) -> Report {
  let mut report = Report::new("C09");
  report.rule = "generated packages (as C11) and every fast-check spec package: every emitted module parses as TypeScript; every identifier it \
    refers to (type references, heritage clauses, expressions) is declared at its top level, imported, a parameter/type parameter, or a \
    known global; every name it imports or re-exports from another module of the package is exported by that module's emitted counterpart \
    (directly, or through its star re-exports); every relative specifier resolves to a module of the graph that has an emitted module; the \
    recorded dependencies are those the emitted text declares; the source map is version-3 JSON whose every segment lies inside both texts and \
    maps an identifier of the emitted text onto the same identifier of the original; the tracer correspondence of C11 is repeated here \
    because closure is a theorem about that model; non-trivial = distinct (#modules, #cross-module references) classes"
    .into();
  let mut batch = Batch::new();
  let mut all: Vec<(FcWorld, FcRun, serde_json::Value, Option<APkg>)> = vec![];
  for c in cases(tier, seed, 0xC09, 500, 6000) {
    all.push((c.world, c.run, c.replay, Some(c.pkg)));
  }
  // spec corpus
  let mut files = vec![];
  if let Ok(rd) = std::fs::read_dir("/repo/tests/specs/graph/fast_check") {
    for e in rd.flatten() {
      let p = e.path();
      if p.extension().map(|x| x == "txt").unwrap_or(false) {
        files.push(p);
      }
    }
  }
  files.sort();
  for f in &files {
    if let Some(w) = crate::c10::corpus_world(f) {
      let r = run_fast_check(&w, None, false);
      all.push((w, r, json!({"spec_file": f.to_string_lossy()}), None));
    }
  }
  // regression corpus: minimised inputs of repaired findings
  for (name, w) in regression_worlds() {
    let r = run_fast_check(&w, None, false);
    all.push((w, r, json!({"regression": name}), None));
  }
  // shape corpus: one syntax form per package, each naming a private declaration nothing else
  // refers to (the generators cover a fraction of the type syntax; these are the rest, by hand)
  for (name, w) in shape_worlds() {
    let r = run_fast_check(&w, None, false);
    let emitted = r.slots.values().any(|s| matches!(s, FcSlot::Module { .. }));
    report.count(if emitted { "shape-corpus:emitted" } else { "shape-corpus:diagnostic-or-none" });
    all.push((w, r, json!({"shape": name}), None));
  }
  report.exhaustive.push(format!("closure / specifier / source-map checks on the output of all {} fast-check spec packages", files.len()));
  for (w, run, replay, pkg) in &all {
    report.evaluations += 1;
    if let Some(pkg) = pkg {
      batch.descs.push(replay.clone());
      let mut names = Names { list: vec!["default".into()] };
      let req = trace_request(pkg, &mut names);
      if let Ok(t) = retained_tokens(pkg, run, &mut names) {
        if req.contains("(nsimports (") {
          report.count("packages-with-namespace-imports");
        }
        if !req.contains("(qrefs )") || req.matches("(qrefs (").count() > 0 {
          report.count_n("qualified-references-through-namespace-imports", req.matches("(qrefs (").count() as u64);
        }
        batch.push(req, t, true);
      }
    }
    // per emitted module
    let mut exports_of: BTreeMap<String, (BTreeSet<String>, Vec<String>)> = BTreeMap::new();
    let mut parsed_all = vec![];
    for (u, s) in &run.slots {
      if let FcSlot::Module { text, deps, source_map, .. } = s {
        match fcx::parse(u, text) {
          Ok(p) => parsed_all.push((u.clone(), p, text.clone(), deps.clone(), source_map.clone())),
          Err(e) => report.fail("oracle", "emitted-module-does-not-parse", format!("{}: {}", u, e.chars().take(300).collect::<String>()), replay.clone()),
        }
      }
    }
    for (u, p, _, _, _) in &parsed_all {
      let x = fcx::X { src: p };
      let mut names = BTreeSet::new();
      let mut stars = vec![];
      for (e, src) in x.exports() {
        match src {
          Some((from, orig)) if e == "*" && orig == "*" => stars.push(from),
          _ => {
            names.insert(e);
          }
        }
      }
      exports_of.insert(u.clone(), (names, stars));
    }
    let resolve = |base: &str, spec: &str| -> Option<String> { deno_graph::ModuleSpecifier::parse(base).ok()?.join(spec).ok().map(|u| u.to_string()) };
    fn exported_by(exports_of: &BTreeMap<String, (BTreeSet<String>, Vec<String>)>, resolve: &dyn std::ops::Fn(&str, &str) -> Option<String>, url: &str, name: &str, seen: &mut BTreeSet<String>) -> bool {
      if !seen.insert(url.to_string()) {
        return false;
      }
      let Some((names, stars)) = exports_of.get(url) else { return false };
      if names.contains(name) {
        return true;
      }
      if name == "default" {
        return false;
      }
      stars.iter().any(|s| resolve(url, s).map(|t| exported_by(exports_of, resolve, &t, name, seen)).unwrap_or(false))
    }
    let mut cross = 0;
    for (u, p, text, deps, source_map) in &parsed_all {
      let x = fcx::X { src: p };
      // closed under reference
      let mut known: BTreeSet<String> = x.top_level().into_iter().map(|t| t.0).collect();
      for (l, _, _) in x.imports() {
        known.insert(l);
      }
      known.extend(GLOBALS.iter().map(|s| s.to_string()));
      known.extend(bound_names(p));
      for r in x.referenced_idents() {
        if !known.contains(&r) {
          // an identifier the original did not resolve either is not a dangling reference
          let orig = original_text(w, u);
          let unresolved_in_original = orig.map(|o| !declares(&o, u, &r)).unwrap_or(false);
          if !unresolved_in_original {
            // known defect trigger: an ambient class is left as it is, private members included
            let ambient_private = text.contains("declare class") && text.lines().any(|l| l.trim_start().starts_with("private ") && l.contains(&r));
            report.fail(
              "oracle",
              if ambient_private { "ambient-class-private-member-refers-to-dropped-declaration" } else { "dangling-reference-in-emitted-module" },
              format!("{}: `{}` refers to nothing in the emitted module\n{}", u, r, text),
              replay.clone(),
            );
          }
        }
      }
      // a qualified reference `L.K` into a namespace of the package (declared here, or imported by name
      // or as the default export of another module): the emitted namespace still has the member `K`
      {
        let parse_orig = |url: &str| original_text(w, url).and_then(|o| fcx::parse(url, &o).ok());
        for (l, k) in x.qualified_refs() {
          // where the namespace lives: (module url, namespace name in the original)
          let home: Option<(String, String)> = if x.top_level().iter().any(|t| t.0 == l && t.1 == "namespace") {
            Some((u.clone(), l.clone()))
          } else {
            x.imports().into_iter().find(|(local, from, _)| *local == l && (from.starts_with("./") || from.starts_with("../"))).and_then(|(_, from, name)| {
              let t = resolve(u, &from)?;
              let po = parse_orig(&t)?;
              let xo = fcx::X { src: &po };
              let ns = if name == "default" { xo.default_export_ident()? } else { name.clone() };
              Some((t, ns))
            })
          };
          let Some((t, ns)) = home else { continue };
          let Some(po) = parse_orig(&t) else { continue };
          let had = fcx::X { src: &po }.namespaces().get(&ns).map(|m| m.contains(&k)).unwrap_or(false);
          if !had {
            continue;
          }
          let has = parsed_all.iter().find(|e| e.0 == t).map(|e| fcx::X { src: &e.1 }.namespaces().get(&ns).map(|m| m.contains(&k)).unwrap_or(false)).unwrap_or(false);
          if !has {
            report.fail(
              "oracle",
              "qualified-member-dropped-from-emitted-namespace",
              format!("{}: `{}.{}` refers to member `{}` of namespace `{}` of {}; the emitted module no longer declares it", u, l, k, k, ns, t),
              replay.clone(),
            );
          }
        }
      }
      // imports / re-exports resolve and are exported by the counterpart
      let in_package = |t: &str| run.slots.contains_key(t);
      let mut check = |spec: &str, name: &str, what: &str, report: &mut Report| {
        if !(spec.starts_with("./") || spec.starts_with("../")) {
          return;
        }
        let Some(t) = resolve(u, spec) else {
          report.fail("oracle", "relative-specifier-does-not-resolve", format!("{}: {}", u, spec), replay.clone());
          return;
        };
        if run.graph.get(&deno_graph::ModuleSpecifier::parse(&t).unwrap()).is_none() {
          report.fail("oracle", "relative-specifier-not-a-module-of-the-graph", format!("{}: {} -> {}", u, spec, t), replay.clone());
          return;
        }
        if !in_package(&t) || name.is_empty() || name == "*" {
          return;
        }
        cross += 1;
        if !matches!(run.slots.get(&t), Some(FcSlot::Module { .. })) {
          report.fail("oracle", "import-from-module-without-emitted-counterpart", format!("{}: {} {} from {}", u, what, name, t), replay.clone());
          return;
        }
        if !exported_by(&exports_of, &resolve, &t, name, &mut BTreeSet::new()) {
          // (the shape of the repaired finding F34: the `export *` declarations of the sources form a cycle)
          let shape = if star_cycle_in_sources(w) { "name-imported-through-export-star-cycle-not-exported" } else { "imported-name-not-exported-by-emitted-counterpart" };
          report.fail("oracle", shape, format!("{}: {} `{}` from {} which emits exports {:?}", u, what, name, t, exports_of.get(&t)), replay.clone());
        }
      };
      for (_, from, name) in x.imports() {
        check(&from, &name, "imports", &mut report);
      }
      for (_, src) in x.exports() {
        if let Some((from, orig)) = src {
          if !from.is_empty() {
            check(&from, &orig, "re-exports", &mut report);
          }
        }
      }
      // dependencies recorded = dependencies declared by the emitted text
      let declared: BTreeSet<String> = x
        .imports()
        .into_iter()
        .map(|i| i.1)
        .chain(x.exports().into_iter().filter_map(|e| e.1.map(|s| s.0)).filter(|s| !s.is_empty()))
        .chain(x.import_type_specifiers())
        .collect();
      let recorded: BTreeSet<String> = deps.iter().map(|d| d.split("=>").next().unwrap().to_string()).collect();
      if declared != recorded {
        report.fail("oracle", "recorded-dependencies-differ-from-emitted-text", format!("{}: recorded {:?}, the text declares {:?}", u, recorded, declared), replay.clone());
      }
      if let Some(orig) = original_text(w, u) {
        source_map_oracle(u, &orig, text, source_map, &mut report, replay);
      }
    }
    report.nontrivial.insert(format!("m{}/x{}", parsed_all.len().min(6), cross.min(8)));
  }
  {
    let mut rr = Rng::new(seed ^ 0xC09_5EB);
    crate::reqs::reqs_part(&mut report, &mut batch, &mut rr, if tier == "thorough" { 20000 } else { 2000 });
  }
  batch.finish(&mut report, "C09");
  report
}

fn original_text(w: &FcWorld, url: &str) -> Option<String> {
  for p in &w.pkgs {
    for (path, text) in &p.files {
      if FcWorld::url(p, path) == url {
        return Some(text.clone());
      }
    }
  }
  None
}

/// does the original module declare or import `name` anywhere (so that a reference to it resolved)?
fn declares(original: &str, url: &str, name: &str) -> bool {
  let Ok(p) = fcx::parse(url, original) else { return true };
  let x = fcx::X { src: &p };
  x.top_level().iter().any(|t| t.0 == name) || x.imports().iter().any(|i| i.0 == name) || bound_names(&p).contains(name)
}

/// names bound inside declarations: parameters, type parameters, members, enum members, nested declarations
fn bound_names(p: &deno_ast::ParsedSource) -> BTreeSet<String> {
  use deno_ast::swc::ast::*;
  use deno_ast::swc::ecma_visit::Visit;
  use deno_ast::swc::ecma_visit::VisitWith;
  struct V {
    out: BTreeSet<String>,
  }
  impl Visit for V {
    fn visit_binding_ident(&mut self, b: &BindingIdent) {
      self.out.insert(b.id.sym.to_string());
      b.visit_children_with(self);
    }
    fn visit_ts_type_param(&mut self, t: &TsTypeParam) {
      self.out.insert(t.name.sym.to_string());
      t.visit_children_with(self);
    }
    fn visit_ts_fn_param(&mut self, t: &TsFnParam) {
      if let TsFnParam::Ident(b) = t {
        self.out.insert(b.id.sym.to_string());
      }
      t.visit_children_with(self);
    }
    fn visit_ts_module_decl(&mut self, m: &TsModuleDecl) {
      // everything declared inside a namespace is reachable by name from inside it
      struct Inner<'a>(&'a mut BTreeSet<String>);
      impl Visit for Inner<'_> {
        fn visit_decl(&mut self, d: &Decl) {
          match d {
            Decl::Fn(f) => {
              self.0.insert(f.ident.sym.to_string());
            }
            Decl::Class(c) => {
              self.0.insert(c.ident.sym.to_string());
            }
            Decl::TsInterface(i) => {
              self.0.insert(i.id.sym.to_string());
            }
            Decl::TsTypeAlias(t) => {
              self.0.insert(t.id.sym.to_string());
            }
            Decl::TsEnum(e) => {
              self.0.insert(e.id.sym.to_string());
            }
            Decl::TsModule(m) => {
              if let TsModuleName::Ident(i) = &m.id {
                self.0.insert(i.sym.to_string());
              }
            }
            _ => {}
          }
          d.visit_children_with(self);
        }
        fn visit_ts_import_equals_decl(&mut self, d: &TsImportEqualsDecl) {
          self.0.insert(d.id.sym.to_string());
        }
      }
      m.visit_children_with(&mut Inner(&mut self.out));
      m.visit_children_with(self);
    }
    fn visit_ts_import_equals_decl(&mut self, d: &TsImportEqualsDecl) {
      self.out.insert(d.id.sym.to_string());
    }
    fn visit_ts_mapped_type(&mut self, t: &TsMappedType) {
      self.out.insert(t.type_param.name.sym.to_string());
      t.visit_children_with(self);
    }
    fn visit_ts_infer_type(&mut self, t: &TsInferType) {
      self.out.insert(t.type_param.name.sym.to_string());
    }
  }
  let mut v = V { out: BTreeSet::new() };
  p.program_ref().visit_with(&mut v);
  v.out
}
